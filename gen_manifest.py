#!/usr/bin/env python3
"""Regenerates MANIFEST.json from the table below (kept next to the checker so
that the claimed set, the texts and the not_applicable list stay in step)."""
import json, os
HERE = os.path.dirname(os.path.abspath(__file__))
props = [json.loads(l) for l in open(os.path.join(HERE, 'properties.jsonl'))]

ENGINE = "hlint"
COMMON_NOTE = ("Trusted base: go/types, golang.org/x/tools v0.29.0 (go/packages, go/ssa, callgraph cha+vta), the checker's own abstract domains "
               "(hlint/iset.go interval sets, hlint/flow.go intraprocedural interpreter, hlint/px*.go path-sensitive interprocedural explorer, hlint/bitprov.go bit-provenance vectors) and, where used, the frozen Hessian 2.0 table in hlint/spec.go. Nothing of /repo is executed. "
               "Obligations are enumerated from /repo's current source on every run; an unresolved anchor, a type-check error, an analyser panic "
               "or an instance count below the confirmed floor fails the check. ")

claimed = {
 "C15": dict(
   technique="static error-flow analysis over go/ssa + VTA call graph (every call into the write closure consumes its error; short-count comparison at the single destination Write)",
   text="Decides the property (sufficient, not only necessary): by induction over the call graph every error or short count returned by the destination io.Writer reaches the caller of WriteTo/WriteObject/Encode/ToBytes, for every value and every index k of the failing Write, because every one of the ~70 call sites in the write closure provably consumes the error component. A write issued in a defer / go statement is an undischarged obligation (its results are discarded by the language). A return on the side of a test where the error is known to be nil forwards nothing, and the short-count test must not be bypassed when the writer reported an error. No fault is injected and no code is run.",
   design_ref="DESIGN.md §3 C15, §2.3, Appendix A.4",
   note="Assumes a path on which no Write fails needs no error, and that the writer reports failure through its results (not by panicking)."),
 "C13": dict(
   technique="static error-flow analysis + interval refinement of the reflect.Kind dispatch + panic-site census over go/ssa",
   text="Decides structural necessary conditions of fail-stop encoding, not the behaviour: (R1) every call that can relay a codec error consumes it, (R2) every return of the kind dispatch reachable for an unsupported kind yields a provably non-nil error, (R3) the encode path contains no unguarded panic site (single-value assertion, Interface() on a struct field, explicit panic), (R4) the list header count and the element loop bound are the same term, (R5) every value writer writes or fails on every path — a write issued in a defer or go statement counts as dropped —, (R6) the ref table answers only the same container (address and type) with a back-reference. A tree violating any of these has a concrete value on which encoding succeeds with wrong bytes or panics.",
   design_ref="DESIGN.md §3 C13",
   note="Does not decide that bytes emitted for supported values are right (C01/C02), nor panics inside package reflect for exotic map keys."),
 "C07": dict(
   technique="abstract interpretation of the int/long codecs over interval sets (go/ssa, path-sensitive) against a frozen Hessian 2.0 form table; bit-provenance abstract domain composing each decoder branch with the encoder's octet terms; conversion lossiness on every integer of the input value",
   text="Decides structural necessary conditions, not the behaviour: the input sets of the encoder's forms are computed symbolically for all 2^32 / 2^64 inputs and must equal the specification's shortest-form ranges; first-octet arithmetic, big-endian octet windows, decoder tag sets and payload counts must agree with the table and with each other; every integer conversion in the kind dispatch must be value-preserving on the values reaching it (a same-width signed reinterpretation only for the widest wire integer, and only if the field decoder inverts it); a range test in front of a narrowing conversion refuses only values that do not fit (MinInt32/MaxInt32 themselves pass); and (R6) per form and per tag the decoder's result, with the stream octets replaced by the encoder's octet terms, equals the encoder's input bit for bit on all inputs of the form (decided in a bit-provenance domain without a solver: sign/zero extension, octet order, tag zero points). Together R1-R3+R6 decide the int/long codec pair exactly; what reaches the codecs from reflect (R4) is decided as a necessary condition.",
   design_ref="DESIGN.md §3 C07, §2.2, §3.0",
   note="The frozen table (hlint/spec.go) is trusted; reflect.Value.Int()/Uint() are assumed to return values within the range of the receiver's Kind."),
 "C08": dict(
   technique="abstract interpretation of encodeDouble/decodeDoubleValue over interval sets on int64(v) under the integrality guard, against the frozen form table; bit-provenance composition of decoder and encoder per form",
   text="Decides structural necessary conditions, not the behaviour: encodeDouble has no feasible error return (totality); under float64(int64(v))==v the compact forms are selected exactly on {0},{1},[-128,127],[-32768,32767]; octets are windows of int64(v)/Float32bits/Float64bits; decoder tag sets and payloads agree with the table and the encoder; per form the decoder rebuilds int64(v) resp. the FloatNNbits pattern the encoder sent bit for bit (R5) and the float field reader rejects nothing but a failed read (R4). Floating-point exactness of the float32 test and NaN handling are NOT decided.",
   design_ref="DESIGN.md §3 C08",
   note="IEEE conversion semantics are not modelled; the integrality and float32 guards are recognised by their term shape."),
 "C17": dict(
   technique="static typestate/effect analysis of the pool over go/ssa: select shapes, channel creation and assignment, value flow of the pooled object, call-graph reachability of blocking constructs",
   text="Decides the property under Go's channel semantics: every channel operation reachable from Get/Return is a case of a select with default, no other blocking construct is reachable (also through the factories), the channel is created once in the constructor with capacity = size and never reassigned, Get returns only the received element or the factory's fresh result, Return's parameter has exactly one use (the send), and a factory's result is deeply fresh (nothing that can carry a reference is copied into it from captured or package memory, the caller's shared read-only maps excepted; a package-level map or pointer is never fresh). No interleaving is enumerated and nothing is run; the conclusion for all schedules follows from the semantics of buffered channels and non-blocking select.",
   design_ref="DESIGN.md §3 C17, Appendix A.10",
   note="Not covered: a caller returning the same object twice (caller misuse). Trusts Go's channel semantics."),
 "C12": dict(
   technique="static ownership/effect analysis over go/ssa + VTA call graph: writers of every package-level variable vs. functions reachable from the API; lookup-miss guard on shared maps; census of concurrency constructs",
   text="Decides a sufficient condition instead of exploring schedules: no function reachable from any exported entry point writes a package-level variable or memory reachable from one (writers are init-only or the documented SetLogger), caller-supplied name/type maps — fields, parameters and captured variables, on the codec path and in constructors and pool factories — are written only under a failed lookup of the same key computed from the processed value's type (a complete map is never written; a constant or table key would be written by every first instance), a value aliasing package memory stored into an instance field taints that field, results handed to the caller do not alias instance memory (R5), and the package contains no goroutine/sync/atomic construct outside the pool's selects. With the listed assumptions each call then depends only on its own instance and immutable shared memory.",
   design_ref="DESIGN.md §3 C12, Appendix A.9",
   note="Assumes reflect/bytes/bufio/time/strings/fmt are safe on distinct values, the configured logger is goroutine-safe, callers do not mutate inputs concurrently, and shared maps are complete."),
 "C11": dict(
   technique="static effect analysis over go/ssa: mutated-field enumeration vs Reset coverage, reset-before-work dominance on the call graph, lookup-miss guard, reflect-setter receivers, output provenance",
   text="Decides the frame conditions the behavioural property rests on (necessary conditions, not probe equality over histories): every Encoder/Decoder field mutated on the codec path — assigned, appended, updated, or (for by-value composites such as a bytes.Buffer) handed out by address — is re-initialised by Reset or emptied before every use, every one-shot entry point resets before any work, caller maps are written only on a lookup miss, the encoder calls reflect setters only on values it allocated, input byte slices reach only bytes.NewReader, and Encode returns a buffer allocated in the call.",
   design_ref="DESIGN.md §3 C11",
   note="Does not decide byte-for-byte equality of a probe call against a fresh instance for all histories."),
 "C03": dict(
   technique="exact tag-set abstract interpretation of the dispatchers and scalar decoders over go/ssa against the frozen 256-entry Hessian 2.0 bytecode table; path rules on chunk loops and list loops",
   text="Decides structural necessary conditions, not the behaviour: all 256 first octets resolve (first match, arm order honoured) to the reader of the production the specification assigns; every scalar decoder accepts every tag of every spec form and pulls exactly its payload; no fresh-tag read can follow a consumed octet that may have been that value's first octet; typed map/list headers read the type through the type reader; chunk buffers are sized from each chunk header; variable-length lists leave on the terminator. (R5) only the non-final chunk form is followed by another chunk: at every read of a next-chunk tag the tag of the chunk just consumed cannot be a final form; (R7) a table-index guard refuses only invalid indices: on every error path that constrained the index without passing the access the index is negative or known to be >= the table length (index 0, the first type/class/object, is accepted). Equality of decodings across encodings is NOT decided.",
   design_ref="DESIGN.md §3 C03, §3.0, Appendix A.1/A.3/A.7",
   note="The frozen table (hlint/spec.go) is transcribed from the specification and trusted. Known finding: the compact date x4b is read as seconds where the grammar says minutes (see known_findings.json)."),
 "C06": dict(
   technique="static taint fixpoint over go/ssa (concrete types flowing into interface{} results), codec-pair octet agreement, loop-exit classification, error-flow at tag positions, reachability from the streaming entry points",
   text="Decides structural necessary conditions, not equality of the n values: no internal carrier (reflect.Value, *_refHolder) can flow into the result of a documented decode entry point or into a returned container; per form the encoder's octets equal the octets the decoder pulls; container loops leave only through counter/flag/error/terminator; failed tag reads are errors; the streaming entry points never reset per-stream tables and no buffered reader wraps a caller-supplied stream; every value read for a container is stored before the next one is read; each chunk is read with a buffer of its own length; every container and back-reference is framed as exactly one production. (R4, generalised) every call on the stream-read closure consumes its error — returned, or tested with every path from the failing side ending in a non-nil error, the io.EOF terminator idiom excepted — so a truncated or failed read is never a shorter value; a value ends with its final chunk (nothing further is read after a final or compact form).",
   design_ref="DESIGN.md §3 C06, Appendix A.6/A.8",
   note="ReadData/ReadList/ReadLenTagObject are exported internals (listed exception with reason)."),
 "C10": dict(
   technique="interval abstract interpretation of encodeDate/decodeDateValue over go/ssa: exactness guard, octet windows, unit agreement, overflow on the declared domain; bit-provenance composition of decoder and encoder per form",
   text="Decides structural necessary conditions, not the behaviour: the compact date form is reached only with a sub-second part proven {0} and a seconds value proven to fit 32 bits; the 8-octet form carries UnixMilli; encoder getter and decoder constructor agree on the unit per form; per form the decoder hands time.Unix/UnixMilli exactly the count the encoder took from the same getter, bit for bit (R6: a zero extension of the signed 32-bit seconds is reported); no arithmetic on the wire value can overflow on [year 1, year 9999]; UnixNano is not used; zero time ↔ null; time.Time is recognised before class-definition emission and by the struct-field dispatcher. Calendar arithmetic of package time is trusted.",
   design_ref="DESIGN.md §3 C10",
   note="Trusts time.UnixMilli/Unix/Nanosecond contracts."),
 "C04": dict(
   technique="path and dominance rules over go/ssa: first emission after the encoder's ref registration vs the set of productions whose decoder reader registers (computed by a fixpoint over the decoder), registrar insertion paths, registration-before-recursion dominance",
   text="Decides the numbering discipline reference identity depends on (necessary conditions, not identity in decoded graphs): after every encoder-side registration the first emission is a production the decoder also numbers; a registrar miss always inserts with ordinal len(table); every container reader registers once, outside loops, before any call that can recurse into the value dispatch; encoder registration dominates the recursive element writes; slices grown by reflect.Append are re-announced to their holder; (R6, path exploration of the registrar with reflect getters as pure terms) the ref key carries the container's reflect.Type and, for slices and maps, the container's own data pointer whatever the access path; (R5c) a holder's value is never set after its destinations were notified; (R7) the numbering tables are append-only outside Reset.",
   design_ref="DESIGN.md §3 C04, Appendix A.5",
   note="Registrars are discovered structurally (the function updating the Encoder's non-string-keyed map field / appending to the Decoder's []reflect.Value field)."),
 "C05": dict(
   technique="path enumeration over the field loop of readObject, value-flow of the destination field index, dispatch maps for x60-x6f/'O' in three dispatchers, interval check of the compact instance header, two-sided index-guard rule (go/ssa)",
   text="Decides structural necessary conditions, not field values over permutations: every iteration path of the definition-driven field loop consumes exactly one wire value; the destination index is findField(wire name of this iteration) and the helper compares name and capitalised name; x60..x6f and 'O' reach the object readers in ReadData, readStruct and readObjectDef; the compact instance header is emitted only with the untruncated index proven in [0,15]; both object readers guard the class index on both sides; the instance is reflect.New(mapped type); (R5) reading or skipping a field never truncates, replaces or deletes from the decoder's numbering tables. (R6) the loops that name, write, look up and read the fields of a class visit every field exactly once.",
   design_ref="DESIGN.md §3 C05",
   note="A value-consuming call is a call to a package function from which readTag/getTag is reachable."),
 "C01": dict(
   technique="static table extraction over go/ssa: reflect.Kind→codec tables of encoder and field decoder from refined Kind() facts, first-octet tag sets of every emission vs first-match dispatch maps, interval check of compact headers, converted-sink rule",
   text="The behaviour (round trip over all values) is NOT decided. Decides necessary conditions, each with a concrete failing value when violated: per scalar kind the encoder's and the field decoder's wire codec agree and the typed reflect setter matches the kinds reaching it; every first octet the encoder can emit resolves to the reader of its production in the value dispatcher and is accepted by the struct/list/map field dispatchers; compact list/instance headers carry the untruncated count proven in range; raw reflect sinks in container readers only store converted or interface-typed values; type slots of typed list/map headers carry a literal, or every literal is numbered the way the decoder numbers it; (R5) no reflect.Value can flow into a reflect.ValueOf argument (a carrier is never wrapped twice); (R6) the zero reflect.Value persisted in a field meets an IsValid() test before any accessor. (R7) every error-returning call inside the package that is neither a destination write nor on the stream-read closure consumes its error (a failed conversion or binding surfaces, a successful one continues; a field-lookup miss is the unknown-field case and its index is used on the success side only); (R8) every counted loop over a collection indexed by its induction variable starts at 0, advances by 1 and stops at the size; (R9) a conversion loop writes its destination slot on every path of an iteration and from a value computed in that iteration; (R10) a setter (dest, value reflect.Value) writes or hands on its destination on every path on which the value is valid. All obligations of C04, C05, C07, C08, C09, C10 and C16 are evaluated as shared clauses.",
   design_ref="DESIGN.md §3 C01, §10",
   note="Equality of field contents, element order and map entries is not decided; clauses shared with C04/C07/C08/C09 are reported there."),
 "C02": dict(
   technique="abstract interpretation of every encoder form and container header over go/ssa against the frozen Hessian 2.0 table; path rules for definition-before-instance, per-iteration value counts and map framing; value-flow of names and ordinals",
   text="Whole-stream well-formedness under an independent parser is NOT decided (that needs emitted bytes). Decides per-form and per-header conformance with the frozen table (tags, octet counts, value ranges, windows, chunk arithmetic), count = loop bound, one value per iteration, class definition before instance with index = table position, lower-cased field names in declaration order, class name from the name map, Z on every successful map path, ref ordinal provenance, type slots (literal or numbered like the decoder numbers them; one name across the forms of a writer), and (R8) every successful path of a container writer spells exactly one production of the grammar (token string of its emissions matched as a whole); (R9) the encoder's counted loops over fields, elements and keys visit every member exactly once.",
   design_ref="DESIGN.md §3 C02, §3.0",
   note="Known finding (recorded, not repaired): the compact date x4b carries seconds where the grammar says minutes. List type-name rewriting is not decided."),
 "C09": dict(
   technique="path-sensitive abstract interpretation of the string/binary encoders as productions over views of the input (header octets, payload segments with affine bounds, 0/1/2 chunk iterations) and of the length readers; unit-of-length and payload-reader rules by role; chunk-buffer, loop-exit and output-provenance path rules",
   text="Content equality for all contents is NOT decided. Decides: lengths count runes of the []rune conversion (resp. octets), chunk cuts index that slice, payload is read one rune/octet per counted unit; every form's tag set, length range and header windows conform; offset and remaining length step by the chunk size under the guard remaining > chunk; readers compute in-range lengths and size buffers per chunk; because the encoder emits N for the empty string no container loop may end on a nil element/key; a null element is stored, never dropped (no cycle from an element read back to itself without a store); only the non-final chunk form (x41 / x52) is followed by another chunk of the same value; the decoded []byte is allocated in the call (R4).",
   design_ref="DESIGN.md §3 C09",
   note="Go's []rune/string conversions are trusted to be inverse on valid UTF-8."),
 "C14": dict(
   technique="two-sided index-guard rule (intervals + dominating comparison facts), interval bound of every non-constant allocation with call-site context and return-range summaries, stream-loop progress rule, recover-boundary reachability over the VTA call graph; panic-site census",
   text="General panic freedom and resource bounds of the reflective decoder are NOT decided. Decides: every per-stream table access has an index proven ≥0 and dominated by a length comparison; every non-constant allocation on the decode path is proven ≤ 2^20 elements or sized by a container already in memory; every stream-reading loop passes, on each iteration path, a read whose error ends it; loop exits and tag-read errors follow C06.R3/R4; every documented decode entry point is covered by a deferred recover that sets its error result and does not re-panic; (R5) nothing reachable from a decode entry point blocks (wait, sleep, blocking channel operation) and every lock taken there is released by a deferred unlock, so a recovered panic cannot leave an instance locked; (R6) no operand that can hold decoded (possibly cyclic) data reaches a formatter or logger with a verb that walks it — fmt recurses without a visited set and a list containing itself exhausts the stack, which no recover can catch. (R7) every loop on the decode path has an exit test that depends on something the loop changes (a loop-carried variable, an effectful call, memory the loop writes, a range iterator): no loop is left to spin.",
   design_ref="DESIGN.md §3 C14",
   note="Stack depth on deeply nested input and fatal runtime errors other than allocation by declared size are not covered."),
 "C16": dict(
   technique="dominance and value-flow rules over go/ssa on the extraction functions: visited cut-off on recursive calls, nil-pointer descent (sibling rule), paired map updates by term equality",
   text="Decides structural necessary conditions, not closure of the maps for all types: each recursive call of the type walk on a struct field's type is dominated by a failed membership test and the insertion; the value walk recurses only under the extractor's verdict and each extractor inserts the key it found absent; empty slices/maps and nil pointers are descended through reflect.New of the element type; every name-map update has a type-map update with the same key term; loops of the value walk visit every element; (R5, a frame condition stricter than the property) no function the extraction reaches touches package-level state written after initialisation, so the maps are a function of the argument; (R2, path forms) every path of the value walk that establishes a container kind makes a recursive call (over the elements or over reflect.New of the element type), a path of the type walk that returns without recursion has excluded slice/array/map for the innermost type examined, and the visited mark is never deleted. (R3 converse) every type recorded under a wire name beside a name map has a name-map entry with that wire name as its value on every path; (R6) the walks' counted loops visit every field and element; (R7) their loops make progress; (R8) every parameter of an exported mutator or constructor of the codec types is used (a registered map is the map the codec uses).",
   design_ref="DESIGN.md §3 C16",
   note="Interface-typed fields and Java-side naming expectations are not decided."),
}

checks = []
for p in props:
    pid = p["id"]
    if pid not in claimed:
        continue
    c = claimed[pid]
    checks.append({
        "property_id": pid,
        "quick_cmd": "./check.sh %s quick" % pid,
        "thorough_cmd": "./check.sh %s thorough" % pid,
        "evidence_file": "/verif/evidence/%s.json" % pid,
        "replay_cmd_template": "bin/hlint -replay {path}",
        "engine": ENGINE,
        "level_claimed": {"category": "other", "text": c["text"], "design_ref": c["design_ref"]},
        "level_note": COMMON_NOTE + c["note"],
        "technique": c["technique"],
    })
na = [{"property_id": p["id"], "reason": "no structural clause could be decided soundly (see DESIGN.md)"} for p in props if p["id"] not in claimed]
m = {
 "version": 1,
 "setup_cmd": "./setup.sh",
 "hooks": {"guard": "verif",
           "enable": "no hooks are needed: the checker reads /repo's source and never builds or runs it; the build tag 'verif' is reserved and is part of the thorough configuration matrix so that a file hidden behind it is still analysed",
           "baseline_off_cmd": "cd /repo && GOFLAGS=-mod=mod GOPROXY=off go test -vet=off -count=1 ./...",
           "source_commits": [], "add_only": True},
 "engines": [{"name": "hlint", "path": "/verif/hlint", "serves_properties": sorted(claimed),
              "kind_free_text": "repository-specific static analyser (Go, x/tools v0.29.0): SSA abstract interpretation over finite unions of integer intervals (tag sets, value ranges), error-flow, path, ownership/effect and call-graph rules; quick = linux/amd64 VTA graph, thorough = 7 configurations (amd64/386/arm64/windows, tag verif, CHA and VTA graphs)"}],
 "checks": checks,
 "not_applicable": na,
 "notes": "Static analysis only. Every verdict is recomputed from /repo's working tree; known_findings.json lists genuine defects recorded (status known) or repaired by a fix: commit (status fixed, suppresses nothing).",
}
json.dump(m, open(os.path.join(HERE, 'MANIFEST.json'), 'w'), indent=1)
print("claimed:", sorted(claimed), "not_applicable:", [x["property_id"] for x in na])
