#!/bin/sh
# usage: mut.sh <property|all> <sed-expr> <file> [more sed/file pairs...]   (developer tool)
# copies /repo to a scratch dir, applies sed edits, runs hlint there, removes the copy
P="$1"; shift
D=$(mktemp -d /tmp/mrepo.XXXXXX)
rsync -a --exclude .git /repo/ "$D"/
while [ $# -ge 2 ]; do sed -i "$1" "$D/$2"; shift 2; done
(cd "$D" && GOFLAGS=-mod=mod GOPROXY=off go build ./... 2>&1 | head -5)
VD=$(mktemp -d /tmp/mverif.XXXXXX); mkdir -p "$VD/evidence"; cp /verif/known_findings.json "$VD"/ 2>/dev/null
/verif/bin/hlint -property "$P" -repo "$D" -verif "$VD" | grep -E '^(VIOLATED|UNDECIDED|result|KNOWN)' | cut -c1-400
rm -rf "$D" "$VD"
