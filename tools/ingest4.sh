#!/bin/sh
# developer tool: ingest the round-4 seeds of one property: /tmp/seed4_<ID>/{a,b,c} -> seeded/<ID>{i,j,k}
R=$(cd "$(dirname "$0")/.." && pwd); id=$1
for x in a b c; do
  case $x in a) n=i;; b) n=j;; c) n=k;; esac
  [ -f /tmp/seed4_$id/$x/patch.diff ] || { echo "$id$x: no patch"; continue; }
  echo "=== $id$n (from $x)"; python3 $R/tools/ingest_seed.py /tmp/seed4_$id/$x ${id}$n $id 2>&1 | tail -4
done
