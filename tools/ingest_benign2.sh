#!/bin/sh
# developer tool: stage round-2 benign patches of one area (/tmp/ben2_<area>/{a,b,c} -> benign/<area>_{e,f,g}) and check them
R=$(cd "$(dirname "$0")/.." && pwd); a=$1; st=/tmp/bstage_$a; rm -rf $st; mkdir -p $st
for x in a b c; do case $x in a) n=e;; b) n=f;; c) n=g;; esac
  [ -f /tmp/ben2_$a/$x/patch.diff ] || continue
  mkdir -p $st/${a}_$n; cp /tmp/ben2_$a/$x/patch.diff $st/${a}_$n/; [ -f /tmp/ben2_$a/$x/README.md ] && cp /tmp/ben2_$a/$x/README.md $st/${a}_$n/
done
python3 $R/tools/benigncheck.py --keep $st/*; rm -rf $st
