#!/usr/bin/env python3
"""Developer tool: mutation sweep over /repo's non-test sources.
Generates single-token mutants, keeps those that still build and keep the 33
tests green (the kind the test-suite cannot see), and runs hlint on each.
Output: one line per surviving mutant: DETECTED <props> | UNDETECTED, with the diff line.
usage: mutsweep.py [file.go ...] [--max N]"""
import re, os, sys, subprocess, tempfile, shutil, random, json
from multiprocessing import Pool
ROOT=os.path.dirname(os.path.dirname(os.path.abspath(__file__)))
# the analyser is snapshotted once per run: a rebuild during a long sweep must not mix versions
import atexit as _ae, shutil as _sh, tempfile as _tf
HLINT=os.environ.get('HLINT_SNAPSHOT')
if not HLINT:
    _d=_tf.mkdtemp(prefix='/tmp/hlintbin.'); HLINT=_d+'/hlint'; _sh.copy2(ROOT+'/bin/hlint',HLINT); os.environ['HLINT_SNAPSHOT']=HLINT
    _pid=os.getpid(); _ae.register(lambda: os.getpid()==_pid and _sh.rmtree(_d,ignore_errors=True))

ENV=dict(os.environ,GOFLAGS='-mod=mod',GOPROXY='off',GOSUMDB='off',GOTOOLCHAIN='local')
OPS=[(r' <= ',' < '),(r' < ',' <= '),(r' >= ',' > '),(r' > ',' >= '),(r' == ',' != '),(r' != ',' == '),
     (r' && ',' || '),(r' \|\| ',' && '),(r' \+ 1\b',' + 2'),(r' - 1\b',' - 2'),(r'\b0x([0-9a-fA-F]{2})\b',None),
     (r' \+ ',' - '),(r' - ',' + '),(r'\bi\+\+','i += 2'),(r'>> 8\b','>> 16'),(r'<< 8\b','<< 16'),(r'\btrue\b','false'),(r'\bfalse\b','true')]
def mutants(path):
    lines=open(path).read().split('\n')
    out=[]
    incomment=False
    for i,l in enumerate(lines):
        s=l.strip()
        if s.startswith('//') or s.startswith('import') or s.startswith('package') or 'hlog.' in l or s.startswith('*') or s.startswith('/*'): continue
        code=l.split('//')[0]
        for pat,rep in OPS:
            for m in re.finditer(pat,code):
                if rep is None:
                    v=int(m.group(1),16)
                    for d in (1,-1):
                        nv=(v+d)%256
                        new=code[:m.start()]+'0x%02x'%nv+code[m.end():]
                        out.append((i,l,new))
                else:
                    new=code[:m.start()]+rep+code[m.end():]
                    out.append((i,l,new))
        # an error suppressed at a return; a condition negated; a length shortened
        m=re.match(r'^(\s*return .*), err$',code)
        if m: out.append((i,l,m.group(1)+', nil'))
        m=re.match(r'^(\s*(?:} else )?if )([^;{]+)( \{)$',code)
        if m and ':=' not in m.group(2): out.append((i,l,m.group(1)+'!('+m.group(2)+')'+m.group(3)))
        for m in re.finditer(r'\blen\((\w+)\)',code):
            out.append((i,l,code[:m.end()]+'-1'+code[m.end():]))
        for m in re.finditer(r'(?<![\w.])(\d+)(?![\w.x])',code):
            v=int(m.group(1))
            if v<=64 and not code.strip().startswith('_'):
                out.append((i,l,code[:m.start()]+str(v+1)+code[m.end():]))
        # statement deletion for simple calls / assignments (not declarations, not control)
        if re.match(r'^\s+[\w\.\[\]]+(\(.*\)|\s*=\s*.+|\s*\+\+)$',code) and ':=' not in code and 'return' not in code:
            out.append((i,l,re.match(r'^\s*',code).group(0)+'_ = 0'))
    return [(path,i,o,n) for i,o,n in out]
def run(m):
    path,i,old,new=m
    d=tempfile.mkdtemp(prefix='/tmp/mutsw.')
    try:
        subprocess.run(['rsync','-a','--exclude','.git','/repo/',d+'/'],check=True)
        f=os.path.join(d,os.path.basename(path))
        L=open(f).read().split('\n'); L[i]=new; open(f,'w').write('\n'.join(L))
        b=subprocess.run('go build ./... && go vet . >/dev/null 2>&1; go test -vet=off -count=1 . 2>&1 | tail -1',shell=True,cwd=d,env=ENV,capture_output=True,text=True,timeout=300)
        if b.returncode!=0 or not b.stdout.startswith('ok'): return None
        vd=tempfile.mkdtemp(prefix='/tmp/mutswv.'); os.mkdir(vd+'/evidence'); shutil.copy(ROOT+'/known_findings.json',vd)
        try:
            o=subprocess.run([HLINT,'-property','all','-repo',d,'-verif',vd],capture_output=True,text=True,timeout=600).stdout
        finally: shutil.rmtree(vd)
        hits=set(); cur=None
        for l in o.splitlines():
            if l.startswith('property C'): cur=l.split()[1]
            elif l.startswith(('VIOLATED','UNDECIDED')): hits.add(cur)
        return (os.path.basename(path),i+1,old.strip(),new.strip(),sorted(hits))
    except Exception as e:
        return None
    finally:
        shutil.rmtree(d,ignore_errors=True)
if __name__=='__main__':
    args=[a for a in sys.argv[1:] if not a.startswith('--')]
    mx=None
    for a in sys.argv[1:]:
        if a.startswith('--max='): mx=int(a.split('=')[1])
    files=args or sorted(f for f in __import__('glob').glob('/repo/*.go') if not f.endswith('_test.go'))
    ms=[]
    for f in files: ms+=mutants(f if f.startswith('/') else '/repo/'+f)
    random.seed(int(os.environ.get('MUTSEED','1'))); random.shuffle(ms)
    if mx: ms=ms[:mx]
    print('mutants generated:',len(ms),file=sys.stderr)
    surv=det=0
    with Pool(14) as pool:
        for r in pool.imap_unordered(run,ms):
            if r is None: continue
            surv+=1
            f,ln,old,new,hits=r
            if hits: det+=1
            print('%s %s:%d  [%s]  =>  [%s]'%(('DETECTED '+','.join(hits)) if hits else 'UNDETECTED',f,ln,old[:90],new[:90]),flush=True)
    print('test-surviving mutants: %d, reported by hlint: %d'%(surv,det))
