#!/usr/bin/env python3
"""Developer tool (not part of any registered check): confirm a seeded change
produced by an independent sub-agent and add it to /verif/seeded/.

usage: ingest_seed.py <seed-variant-dir> <name> <property> [--also C0x,...] [--run TestPattern]

Confirms, on scratch copies of /repo made under /tmp and removed afterwards:
  1. the patch applies to the clean tree, 2. the patched tree builds,
  3. the existing test-suite passes on the patched tree,
  4. the demonstration fails on the patched tree, 5. and passes on the clean tree.
Then runs every hlint property check on the patched copy and records which
ones report a violation.  Writes /verif/seeded/<name>/{patch.diff, demo files, README.md, meta.json}.
"""
import subprocess, os, shutil, tempfile, sys, json, re, glob
ROOT=os.environ.get('VERIF_ROOT') or os.path.dirname(os.path.dirname(os.path.abspath(__file__)))

ENV = dict(os.environ, GOFLAGS='-mod=mod', GOPROXY='off', GOSUMDB='off', GOTOOLCHAIN='local')
PROPS = ['C%02d' % i for i in range(1, 18)]

def sh(cmd, cwd, timeout=600):
    p = subprocess.run(cmd, shell=True, cwd=cwd, env=ENV, capture_output=True, text=True, timeout=timeout)
    return p.returncode, (p.stdout + p.stderr)

def scratch(patch=None):
    d = tempfile.mkdtemp(prefix='/tmp/seedchk.')
    subprocess.run(['rsync', '-a', '--exclude', '.git', '/repo/', d + '/'], check=True)
    if patch:
        rc, out = sh('patch -p1 -s --no-backup-if-mismatch -i %s' % patch, d)
        if rc != 0:
            shutil.rmtree(d)
            raise SystemExit('PATCH DOES NOT APPLY: ' + out)
    return d

def run_demo(d, seed, run):
    demos = glob.glob(os.path.join(seed, '*_test.go'))
    if demos:
        for f in demos:
            shutil.copy(f, d)
        pat = run or '.'
        if not run:
            names = []
            for f in demos:
                names += re.findall(r'^func (Test\w+)\(', open(f).read(), re.M)
            pat = '^(' + '|'.join(names) + ')$'
        rc, out = sh("go test -vet=off -count=1 -timeout 120s -run '%s' ." % pat, d)
        for f in demos:
            os.remove(os.path.join(d, os.path.basename(f)))
        return rc, out, "go test -vet=off -count=1 -run '%s' ." % pat
    # standalone program: a directory with main.go (go.mod with a replace directive is rewritten)
    progs = [p for p in glob.glob(os.path.join(seed, '*')) if os.path.isdir(p) and glob.glob(os.path.join(p, '*.go'))]
    if os.path.exists(os.path.join(seed, 'main.go')):
        progs = [seed]
    if not progs:
        raise SystemExit('no demonstration found in ' + seed)
    pd = tempfile.mkdtemp(prefix='/tmp/seeddemo.')
    try:
        for f in glob.glob(os.path.join(progs[0], '*.go')):
            shutil.copy(f, pd)
        open(os.path.join(pd, 'go.mod'), 'w').write('module demo\ngo 1.23.5\nrequire github.com/vogo/gohessian v0.0.0\nreplace github.com/vogo/gohessian => %s\n' % d)
        shutil.copy(os.path.join(d, 'go.sum'), pd)
        rc, out = sh('go run .', pd)
        return rc, out, 'go run . (standalone program with replace => tree)'
    finally:
        shutil.rmtree(pd)

def main():
    a = sys.argv[1:]
    seed, name, prop = a[0], a[1], a[2]
    also, run = [], None
    if '--also' in a:
        also = a[a.index('--also') + 1].split(',')
    if '--run' in a:
        run = a[a.index('--run') + 1]
    patch = os.path.join(seed, 'patch.diff')
    res = {}
    d = scratch(patch)
    try:
        rc, out = sh('go build ./...', d)
        res['builds'] = rc == 0
        if rc != 0:
            raise SystemExit('DOES NOT BUILD: ' + out)
        rc, out = sh('go test -vet=off -count=1 ./...', d)
        res['existing_tests_pass'] = rc == 0
        if rc != 0:
            raise SystemExit('EXISTING TESTS FAIL WITH THE PATCH:\n' + out[-1500:])
        rc, out, cmd = run_demo(d, seed, run)
        res['demo_cmd'] = cmd
        res['demo_fails_with_patch'] = rc != 0 or 'FAIL' in out
        res['demo_output_with_patch'] = out[-800:]
        # hlint on the patched copy
        det = {}
        for p in PROPS:
            vd = tempfile.mkdtemp(prefix='/tmp/seedverif.')
            os.mkdir(vd + '/evidence')
            shutil.copy(ROOT+'/known_findings.json', vd)
            o = subprocess.run([ROOT+'/bin/hlint', '-property', p, '-repo', d, '-verif', vd], capture_output=True, text=True).stdout
            hits = [l for l in o.splitlines() if l.startswith(('VIOLATED', 'UNDECIDED'))]
            if hits:
                det[p] = [h[:300] for h in hits[:4]]
            shutil.rmtree(vd)
        res['detected_by'] = det
    finally:
        shutil.rmtree(d)
    d = scratch()
    try:
        rc, out, cmd = run_demo(d, seed, run)
        res['demo_passes_without_patch'] = rc == 0 and 'FAIL' not in out
        res['demo_output_without_patch'] = out[-400:]
    finally:
        shutil.rmtree(d)
    ok = res['builds'] and res['existing_tests_pass'] and res['demo_fails_with_patch'] and res['demo_passes_without_patch']
    print(json.dumps({k: v for k, v in res.items() if k not in ('demo_output_with_patch', 'demo_output_without_patch')}, indent=1))
    if not ok:
        print('NOT CONFIRMED — not kept')
        print(res.get('demo_output_with_patch', '')[-600:])
        print(res.get('demo_output_without_patch', ''))
        sys.exit(1)
    dst = os.path.join(ROOT,'seeded', name)
    os.makedirs(dst, exist_ok=True)
    shutil.copy(patch, dst)
    for f in glob.glob(os.path.join(seed, '*')):
        if os.path.isfile(f) and not f.endswith('patch.diff'):
            shutil.copy(f, dst)
        elif os.path.isdir(f):
            shutil.copytree(f, os.path.join(dst, os.path.basename(f)), dirs_exist_ok=True)
    readme = ''
    if os.path.exists(os.path.join(seed, 'README.md')):
        readme = open(os.path.join(seed, 'README.md')).read()
    meta = {
        'property': prop, 'also_breaks': also, 'origin': 'independent sub-agent given only the property text and a scratch worktree',
        'needs_to_manifest': (re.search(r'(?is)(what (it|is) need\w*|needs?|manifest)[^\n]*\n(.{0,700})', readme) or [None, None, None, ''])[3].strip()[:700],
        'confirmed': {'applies': True, 'builds': res['builds'], 'existing_tests_pass': res['existing_tests_pass'],
                      'demo_cmd': res['demo_cmd'], 'demo_fails_with_patch': res['demo_fails_with_patch'], 'demo_passes_without_patch': res['demo_passes_without_patch']},
        'what_i_ran': ['patch -p1 < patch.diff on a scratch copy of /repo', 'go build ./...', 'go test -vet=off -count=1 ./...', res['demo_cmd'] + ' (patched: fails; clean: passes)', 'bin/hlint -property C01..C17 -repo <patched copy>'],
        'detected_by': res['detected_by'],
    }
    json.dump(meta, open(os.path.join(dst, 'meta.json'), 'w'), indent=1)
    print('KEPT as', dst, '— detected by', sorted(res['detected_by']) or 'NOTHING (missed)')

if __name__ == '__main__':
    main()
