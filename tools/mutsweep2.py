#!/usr/bin/env python3
"""Developer tool (not a registered check): second-order mutation sweep over
/repo's non-test sources with STRUCTURAL operators the first sweep lacks:
  G  a guard block `if c { return/continue/break … }` deleted
  B  break <-> continue
  S  two adjacent simple statements swapped
  W  an integer conversion narrowed (int64(→int32(, int32(→int16(, uint16(→uint8()
  A  one clause of a two-clause && / || condition dropped
  D  `defer f(…)` run at once
  E  an `else` branch emptied / `else if` chain cut
Keeps the mutants that build and keep the 33 tests green, runs hlint on each.
usage: mutsweep2.py [file.go ...] [--max=N] [--jobs=N] [--ops=GBSWADE]"""
import re, os, sys, subprocess, tempfile, shutil, random
from multiprocessing import Pool
ROOT = os.path.dirname(os.path.dirname(os.path.abspath(__file__)))
import atexit as _ae
HLINT = os.environ.get('HLINT_SNAPSHOT')
if not HLINT:
    _d = tempfile.mkdtemp(prefix='/tmp/hlintbin.'); HLINT = _d + '/hlint'; shutil.copy2(ROOT + '/bin/hlint', HLINT); os.environ['HLINT_SNAPSHOT'] = HLINT
    _pid = os.getpid(); _ae.register(lambda: os.getpid() == _pid and shutil.rmtree(_d, ignore_errors=True))
ENV = dict(os.environ, GOFLAGS='-mod=mod', GOPROXY='off', GOSUMDB='off', GOTOOLCHAIN='local')
REPO = os.environ.get('MUT_REPO', '/repo')

SIMPLE = re.compile(r'^\s+[\w\.\[\]\*]+(\(.*\)|(\s*,\s*[\w\.\[\]]+)*\s*:?=\s*.+|\s*\+\+)$')


def indent(l):
    return len(l) - len(l.lstrip('\t'))


def mutants(path, ops):
    L = open(path).read().split('\n')
    out = []

    def emit(kind, lo, hi, repl, desc):
        out.append((path, kind, lo, hi, repl, desc))

    n = len(L)
    for i, l in enumerate(L):
        s = l.strip()
        if s.startswith('//') or 'hlog.' in l:
            continue
        code = l.split('//')[0].rstrip()
        if 'G' in ops:
            m = re.match(r'^(\t+)if ([^{]+) \{$', code)
            if m and ':=' not in m.group(2):
                ind = indent(code)
                # find the closing brace within 5 lines
                for j in range(i + 1, min(i + 6, n)):
                    if indent(L[j]) == ind and L[j].strip() == '}':
                        body = [x.strip() for x in L[i + 1:j] if x.strip() and not x.strip().startswith('//')]
                        if body and re.match(r'^(return\b|continue$|break$)', body[-1]):
                            emit('G', i, j + 1, [], 'guard deleted: ' + code.strip() + ' ' + body[-1])
                        break
                    if indent(L[j]) <= ind and L[j].strip():
                        break
        if 'B' in ops:
            if s == 'break':
                emit('B', i, i + 1, [l.replace('break', 'continue')], 'break -> continue')
            if s == 'continue':
                emit('B', i, i + 1, [l.replace('continue', 'break')], 'continue -> break')
        if 'S' in ops and i + 1 < n:
            l2 = L[i + 1].split('//')[0].rstrip()
            if SIMPLE.match(code) and SIMPLE.match(l2) and indent(code) == indent(l2) and 'return' not in code and 'return' not in l2 and code.strip() != l2.strip():
                emit('S', i, i + 2, [L[i + 1], L[i]], 'swapped: ' + code.strip() + '  <->  ' + l2.strip())
        if 'W' in ops:
            for a, b in (('int64(', 'int32('), ('int32(', 'int16('), ('uint16(', 'uint8('), ('uint32(', 'uint16('), ('uint64(', 'uint32('), ('int(', 'int32(')):
                for m in re.finditer(r'(?<![\w.])' + re.escape(a), code):
                    new = code[:m.start()] + b[:-1] + '(' + a[:-1] + '(' + code[m.end():]
                    # int64(x) -> int64(int32(x)) keeps the static type, loses the bits
                    # find the matching paren to close the extra call
                    depth = 0; k = m.end() - 1; end = None
                    for p in range(m.end() - 1, len(code)):
                        if code[p] == '(':
                            depth += 1
                        elif code[p] == ')':
                            depth -= 1
                            if depth == 0:
                                end = p; break
                    if end is None:
                        continue
                    new = code[:m.start()] + a + b + code[m.end():end] + ')' + code[end:]
                    emit('W', i, i + 1, [new], 'narrowed: ' + code.strip() + ' => ' + new.strip())
        if 'A' in ops:
            m = re.match(r'^(\s*(?:\} else )?if )([^;{&|]+) (&&|\|\|) ([^;{&|]+)( \{)$', code)
            if m and ':=' not in code:
                emit('A', i, i + 1, [m.group(1) + m.group(2) + m.group(5)], 'clause dropped: ' + code.strip() + ' => keeps ' + m.group(2))
                emit('A', i, i + 1, [m.group(1) + m.group(4) + m.group(5)], 'clause dropped: ' + code.strip() + ' => keeps ' + m.group(4))
        if 'D' in ops:
            m = re.match(r'^(\s+)defer (\w[\w\.]*\(.*\))$', code)
            if m:
                emit('D', i, i + 1, [m.group(1) + m.group(2)], 'defer run at once: ' + code.strip())
        if 'E' in ops:
            m = re.match(r'^(\t+)\} else \{$', code)
            if m:
                ind = indent(code)
                for j in range(i + 1, min(i + 12, n)):
                    if indent(L[j]) == ind and L[j].strip() == '}':
                        emit('E', i, j + 1, [m.group(1) + '}'], 'else branch deleted (%d lines): %s' % (j - i - 1, L[i + 1].strip()))
                        break
                    if indent(L[j]) < ind and L[j].strip():
                        break
    return out


def run(m):
    path, kind, lo, hi, repl, desc = m
    d = tempfile.mkdtemp(prefix='/tmp/mutsw2.')
    try:
        subprocess.run(['rsync', '-a', '--exclude', '.git', REPO + '/', d + '/'], check=True)
        f = os.path.join(d, os.path.basename(path))
        L = open(f).read().split('\n'); L[lo:hi] = repl; open(f, 'w').write('\n'.join(L))
        b = subprocess.run('go build ./... && go test -vet=off -count=1 . 2>&1 | tail -1', shell=True, cwd=d, env=ENV, capture_output=True, text=True, timeout=300)
        if b.returncode != 0 or not b.stdout.startswith('ok'):
            return None
        vd = tempfile.mkdtemp(prefix='/tmp/mutsw2v.'); os.mkdir(vd + '/evidence'); shutil.copy(ROOT + '/known_findings.json', vd)
        try:
            o = subprocess.run([HLINT, '-property', 'all', '-repo', d, '-verif', vd], capture_output=True, text=True, timeout=900).stdout
        finally:
            shutil.rmtree(vd)
        hits = set(); cur = None
        for l in o.splitlines():
            if l.startswith('property C'):
                cur = l.split()[1]
            elif l.startswith(('VIOLATED', 'UNDECIDED')):
                hits.add(cur)
        return (os.path.basename(path), lo + 1, kind, desc, sorted(hits))
    except Exception as e:
        return None
    finally:
        shutil.rmtree(d, ignore_errors=True)


if __name__ == '__main__':
    args = [a for a in sys.argv[1:] if not a.startswith('--')]
    mx = None; jobs = 8; ops = 'GBSWADE'
    for a in sys.argv[1:]:
        if a.startswith('--max='): mx = int(a.split('=')[1])
        if a.startswith('--jobs='): jobs = int(a.split('=')[1])
        if a.startswith('--ops='): ops = a.split('=')[1]
    files = args or sorted(f for f in __import__('glob').glob(REPO + '/*.go') if not f.endswith('_test.go'))
    ms = []
    for f in files:
        ms += mutants(f if f.startswith('/') else REPO + '/' + f, ops)
    random.seed(int(os.environ.get('MUTSEED', '1'))); random.shuffle(ms)
    if mx: ms = ms[:mx]
    print('mutants generated:', len(ms), file=sys.stderr)
    surv = det = 0
    with Pool(jobs) as pool:
        for r in pool.imap_unordered(run, ms):
            if r is None:
                continue
            surv += 1
            f, ln, kind, desc, hits = r
            if hits: det += 1
            print('%s %s %s:%d  %s' % (('DETECTED ' + ','.join(hits)) if hits else 'UNDETECTED', kind, f, ln, desc[:200]), flush=True)
    print('test-surviving mutants: %d, reported by hlint: %d' % (surv, det))
