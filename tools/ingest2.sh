#!/bin/sh
# developer tool: ingest the round-2 seeds of one property: /tmp/seed2_<ID>/{a,b,c} -> seeded/<ID>{c,d,e}
R=$(cd "$(dirname "$0")/.." && pwd); id=$1
for x in a b c; do
  case $x in a) n=c;; b) n=d;; c) n=e;; esac
  [ -f /tmp/seed2_$id/$x/patch.diff ] || { echo "$id$x: no patch"; continue; }
  echo "=== $id$n (from $x)"; python3 $R/tools/ingest_seed.py /tmp/seed2_$id/$x ${id}$n $id 2>&1 | tail -4
done
