#!/bin/sh
# developer tool: ingest the round-3 seeds of one property: /tmp/seed3_<ID>/{a,b,c} -> seeded/<ID>{f,g,h}
R=$(cd "$(dirname "$0")/.." && pwd); id=$1
for x in a b c; do
  case $x in a) n=f;; b) n=g;; c) n=h;; esac
  [ -f /tmp/seed3_$id/$x/patch.diff ] || { echo "$id$x: no patch"; continue; }
  echo "=== $id$n (from $x)"; python3 $R/tools/ingest_seed.py /tmp/seed3_$id/$x ${id}$n $id 2>&1 | tail -4
done
