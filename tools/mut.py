#!/usr/bin/env python3
"""Developer tool: apply textual edits to a scratch copy of /repo, check that it
builds (and optionally that the test-suite still passes), run hlint on it,
print the verdict lines, delete the copy.  Not part of any registered check."""
import subprocess, os, shutil, tempfile, sys, re
ENV = dict(os.environ, GOFLAGS='-mod=mod', GOPROXY='off', GOSUMDB='off', GOTOOLCHAIN='local')
def mut(props, edits, test=False, show=('VIOLATED', 'UNDECIDED', 'result')):
    d = tempfile.mkdtemp(prefix='/tmp/mrepo.')
    try:
        subprocess.run(['rsync', '-a', '--exclude', '.git', '/repo/', d + '/'], check=True)
        for f, old, new in edits:
            s = open(d + '/' + f).read()
            if old not in s:
                print("EDIT DOES NOT APPLY:", f, repr(old[:60])); return
            open(d + '/' + f, 'w').write(s.replace(old, new, 1))
        b = subprocess.run('go build ./... 2>&1 | head -5', shell=True, cwd=d, env=ENV, capture_output=True, text=True).stdout
        if b.strip():
            print("BUILD FAILS:", b); return
        if test:
            t = subprocess.run('go test -vet=off -count=1 ./... 2>&1 | tail -3', shell=True, cwd=d, env=ENV, capture_output=True, text=True).stdout
            print("tests:", 'ok' if re.search(r'^ok', t, re.M) and 'FAIL' not in t else 'FAIL ' + t)
        if isinstance(props, str): props = [props]
        for prop in props:
            vd = tempfile.mkdtemp(prefix='/tmp/mverif.'); os.mkdir(vd + '/evidence'); shutil.copy('/verif/known_findings.json', vd)
            out = subprocess.run(['/verif/bin/hlint', '-property', prop, '-repo', d, '-verif', vd], capture_output=True, text=True).stdout
            for l in out.splitlines():
                if l.startswith(show): print(l[:330])
            shutil.rmtree(vd)
    finally:
        shutil.rmtree(d)
