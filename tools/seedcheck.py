#!/usr/bin/env python3
"""Developer tool: run hlint property checks against seeded changes.
usage: seedcheck.py [name ...]   (default: all under /verif/seeded)  [--props C01,C02]"""
import subprocess, os, shutil, tempfile, sys, json, glob
ROOT=os.environ.get('VERIF_ROOT') or os.path.dirname(os.path.dirname(os.path.abspath(__file__)))
# the analyser is snapshotted once per run: a rebuild during a long sweep must not mix versions
import atexit as _ae, shutil as _sh, tempfile as _tf
HLINT=os.environ.get('HLINT_SNAPSHOT')
if not HLINT:
    _d=_tf.mkdtemp(prefix='/tmp/hlintbin.'); HLINT=_d+'/hlint'; _sh.copy2(ROOT+'/bin/hlint',HLINT); os.environ['HLINT_SNAPSHOT']=HLINT
    _pid=os.getpid(); _ae.register(lambda: os.getpid()==_pid and _sh.rmtree(_d,ignore_errors=True))

args=[a for a in sys.argv[1:] if not a.startswith('-')]
props=None
for a in sys.argv[1:]:
    if a.startswith('--props='): props=a.split('=')[1].split(',')
names=args or sorted(os.path.basename(d) for d in glob.glob(ROOT+'/seeded/*'))
ALL=['C%02d'%i for i in range(1,18)]
def one(n):
    import io
    out=io.StringIO()
    d=tempfile.mkdtemp(prefix='/tmp/seedchk.')
    subprocess.run(['rsync','-a','--exclude','.git','/repo/',d+'/'],check=True)
    p=subprocess.run('patch -p1 -s --no-backup-if-mismatch -i '+ROOT+'/seeded/%s/patch.diff'%n,shell=True,cwd=d,capture_output=True,text=True)
    if p.returncode!=0:
        shutil.rmtree(d); return (n+' PATCH DOES NOT APPLY\n',0,0)
    meta=json.load(open(ROOT+'/seeded/%s/meta.json'%n))
    hits={}
    vd=tempfile.mkdtemp(prefix='/tmp/seedverif.'); os.mkdir(vd+'/evidence'); shutil.copy(ROOT+'/known_findings.json',vd)
    o=subprocess.run([HLINT,'-property',props[0] if props and len(props)==1 else 'all','-repo',d,'-verif',vd],capture_output=True,text=True).stdout
    cur=None
    for l in o.splitlines():
        if l.startswith('property C'): cur=l.split()[1]
        elif l.startswith(('VIOLATED','UNDECIDED')) and (not props or cur in props): hits.setdefault(cur,[]).append(l)
    shutil.rmtree(vd)
    shutil.rmtree(d)
    own=meta['property'] in hits
    out.write('%s (breaks %s): %s%s\n'%(n,meta['property'],'DETECTED by '+','.join(sorted(hits)) if hits else 'MISSED','' if own or not hits else '   [not by its own property]'))
    if '-v' in sys.argv:
        for pr,h in hits.items():
            out.write('    [%s]\n'%pr)
            for l in h[:4]: out.write('      '+l[:260]+'\n')
    return (out.getvalue(),1,1 if hits else 0)

if __name__=='__main__':
    from multiprocessing import Pool
    names=[n for n in names if os.path.isdir(ROOT+'/seeded/'+n)]
    tot=det=0
    with Pool(8) as pool:
        for txt,t,dd in pool.imap(one,names):
            sys.stdout.write(txt); sys.stdout.flush(); tot+=t; det+=dd
    print('detected %d of %d'%(det,tot))
