#!/bin/sh
# developer tool: ingest the round-8 seeds of one property: /tmp/seed5_<ID>/{a,b,c} -> seeded/<ID>{l,m,n}
R=$(cd "$(dirname "$0")/.." && pwd); id=$1
for x in a b c; do
  case $x in a) n=l;; b) n=m;; c) n=n;; esac
  [ -f /tmp/seed5_$id/$x/patch.diff ] || { echo "$id$x: no patch"; continue; }
  echo "=== $id$n (from $x)"; python3 $R/tools/ingest_seed.py /tmp/seed5_$id/$x ${id}$n $id 2>&1 | tail -4
done
