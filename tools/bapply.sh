#!/bin/sh
# developer tool: materialise /repo + one corpus patch under /tmp/bt_<name> (remove it when done)
# usage: bapply.sh benign/enc_c | seeded/C01a
R=${VERIF_ROOT:-$(cd "$(dirname "$0")/.." && pwd)}; n=$(basename "$1"); d=/tmp/bt_$n
rm -rf "$d"; mkdir -p "$d"; rsync -a --exclude .git /repo/ "$d"/
(cd "$d" && patch -p1 -s --no-backup-if-mismatch -i "$R/$1/patch.diff") && echo "$d"
