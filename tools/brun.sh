#!/bin/sh
# developer tool: apply one corpus patch to a scratch copy of /repo, run hlint (all or $2) on it, print alarms, remove the copy
# usage: tools/brun.sh benign/enc_c [C03|all] [-k]     (-k keeps the scratch copy /tmp/bt_<root-hash>_<name>)
R=${VERIF_ROOT:-$(cd "$(dirname "$0")/.." && pwd)}
n=$(basename "$1"); d=/tmp/bt_$(echo "$R" | cksum | cut -c1-6)_$n
rm -rf "$d"; mkdir -p "$d"; rsync -a --exclude .git /repo/ "$d"/
(cd "$d" && patch -p1 -s --no-backup-if-mismatch -i "$R/$1/patch.diff") || exit 1
vd=$(mktemp -d /tmp/bv.XXXXXX); mkdir -p $vd/evidence; cp "$R/known_findings.json" $vd/
"$R/bin/hlint" -property "${2:-all}" -repo "$d" -verif "$vd" 2>&1 | grep -E '^(property|VIOLATED|UNDECIDED|panic)' | grep -B1 -E '^(VIOLATED|UNDECIDED|panic)' | cut -c1-500
rm -rf "$vd"
if [ "$3" = "-k" ]; then echo "kept $d"; else rm -rf "$d"; fi
