#!/usr/bin/env python3
"""Developer tool: run every hlint property check against behaviour-preserving
refactorings (patch.diff files); any VIOLATED/UNDECIDED line is a false alarm.
usage: benigncheck.py <dir-with-variants>...   e.g. /tmp/ref_enc   or /verif/benign/enc_a
       --keep : copy confirmed (builds + tests pass) patches to /verif/benign/<area>_<x>/"""
import subprocess, os, shutil, tempfile, sys, glob, json
ROOT=os.environ.get('VERIF_ROOT') or os.path.dirname(os.path.dirname(os.path.abspath(__file__)))
# the analyser is snapshotted once per run: a rebuild during a long sweep must not mix versions
import atexit as _ae, shutil as _sh, tempfile as _tf
HLINT=os.environ.get('HLINT_SNAPSHOT')
if not HLINT:
    _d=_tf.mkdtemp(prefix='/tmp/hlintbin.'); HLINT=_d+'/hlint'; _sh.copy2(ROOT+'/bin/hlint',HLINT); os.environ['HLINT_SNAPSHOT']=HLINT
    _pid=os.getpid(); _ae.register(lambda: os.getpid()==_pid and _sh.rmtree(_d,ignore_errors=True))

ENV=dict(os.environ,GOFLAGS='-mod=mod',GOPROXY='off',GOSUMDB='off',GOTOOLCHAIN='local')
ALL=['C%02d'%i for i in range(1,18)]
keep='--keep' in sys.argv
dirs=[a for a in sys.argv[1:] if not a.startswith('--')]
pats=[]
for d in dirs:
    if os.path.exists(os.path.join(d,'patch.diff')): pats.append(d)
    else: pats+=sorted(x for x in glob.glob(os.path.join(d,'*')) if os.path.exists(os.path.join(x,'patch.diff')))
def work(p):
    import io, contextlib
    buf=io.StringIO()
    res={'tot':0,'fa':0}
    with contextlib.redirect_stdout(buf):
        one(p,res)
    return buf.getvalue(),res
def one(p,res):
    global keep
    name=os.path.basename(os.path.dirname(p.rstrip('/'))).replace('ref_','')+'_'+os.path.basename(p.rstrip('/')) if '/ref_' in p else os.path.basename(p.rstrip('/'))
    d=tempfile.mkdtemp(prefix='/tmp/benchk.')
    subprocess.run(['rsync','-a','--exclude','.git','/repo/',d+'/'],check=True)
    r=subprocess.run('patch -p1 -s --no-backup-if-mismatch -i %s/patch.diff'%os.path.abspath(p),shell=True,cwd=d,capture_output=True,text=True)
    if r.returncode!=0:
        print(name,'PATCH DOES NOT APPLY'); shutil.rmtree(d); return
    b=subprocess.run('go build ./... && go test -vet=off -count=1 ./... 2>&1 | tail -2',shell=True,cwd=d,env=ENV,capture_output=True,text=True)
    if b.returncode!=0 or 'FAIL' in b.stdout or 'ok' not in b.stdout:
        print(name,'BUILD/TEST FAILS — not a valid benign patch:',(b.stdout+b.stderr)[-200:]); shutil.rmtree(d); return
    res['tot']+=1
    alarms={}
    vd=tempfile.mkdtemp(prefix='/tmp/benverif.'); os.mkdir(vd+'/evidence'); shutil.copy(ROOT+'/known_findings.json',vd)
    o=subprocess.run([HLINT,'-property','all','-repo',d,'-verif',vd],capture_output=True,text=True).stdout
    cur=None
    for l in o.splitlines():
        if l.startswith('property C'): cur=l.split()[1]
        elif l.startswith(('VIOLATED','UNDECIDED')): alarms.setdefault(cur,[]).append(l)
    shutil.rmtree(vd)
    shutil.rmtree(d)
    if alarms:
        res['fa']+=1
        print('%s: FALSE ALARM in %s'%(name,','.join(sorted(alarms))))
        seen=set()
        for pr,h in alarms.items():
            for l in h:
                k=l.replace('shared ','')[:140]
                if k in seen: continue
                seen.add(k); print('     ',l[:300])
    else:
        print('%s: silent'%name)
    if keep:
        dst=ROOT+'/benign/'+name
        os.makedirs(dst,exist_ok=True)
        shutil.copy(p+'/patch.diff',dst)
        if os.path.exists(p+'/README.md'): shutil.copy(p+'/README.md',dst)
        json.dump({'kind':'behaviour-preserving refactoring','origin':'independent sub-agent given only a code area and a scratch worktree','confirmed':{'builds':True,'existing_tests_pass':True},'alarms':{k:len(v) for k,v in alarms.items()}},open(dst+'/meta.json','w'),indent=1)

if __name__=='__main__':
    from multiprocessing import Pool
    tot=fa=0
    with Pool(8) as pool:
        for txt,res in pool.imap(work,pats):
            sys.stdout.write(txt); sys.stdout.flush()
            tot+=res['tot']; fa+=res['fa']
    print('false alarms on %d of %d benign patches'%(fa,tot))
