#!/bin/sh
# developer tool: stage round-3 benign patches of one area (/tmp/ben3_<area>/{a,b,c} -> benign/<area>_{h,i,j}) and check them
R=$(cd "$(dirname "$0")/.." && pwd); a=$1; st=/tmp/bstage3_$a; rm -rf $st; mkdir -p $st
for x in a b c; do case $x in a) n=h;; b) n=i;; c) n=j;; esac
  [ -f /tmp/ben3_$a/$x/patch.diff ] || continue
  mkdir -p $st/${a}_$n; cp /tmp/ben3_$a/$x/patch.diff $st/${a}_$n/; [ -f /tmp/ben3_$a/$x/README.md ] && cp /tmp/ben3_$a/$x/README.md $st/${a}_$n/
done
python3 $R/tools/benigncheck.py --keep $st/*; rm -rf $st
