#!/bin/sh
# builds the checker from files on disk only (offline)
set -e
cd "$(dirname "$0")"
export GOFLAGS=-mod=mod GOPROXY=off GOSUMDB=off GOTOOLCHAIN=local
unset GOWORK
mkdir -p bin evidence
cd hlint
go build -o ../bin/hlint .
