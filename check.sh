#!/bin/sh
# usage: ./check.sh <property-id> [quick|thorough]
# Runs the static checker for one property against /repo's current working
# tree.  Exit 0: every obligation discharged (or listed as a known finding);
# exit 1: a "VIOLATION property=<id> replay=<path>" line was printed.
cd "$(dirname "$0")" || exit 2
export GOFLAGS=-mod=mod GOPROXY=off GOSUMDB=off GOTOOLCHAIN=local CGO_ENABLED=0
unset GOWORK
id="$1"
tier="${2:-${VERIF_TIER:-quick}}"
if [ ! -x bin/hlint ] || [ -n "$(find hlint -name '*.go' -newer bin/hlint 2>/dev/null | head -1)" ]; then
  ./setup.sh >/dev/null 2>&1 || { echo "ERROR: cannot build hlint"; echo "VIOLATION property=$id replay=/verif/evidence/$id.json"; exit 1; }
fi
REPO="${VERIF_REPO:-/repo}"
exec bin/hlint -property "$id" -tier "$tier" -repo "$REPO" -verif "$(pwd)"
