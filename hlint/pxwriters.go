package main

// Container writers explored path by path: the ordered emissions of
// writeList / writeMap / writeObject / writeClsDef with the facts that hold
// when each is made.  Extracted helpers are stepped into; the leaf writers,
// the value dispatch, the registrar and the other container writers are the
// boundaries.

import (
	"fmt"
	"go/token"
	"go/types"
	"strings"

	"golang.org/x/tools/go/ssa"
)

type wPath struct {
	Trace  []pxEvent
	Env    Env
	ErrNil bool // the path returns a nil error (or its error is not provably non-nil)
	Pos    string
}

type writerInfo struct {
	fn        *ssa.Function
	paths     []wPath
	truncated bool
}

// writerBoundaries: callee -> event kind.
func (w *World) writerBoundaries() map[*ssa.Function]string {
	out := map[*ssa.Function]string{}
	for _, c := range w.codecs() {
		if c.EncW != nil {
			out[c.EncW] = "scalar:" + c.Name
		}
		if c.Enc != nil {
			out[c.Enc] = "encode:" + c.Name
		}
	}
	add := func(name, kind string) {
		if f := w.role(name); f != nil {
			out[f] = kind
		}
	}
	add("(*Encoder).writeBT", "octets")
	add("(*Encoder).writeBytes", "bytes")
	add("(*Encoder).WriteData", "value")
	add("(*Encoder).writeRef", "ref")
	add("(*Encoder).writeList", "list")
	add("(*Encoder).writeMap", "map")
	add("(*Encoder).writeObject", "object")
	if reg := w.encRegistrar(); reg != nil {
		out[reg] = "register"
	}
	return out
}

func (w *World) writerPaths(fn *ssa.Function) *writerInfo {
	if w.wCache == nil {
		w.wCache = map[*ssa.Function]*writerInfo{}
	}
	if wi, ok := w.wCache[fn]; ok {
		return wi
	}
	wi := &writerInfo{fn: fn}
	bounds := w.writerBoundaries()
	delete(bounds, fn)
	bset := map[*ssa.Function]bool{}
	for b := range bounds {
		bset[b] = true
	}
	reachesBoundary := w.canReach(bset)
	var px *PX
	px = w.newPX(pxHooks{
		onBlock: func(fr *pxFrame, b *ssa.BasicBlock, st *pxState) {
			// loop headers are remembered so that rules can count per iteration
			for _, p := range b.Preds {
				if b.Dominates(p) {
					st.trace = append(st.trace, pxEvent{Kind: "loophead", Frame: fr, Pos: w.pos(fr.fn.Pos()), Extra: fmt.Sprintf("%s%d", fr.id, b.Index)})
					break
				}
			}
		},
		onInstr: func(fr *pxFrame, in ssa.Instruction, st *pxState) bool {
			if ta, ok := in.(*ssa.TypeAssert); ok && ta.CommaOk {
				// a dynamic-type test of a value (the struct writer's `.(time.Time)`): rules
				// about what is recognised before what read it from the path
				st.trace = append(st.trace, pxEvent{Kind: "typetest", Frame: fr, Args: []*Term{px.term(ta.X, fr, st)}, Env: st.env, Pos: w.instrPos(ta), Extra: typeStr(ta.AssertedType)})
				return true
			}
			c, ok := in.(*ssa.Call)
			if !ok {
				return true
			}
			// the function the call invokes on this path: static, or through a function value
			// the path knows (`writeItem := e.WriteData` … `writeItem(x)` is the boundary
			// e.WriteData(x), not a helper to step into)
			sc := px.calleeOf(c, fr, st)
			if sc == nil {
				return true
			}
			kind, isB := bounds[sc]
			if !isB {
				return true
			}
			ev := pxEvent{Kind: kind, Call: c, Frame: fr, Env: st.env, Pos: w.instrPos(c)}
			// (operands in the order of the callee's parameters; a bound receiver is not an
			// SSA value of this frame)
			args, _ := px.callArgs(c, fr, st)
			if sc.Signature.Recv() != nil && len(args) > 0 {
				args = args[1:] // receiver
			}
			if kind == "octets" && len(args) == 1 {
				// variadic bytes: the octets are the stores into the varargs array
				if bs := px.byteSeqOf(args[0], fr, st); bs != nil {
					ev.Args = append(ev.Args, bs.Oct...)
				} else {
					ev.Extra = "unmodelled"
				}
			} else if kind == "bytes" && len(args) == 1 {
				if bs := px.byteSeqOf(args[0], fr, st); bs != nil {
					ev.Args = append(ev.Args, bs.Oct...)
					if bs.Open {
						ev.Extra = "open"
					}
					// a slice whose octets are all known is what the variadic byte writer
					// hands on: `writeBytes([]byte{tag})` and `writeBT(tag)` are one emission
					known := len(bs.Oct) > 0 && !bs.Open
					for _, o := range bs.Oct {
						if o == nil {
							known = false
						}
					}
					if known {
						ev.Kind = "octets"
					}
				} else if o := st.originOf(px.term(args[0], fr, st)); o != nil && encodeKindOf(bounds, o) != "" {
					// the result of a scalar encoder, whatever variable or cell carried it here
					ev.Kind = "scalar:" + encodeKindOf(bounds, o)
					ev.Args = append(ev.Args, o.Args...)
					for range o.Args {
						ev.Orig = append(ev.Orig, nil)
					}
				} else if ac, ok := args[0].(*ssa.Call); ok && ac.Call.StaticCallee() != nil {
					if k2, ok := bounds[ac.Call.StaticCallee()]; ok && strings.HasPrefix(k2, "encode:") {
						ev.Kind = "scalar:" + strings.TrimPrefix(k2, "encode:")
					} else {
						ev.Extra = "unmodelled"
					}
				} else {
					ev.Extra = "unmodelled"
				}
			} else {
				for _, a := range args {
					t := px.term(a, fr, st)
					ev.Args = append(ev.Args, t)
					ev.Orig = append(ev.Orig, st.originOf(t))
				}
			}
			// the loop the call sits in (for count = bound rules)
			for _, lp := range naturalLoops(fr.fn) {
				if lp.body[c.Block()] {
					for b := range lp.body {
						iff, ok := b.Instrs[len(b.Instrs)-1].(*ssa.If)
						if !ok {
							continue
						}
						exits := false
						for _, s2 := range b.Succs {
							if !lp.body[s2] {
								exits = true
							}
						}
						bo, ok := iff.Cond.(*ssa.BinOp)
						if !ok || !exits {
							continue
						}
						isCounter := func(v ssa.Value) bool {
							if phi, ok := v.(*ssa.Phi); ok && phi.Block() == lp.header {
								return true
							}
							if b2, ok := v.(*ssa.BinOp); ok && (b2.Op == token.ADD || b2.Op == token.SUB) {
								for _, o2 := range []ssa.Value{b2.X, b2.Y} {
									if phi, ok := o2.(*ssa.Phi); ok && phi.Block() == lp.header {
										return true
									}
								}
							}
							return false
						}
						// `size - i <= 0` is `size <= i` (a size and a counter are non-negative, the
						// difference cannot overflow): the do-while spelling of the element loop
						bx, by := bo.X, bo.Y
						if zc, ok := by.(*ssa.Const); ok && zc.Value != nil && isIntZero(zc) {
							if d, ok := bx.(*ssa.BinOp); ok && d.Op == token.SUB &&
								((isCounter(d.Y) && isSizeValue(d.X, 0)) || (isCounter(d.X) && isSizeValue(d.Y, 0))) {
								bx, by = d.X, d.Y
							}
						}
						if isCounter(bx) {
							ev.Extra += "|bound=" + px.term(by, fr, st).Key()
						} else if isCounter(by) {
							ev.Extra += "|bound=" + px.term(bx, fr, st).Key()
						}
					}
				}
			}
			st.trace = append(st.trace, ev)
			// the registrar's and the lookup's results stay symbolic
			return false
		},
		havoc: func(fr *pxFrame, lp *loopInfo) bool {
			// search loops: no event can happen inside and nothing but local
			// variables is assigned (the class-definition lookup)
			for b := range lp.body {
				for _, in := range b.Instrs {
					switch x := in.(type) {
					case *ssa.Store:
						if _, ok := x.Addr.(*ssa.Alloc); !ok {
							return false
						}
					case *ssa.MapUpdate, *ssa.Send, *ssa.Go, *ssa.Defer:
						return false
					case *ssa.Call:
						sc := x.Call.StaticCallee()
						if sc == nil {
							if _, isB := x.Call.Value.(*ssa.Builtin); !isB {
								return false
							}
							continue
						}
						// (a method value called where it is made — `emit := e.writeBytes` — has the
						// bound wrapper as its static callee: what counts is the method behind it)
						if m := w.throughWrapper(sc); bset[sc] || reachesBoundary[sc] || bset[m] || reachesBoundary[m] {
							return false
						}
						if w.inPkg(sc) && len(px.modFields(sc)) > 0 {
							return false
						}
					}
				}
			}
			return true
		},
		inline: func(fr *pxFrame, callee *ssa.Function) bool {
			// helpers that can emit are stepped into; so are small helpers whose results
			// are integers / booleans (header-form choosers); the rest stays symbolic
			if reachesBoundary[callee] {
				return true
			}
			// a function literal written in a function that is being explored is part of
			// that function's body (`next := func() (item interface{}, more bool) {…}`
			// driving the element loop: the position and the bound test live in it)
			if callee.Parent() != nil && len(callee.Blocks) <= 40 {
				for f := fr; f != nil; f = f.parent {
					if f.fn == callee.Parent() {
						return true
					}
				}
			}
			res := callee.Signature.Results()
			if res.Len() == 0 || len(callee.Blocks) > 40 {
				return false
			}
			// a text transformer `func(string) string` (the case helper of the field names,
			// `lowerFirst(name) string` as `lowerName(name) (string, error)` before it) chooses
			// no header form: it stays a recorded call, so that the rules can say which
			// function produced a name and check that function on its own (casehelper.go)
			if prm := callee.Signature.Params(); callee.Signature.Recv() == nil && prm.Len() == 1 && res.Len() == 1 && isStringType(prm.At(0).Type()) && isStringType(res.At(0).Type()) {
				return false
			}
			scalar := func(t types.Type) bool {
				if _, _, isInt := intTypeInfo(w, t); isInt {
					return true
				}
				b, ok := t.Underlying().(*types.Basic)
				return ok && b.Info()&(types.IsBoolean|types.IsString) != 0
			}
			for i := 0; i < res.Len(); i++ {
				if scalar(res.At(i).Type()) {
					continue
				}
				// a `(value, ok)` accessor (`dateValue(v) (time.Time, bool)`): the flag decides
				// the caller's branch, and what the accessor tested (a dynamic type) is part
				// of the path — stepped into whatever the type of the value
				if i == 0 && res.Len() == 2 {
					if b2, ok2 := res.At(1).Type().Underlying().(*types.Basic); ok2 && b2.Info()&types.IsBoolean != 0 {
						return true
					}
				}
				// the chosen form handed back as a small struct of such scalars
				// (`listHeader{tag, typeName, hasType, hasLen}`): its components are
				// the same choices
				stt, ok := res.At(i).Type().Underlying().(*types.Struct)
				if !ok || stt.NumFields() == 0 || stt.NumFields() > 8 {
					return false
				}
				for j := 0; j < stt.NumFields(); j++ {
					if !scalar(stt.Field(j).Type()) {
						return false
					}
				}
			}
			return true
		},
		onReturn: func(fr *pxFrame, ret *ssa.Return, results []*Term, st *pxState) {
			idx := errIndex(fn.Signature)
			errNil := true
			if idx >= 0 {
				et := results[idx]
				if w.nonNilErr(ret.Results[idx], nil, nil, 0) {
					errNil = false
				}
				if s, has := st.env["("+et.key+" != nil:error)"]; has && s.Equal(single(1)) {
					errNil = false
				}
				if et.V != nil {
					if _, mk := et.V.(*ssa.MakeInterface); mk {
						errNil = false
					}
				}
			}
			wi.paths = append(wi.paths, wPath{Trace: append([]pxEvent(nil), st.trace...), Env: st.env, ErrNil: errNil, Pos: w.instrPos(ret)})
		},
	})
	px.maxPaths = 20000
	px.Run(fn, nil)
	wi.truncated = px.Truncated
	w.wCache[fn] = wi
	return wi
}

// evalEv evaluates a term under an event's facts.
func (w *World) evalEv(t *Term, env Env) (ISet, evalFlags) {
	px := w.newPX(pxHooks{})
	return px.evalTerm(t, &pxState{env: env})
}

// encodeKindOf: o is the recorded call of a scalar encoder (boundary "encode:<codec>"): the codec name.
func encodeKindOf(bounds map[*ssa.Function]string, o *Term) string {
	c, ok := o.V.(*ssa.Call)
	if !ok || c.Call.StaticCallee() == nil {
		return ""
	}
	if k, ok := bounds[c.Call.StaticCallee()]; ok && strings.HasPrefix(k, "encode:") {
		return strings.TrimPrefix(k, "encode:")
	}
	return ""
}

// isIntZero: the constant is the integer 0.
func isIntZero(c *ssa.Const) bool {
	b, ok := c.Type().Underlying().(*types.Basic)
	return ok && b.Info()&types.IsInteger != 0 && c.Value != nil && c.Int64() == 0
}
