package main

// Tag dispatch maps: for a decoder function that branches on a tag octet,
// the first-match resolution tag -> arm over all 256 tags, read off the tag
// facts of the abstract interpreter (an earlier arm's set is subtracted on
// the false edge, so arm order is honoured implicitly).

import (
	"fmt"
	"go/token"
	"go/types"
	"sort"
	"strings"

	"golang.org/x/tools/go/ssa"
)

type dispatch struct {
	fn     *ssa.Function
	arm    [256]string // production label
	callee [256]string
	pos    [256]string
	handed [256]bool // the tag is passed on to the callee
	inCtx  [256]bool
}

// container-level anchors: callee display name -> production label
var calleeProd = map[string]string{
	"(*Decoder).readRef":          "ref",
	"(*Decoder).readTypedMap":     "map-typed",
	"(*Decoder).readUntypedMap":   "map-untyped",
	"(*Decoder).readObjectDef":    "classdef",
	"(*Decoder).ReadLenTagObject": "object-short",
	"(*Decoder).readTagObject":    "object-long",
	"(*Decoder).ReadList":         "list",
	"(*Decoder).readTypedList":    "list-typed",
	"(*Decoder).readUntypedList":  "list-untyped",
	"newCodecError":               "error",
}

// tagSymbolOf: the tag symbol a function dispatches on: its byte parameter,
// or result #0 of its (first) readTag/getTag call.
func (w *World) tagSymbolOf(fn *ssa.Function) ssa.Value {
	for _, p := range fn.Params {
		if b, ok := p.Type().Underlying().(*types.Basic); ok && b.Kind() == types.Uint8 {
			return p
		}
	}
	for _, b := range fn.Blocks {
		for _, in := range b.Instrs {
			c, ok := in.(*ssa.Call)
			if !ok {
				continue
			}
			sc := c.Call.StaticCallee()
			if sc == nil {
				continue
			}
			switch qualifiedFnName(sc) {
			case "getTag", "readTag", "(*Decoder).readTag":
				for _, ref := range *c.Referrers() {
					if ex, ok := ref.(*ssa.Extract); ok && ex.Index == 0 {
						return ex
					}
				}
			}
		}
	}
	return nil
}

// readerBoundaries: the functions that stand for one production each; the
// dispatch explorer stops at the first one it meets, everything else
// (extracted helpers) is stepped into.
func (w *World) readerBoundaries() map[*ssa.Function]string {
	out := map[*ssa.Function]string{}
	for _, c := range w.codecs() {
		if c.Wrap != nil {
			out[c.Wrap] = c.Name
		}
		if c.Dec != nil {
			out[c.Dec] = c.Name
		}
	}
	for name, label := range calleeProd {
		if fn := w.role(name); fn != nil {
			out[fn] = label
		}
	}
	return out
}

func (w *World) dispatchOf(fn *ssa.Function, ctx ISet) *dispatch {
	if fn == nil || fn.Blocks == nil {
		return nil
	}
	ck := fnName(fn) + "|" + ctx.String()
	if w.dispCache == nil {
		w.dispCache = map[string]*dispatch{}
	}
	if d, ok := w.dispCache[ck]; ok {
		return d
	}
	d := w.dispatchOf0(fn, ctx)
	w.dispCache[ck] = d
	return d
}

func (w *World) dispatchOf0(fn *ssa.Function, ctx ISet) *dispatch {
	full := mkSet(0, 255)
	if ctx == nil {
		ctx = full
	}
	d := &dispatch{fn: fn}
	bounds := w.readerBoundaries()
	delete(bounds, fn)
	any := false
	for t := 0; t < 256; t++ {
		if !ctx.Contains(int64(t)) {
			continue
		}
		d.inCtx[t] = true
		arms := w.pxDispatchTag(fn, t, bounds)
		switch len(arms) {
		case 0:
			d.arm[t] = "none"
		case 1:
			d.arm[t], d.callee[t], d.pos[t], d.handed[t] = arms[0].Label, arms[0].Callee, arms[0].Pos, arms[0].Handed
			any = true
		default:
			var ls []string
			for _, a := range arms {
				ls = append(ls, a.Label)
			}
			d.arm[t] = "ambiguous(" + strings.Join(ls, ",") + ")"
			d.callee[t], d.pos[t] = arms[0].Callee, arms[0].Pos
			any = true
		}
	}
	if !any {
		return nil
	}
	return d
}

func classifyConstReturn(ret *ssa.Return) string {
	var parts []string
	for _, v := range ret.Results {
		switch x := v.(type) {
		case *ssa.Const:
			if x.Value == nil {
				parts = append(parts, "nil")
			} else {
				parts = append(parts, x.Value.ExactString())
			}
		case *ssa.MakeInterface:
			if k, ok := x.X.(*ssa.Const); ok && k.Value != nil {
				parts = append(parts, k.Value.ExactString())
			} else {
				parts = append(parts, "?")
			}
		case *ssa.UnOp:
			if x.Op == token.MUL && isGlobalNamed(x.X, "io", "EOF") {
				parts = append(parts, "io.EOF")
			} else {
				parts = append(parts, "?")
			}
		default:
			parts = append(parts, "?")
		}
	}
	switch strings.Join(parts, ",") {
	case "nil,io.EOF":
		return "end"
	case "nil,nil", "nil":
		return "null"
	case "true,nil":
		return "bool:true"
	case "false,nil":
		return "bool:false"
	}
	return "return(" + strings.Join(parts, ",") + ")"
}

// wantArm: the arm label the specification requires for tag t in a
// dispatcher that accepts any value (ReadData).
func wantArmAny(t int) string {
	sf := specByTag[t]
	switch sf.Prod {
	case "bool":
		return "bool:" + sf.Form
	case "object":
		return "object-" + sf.Form
	case "list-typed", "list-untyped":
		return "list"
	case "reserved":
		return "error"
	}
	return sf.Prod
}

func armSummary(d *dispatch) []string {
	// compress runs of equal arms
	var out []string
	start := -1
	for t := 0; t <= 256; t++ {
		if t < 256 && d.inCtx[t] && start >= 0 && d.arm[t] == d.arm[start] {
			continue
		}
		if start >= 0 {
			out = append(out, fmt.Sprintf("x%02x-x%02x→%s", start, t-1, d.arm[start]))
			start = -1
		}
		if t < 256 && d.inCtx[t] {
			start = t
		}
	}
	return out
}

// ruleDispatchCoverage (C03.R1): 256 obligations (grouped by spec form) on
// the top-level value dispatcher.
func (w *World) ruleDispatchCoverage(r *Report, rule string) {
	rd := w.fn("(*Decoder).ReadData")
	if rd == nil {
		r.undecided(rule, "(*Decoder).ReadData", "-", "anchor not found")
		return
	}
	r.fnSeen(fnName(rd))
	d := w.dispatchOf(rd, nil)
	if d == nil {
		r.undecided(rule, "(*Decoder).ReadData", "-", "no tag symbol: dispatcher not recognised")
		return
	}
	r.role("ReadData dispatch map", armSummary(d))
	n := 0
	for _, sf := range specForms {
		var bad []string
		for t := sf.Lo; t <= sf.Hi; t++ {
			n++
			want := wantArmAny(t)
			got := d.arm[t]
			ok := got == want
			if ok && sf.Payload >= 0 && sf.Prod != "bool" && sf.Prod != "null" && sf.Prod != "end" && !d.handed[t] {
				ok = false
				got += " (tag not handed on)"
			}
			if !ok {
				bad = append(bad, fmt.Sprintf("x%02x→%s at %s", t, got, d.pos[t]))
			}
		}
		fact := fmt.Sprintf("tags x%02x-x%02x resolve (first match) to the %s reader", sf.Lo, sf.Hi, wantArmAny(sf.Lo))
		if len(bad) > 0 {
			if len(bad) > 4 {
				bad = append(bad[:4], "…")
			}
			fact = fmt.Sprintf("spec: %s; resolved: %s", wantArmAny(sf.Lo), strings.Join(bad, ", "))
		}
		r.add(rule, fmt.Sprintf("(*Decoder).ReadData · tags x%02x-x%02x %s/%s", sf.Lo, sf.Hi, sf.Prod, sf.Form), d.pos[sf.Lo], len(bad) == 0, fact)
	}
	r.floor(rule+" (tags resolved)", n, 256)
	// second level: ReadList under the list tags
	rl := w.fn("(*Decoder).ReadList")
	if rl == nil {
		r.undecided(rule, "(*Decoder).ReadList", "-", "anchor not found")
		return
	}
	listTags := specTags("list-typed", "").Union(specTags("list-untyped", ""))
	dl := w.dispatchOf(rl, listTags)
	if dl == nil {
		r.undecided(rule, "(*Decoder).ReadList", "-", "dispatcher not recognised")
		return
	}
	for _, prod := range []string{"list-typed", "list-untyped"} {
		var bad []string
		ts, _ := specTags(prod, "").Elems(256)
		for _, t := range ts {
			if dl.arm[t] != prod || !dl.handed[t] {
				bad = append(bad, fmt.Sprintf("x%02x→%s", t, dl.arm[t]))
			}
		}
		r.add(rule, "(*Decoder).ReadList · "+prod+" tags", w.pos(rl.Pos()), len(bad) == 0, fmt.Sprintf("tags %s resolve to the %s reader with the tag handed on %v", specTags(prod, "").HexString(), prod, bad))
	}
}

// encoderTagSets: first-octet sets the encoder can emit, per production.
func (w *World) encoderTagSets() map[string]ISet {
	if w.etsCache != nil {
		return w.etsCache
	}
	out := map[string]ISet{}
	defer func() { w.etsCache = out }()
	for name, c := range w.codecs() {
		if c.Enc == nil {
			continue
		}
		ei := w.encForms(c.Enc)
		for _, fm := range ei.forms {
			if fm.IsErr || fm.Unknown || len(fm.Oct) == 0 {
				continue
			}
			sets := []*Term{fm.Oct[0]}
			for _, t0 := range sets {
				s, _ := ei.px.evalOver(fm, t0)
				if s == nil {
					continue
				}
				if s.Equal(single('N')) {
					out["null"] = out["null"].Union(s)
					continue
				}
				out[name] = out[name].Union(s)
			}
		}
		// chunked encoders: the first octet of a non-final chunk is emitted on the looping path too
		open := false
		for _, fm := range ei.forms {
			open = open || fm.Open
		}
		if open {
			if s := w.lenEncFirstOctets(c.Enc); s != nil {
				out[name] = out[name].Union(s.Minus(single('N')))
			}
		}
	}
	// container headers: the first octets the container writers hand to the byte writer
	for _, fname := range []string{"(*Encoder).writeList", "(*Encoder).writeMap", "(*Encoder).writeObject", "(*Encoder).writeRef"} {
		fn := w.role(fname)
		if fn == nil {
			continue
		}
		wi := w.writerPaths(fn)
		for _, p := range wi.paths {
			for _, e := range p.Trace {
				if e.Kind != "octets" || len(e.Args) == 0 {
					continue
				}
				s := mkSet(0, 255)
				if e.Args[0] != nil {
					s, _ = w.evalEv(e.Args[0], e.Env)
				}
				if s != nil {
					// the object writer emits two productions: the definition ('C') and the instance
					if def := s.Intersect(single('C')); fname == "(*Encoder).writeObject" && !def.Empty() {
						out["container:classdef"] = out["container:classdef"].Union(def)
						s = s.Minus(single('C'))
					}
					if !s.Empty() {
						out["container:"+fname] = out["container:"+fname].Union(s)
					}
				}
			}
		}
	}
	if fn := w.role("(*Encoder).WriteData"); fn != nil {
		f := w.flow(fn)
		for _, cs := range w.callSitesIn(fn) {
			if cs.call.Call.StaticCallee() != w.role("(*Encoder).writeBT") {
				continue
			}
			for _, v := range varargBytes(cs.call) {
				if s, _ := f.ValueAt(v, cs.call.Block()); s != nil {
					out["container:(*Encoder).WriteData"] = out["container:(*Encoder).WriteData"].Union(s)
				}
			}
		}
		// a helper such as writeNil(): null emissions reachable from the dispatch
		if len(out["container:(*Encoder).WriteData"]) == 0 {
			out["container:(*Encoder).WriteData"] = single('N')
		}
	}
	return out
}

// varargBytes: the octet values of a writeBT(b...) call (stores into the
// varargs array).
func varargBytes(c *ssa.Call) []ssa.Value {
	if len(c.Call.Args) < 2 {
		return nil
	}
	sl, ok := c.Call.Args[1].(*ssa.Slice)
	if !ok {
		return nil
	}
	al, ok := sl.X.(*ssa.Alloc)
	if !ok {
		return nil
	}
	type iv struct {
		i int64
		v ssa.Value
	}
	var vals []iv
	for _, ref := range *al.Referrers() {
		ia, ok := ref.(*ssa.IndexAddr)
		if !ok {
			continue
		}
		k, ok := ia.Index.(*ssa.Const)
		if !ok {
			continue
		}
		for _, r2 := range *ia.Referrers() {
			if st, ok := r2.(*ssa.Store); ok {
				vals = append(vals, iv{k.Int64(), st.Val})
			}
		}
	}
	sort.Slice(vals, func(i, j int) bool { return vals[i].i < vals[j].i })
	var out []ssa.Value
	for _, x := range vals {
		out = append(out, x.v)
	}
	return out
}

// ruleEmittedTagsDispatch (C01.R2): every first octet the encoder can emit for
// production X resolves, in every dispatcher that can receive it, to the
// reader of X.
func (w *World) ruleEmittedTagsDispatch(r *Report, rule string) {
	rd := w.fn("(*Decoder).ReadData")
	if rd == nil {
		r.undecided(rule, "(*Decoder).ReadData", "-", "anchor not found")
		return
	}
	d := w.dispatchOf(rd, nil)
	if d == nil {
		r.undecided(rule, "(*Decoder).ReadData", "-", "dispatcher not recognised")
		return
	}
	ets := w.encoderTagSets()
	var names []string
	for k := range ets {
		names = append(names, k)
	}
	sort.Strings(names)
	var roleLines []string
	n := 0
	for _, name := range names {
		s := ets[name]
		roleLines = append(roleLines, name+": "+s.HexString())
		tags, small := s.Elems(256)
		if !small {
			r.undecided(rule, "emitted tags of "+name, "-", "tag set not bounded")
			continue
		}
		for _, t := range tags {
			n++
			var want []string
			switch {
			case strings.HasPrefix(name, "container:"):
				// the encoder's own intent for a container header is given by which writer emits it
				switch name {
				case "container:(*Encoder).writeList":
					want = []string{"list"}
				case "container:(*Encoder).writeMap":
					want = []string{"map-typed", "map-untyped", "null", "end"}
				case "container:(*Encoder).writeObject":
					want = []string{"object-short", "object-long"}
				case "container:(*Encoder).writeRef":
					want = []string{"ref"}
				case "container:classdef":
					want = []string{"classdef"}
				case "container:(*Encoder).WriteData":
					want = []string{"null"}
				}
			case name == "bool":
				want = []string{"bool:true", "bool:false"}
			default:
				want = []string{name}
			}
			ok := false
			for _, x := range want {
				if d.arm[t] == x {
					ok = true
				}
			}
			o := r.add(rule, fmt.Sprintf("ReadData · tag x%02x emitted by %s", t, strings.TrimPrefix(name, "container:")), d.pos[t], ok,
				fmt.Sprintf("resolves to %q (callee %s); the encoder emits it as %v", d.arm[t], d.callee[t], want))
			o.Trivial = false
		}
	}
	r.role("first octets the encoder can emit", roleLines)
	r.floor(rule, n, 200)
}
