package main

import (
	"go/token"

	"golang.org/x/tools/go/ssa"
)

// The value walk through function values (C16.R1/R2/R4).
//
// The recursive calls of the walk may go through closures that capture the
// extractor (`descend := func(child reflect.Value) { ExtractValue(child,
// extractor) }`) and that are handed to the helpers walking the items of a
// list or the entries of a map (`extractItems(v, descend, descendZero)`).  A
// call of such a function value is a call of the walk when the call graph
// (VTA: sound, every function the value can denote) resolves the call site to
// exactly ONE in-package function; the closure is then a member of the walk
// like a named helper (it lies on a call cycle through ExtractValue).  A call
// site that may denote several functions is not a walk call (the obligations
// that need it then fail, as for any call the walk cannot follow).

// walkCallee: the in-package function a call denotes: its static callee, or
// the single function its function value can denote.
func (w *World) walkCallee(c *ssa.Call) *ssa.Function {
	if sc := c.Call.StaticCallee(); sc != nil {
		return sc
	}
	if c.Call.IsInvoke() {
		return nil
	}
	var one *ssa.Function
	for _, f := range w.calleesOf(c) {
		if one != nil && f != one {
			return nil
		}
		one = f
	}
	if one == nil || one.Blocks == nil || !w.inPkg(one) {
		return nil
	}
	return one
}

// walkPkgCallees: in-package functions called from fn, statically or through
// a function value that denotes one function.
func (w *World) walkPkgCallees(fn *ssa.Function) []*ssa.Function {
	var out []*ssa.Function
	seen := map[*ssa.Function]bool{}
	for _, b := range fn.Blocks {
		for _, in := range b.Instrs {
			c, ok := in.(*ssa.Call)
			if !ok {
				continue
			}
			if sc := w.walkCallee(c); sc != nil && sc.Blocks != nil && w.inPkg(sc) && !seen[sc] {
				seen[sc] = true
				out = append(out, sc)
			}
		}
	}
	return out
}

// valueForwarded: parameter #j of the member h is handed on unchanged as the
// VALUE walked by the entry of the walk (h is the entry and j its value
// parameter, or h passes the parameter straight to such a member).
func (vw *valueWalk) valueForwarded(h *ssa.Function, j int, depth int) bool {
	if h == vw.ev {
		return j == 0
	}
	if depth > 4 || j >= len(h.Params) {
		return false
	}
	for _, c := range vw.walkCalls(h) {
		callee := vw.w.walkCallee(c)
		for k, a := range c.Call.Args {
			if a == ssa.Value(h.Params[j]) && vw.valueForwarded(callee, k, depth+1) {
				return true
			}
		}
	}
	return false
}

// zeroDescents: the calls of the member g that hand `reflect.New(T)` to the
// walk as the value to walk (directly, or through members forwarding it).
func (vw *valueWalk) zeroDescents(g *ssa.Function) []*ssa.Call {
	var out []*ssa.Call
	for _, c := range vw.walkCalls(g) {
		callee := vw.w.walkCallee(c)
		for k, a := range c.Call.Args {
			nc, ok := a.(*ssa.Call)
			if !ok || nc.Call.StaticCallee() == nil || qualifiedFnName(nc.Call.StaticCallee()) != "reflect.New" {
				continue
			}
			if vw.valueForwarded(callee, k, 0) {
				out = append(out, c)
				break
			}
		}
	}
	return out
}

// paramBehind: v is a parameter of its function, or a load of the cell the
// builder keeps a parameter in because function literals capture it
// (`descend := func(child) { ExtractValue(child, extractor) }` captures
// `extractor`): the cell is stored once, at entry, with the parameter, and
// every other use — in the function and in the literals capturing it — is a
// load.  The value loaded is then the parameter.
func paramBehind(v ssa.Value) (*ssa.Parameter, bool) {
	if p, ok := v.(*ssa.Parameter); ok {
		return p, true
	}
	u, ok := v.(*ssa.UnOp)
	if !ok || u.Op != token.MUL {
		return nil, false
	}
	if p, ok := spilledParam(u.X); ok {
		return p, true
	}
	al, ok := u.X.(*ssa.Alloc)
	if !ok || al.Referrers() == nil {
		return nil, false
	}
	var p *ssa.Parameter
	for _, ref := range *al.Referrers() {
		switch x := ref.(type) {
		case *ssa.Store:
			pp, isP := x.Val.(*ssa.Parameter)
			if x.Addr != ssa.Value(al) || p != nil || !isP || x.Block().Index != 0 {
				return nil, false
			}
			p = pp
		case *ssa.UnOp:
			if x.Op != token.MUL {
				return nil, false
			}
		case *ssa.DebugRef:
		case *ssa.MakeClosure:
			if !capturedReadOnly(x, al, 0) {
				return nil, false
			}
		default:
			return nil, false
		}
	}
	return p, p != nil
}

// capturedReadOnly: the literal made by mc only loads from the captured cell
// (and hands it to further literals that only load from it).
func capturedReadOnly(mc *ssa.MakeClosure, cell ssa.Value, depth int) bool {
	fn, ok := mc.Fn.(*ssa.Function)
	if !ok || depth > 3 {
		return false
	}
	for i, b := range mc.Bindings {
		if b != cell {
			continue
		}
		if i >= len(fn.FreeVars) || fn.FreeVars[i].Referrers() == nil {
			return false
		}
		fv := fn.FreeVars[i]
		for _, ref := range *fv.Referrers() {
			switch x := ref.(type) {
			case *ssa.UnOp:
				if x.Op != token.MUL {
					return false
				}
			case *ssa.DebugRef:
			case *ssa.MakeClosure:
				if !capturedReadOnly(x, fv, depth+1) {
					return false
				}
			default:
				return false
			}
		}
	}
	return true
}
