package main

// C05.R2 on the path explorer: findField binds a wire name to the Go field
// whose name is the wire name or its capitalised form.
//
// WHAT is compared is decided by value flow, not by the spelling of the
// comparison: on every path that returns (i, nil) an EXACT string equality
// (`a == b`, `a != b` on its false edge, `strings.Compare(a, b) == 0`, a
// string `switch`) must be known to hold between
//     typ.Field(i).Name      — i being the index returned — and
//     name                   — the wire name, or
//     cap(name)              — the result of a package function string→string
//                              applied to the wire name (its case mapping is
//                              checked separately by ruleCaseHelperFn),
// and both kinds must occur.  The comparison may sit in a helper, the
// capitalised name may be computed before the loop or lazily inside it, the two
// tests may be one `||`.  strings.EqualFold (or any other fuzzy match) is not
// an exact equality and does not count.

import (
	"fmt"
	"go/token"
	"go/types"
	"sort"

	"golang.org/x/tools/go/ssa"
)

func (w *World) ruleFindFieldPX(r *Report, rule string, ff *ssa.Function) {
	key := "findField · compares the Go name with the wire name and its capitalised form"
	var nameP, typP *ssa.Parameter
	for _, p := range ff.Params {
		switch {
		case isStringType(p.Type()) && nameP == nil:
			nameP = p
		case typeStr(p.Type()) == "reflect.Type" && typP == nil:
			typP = p
		}
	}
	eidx := errIndex(ff.Signature)
	if nameP == nil || typP == nil || eidx < 0 || ff.Signature.Results().Len() != 2 {
		r.undecided(rule, key, w.pos(ff.Pos()), "not of the shape func(name string, typ reflect.Type) (int, error)")
		return
	}
	isCapitaliser := func(fn *ssa.Function) bool {
		s := fn.Signature
		return w.inPkg(fn) && fn.Blocks != nil && s.Recv() == nil && s.Params().Len() == 1 && s.Results().Len() == 1 &&
			isStringType(s.Params().At(0).Type()) && isStringType(s.Results().At(0).Type())
	}
	capFns := map[*ssa.Function]bool{}
	success, direct, capd, bad := 0, 0, 0, 0
	badPos := ""
	var px *PX
	px = w.newPX(pxHooks{
		inline: func(fr *pxFrame, callee *ssa.Function) bool { return !isCapitaliser(callee) },
		onInstr: func(fr *pxFrame, in ssa.Instruction, st *pxState) bool {
			switch x := in.(type) {
			case *ssa.Field:
				// typ.Field(i).Name
				stt, ok := x.X.Type().Underlying().(*types.Struct)
				if !ok || typeStr(x.X.Type()) != "reflect.StructField" || stt.Field(x.Field).Name() != "Name" {
					return true
				}
				xt := px.term(x.X, fr, st)
				if xt.K == TPure && xt.Name == "(reflect.Type).Field" && len(xt.Args) == 2 {
					st.trace = append(st.trace, pxEvent{Kind: "goname", Frame: fr, Args: []*Term{xt.Args[0], xt.Args[1]}, Extra: px.term(x, fr, st).key})
				}
			case *ssa.BinOp:
				if (x.Op == token.EQL || x.Op == token.NEQ) && isStringType(x.X.Type()) && isStringType(x.Y.Type()) {
					want := "1"
					if x.Op == token.NEQ {
						want = "0"
					}
					st.trace = append(st.trace, pxEvent{Kind: "streq", Frame: fr, Args: []*Term{px.term(x.X, fr, st), px.term(x.Y, fr, st), px.term(x, fr, st)}, Extra: want})
				}
			case *ssa.Call:
				if sc := x.Call.StaticCallee(); sc != nil && qualifiedFnName(sc) == "strings.Compare" && len(x.Call.Args) == 2 {
					st.trace = append(st.trace, pxEvent{Kind: "strcmp", Frame: fr, Args: []*Term{px.term(x.Call.Args[0], fr, st), px.term(x.Call.Args[1], fr, st), px.term(x, fr, st)}})
				}
			}
			return true
		},
		onReturn: func(fr *pxFrame, ret *ssa.Return, results []*Term, st *pxState) {
			if pxErrOutcome(ret.Results[eidx], results[eidx], st) == "err" {
				return
			}
			success++
			idx := results[1-eidx]
			nameT, typT := px.term(nameP, fr, st), px.term(typP, fr, st)
			// the Go names of field idx of typ
			goName := map[string]bool{}
			for _, ev := range st.trace {
				if ev.Kind == "goname" && ev.Args[0].key == typT.key && ev.Args[1].key == idx.key {
					goName[ev.Extra] = true
				}
			}
			classify := func(t *Term) string {
				if t.key == nameT.key {
					return "name"
				}
				if o := st.originOf(t); o != nil && len(o.Args) == 1 && o.Args[0].key == nameT.key {
					if c, ok := o.V.(*ssa.Call); ok && c.Call.StaticCallee() != nil && isCapitaliser(c.Call.StaticCallee()) {
						capFns[c.Call.StaticCallee()] = true
						return "cap"
					}
				}
				return ""
			}
			d, c := false, false
			for _, ev := range st.trace {
				holds := false
				switch ev.Kind {
				case "streq":
					s, has := st.env[ev.Args[2].key]
					holds = has && ((ev.Extra == "1" && s.Equal(single(1))) || (ev.Extra == "0" && s.Equal(single(0))))
					if ev.Args[2].K == TBoolConst {
						holds = ev.Args[2].Bool == (ev.Extra == "1")
					}
				case "strcmp":
					s, has := st.env[ev.Args[2].key]
					holds = has && s.Equal(single(0))
				default:
					continue
				}
				if !holds {
					continue
				}
				for _, pr := range [][2]*Term{{ev.Args[0], ev.Args[1]}, {ev.Args[1], ev.Args[0]}} {
					if !goName[pr[0].key] {
						continue
					}
					switch classify(pr[1]) {
					case "name":
						d = true
					case "cap":
						c = true
					}
				}
			}
			switch {
			case d:
				direct++
			case c:
				capd++
			default:
				bad++
				if badPos == "" {
					badPos = w.instrPos(ret)
				}
			}
		},
	})
	px.Run(ff, Env{})
	if px.Truncated {
		r.undecided(rule, key, w.pos(ff.Pos()), "path exploration truncated")
		return
	}
	ok := success > 0 && bad == 0 && direct > 0 && capd > 0
	fact := fmt.Sprintf("direct comparison=%v, capitalised comparison=%v (%d successful paths: %d by the wire name, %d by its capitalised form, %d without an exact equality of the returned field's name)", direct > 0, capd > 0, success, direct, capd, bad)
	if bad > 0 {
		fact += "; e.g. the return at " + badPos
	}
	r.add(rule, key, w.pos(ff.Pos()), ok, fact)
	var caps []*ssa.Function
	for f := range capFns {
		caps = append(caps, f)
	}
	sort.Slice(caps, func(i, j int) bool { return fnName(caps[i]) < fnName(caps[j]) })
	if len(caps) == 0 {
		w.ruleCaseHelper(r, rule, "capitalizeName", 'a', 'z', -32)
	}
	for _, f := range caps {
		w.ruleCaseHelperFn(r, rule, f, 'a', 'z', -32)
	}
}
