package main

// C01.R9 — a conversion loop fills every slot from the element of its own turn.
//
// Typed lists are decoded into []interface{} first and converted element by
// element into the destination type (ConvertSliceValueType and whatever a
// refactoring makes of it).  A conversion loop is a counted loop whose
// induction variable indexes both a source it reads (`src.Index(i)`, `src[i]`)
// and a destination it writes (`dst.Index(i).Set…(…)`, a setter helper handed
// `dst.Index(i)`, `dst[i] = …`), source and destination being different values
// fixed before the loop.  Obligations per such loop:
//   (a) every path of one iteration from the loop head back to it passes a
//       write of the destination slot — a kind case without its Set leaves
//       zeros in a []int32;
//   (b) the value written is computed in this iteration: its definition chain
//       inside the loop does not reach a loop-carried variable other than the
//       index — an item variable assigned on one branch only keeps the previous
//       element on the other.

import (
	"fmt"
	"strings"

	"golang.org/x/tools/go/ssa"
)

func stripIdx(v ssa.Value) ssa.Value {
	for {
		switch x := v.(type) {
		case *ssa.Convert:
			v = x.X
			continue
		case *ssa.ChangeType:
			v = x.X
			continue
		}
		return v
	}
}

func calleeName(c *ssa.CallCommon) string {
	if c.IsInvoke() {
		return c.Method.Name()
	}
	if sc := c.StaticCallee(); sc != nil {
		return sc.Name()
	}
	return ""
}

func (w *World) ruleConversionLoops(r *Report, rule string, min int) {
	n := 0
	for _, fn := range w.SrcFuncs() {
		for li, lp := range naturalLoops(fn) {
			// induction variable: integer header φ with a ± const back edge
			for _, in := range lp.header.Instrs {
				phi, ok := in.(*ssa.Phi)
				if !ok {
					break
				}
				ind := false
				for i, e := range phi.Edges {
					if lp.body[lp.header.Preds[i]] {
						if bo, ok := e.(*ssa.BinOp); ok && bo.X == ssa.Value(phi) {
							if _, isC := bo.Y.(*ssa.Const); isC {
								ind = true
							}
						}
					}
				}
				if !ind {
					continue
				}
				outside := func(v ssa.Value) bool {
					vi, ok := v.(ssa.Instruction)
					return !ok || vi.Block() == nil || !lp.body[vi.Block()]
				}
				// slot values: X.Index(i) calls / IndexAddr(X, i) with X fixed before the loop
				type slot struct {
					base ssa.Value
					val  ssa.Value
				}
				var slots []slot
				for b := range lp.body {
					for _, bi := range b.Instrs {
						switch x := bi.(type) {
						case *ssa.Call:
							if calleeName(&x.Call) == "Index" && len(x.Call.Args) == 2 && stripIdx(x.Call.Args[1]) == ssa.Value(phi) && outside(x.Call.Args[0]) {
								slots = append(slots, slot{x.Call.Args[0], x})
							}
						case *ssa.IndexAddr:
							if stripIdx(x.Index) == ssa.Value(phi) && outside(x.X) {
								slots = append(slots, slot{x.X, x})
							}
						}
					}
				}
				// classify: a slot is written (Set* on it, handed to a package function as the
				// first argument, Store through it) or read (anything else)
				written := map[ssa.Value][]ssa.Instruction{} // base -> writing instructions
				stored := map[ssa.Instruction]ssa.Value{}    // writing instruction -> value written
				read := map[ssa.Value]bool{}
				for _, s := range slots {
					for _, ref := range *s.val.Referrers() {
						switch x := ref.(type) {
						case *ssa.Call:
							nm := calleeName(&x.Call)
							switch {
							case strings.HasPrefix(nm, "Set") && len(x.Call.Args) >= 1 && x.Call.Args[0] == s.val && x.Call.StaticCallee() != nil && !w.inPkg(x.Call.StaticCallee()):
								written[s.base] = append(written[s.base], x)
								if len(x.Call.Args) > 1 {
									stored[x] = x.Call.Args[1]
								}
							case ((x.Call.StaticCallee() != nil && w.inPkg(x.Call.StaticCallee())) || (x.Call.StaticCallee() == nil && !x.Call.IsInvoke())) && len(x.Call.Args) >= 2 && x.Call.Args[0] == s.val && x.Call.Signature().Results().Len() == 0:
								// a setter of the package, or a setter chosen per element kind (function value)
								written[s.base] = append(written[s.base], x)
								stored[x] = x.Call.Args[1]
							default:
								read[s.base] = true
							}
						case *ssa.Store:
							if x.Addr == s.val {
								written[s.base] = append(written[s.base], x)
								stored[x] = x.Val
							}
						case *ssa.DebugRef:
						default:
							read[s.base] = true
						}
					}
				}
				var dst, src ssa.Value
				for b := range written {
					if !read[b] {
						dst = b
					}
				}
				for b := range read {
					if b != dst && written[b] == nil {
						src = b
					}
				}
				if dst == nil || src == nil {
					continue
				}
				n++
				key := fmt.Sprintf("%s · conversion loop #%d", fnName(fn), li+1)
				pos := w.instrPos(written[dst][0])
				// (a) every iteration path passes a write
				wblocks := map[*ssa.BasicBlock]bool{}
				for _, wi := range written[dst] {
					wblocks[wi.Block()] = true
				}
				bad := false
				seen := map[*ssa.BasicBlock]bool{}
				var walk func(b *ssa.BasicBlock)
				walk = func(b *ssa.BasicBlock) {
					if bad || seen[b] || wblocks[b] {
						return
					}
					seen[b] = true
					for _, s := range b.Succs {
						if s == lp.header {
							bad = true
							return
						}
						if lp.body[s] {
							walk(s)
						}
					}
				}
				if wblocks[lp.header] {
					bad = false
				} else {
					walk(lp.header)
				}
				r.add(rule, key+" · every turn writes its slot", pos, !bad, map[bool]string{
					false: fmt.Sprintf("every path of one iteration passes one of the %d writes of the destination slot", len(written[dst])),
					true:  "an iteration can return to the loop head without writing the destination slot: the element stays the zero value"}[bad])
				// (b) no stale value
				stale := ""
				for _, wi := range written[dst] {
					v := stored[wi]
					if v == nil {
						continue
					}
					vis := map[ssa.Value]bool{}
					var carried func(v ssa.Value, d int) ssa.Value
					carried = func(v ssa.Value, d int) ssa.Value {
						vi, ok := v.(ssa.Instruction)
						if !ok || vi.Block() == nil || !lp.body[vi.Block()] || vis[v] || d > 12 {
							return nil
						}
						vis[v] = true
						if p, ok := v.(*ssa.Phi); ok && p.Block() == lp.header {
							if p == phi {
								return nil
							}
							return p
						}
						for _, op := range vi.Operands(nil) {
							if *op != nil {
								if c := carried(*op, d+1); c != nil {
									return c
								}
							}
						}
						return nil
					}
					if c := carried(v, 0); c != nil {
						stale = fmt.Sprintf("the value written at %s depends on the loop-carried variable %s: on some path it is the item of an earlier iteration", w.instrPos(wi), carriedName(c))
					}
				}
				r.add(rule, key+" · the value written belongs to this turn", pos, stale == "", map[bool]string{true: "no value written reaches a loop-carried variable other than the index", false: stale}[stale == ""])
			}
		}
	}
	// no floor: a conversion whose counter lives in an iterator closure, or whose
	// writes go through a function value chosen elsewhere, is not an instance of
	// this (function-local) rule; the census says how many loops were decided
	_ = min
	if n == 0 {
		o := r.add(rule, "census", "-", true, "no counted loop reads a source slot and writes a destination slot by the same index in one function")
		o.Trivial = true
	}
}

func carriedName(v ssa.Value) string {
	if p, ok := v.(*ssa.Phi); ok && p.Comment != "" {
		return p.Comment
	}
	return v.Name()
}
