package main

// Library functions called through a function value on the path explorer.
//
// `put16 := binary.BigEndian.PutUint16 … put16(buf, v)`, `be32 :=
// binary.BigEndian.Uint32`, `unix, nanos := date.Unix, date.Nanosecond …
// unix()`, `conv := math.Float64frombits … conv(bits)`: the call names no
// static callee, but on the path the value called is one known library
// function (a plain function value, or the bound-method wrapper of a method
// value with the receiver it was bound to).  Such a call is the call of that
// function with the receiver put back in front of the operands: the pure-term
// builder (px.term) and the byte-sequence model (pxbytes.go byteCall) read it
// through libFuncValue, so the method value is the same getter / PutUintNN /
// UintNN as the call written out.

import (
	"strings"

	"golang.org/x/tools/go/ssa"
)

// libFuncValue: the library function a call through a function value invokes
// on this path and, for a method value, the term of the receiver it was bound
// to (nil for a plain function).  Nothing for static calls, interface calls,
// in-package functions and values that are not known on the path.
func (p *PX) libFuncValue(c *ssa.CallCommon, fr *pxFrame, st *pxState) (*ssa.Function, *Term) {
	if c.IsInvoke() {
		return nil, nil
	}
	if sc := c.StaticCallee(); sc != nil && len(sc.FreeVars) == 0 {
		return nil, nil // an ordinary static call (a call of a closure value names its function too)
	}
	if _, isB := c.Value.(*ssa.Builtin); isB {
		return nil, nil
	}
	ft := p.term(c.Value, fr, st)
	if ft == nil || ft.K != TLeaf {
		return nil, nil
	}
	switch v := ft.V.(type) {
	case *ssa.Function:
		if len(v.FreeVars) == 0 && !p.w.inPkg(v) && v.Synthetic == "" {
			return v, nil
		}
	case *ssa.MakeClosure:
		cl := p.closures[ft.key]
		if cl == nil || cl.fn.Synthetic == "" || !strings.HasSuffix(cl.fn.Name(), "$bound") || len(cl.binds) != 1 {
			return nil, nil
		}
		if m := p.w.throughWrapper(cl.fn); m != cl.fn && !p.w.inPkg(m) && m.Signature.Recv() != nil {
			return m, cl.binds[0]
		}
	}
	return nil, nil
}

// decidedIndex: the cell of a frame-local array designated by an index that is
// not written as a constant but has exactly one value on the path (`forms[tag -
// firstTag]` with the tag fixed, `parts[n-1]` with n known) is the cell of that
// constant: the store that filled it (`forms := [...]T{a, b}` stores at 0, 1)
// and this access meet under one key.
func (p *PX) decidedIndex(a, i *Term, st *pxState) *Term {
	if i == nil || i.K == TConst || a == nil || a.K != TLeaf {
		return i
	}
	if _, isLocal := a.V.(*ssa.Alloc); !isLocal {
		return i
	}
	s, _ := p.evalTerm(i, st)
	if s == nil || s.Card().Cmp(one) != 0 {
		return i
	}
	c := s.Min()
	return &Term{K: TConst, C: c, T: i.T, key: c.String()}
}
