package main

// C01.R11 — a pointer field whose pointee kind is dispatched on is allocated
// before its pointee is set.
//
// The encoder follows pointers: a *int32 field is written as an int (or as
// null when nil).  The struct-field dispatcher of the decoder therefore
// dispatches on the kind of the field's type with the pointers taken off — and
// must then store through a pointer it has made, because the fields of the
// freshly created instance are nil.  Roles by structure: a type unwrapper is a
// package function reflect.Type → reflect.Type that calls Elem in a loop; a
// value unwrapper the same over reflect.Value; it is allocating if it calls
// reflect.New.  A field dispatcher is a function on the decode path that calls
// at least three different scalar setters of package reflect (SetInt, SetUint,
// SetFloat, SetBool, SetString) on a Value derived from one reflect.Value
// parameter, and dispatches on a type obtained from that parameter's Type()
// through a type unwrapper.  Obligation per dispatcher: every scalar setter's
// receiver is derived from the parameter through an allocating unwrapper (or
// from a reflect.New made in the dispatcher).  Otherwise a pointer-to-scalar
// field reaches SetInt & co. as a (nil) pointer Value: reflect panics, and no
// struct with such a field can be decoded although it encodes.

import (
	"fmt"
	"sort"
	"strings"

	"golang.org/x/tools/go/ssa"
)

func (w *World) unwrapperRoles() (typeUnw, valUnw, allocating map[*ssa.Function]bool) {
	typeUnw, valUnw, allocating = map[*ssa.Function]bool{}, map[*ssa.Function]bool{}, map[*ssa.Function]bool{}
	for _, fn := range w.SrcFuncs() {
		if fn.Parent() != nil || fn.Signature.Recv() != nil || fn.Signature.Params().Len() != 1 || fn.Signature.Results().Len() != 1 {
			continue
		}
		pt, rt := typeStr(fn.Signature.Params().At(0).Type()), typeStr(fn.Signature.Results().At(0).Type())
		if pt != rt || (pt != "reflect.Type" && pt != "reflect.Value") {
			continue
		}
		elemInLoop, hasNew := false, false
		for _, lp := range naturalLoops(fn) {
			for b := range lp.body {
				for _, in := range b.Instrs {
					if c, ok := in.(*ssa.Call); ok && calleeName(&c.Call) == "Elem" {
						elemInLoop = true
					}
				}
			}
		}
		for _, b := range fn.Blocks {
			for _, in := range b.Instrs {
				if c, ok := in.(*ssa.Call); ok {
					if sc := c.Call.StaticCallee(); sc != nil && qualifiedFnName(sc) == "reflect.New" {
						hasNew = true
					}
				}
			}
		}
		if !elemInLoop {
			continue
		}
		if pt == "reflect.Type" {
			typeUnw[fn] = true
		} else {
			valUnw[fn] = true
			if hasNew {
				allocating[fn] = true
			}
		}
	}
	return
}

func (w *World) rulePointerFieldsAllocated(r *Report, rule string) {
	typeUnw, valUnw, allocating := w.unwrapperRoles()
	reach := w.reachPkg(w.decodeEntryPoints()...)
	scalarSetters := map[string]bool{"SetInt": true, "SetUint": true, "SetFloat": true, "SetBool": true, "SetString": true}
	n := 0
	for _, fn := range w.SrcFuncs() {
		if !reach[fn] || fn.Parent() != nil {
			continue
		}
		for _, p := range fn.Params {
			if typeStr(p.Type()) != "reflect.Value" {
				continue
			}
			// values derived from p: p, φ, results of value unwrappers applied to derived values
			via := map[ssa.Value]string{p: "direct"} // how: direct | unwrapped | allocated
			for changed := true; changed; {
				changed = false
				for _, b := range fn.Blocks {
					for _, in := range b.Instrs {
						v, ok := in.(ssa.Value)
						if !ok || via[v] != "" {
							continue
						}
						switch x := in.(type) {
						case *ssa.Phi:
							for _, e := range x.Edges {
								if h := via[e]; h != "" {
									via[v] = h
									changed = true
								}
							}
						case *ssa.Call:
							sc := x.Call.StaticCallee()
							if sc != nil && valUnw[sc] && len(x.Call.Args) == 1 && via[x.Call.Args[0]] != "" {
								if allocating[sc] {
									via[v] = "allocated"
								} else {
									via[v] = "unwrapped"
								}
								changed = true
							}
						}
					}
				}
			}
			setters := map[string][]*ssa.Call{}
			dispatchesUnwrapped := false
			for _, b := range fn.Blocks {
				for _, in := range b.Instrs {
					c, ok := in.(*ssa.Call)
					if !ok {
						continue
					}
					sc := c.Call.StaticCallee()
					if sc == nil {
						continue
					}
					nm := sc.Name()
					if scalarSetters[nm] && strings.HasPrefix(qualifiedFnName(sc), "(reflect.Value).") && len(c.Call.Args) >= 1 && via[c.Call.Args[0]] != "" {
						setters[nm] = append(setters[nm], c)
					}
					if typeUnw[sc] && len(c.Call.Args) == 1 {
						if tc, ok := c.Call.Args[0].(*ssa.Call); ok && calleeName(&tc.Call) == "Type" && len(tc.Call.Args) == 1 && via[tc.Call.Args[0]] != "" {
							dispatchesUnwrapped = true
						}
					}
				}
			}
			if len(setters) < 3 || !dispatchesUnwrapped {
				continue
			}
			n++
			var bad []string
			total := 0
			var names []string
			for nm := range setters {
				names = append(names, nm)
			}
			sort.Strings(names)
			for _, nm := range names {
				for _, c := range setters[nm] {
					total++
					if via[c.Call.Args[0]] != "allocated" {
						bad = append(bad, fmt.Sprintf("%s at %s", nm, w.instrPos(c)))
					}
				}
			}
			key := fnName(fn) + " · pointer fields are allocated before their pointee is set"
			if len(bad) == 0 {
				r.add(rule, key, w.pos(fn.Pos()), true, fmt.Sprintf("all %d scalar setters store through a value unwrapped by an allocating helper", total))
			} else {
				nb := len(bad)
				if len(bad) > 4 {
					bad = append(bad[:4], "…")
				}
				r.add(rule, key, w.pos(fn.Pos()), false, fmt.Sprintf("the dispatch is on the field's type with the pointers taken off, but %d of %d scalar setters (%s) are called on the field value unwrapped without allocating: a pointer-to-scalar field of the fresh instance is nil, the setter is called on a pointer Value and panics — a struct with a *int32 / *string / *bool field encodes but never decodes", nb, total, strings.Join(bad, ", ")))
			}
		}
	}
	// no floor: a dispatcher written as a table of readers is not an instance
	if n == 0 {
		o := r.add(rule, "census", "-", true, "no function dispatches scalar setters on a parameter's pointer-unwrapped type")
		o.Trivial = true
	}
}
