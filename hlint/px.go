package main

// px — path-sensitive, interprocedural exploration over the ISet domain.
//
// The intraprocedural fixpoint of flow.go loses every relation that crosses a
// function boundary, so a behaviour-preserving "extract helper" refactoring
// made rules that look inside one function blind.  px walks the CFG path by
// path (no joins), keeps one environment of facts per path, resolves φ-nodes
// by the edge actually taken, and steps INTO in-package callees (parameters
// are substituted by the caller's argument terms, so facts are shared across
// frames and relations such as "form == compact ⇒ n ≤ 7" survive a helper
// that returns `form`).  Branches whose condition is decided by the facts are
// followed without forking; undecided revisits of a block are capped (loops
// are unrolled once), decided ones are not (loops over constant bounds unroll
// completely).  No solver is involved: the domain is the same interval-set
// domain, only applied per path.

import (
	"fmt"
	"go/constant"
	"go/token"
	"go/types"
	"math/big"
	"sort"
	"strings"
	"time"

	"golang.org/x/tools/go/ssa"
)

type pxFrame struct {
	fn     *ssa.Function
	id     string // "" for the root, "c3/" … for inlined frames
	subst  map[*ssa.Parameter]*Term
	parent *pxFrame
	site   *ssa.Call
	depth  int
	// a function literal stepped into: the terms its free variables were bound to
	// when the closure was made, and (for variables captured by reference) the
	// cell of the creating frame they stand for
	fvTerm map[*ssa.FreeVar]*Term
	fvCell map[*ssa.FreeVar]string
	clo    *pxClosure // the closure record the frame was entered through (nil: a plain function)
	// the frame was entered through a function value (not a static call)
	viaValue bool
}

// pxClosure: a function value made on the current exploration.
type pxClosure struct {
	fn    *ssa.Function
	binds []*Term  // binding terms at creation
	cells []string // per binding: the local cell it is the address of ("" if none)
	// the instruction that made it and the frame that executed it (the values
	// behind the bindings: byte sequences of captured buffers, pxbytes.go)
	mc    *ssa.MakeClosure
	maker *pxFrame
}

type pxState struct {
	env    Env
	vals   map[string]*Term    // path-bound values: φ, inlined call results, keyed by frame id + register
	bseq   map[string]*ByteSeq // symbolic []byte values
	visits map[string]int
	steps  *int
	trace  []pxEvent
}

// pxEvent: something a rule asked to remember along the path.
type pxEvent struct {
	Kind  string
	Call  *ssa.Call
	Frame *pxFrame
	Args  []*Term
	Orig  []*Term // per argument: the recorded call it is the result of (or nil)
	Env   Env
	Pos   string
	Extra string
}

func (s *pxState) clone() *pxState {
	c := &pxState{env: s.env.clone(), vals: make(map[string]*Term, len(s.vals)), bseq: make(map[string]*ByteSeq, len(s.bseq)), visits: make(map[string]int, len(s.visits)), steps: s.steps}
	c.trace = append([]pxEvent(nil), s.trace...)
	for k, v := range s.vals {
		c.vals[k] = v
	}
	c.bseq = cloneBytes(s.bseq)
	for k, v := range s.visits {
		c.visits[k] = v
	}
	return c
}

// pxHooks: what a rule wants to see.
type pxHooks struct {
	// onInstr is called for every instruction before it is interpreted.
	// Returning false for a call instruction prevents stepping into the callee.
	onInstr func(fr *pxFrame, in ssa.Instruction, st *pxState) bool
	// onReturn is called when the ROOT frame returns.
	onReturn func(fr *pxFrame, ret *ssa.Return, results []*Term, st *pxState)
	// onBlock is called when a block is entered.
	onBlock func(fr *pxFrame, b *ssa.BasicBlock, st *pxState)
	// inline decides whether a static in-package callee is stepped into
	// (nil: every package function with a body, depth < 4, not on the stack).
	inline func(fr *pxFrame, callee *ssa.Function) bool
	// havoc decides whether a loop is summarised instead of unrolled: its header
	// φ-nodes become fresh symbols (bounded below by their initial value when they
	// only count up), the body is explored once and back edges are dropped, so
	// the exits are reached with facts that hold for ANY iteration.  Meant for
	// search loops without events (nil: never).
	havoc func(fr *pxFrame, lp *loopInfo) bool
	// prune ends the current path silently when a block is entered (the rule has
	// already decided everything it wants to know about paths with this prefix).
	prune func(fr *pxFrame, b *ssa.BasicBlock, st *pxState) bool
}

// pxWallBudget: the longest one exploration may run.
const pxWallBudget = 90 * time.Second

type PX struct {
	started   time.Time
	w         *World
	hooks     pxHooks
	f         *Flow // evaluator with a term hook
	cur       *pxState
	curFrame  *pxFrame
	paths     int
	Truncated bool
	maxPaths  int
	maxSteps  int
	seq       int
	loops     map[*ssa.Function][]*loopInfo
	havocked  map[string]*loopInfo // frame id + header index -> loop summarised on some path
	modCache  map[*ssa.Function]map[string]bool
	extraPure map[string]bool // further callees whose results are functions of their arguments for this exploration
	// header φ registers that keep their back-edge value in the second generic iteration of a summarised loop
	rememberedNow map[string]bool
	// views: slices of slices / strings are terms view(root, lo, hi) with symbolic
	// bounds, and len of a view is hi-lo (see pxviews.go); off by default.
	views bool
	// function values made along the exploration, by the key of their term (pxfuncs.go)
	closures map[string]*pxClosure
}

func (w *World) newPX(h pxHooks) *PX {
	p := &PX{w: w, hooks: h, maxPaths: 4000, maxSteps: 400000}
	p.curFrame = &pxFrame{subst: map[*ssa.Parameter]*Term{}}
	p.cur = &pxState{env: Env{}, vals: map[string]*Term{}, bseq: map[string]*ByteSeq{}, visits: map[string]int{}}
	p.f = &Flow{w: w, terms: map[ssa.Value]*Term{}}
	p.f.termHook = func(v ssa.Value) *Term { return p.term(v, p.curFrame, p.cur) }
	return p
}

// Run explores fn from its entry with the initial facts ctx (keys of root
// parameters are "<p:name>").
func (p *PX) Run(fn *ssa.Function, ctx Env) {
	if fn.Blocks == nil {
		return
	}
	steps := 0
	st := &pxState{env: Env{}, vals: map[string]*Term{}, bseq: map[string]*ByteSeq{}, visits: map[string]int{}, steps: &steps}
	for k, v := range ctx {
		st.env[k] = v
	}
	root := &pxFrame{fn: fn, subst: map[*ssa.Parameter]*Term{}}
	p.block(root, fn.Blocks[0], nil, st, func(results []*Term, ret *ssa.Return, st2 *pxState) {
		p.paths++
		if p.hooks.onReturn != nil {
			p.hooks.onReturn(root, ret, results, st2)
		}
	})
}

func (p *PX) reg(fr *pxFrame, v ssa.Value) string { return fr.id + regName(v) }

// term builds the path-level term of v in frame fr.
func (p *PX) term(v ssa.Value, fr *pxFrame, st *pxState) *Term {
	switch x := v.(type) {
	case *ssa.Const:
		if x.Value == nil {
			return &Term{K: TLeaf, V: v, T: v.Type(), key: "nil:" + v.Type().String()}
		}
		switch x.Value.Kind() {
		case constant.Bool:
			b := constant.BoolVal(x.Value)
			return &Term{K: TBoolConst, Bool: b, T: v.Type(), key: fmt.Sprintf("%v", b)}
		case constant.Int:
			if bv, ok := new(big.Int).SetString(x.Value.ExactString(), 10); ok {
				return &Term{K: TConst, C: bv, T: v.Type(), key: bv.String()}
			}
		}
		return &Term{K: TLeaf, V: v, T: v.Type(), key: "const:" + x.Value.ExactString()}
	case *ssa.Parameter:
		if t, ok := fr.subst[x]; ok {
			return t
		}
		return &Term{K: TLeaf, V: v, T: v.Type(), key: "<" + fr.id + "p:" + x.Name() + ">"}
	case *ssa.FreeVar:
		// inside a function literal that was stepped into: the value captured when it was
		// made on the path, or — for a closure made by package initialisation and read
		// from a frozen table (pxconc.go) — the concrete value of the binding
		if t, ok := fr.fvTerm[x]; ok && t != nil {
			return t
		}
	case *ssa.Function:
		return fnTerm(x)
	case *ssa.Global:
		if t := p.roGlobalTerm(x); t != nil {
			return t
		}
	case *ssa.FieldAddr:
		if t := p.roFieldAddr(p.term(x.X, fr, st), x.Field, v.Type()); t != nil {
			return t
		}
	case *ssa.Phi:
		if t, ok := st.vals[p.reg(fr, v)]; ok {
			return t
		}
	case *ssa.BinOp:
		a, b := p.term(x.X, fr, st), p.term(x.Y, fr, st)
		// x == nil / x != nil for a value that cannot be nil: a function value known on
		// this path, an address, a concrete value boxed into an interface (`return
		// newCodecError(…)` from a function stepped into; Go semantics) — pxro.go knownNonNil;
		// a concrete value read from frozen init-time memory (nil or not) — pxconc.go
		if t := nilCompare(x.Op, a, b, v.Type()); t != nil {
			return t
		}
		if t := concNilCmp(x.Op, a, b, v.Type()); t != nil {
			return t
		}
		// (x >> a) >> b = x >> (a+b) for constant shifts of the same signedness (bits >>= 8 in a loop)
		if x.Op == token.SHR && b.K == TConst && a.K == TBin && a.Op == token.SHR && a.B.K == TConst && types.Identical(a.T, v.Type()) {
			sum := new(big.Int).Add(a.B.C, b.C)
			nb := &Term{K: TConst, C: sum, T: b.T, key: sum.String()}
			a, b = a.A, nb
		}
		// x - x is 0 and x - (x - c) is c, whatever x (modular arithmetic): `at := total - left`
		// with left counting down from total
		if x.Op == token.SUB && a.K != TConst {
			if _, _, isInt := intTypeInfo(p.w, v.Type()); isInt {
				if a.key == b.key {
					return zeroTerm(v.Type())
				}
				if b.K == TBin && b.Op == token.SUB && b.B.K == TConst && b.A.key == a.key && types.Identical(b.T, v.Type()) {
					return &Term{K: TConst, C: b.B.C, T: v.Type(), key: b.B.C.String()}
				}
			}
		}
		// (y + c1) - c2 and (y - c1) + c2 with c1 == c2 is y (len(append(s, x)) - 1)
		if (x.Op == token.SUB || x.Op == token.ADD) && b.K == TConst && a.K == TBin && a.B.K == TConst && a.B.C.Cmp(b.C) == 0 &&
			((x.Op == token.SUB && a.Op == token.ADD) || (x.Op == token.ADD && a.Op == token.SUB)) && types.Identical(a.T, v.Type()) {
			return a.A
		}
		t := &Term{K: TBin, Op: x.Op, A: a, B: b, T: v.Type(), key: "(" + a.key + " " + x.Op.String() + " " + b.key + ")"}
		if a.K == TConst && b.K == TConst {
			// fold: both operands are constants on this path
			switch x.Op {
			case token.EQL, token.NEQ, token.LSS, token.LEQ, token.GTR, token.GEQ:
				c := a.C.Cmp(b.C)
				r := map[token.Token]bool{token.EQL: c == 0, token.NEQ: c != 0, token.LSS: c < 0, token.LEQ: c <= 0, token.GTR: c > 0, token.GEQ: c >= 0}[x.Op]
				return &Term{K: TBoolConst, Bool: r, T: v.Type(), key: fmt.Sprintf("%v", r)}
			default:
				var fl evalFlags
				if s := p.f.evalStruct(t, Env{}, &fl); s != nil && s.Card().Cmp(one) == 0 {
					c := s.Min()
					return &Term{K: TConst, C: c, T: v.Type(), key: c.String()}
				}
			}
		}
		return t
	case *ssa.UnOp:
		switch x.Op {
		case token.NOT:
			a := p.term(x.X, fr, st)
			return &Term{K: TNot, A: a, T: v.Type(), key: "!" + a.key}
		case token.SUB:
			a := p.term(x.X, fr, st)
			z := &Term{K: TConst, C: new(big.Int), T: v.Type(), key: "0"}
			return &Term{K: TBin, Op: token.SUB, A: z, B: a, T: v.Type(), key: "(0 - " + a.key + ")"}
		case token.MUL:
			// a load executed on this path was bound when it was executed
			if t, ok := st.vals[p.reg(fr, v)]; ok {
				return t
			}
			// a read out of a constant table (consttab.go)
			if t := p.w.ctabTermOf(v, func(iv ssa.Value) *Term { return p.term(iv, fr, st) }); t != nil {
				return t
			}
			// a cell of a local array used as a table (pxlocaltab.go)
			if t := p.localTabLoad(x.X, fr, st); t != nil {
				return t
			}
			// a load from a read-only package table: what the initialiser stored there (roinit.go)
			if g, ok := x.X.(*ssa.Global); ok {
				if t := p.roGlobalSlice(g, v.Type()); t != nil {
					return t
				}
			}
			switch x.X.(type) {
			case *ssa.Global, *ssa.FieldAddr, *ssa.IndexAddr, *ssa.Parameter, *ssa.Phi, *ssa.Call, *ssa.Extract, *ssa.FreeVar:
				if kind, root, path, ok := roParts(p.term(x.X, fr, st)); ok && kind == "ro&" {
					if t := p.roLoadTerm(root, path, fr, st); t != nil {
						return t
					}
				}
			}
			// memory frozen since package initialisation that the mechanisms above do not
			// read (tables filled by init functions, closures with bindings, pointers
			// into tables): the value the interpreter of the initialiser found (pxconc.go)
			if t := p.concLoad(x.X, v.Type(), fr, st); t != nil {
				return t
			}
			if fa, ok := x.X.(*ssa.FieldAddr); ok {
				// a field of a local struct variable (also one captured by the function literal
				// being explored): the value last stored there on this path (directly, or as a
				// component of a whole-struct assignment), unless the field may have been
				// written since through another pointer; failing that the component of the
				// value last stored into the whole variable
				if cell, isCell := p.cellOf(fa.X, fr); isCell {
					fk := fmt.Sprintf("%s.%d", strings.TrimSuffix(cell, "*"), fa.Field)
					if t, ok := st.vals[fk]; ok {
						if p.fieldVerKey(fieldID(fa), st) == p.localFieldVer(fk, st) || p.w.purelyLocalAddr(fa.X) {
							return t
						}
					} else if whole, ok := st.vals[cell]; ok {
						if t := p.componentOf(whole, fa.Field, fr, st); t != nil {
							return t
						}
					}
				}
				if t := p.arrayCellLoad(fa, fr, st); t != nil {
					return t // a row of a private local array of structs (pxarrcell.go)
				}
				key := p.fieldLoadKey(fa, fr, st)
				if t, ok := st.vals["mem:"+key]; ok {
					return t
				}
				return &Term{K: TLeaf, V: v, T: v.Type(), key: key}
			}
			if g, ok := x.X.(*ssa.Global); ok {
				if c, ok := p.w.globalInit(g); ok {
					return &Term{K: TConst, C: c, T: v.Type(), key: c.String()}
				}
			}
			// a variable captured by reference, read inside the function literal: the
			// value last stored in the creating frame's cell on this path
			if _, ok := x.X.(*ssa.FreeVar); ok {
				if cell, ok := p.cellOf(x.X, fr); ok {
					if t, ok := st.vals[cell]; ok {
						return t
					}
					return &Term{K: TLeaf, V: v, T: v.Type(), key: "<*" + strings.TrimSuffix(cell, "*") + ">"}
				}
			}
			// a local array of structs only accessed by constant index (pxlocalarray.go):
			// the whole array as an aggregate of what was stored, or one field of an element
			if al, ok := x.X.(*ssa.Alloc); ok {
				if t := p.localArrayValue(al, fr, st); t != nil {
					return t
				}
			}
			if t := p.localArrayFieldLoad(x.X, fr, st); t != nil {
				return t
			}
			// load of a local variable: the value last stored on this path
			if al, ok := x.X.(*ssa.Alloc); ok {
				if t, ok := st.vals[p.reg(fr, al)+"*"]; ok {
					return t
				}
				// a local struct built field by field (composite literal): a tuple of
				// the values stored into its fields on this path
				if stt, ok := x.Type().Underlying().(*types.Struct); ok && stt.NumFields() > 0 && stt.NumFields() <= 8 {
					var args []*Term
					var keys []string
					any := false
					for i := 0; i < stt.NumFields(); i++ {
						ft, ok := st.vals[fmt.Sprintf("%s.%d", p.reg(fr, al), i)]
						if ok {
							any = true
						} else {
							ft = &Term{K: TLeaf, T: stt.Field(i).Type(), key: "zero:" + types.TypeString(stt.Field(i).Type(), nil)}
							// (a boolean / integer field the literal leaves out is false / 0:
							// `listHeader{tag: t, hasLen: true}` has hasType == false)
							if z := zeroOf(stt.Field(i).Type()); z != nil && (z.K == TBoolConst || z.K == TConst) {
								ft = z
							}
						}
						args = append(args, ft)
						keys = append(keys, ft.key)
					}
					if any {
						return &Term{K: TPure, Name: "struct", Args: args, T: x.Type(), key: "struct{" + strings.Join(keys, ",") + "}"}
					}
				}
				// a local array loaded as a whole (`range` over an array of parts): the
				// cells stored on this path (pxarray.go)
				if t := p.localArrayValueD(al, fr, st); t != nil {
					return t
				}
			}
			// *(*T)(unsafe.Pointer(&cell)) with T an integer type of the cell's width:
			// the bits of the cell read as a T — the same-width conversion
			if cv, ok := x.X.(*ssa.Convert); ok {
				if cv2, ok := cv.X.(*ssa.Convert); ok {
					if al, ok := cv2.X.(*ssa.Alloc); ok {
						if stored, ok := st.vals[p.reg(fr, al)+"*"]; ok {
							fb, _, ok1 := intTypeInfo(p.w, stored.T)
							tb, _, ok2 := intTypeInfo(p.w, v.Type())
							if ok1 && ok2 && fb == tb {
								return &Term{K: TConv, A: stored, V: v, T: v.Type(), key: "conv:" + types.TypeString(v.Type(), nil) + "(" + stored.key + ")"}
							}
						}
					}
				}
			}
			if ia, ok := x.X.(*ssa.IndexAddr); ok {
				// a whole row of a private local array of structs (pxarrcell.go)
				if t := p.arrayRowLoad(ia, fr, st); t != nil {
					return t
				}
				// element of a package-level lookup table that is constant after initialisation
				if t := p.tableLoad(ia, v.Type(), fr, st); t != nil {
					return t
				}
				// element of a symbolic byte sequence
				if bs := p.byteSeqOf(ia.X, fr, st); bs != nil {
					if it := p.term(ia.Index, fr, st); it.K == TConst && it.C.IsInt64() {
						if i := int(it.C.Int64()); i >= 0 && i < len(bs.Oct) && bs.Oct[i] != nil {
							return bs.Oct[i]
						}
					}
				}
				// element of another slice: the value last stored there on this path
				at := p.term(ia, fr, st)
				if t, ok := st.vals["mem:"+at.key]; ok {
					return t
				}
				if !isByteSlice(ia.X.Type()) {
					if _, isArr := isByteArrayPtr(ia.X.Type()); !isArr {
						return &Term{K: TLeaf, V: v, T: v.Type(), key: "<ld:" + at.key + ">"}
					}
				}
			}
		}
	case *ssa.Field:
		if t := p.w.ctabTermOf(v, func(iv ssa.Value) *Term { return p.term(iv, fr, st) }); t != nil {
			return t
		}
		a := p.term(x.X, fr, st)
		// a field of a struct value whose components are known on this path (built
		// field by field, a row of a read-only table copied by value, a concrete
		// aggregate read from frozen memory)
		if t := p.componentOf(a, x.Field, fr, st); t != nil {
			return t
		}
		return &Term{K: TLeaf, V: v, T: v.Type(), key: fmt.Sprintf("fld(%s,.%d)", a.key, x.Field)}
	case *ssa.IndexAddr:
		a, i := p.term(x.X, fr, st), p.term(x.Index, fr, st)
		if isPrefixTerm(a) {
			a = a.Args[0] // an element of arr[:k] is the element of arr
		}
		if t := p.roIndexAddr(a, i, v.Type()); t != nil {
			return t
		}
		i = p.decidedIndex(a, i, st)
		return &Term{K: TLeaf, V: v, T: v.Type(), key: "idx(" + a.key + "," + i.key + ")"}
	case *ssa.Convert:
		a := p.term(x.X, fr, st)
		t := &Term{K: TConv, A: a, V: v, T: v.Type(), key: "conv:" + types.TypeString(v.Type(), nil) + "(" + a.key + ")"}
		if a.K == TConst {
			var fl evalFlags
			if s := p.f.evalStruct(t, Env{}, &fl); s != nil && s.Card().Cmp(one) == 0 {
				c := s.Min()
				return &Term{K: TConst, C: c, T: v.Type(), key: c.String()}
			}
		}
		return t
	case *ssa.ChangeType:
		a := p.term(x.X, fr, st)
		if _, _, ok := intTypeInfo(p.w, v.Type()); ok {
			t := &Term{K: TConv, A: a, T: v.Type(), key: "conv:" + types.TypeString(v.Type(), nil) + "(" + a.key + ")"}
			if a.K == TConst {
				var fl evalFlags
				if s := p.f.evalStruct(t, Env{}, &fl); s != nil && s.Card().Cmp(one) == 0 {
					c := s.Min()
					return &Term{K: TConst, C: c, T: v.Type(), key: c.String()}
				}
			}
			return t
		}
		return a
	case *ssa.MakeInterface:
		// a boxed boolean / integer keeps its value term (return true / return tag == 'T')
		if b, ok := x.X.Type().Underlying().(*types.Basic); ok && b.Info()&(types.IsBoolean|types.IsInteger) != 0 {
			return p.term(x.X, fr, st)
		}
	case *ssa.Index:
		if a := p.term(x.X, fr, st); (a.K == TPure && (a.Name == "roval" || a.Name == "array")) || a.CV != nil {
			if i := p.term(x.Index, fr, st); i.K == TConst && i.C.IsInt64() {
				if t := p.componentOf(a, int(i.C.Int64()), fr, st); t != nil {
					return t
				}
			}
		}
		if b, ok := x.X.Type().Underlying().(*types.Basic); ok && b.Info()&types.IsString != 0 {
			a, i := p.term(x.X, fr, st), p.term(x.Index, fr, st)
			return &Term{K: TPure, Name: "strindex", Args: []*Term{a, i}, T: v.Type(), key: "idx(" + a.key + "," + i.key + ")"}
		}
		if t := p.w.ctabTermOf(v, func(iv ssa.Value) *Term { return p.term(iv, fr, st) }); t != nil {
			return t
		}
	case *ssa.Slice:
		if !isByteSlice(x.Type()) {
			if t := p.roSlice(p.term(x.X, fr, st), x, fr, st); t != nil {
				return t
			}
		}
		if p.views {
			return p.sliceView(x, fr, st)
		}
		// `arr[:]` of a local array (a composite literal of slices / strings / structs):
		// the same cells as the array, so element stores and loads meet under one key
		if al, ok := wholeLocalArray(x); ok {
			return p.term(al, fr, st)
		}
		// `arr[:k]`: the first k cells of the array (pxlocalarray.go)
		if al, ok := prefixOfLocalArray(x); ok && !p.views {
			return p.prefixTerm(x, al, fr, st)
		}
	case *ssa.Call:
		if t, ok := st.vals[p.reg(fr, v)]; ok {
			return t
		}
		c := x.Common()
		if b, ok := c.Value.(*ssa.Builtin); ok && b.Name() == "len" && len(c.Args) == 1 {
			if bs := p.byteSeqOf(c.Args[0], fr, st); bs != nil && !bs.Open {
				n := big.NewInt(int64(len(bs.Oct)))
				return &Term{K: TConst, C: n, T: v.Type(), key: n.String()}
			}
			if ms, ok := c.Args[0].(*ssa.MakeSlice); ok {
				return p.term(ms.Len, fr, st)
			}
			a := p.term(c.Args[0], fr, st)
			// a slice made on this path and carried here by a variable cell (a captured
			// `fldList` assigned by one closure, measured by the next): the length it was made
			// with — a slice value never changes its length
			if _, isMk := a.V.(*ssa.MakeSlice); isMk && a.K == TLeaf && !p.views {
				if ml, ok := st.vals["mklenx:"+a.key]; ok {
					return ml
				}
			}
			if isPrefixTerm(a) {
				return a.Args[1] // len(arr[:k]) = k
			}
			if nc, ok := a.V.(*ssa.Const); ok && a.K == TLeaf && nc.Value == nil {
				// len of the nil slice / map handed down as an argument (`pack(tag, 0, nil)`)
				switch a.T.Underlying().(type) {
				case *types.Slice, *types.Map:
					return &Term{K: TConst, C: new(big.Int), T: v.Type(), key: "0"}
				}
			}
			if al, ok := a.V.(*ssa.Alloc); ok && a.K == TLeaf && !p.views {
				if n, ok := localArrayLen(al); ok && isSliceOrArrayPtr(c.Args[0].Type()) {
					nb := big.NewInt(n)
					return &Term{K: TConst, C: nb, T: v.Type(), key: nb.String()}
				}
			}
			if t := p.concLen(a, v.Type()); t != nil {
				return t
			}
			if ml, ok := st.vals["mklen:"+a.key]; ok && (p.views || ml.K == TConst) {
				return ml // a slice made on this path: the length it was made with
			}
			return p.lenTerm(a, v.Type())
		}
		if b, ok := c.Value.(*ssa.Builtin); ok && b.Name() == "append" && len(c.Args) == 2 && !isByteSlice(v.Type()) {
			// append(s, k elements): its length is len(s)+k
			if sl, ok := c.Args[1].(*ssa.Slice); ok && sl.Low == nil && sl.High == nil {
				if al, ok := sl.X.(*ssa.Alloc); ok {
					if pt, ok := al.Type().Underlying().(*types.Pointer); ok {
						if at, ok := pt.Elem().Underlying().(*types.Array); ok {
							a := p.term(c.Args[0], fr, st)
							kk := big.NewInt(at.Len())
							return &Term{K: TPure, Name: "append", Args: []*Term{a, {K: TConst, C: kk, T: types.Typ[types.Int], key: kk.String()}}, V: v, T: v.Type(), key: fmt.Sprintf("append(%s,%d)", a.key, at.Len())}
						}
					}
				}
			}
		}
		name := ""
		if c.IsInvoke() {
			name = "(" + types.TypeString(c.Value.Type(), func(p *types.Package) string { return p.Name() }) + ")." + c.Method.Name()
		} else if sc := c.StaticCallee(); sc != nil {
			name = qualifiedFnName(sc)
		}
		// a library function called through a function value known on the path (a method
		// value `be16 := binary.BigEndian.Uint16`, `unix := date.Unix`; pxlibfv.go): the
		// same call with the bound receiver put back in front
		var fvRecv *Term
		cargs := c.Args
		if sc := c.StaticCallee(); !c.IsInvoke() && (sc == nil || len(sc.FreeVars) > 0) {
			if lf, recv := p.libFuncValue(c, fr, st); lf != nil {
				name, fvRecv = qualifiedFnName(lf), recv
				if recv != nil {
					cargs = append([]ssa.Value{nil}, c.Args...)
				}
			}
		}
		// binary.BigEndian.UintNN over a buffer whose octets are known terms
		if n := map[string]int{"(encoding/binary.bigEndian).Uint16": 2, "(binary.bigEndian).Uint16": 2, "(encoding/binary.bigEndian).Uint32": 4, "(binary.bigEndian).Uint32": 4, "(encoding/binary.bigEndian).Uint64": 8, "(binary.bigEndian).Uint64": 8}[name]; n > 0 && len(cargs) == 2 {
			if bs := p.byteSeqOf(cargs[1], fr, st); bs != nil && len(bs.Oct) >= n {
				if t := beTerm(bs.Oct[:n], v.Type()); t != nil {
					return t
				}
			}
		}
		// a call through a method value of a library method (`size := vv.Len` … `size()`)
		// is the call of the method on the bound receiver (pxmethodval.go)
		var boundRecv *Term
		if name == "" {
			if m, recv := p.boundLibMethod(x, fr, st); m != nil {
				name, boundRecv = qualifiedFnName(m), recv
			}
		}
		// a pure getter called through a method value known on this path (`locate :=
		// target.Pointer; … locate()`): the same pure term as `target.Pointer()`, the
		// receiver being the value bound when the method value was made (pxfuncs.go)
		if name == "" && !c.IsInvoke() {
			if _, isB := c.Value.(*ssa.Builtin); !isB {
				if fn, _, recv := p.funcValueCallee(x, fr, st); fn != nil && recv != nil {
					if n := qualifiedFnName(fn); pureMethods[n] || p.extraPure[n] {
						name, boundRecv = n, recv
					}
				}
			}
		}
		if pureMethods[name] || p.extraPure[name] {
			var args []*Term
			var keys []string
			if c.IsInvoke() {
				a := p.term(c.Value, fr, st)
				args = append(args, a)
				keys = append(keys, a.key)
			}
			if boundRecv != nil {
				args = append(args, boundRecv)
				keys = append(keys, boundRecv.key)
			}
			if fvRecv != nil {
				args = append(args, fvRecv)
				keys = append(keys, fvRecv.key)
			}
			for _, a := range c.Args {
				ta := p.term(a, fr, st)
				args = append(args, ta)
				keys = append(keys, ta.key)
			}
			return &Term{K: TPure, Name: name, Args: args, T: v.Type(), key: "pure:" + name + "(" + strings.Join(keys, ",") + ")"}
		}
	case *ssa.Extract:
		if t, ok := st.vals[p.reg(fr, x.Tuple)+fmt.Sprintf("#%d", x.Index)]; ok {
			return t
		}
		a := p.term(x.Tuple, fr, st)
		return &Term{K: TLeaf, V: v, T: v.Type(), key: fmt.Sprintf("<x#%d%s>", x.Index, a.key)}
	}
	return &Term{K: TLeaf, V: v, T: v.Type(), key: "<" + p.reg(fr, v) + p.iterTag(fr, v, st) + ">"}
}

// iterTag distinguishes the values a register takes in successive executions
// of its block on one path (loop iterations): "" the first time, 'n after.
func (p *PX) iterTag(fr *pxFrame, v ssa.Value, st *pxState) string {
	in, ok := v.(ssa.Instruction)
	if !ok || in.Block() == nil {
		return ""
	}
	if n := st.visits[fmt.Sprintf("x:%s%d", fr.id, in.Block().Index)]; n > 1 {
		return fmt.Sprintf("'%d", n)
	}
	return ""
}

// eval evaluates v on the current path.
func (p *PX) eval(v ssa.Value, fr *pxFrame, st *pxState) (ISet, evalFlags) {
	p.cur, p.curFrame = st, fr
	return p.f.Eval(p.term(v, fr, st), st.env)
}

func (p *PX) evalTerm(t *Term, st *pxState) (ISet, evalFlags) {
	if st.vals == nil {
		st.vals = map[string]*Term{}
	}
	if st.bseq == nil {
		st.bseq = map[string]*ByteSeq{}
	}
	p.cur = st
	return p.f.Eval(t, st.env)
}

type pxCont func(results []*Term, ret *ssa.Return, st *pxState)

func (p *PX) defaultInline(fr *pxFrame, callee *ssa.Function) bool {
	if callee.Blocks == nil || !p.w.inPkg(callee) || fr.depth >= 5 {
		return false
	}
	for f := fr; f != nil; f = f.parent {
		if f.fn == callee {
			return false
		}
	}
	return true
}

// block interprets block b entered from pred (nil for the entry).
func (p *PX) block(fr *pxFrame, b *ssa.BasicBlock, pred *ssa.BasicBlock, st *pxState, k pxCont) {
	if p.Truncated {
		return
	}
	*st.steps++
	if *st.steps > p.maxSteps || p.paths > p.maxPaths {
		p.Truncated = true
		return
	}
	// wall-clock safety net: an exploration that does not end (a decided loop
	// unrolled with an ever larger state) gives "truncated", never a hang
	if *st.steps&255 == 0 {
		if p.started.IsZero() {
			p.started = time.Now()
		} else if time.Since(p.started) > pxWallBudget {
			p.Truncated = true
			return
		}
	}
	if p.hooks.prune != nil && p.hooks.prune(fr, b, st) {
		return
	}
	bk := fmt.Sprintf("x:%s%d", fr.id, b.Index)
	// φ-nodes: resolved by the edge taken (simultaneous assignment)
	var phiVals []*Term
	if pred != nil && st.visits[bk] >= 1 {
		// the values flowing in are computed before the old facts are dropped
		for i, q := range b.Preds {
			if q == pred {
				for _, in := range b.Instrs {
					phi, ok := in.(*ssa.Phi)
					if !ok {
						break
					}
					phiVals = append(phiVals, p.term(phi.Edges[i], fr, st))
				}
				break
			}
		}
		p.killBlockDefs(fr, b, st)
	}
	st.visits[bk]++
	if pred != nil {
		pi := -1
		for i, q := range b.Preds {
			if q == pred {
				pi = i
			}
		}
		var names []string
		var vals []*Term
		for _, in := range b.Instrs {
			phi, ok := in.(*ssa.Phi)
			if !ok {
				break
			}
			if pi >= 0 {
				names = append(names, p.reg(fr, phi))
				if len(phiVals) > len(vals) {
					vals = append(vals, phiVals[len(vals)])
				} else {
					vals = append(vals, p.term(phi.Edges[pi], fr, st))
				}
				if bs := p.byteSeqOf(phi.Edges[pi], fr, st); bs != nil {
					st.bseq[p.reg(fr, phi)] = bs
				} else {
					delete(st.bseq, p.reg(fr, phi))
				}
			}
		}
		for i, n := range names {
			st.vals[n] = vals[i]
		}
	}
	if p.hooks.havoc != nil && pred != nil {
		for _, lp := range p.loopsOf(fr.fn) {
			if hk := fmt.Sprintf("%s%d", fr.id, b.Index); lp.header == b && lp.body[pred] && st.visits["hv2:"+hk] == 1 {
				// second generic iteration (see enter): φ-nodes were just resolved by the
				// back edge; everything but the remembered counters is made fresh again
				st.visits["hv2:"+hk] = 2
				p.havocLoopKeep(fr, lp, st, p.rememberedNow)
				p.rememberedNow = nil
				continue
			}
			if lp.header == b && !lp.body[pred] && p.hooks.havoc(fr, lp) {
				p.havocLoop(fr, lp, st)
				if p.havocked == nil {
					p.havocked = map[string]*loopInfo{}
				}
				hk := fmt.Sprintf("%s%d", fr.id, b.Index)
				p.havocked[hk] = lp
				st.visits["hv:"+hk] = 1
			}
		}
	}
	if p.hooks.onBlock != nil {
		p.hooks.onBlock(fr, b, st)
	}
	p.instrs(fr, b, 0, st, k)
}

// instrs interprets b.Instrs[from:].
func (p *PX) instrs(fr *pxFrame, b *ssa.BasicBlock, from int, st *pxState, k pxCont) {
	for i := from; i < len(b.Instrs); i++ {
		in := b.Instrs[i]
		if _, isPhi := in.(*ssa.Phi); isPhi {
			continue
		}
		p.cur, p.curFrame = st, fr
		stepIn := true
		if p.hooks.onInstr != nil {
			stepIn = p.hooks.onInstr(fr, in, st)
		}
		switch x := in.(type) {
		case *ssa.Alloc:
			// a variable cell starts with the zero value of its type (also when the
			// Alloc is executed again in a loop: it is a new variable)
			cell := p.reg(fr, x) + "*"
			delete(st.vals, cell)
			delete(st.bseq, cell)
			p.localArrayReset(x, fr, st)
			p.arrayCellReset(x, fr, st)
			if pt, ok := x.Type().Underlying().(*types.Pointer); ok {
				if z := zeroOf(pt.Elem()); z != nil {
					st.vals[cell] = z
				}
				if stt, ok := pt.Elem().Underlying().(*types.Struct); ok {
					for i := 0; i < stt.NumFields(); i++ {
						delete(st.vals, fmt.Sprintf("%s.%d", p.reg(fr, x), i))
					}
				}
			}
		case *ssa.MakeSlice:
			if lt := p.term(x.Len, fr, st); p.views || lt.K == TConst {
				// the length the slice is made with, as of now
				st.vals["mklen:"+p.term(x, fr, st).key] = lt
			} else {
				// kept for the rules that ask for it by name (bounds of local slices)
				st.vals["mklenx:"+p.term(x, fr, st).key] = lt
			}
		case *ssa.UnOp:
			if x.Op == token.MUL {
				// memory is read now, not when the register is used
				delete(st.vals, p.reg(fr, x))
				st.vals[p.reg(fr, x)] = p.term(x, fr, st)
			}
		case *ssa.Store:
			// a whole-struct store advances the versions of all fields of the type: first,
			// so that the components recorded for a local (splitStruct) carry the new versions
			// (a variable nobody else can point to aliases nothing: pxlocalstruct.go)
			if !p.w.purelyLocalAddr(x.Addr) {
				p.structStore(x, st)
			}
			// rows of a private local array of structs built in place (pxarray.go)
			p.localRowStore(x, fr, st)
			// local variable cells and symbolic byte sequences
			if al, ok := x.Addr.(*ssa.Alloc); ok {
				vt := p.term(x.Val, fr, st)
				st.vals[p.reg(fr, al)+"*"] = vt
				// a store to the whole variable replaces what was stored field by field: the
				// fields are now the components of the value
				if stt, ok := x.Val.Type().Underlying().(*types.Struct); ok {
					for i := 0; i < stt.NumFields(); i++ {
						delete(st.vals, fmt.Sprintf("%s.%d", p.reg(fr, al), i))
					}
				}
				p.splitStruct(fr, al, vt, st)
			}
			if _, ok := x.Addr.(*ssa.FreeVar); ok {
				// a variable captured by reference: the cell of the frame that made the closure
				if cell, ok := p.cellOf(x.Addr, fr); ok {
					st.vals[cell] = p.term(x.Val, fr, st)
					if bs := p.byteSeqOf(x.Val, fr, st); bs != nil {
						st.bseq[cell] = bs
					} else {
						delete(st.bseq, cell)
					}
				}
			}
			if fa, ok := x.Addr.(*ssa.FieldAddr); ok {
				vt := p.term(x.Val, fr, st)
				p.arrayCellStore(fa, vt, fr, st) // a row of a private local array of structs (pxarrcell.go)
				if !p.w.purelyLocalAddr(fa) {
					p.bumpField(fieldID(fa), st)
				}
				if al, isLocal := fa.X.(*ssa.Alloc); isLocal {
					fk := fmt.Sprintf("%s.%d", p.reg(fr, al), fa.Field)
					st.vals[fk] = vt
					st.vals[fk+"@"] = st.vals["ver:"+fieldID(fa)]
					// the whole-struct value, if one was assigned, is no longer current
					delete(st.vals, p.reg(fr, al)+"*")
				}
				// the value stays readable under the field's NEW version: any later store to
				// this field of any object of the type (direct, in a summarised loop, or by a
				// callee that is not stepped into) advances the version, so a load finds the
				// value only while nothing can have overwritten it — whichever frame holds
				// the pointer (struct-carried state handed to helpers by address)
				if p.fieldCellTracked(fa, vt, fr, st) || (vt.K == TPure && vt.Name == "append") {
					st.vals["mem:"+p.fieldLoadKey(fa, fr, st)] = vt
				}
				st.trace = append(st.trace, pxEvent{Kind: "fieldstore", Frame: fr, Args: []*Term{vt}, Env: st.env, Pos: p.w.instrPos(x), Extra: fieldID(fa)})
			}
			if ia, ok := x.Addr.(*ssa.IndexAddr); ok && !isByteSlice(ia.X.Type()) {
				if _, isArr := isByteArrayPtr(ia.X.Type()); !isArr {
					ck := "mem:" + p.term(ia, fr, st).key
					st.vals[ck] = p.term(x.Val, fr, st)
					// a []byte kept in a cell of a [][]byte: its octets travel with the cell
					if bs := p.byteSeqOf(x.Val, fr, st); bs != nil && isByteSlice(x.Val.Type()) {
						st.bseq[ck] = bs
					} else {
						delete(st.bseq, ck)
					}
				}
			}
			p.byteStore(x, fr, st)
			p.localArrayStore(x, fr, st) // &localArray[i].field (pxlocalarray.go)
			p.localTabStore(x, fr, st)   // a cell of a local array used as a table (pxlocaltab.go)
		case *ssa.MapUpdate:
			// remembered for rules about tables kept in struct fields (numbering)
			if ld, ok := x.Map.(*ssa.UnOp); ok {
				if fa, ok := ld.X.(*ssa.FieldAddr); ok {
					st.trace = append(st.trace, pxEvent{Kind: "mapupdate", Frame: fr, Args: []*Term{p.term(x.Key, fr, st), p.term(x.Value, fr, st)}, Env: st.env, Pos: p.w.instrPos(x), Extra: fieldID(fa)})
				}
			}
		case *ssa.MakeClosure:
			p.recordClosure(x, fr, st)
		case *ssa.Call:
			p.byteCall(x, fr, st)
			p.appendCells(x, fr, st)
			// a method expression `(*T).M(recv, args…)` calls M through a thunk with M's own operands
			sc := p.w.unthunk(x.Call.StaticCallee())
			// a call of a function value known on this path (pxfuncs.go): a closure or a
			// method value made on the path (held in a variable, a parameter, a struct
			// component), an entry of a constant / read-only table — from here on an
			// ordinary static call
			var clo *pxClosure
			var recvTerm *Term
			if sc == nil || len(sc.FreeVars) > 0 {
				if fn, c, recv := p.funcValueCallee(x, fr, st); fn != nil {
					sc, clo, recvTerm = fn, c, recv
				}
			}
			// failing that, a function value read from frozen init-time memory (pxconc.go):
			// a closure made by package initialisation (its bindings are concrete values), a
			// method-expression thunk or bound-method wrapper kept in a table
			var dyn *pxCallee
			if sc == nil {
				if d := p.resolveCall(x, fr, st); d != nil && d.fn != nil {
					sc, dyn = d.fn, d
				}
			}
			inl := sc != nil && stepIn && p.defaultInline(fr, sc)
			if inl && p.hooks.inline != nil {
				inl = p.hooks.inline(fr, sc)
			}
			if inl && len(sc.FreeVars) > 0 && clo == nil && (dyn == nil || len(dyn.binds) < len(sc.FreeVars)) {
				inl = false // a closure whose captured variables are not known
			}
			if !inl {
				if sc != nil {
					p.callEffects(sc, st)
					p.recordCall(x, sc, fr, st)
				}
				// the closure called, and closures handed to code that is not followed, run
				// out of sight: what they captured by reference is no longer known
				p.killCaptured(clo, st)
				for _, a := range x.Call.Args {
					if amc, ok := a.(*ssa.MakeClosure); ok {
						p.killCaptured(p.closures[p.term(amc, fr, st).key], st)
					}
				}
				continue
			}
			p.seq++
			child := &pxFrame{fn: sc, id: fmt.Sprintf("%sc%d/", fr.id, p.seq), subst: map[*ssa.Parameter]*Term{}, parent: fr, site: x, depth: fr.depth + 1}
			off := 0
			if recvTerm != nil && len(sc.Params) > 0 {
				// a method value: the receiver was bound when the value was made
				child.subst[sc.Params[0]] = recvTerm
				off = 1
			}
			if dyn != nil {
				// (the arguments in the order of the callee's parameters, receiver included)
				for ai, prm := range sc.Params {
					if ai < len(dyn.args) {
						child.subst[prm] = dyn.args[ai]
						if dyn.vals[ai] != nil {
							if bs := p.byteSeqOf(dyn.vals[ai], fr, st); bs != nil {
								st.bseq[child.id+regName(prm)] = bs
							}
						}
					}
				}
				if len(dyn.binds) > 0 {
					child.fvTerm = map[*ssa.FreeVar]*Term{}
					for bi, fv := range sc.FreeVars {
						if bi < len(dyn.binds) {
							child.fvTerm[fv] = dyn.binds[bi]
						}
					}
				}
			}
			for ai, prm := range sc.Params[off:] {
				if dyn != nil {
					break
				}
				if ai < len(x.Call.Args) {
					child.subst[prm] = p.term(x.Call.Args[ai], fr, st)
					if bs := p.byteSeqOf(x.Call.Args[ai], fr, st); bs != nil {
						st.bseq[child.id+regName(prm)] = bs
					}
				}
			}
			child.viaValue = x.Call.StaticCallee() == nil
			if clo != nil && recvTerm == nil {
				child.clo, child.fvTerm, child.fvCell = clo, map[*ssa.FreeVar]*Term{}, map[*ssa.FreeVar]string{}
				for i, fv := range sc.FreeVars {
					if i < len(clo.binds) {
						child.fvTerm[fv] = clo.binds[i]
						child.fvCell[fv] = clo.cells[i]
					}
				}
			}
			rest := i + 1
			callReg := p.reg(fr, x)
			p.block(child, sc.Blocks[0], nil, st, func(results []*Term, ret *ssa.Return, st2 *pxState) {
				// bind the results in the caller and continue after the call
				if len(results) == 1 {
					st2.vals[callReg] = results[0]
				}
				for ri, rt := range results {
					st2.vals[callReg+fmt.Sprintf("#%d", ri)] = rt
				}
				if ret != nil {
					for ri, rv := range ret.Results {
						if bs := p.byteSeqOf(rv, child, st2); bs != nil {
							if len(results) == 1 {
								st2.bseq[callReg] = bs
							}
							st2.bseq[callReg+fmt.Sprintf("#%d", ri)] = bs
						}
					}
				}
				p.instrs(fr, b, rest, st2, k)
			})
			return
		case *ssa.Return:
			var res []*Term
			for _, r := range x.Results {
				res = append(res, p.term(r, fr, st))
			}
			k(res, x, st)
			return
		case *ssa.Panic:
			return
		case *ssa.Jump:
			p.enter(fr, b, b.Succs[0], st, k, true)
			return
		case *ssa.If:
			c := p.term(x.Cond, fr, st)
			p.cur, p.curFrame = st, fr
			te, tok := p.f.refine(st.env, c, true)
			fe, fok := p.f.refine(st.env, c, false)
			if tte, tfe, isTab := p.tableCond(c, st.env); isTab {
				// `if table[i]` on a constant boolean table: facts about the index
				te, tok, fe, fok = tte, tte != nil, tfe, tfe != nil
				if !tok {
					te = st.env
				}
				if !fok {
					fe = st.env
				}
			}
			if isNil, known := p.nilTest(c); known {
				// `err != nil` on a value the path built with a constructor that never returns nil
				tok, fok = tok && isNil, fok && !isNil
			}
			if v, ok := st.env[c.key]; ok && len(v) == 1 && v[0].Lo.Cmp(v[0].Hi) == 0 {
				if v[0].Lo.Sign() == 0 {
					tok = false
				} else {
					fok = false
				}
			}
			if cs, _ := p.f.Eval(c, st.env); cs != nil && c.K != TLeaf && len(cs) == 1 && cs[0].Lo.Cmp(cs[0].Hi) == 0 && (c.K == TBoolConst) {
				_ = cs
			}
			decided := tok != fok
			if decided && c.K == TBoolConst && countedTest(x.Cond, b) {
				// a counted loop whose exit test is a comparison of constants on this path (a
				// scan over a constant table, i < 4 with i = 0, 1, 2 …) terminates by itself:
				// each pass through its header starts a new iteration, in which the undecided
				// branches of the body may be taken again — the cap on undecided revisits is
				// per iteration, not per loop.  (A test merely decided by a fact about a
				// symbol that the body does not change, or a φ of constants that is not a
				// counter — `for first := true; ; first = false` — would never end.)
				for _, lp := range p.loopsOf(fr.fn) {
					if lp.header != b {
						continue
					}
					next := b.Succs[1]
					if tok {
						next = b.Succs[0]
					}
					if lp.body[next] {
						for bb := range lp.body {
							delete(st.visits, fmt.Sprintf("%s%d", fr.id, bb.Index))
						}
					}
				}
			}
			if tok && fok {
				s2 := st.clone()
				s2.env = fe
				st.env = te
				p.enter(fr, b, b.Succs[0], st, k, false)
				p.enter(fr, b, b.Succs[1], s2, k, false)
			} else if tok {
				st.env = te
				p.enter(fr, b, b.Succs[0], st, k, decided)
			} else if fok {
				st.env = fe
				p.enter(fr, b, b.Succs[1], st, k, decided)
			}
			return
		}
	}
}

func (p *PX) enter(fr *pxFrame, from, to *ssa.BasicBlock, st *pxState, k pxCont, decided bool) {
	key := fmt.Sprintf("%s%d", fr.id, to.Index)
	if st.visits["hv:"+key] > 0 {
		if lp := p.havocked[key]; lp != nil && lp.body[from] {
			// summarised loop: the single symbolic iteration stands for all of them —
			// except that a variable which REMEMBERS the counter of that iteration
			// (`if match(t[i]) { found = i }`) leaves the loop holding it: the header is
			// entered once more with that variable bound to the generic iteration's
			// counter (and the facts the body established about it), the counters made
			// fresh again; the exits taken from there stand for "assigned in some iteration"
			if st.visits["hv2:"+key] == 0 && len(p.rememberedCounters(fr, lp, from, st)) > 0 {
				st.visits["hv2:"+key] = 1
				p.block(fr, to, from, st, k)
			}
			return
		}
	}
	if !decided {
		st.visits[key]++
		if st.visits[key] > 2 {
			return // loop unrolled once on undecided conditions
		}
	} else {
		st.visits[key+"d"]++
		if st.visits[key+"d"] > 70000 {
			return
		}
	}
	p.block(fr, to, from, st, k)
}

// lenTerm: len(a); the length of append(s, k elements) is len(s)+k.
func (p *PX) lenTerm(a *Term, t types.Type) *Term {
	if n, ok := roLen(a); ok {
		return constT(n, t)
	}
	if a.K == TPure && a.Name == "view" && len(a.Args) == 3 {
		return subT(a.Args[2], a.Args[1], t)
	}
	if a.K == TPure && a.Name == "append" && len(a.Args) == 2 && a.Args[1].K == TConst {
		inner := p.lenTerm(a.Args[0], t)
		k := a.Args[1]
		if inner.K == TConst {
			// a slice made with a constant length and appended to: the length is a number
			sum := new(big.Int).Add(inner.C, k.C)
			return &Term{K: TConst, C: sum, T: t, key: sum.String()}
		}
		return &Term{K: TBin, Op: token.ADD, A: inner, B: &Term{K: TConst, C: k.C, T: t, key: k.key}, T: t, key: "(" + inner.key + " + " + k.key + ")"}
	}
	// len(v.MapKeys()) is v.Len()
	if a.K == TPure && a.Name == "(reflect.Value).MapKeys" && len(a.Args) == 1 {
		return &Term{K: TPure, Name: "(reflect.Value).Len", Args: a.Args, T: t, key: "pure:(reflect.Value).Len(" + a.Args[0].key + ")"}
	}
	if p.cur != nil && !p.views {
		if ml, ok := p.cur.vals["mklen:"+a.key]; ok && ml.K == TConst {
			return &Term{K: TConst, C: ml.C, T: t, key: ml.key}
		}
	}
	return &Term{K: TPure, Name: "len", Args: []*Term{a}, T: t, key: "len(" + a.key + ")"}
}

// fieldID names a struct field independently of the base pointer.
func fieldID(fa *ssa.FieldAddr) string {
	t := fa.X.Type()
	if pt, ok := t.Underlying().(*types.Pointer); ok {
		t = pt.Elem()
	}
	return fmt.Sprintf("%s.%d", types.TypeString(t, nil), fa.Field)
}

// fieldLoadKey: the key of a load of field fa on this path; stores to the
// field (direct, or by a callee that is not stepped into) advance its version.
func (p *PX) fieldLoadKey(fa *ssa.FieldAddr, fr *pxFrame, st *pxState) string {
	base := p.term(fa.X, fr, st)
	key := fmt.Sprintf("<fld:%s.%d", strings.Trim(base.key, "<>"), fa.Field)
	if v, ok := st.vals["ver:"+fieldID(fa)]; ok && v.K == TConst && v.C.Sign() != 0 {
		key += "@" + v.C.String()
	}
	return key + ">"
}

// fieldVerKey / localFieldVer: the version of a field id now, and the version at
// which a local struct's field was last recorded.
func (p *PX) fieldVerKey(id string, st *pxState) string {
	if v, ok := st.vals["ver:"+id]; ok {
		return v.key
	}
	return ""
}

func (p *PX) localFieldVer(fk string, st *pxState) string {
	if v, ok := st.vals[fk+"@"]; ok && v != nil {
		return v.key
	}
	return ""
}

// splitStruct: a struct value assigned as a whole to a local (`shape := shapeOf(n)`
// with the helper stepped into, `*t = s`): its fields are the components of the
// value, so that `shape.reserved` read afterwards is the term the helper computed.
func (p *PX) splitStruct(fr *pxFrame, al *ssa.Alloc, vt *Term, st *pxState) {
	pt, ok := al.Type().Underlying().(*types.Pointer)
	if !ok {
		return
	}
	stt, ok := pt.Elem().Underlying().(*types.Struct)
	if !ok || stt.NumFields() == 0 || stt.NumFields() > 8 {
		return
	}
	id := types.TypeString(pt.Elem(), nil)
	for i := 0; i < stt.NumFields(); i++ {
		var ft *Term
		if vt.K == TPure && vt.Name == "struct" && len(vt.Args) == stt.NumFields() {
			ft = vt.Args[i]
		} else if c := p.componentOf(vt, i, fr, st); c != nil {
			ft = c // a row of a read-only table copied by value
		} else {
			ft = &Term{K: TLeaf, T: stt.Field(i).Type(), key: fmt.Sprintf("fld(%s,.%d)", vt.key, i)}
		}
		fid := fmt.Sprintf("%s.%d", id, i) // (its version was advanced by structStore)
		fk := fmt.Sprintf("%s.%d", p.reg(fr, al), i)
		st.vals[fk] = ft
		st.vals[fk+"@"] = st.vals["ver:"+fid]
	}
}

func (p *PX) bumpField(id string, st *pxState) {
	p.seq++
	c := big.NewInt(int64(p.seq))
	st.vals["ver:"+id] = &Term{K: TConst, C: c, T: types.Typ[types.Int], key: c.String()}
}

// modFields: the struct fields fn (or anything it can call in the package)
// may store to.
func (p *PX) modFields(fn *ssa.Function) map[string]bool {
	if p.modCache == nil {
		p.modCache = map[*ssa.Function]map[string]bool{}
	}
	if m, ok := p.modCache[fn]; ok {
		return m
	}
	m := map[string]bool{}
	p.modCache[fn] = m
	for g := range p.w.reachPkg(fn) {
		for _, b := range g.Blocks {
			for _, in := range b.Instrs {
				if s, ok := in.(*ssa.Store); ok {
					if fa, ok := s.Addr.(*ssa.FieldAddr); ok {
						m[fieldID(fa)] = true
					}
				}
			}
		}
	}
	return m
}

func (p *PX) loopsOf(fn *ssa.Function) []*loopInfo {
	if p.loops == nil {
		p.loops = map[*ssa.Function][]*loopInfo{}
	}
	if l, ok := p.loops[fn]; ok {
		return l
	}
	l := naturalLoops(fn)
	p.loops[fn] = l
	return l
}

// killBlockDefs forgets what the path knew about the registers block b defines
// (b is executed again: the old facts describe the previous iteration).
func (p *PX) killBlockDefs(fr *pxFrame, b *ssa.BasicBlock, st *pxState) {
	var marks []string
	for _, in := range b.Instrs {
		if v, ok := in.(ssa.Value); ok {
			reg := p.reg(fr, v)
			marks = append(marks, "<"+reg+">")
			if _, isPhi := in.(*ssa.Phi); !isPhi {
				delete(st.vals, reg)
				for i := 0; i < 4; i++ {
					delete(st.vals, fmt.Sprintf("%s#%d", reg, i))
				}
			}
		}
	}
	if len(marks) == 0 {
		return
	}
	for k := range st.env {
		for _, m := range marks {
			if strings.Contains(k, m) {
				delete(st.env, k)
				break
			}
		}
	}
}

// havocLoop turns the φ-nodes of the header into fresh symbols and forgets the
// cells the body assigns.
func (p *PX) havocLoop(fr *pxFrame, lp *loopInfo, st *pxState) {
	p.havocLoopKeep(fr, lp, st, nil)
}

func (p *PX) havocLoopKeep(fr *pxFrame, lp *loopInfo, st *pxState, keep map[string]bool) {
	p.seq++
	for _, in := range lp.header.Instrs {
		phi, ok := in.(*ssa.Phi)
		if !ok {
			break
		}
		reg := p.reg(fr, phi)
		if keep[reg] {
			continue
		}
		if keep == nil && (loopRememberers(lp)[phi] || loopFlagRememberers(lp)[phi]) {
			// a variable that only remembers a counter of this loop: on the first entry
			// it keeps its initial value ("never assigned"); "assigned in some
			// iteration" is the second generic iteration (see enter)
			continue
		}
		init := st.vals[reg]
		fresh := &Term{K: TLeaf, V: phi, T: phi.Type(), key: fmt.Sprintf("<hv%d:%s>", p.seq, reg)}
		// a counter that only moves one way keeps its initial value as a bound, and
		// is assumed not to wrap around (it stops one step before the end of its type)
		if step, isCounter := counterStep(phi); isCounter && init != nil {
			if is, _ := p.f.Eval(init, st.env); is != nil && !is.Empty() {
				if top, ok := typeRange(p.w, phi.Type()); ok {
					if step > 0 {
						st.env[fresh.key] = top.Intersect(ISet{{is.Min(), new(big.Int).Sub(top.Max(), big.NewInt(step))}})
						// a loop tested at the bottom keeps `counter < n` at its header (pxhavoc3.go)
						p.bottomTestBound(fr, lp, phi, fresh, init, st)
						// rotated loop (`for j := range n`): j < n is an invariant of the header (pxrotated.go)
						p.rotatedCounterBound(fr, lp, phi, fresh, init, st)
					} else {
						st.env[fresh.key] = top.Intersect(ISet{{new(big.Int).Sub(top.Min(), big.NewInt(step)), is.Max()}})
						p.downCounterBounds(fresh, init, st)
					}
					// a counter stopped by `== c` / `!= c` does not step over c (pxeqexit.go)
					st.env[fresh.key] = eqExitBound(lp, phi, step, is, st.env[fresh.key])
				}
			}
		}
		st.vals[reg] = fresh
		delete(st.bseq, reg)
	}
	for b := range lp.body {
		for _, in := range b.Instrs {
			switch x := in.(type) {
			case *ssa.Store:
				if al, ok := x.Addr.(*ssa.Alloc); ok {
					delete(st.vals, p.reg(fr, al)+"*")
					delete(st.bseq, p.reg(fr, al)+"*")
				}
				if fa, ok := x.Addr.(*ssa.FieldAddr); ok {
					p.bumpField(fieldID(fa), st)
					p.arrayCellHavoc(fa, fr, st)
				}
			}
		}
	}
}

// callEffects: a package function that is not stepped into may store to
// struct fields; loads after the call see a new version of those fields.
func (p *PX) callEffects(sc *ssa.Function, st *pxState) {
	if !p.w.inPkg(sc) || sc.Blocks == nil {
		return
	}
	var ids []string
	for id := range p.modFields(sc) {
		ids = append(ids, id)
	}
	sort.Strings(ids)
	for _, id := range ids {
		p.bumpField(id, st)
	}
}

// recordCall remembers callee and argument terms of a call that is not
// stepped into ("call:"+register), so that a rule can see where a value that
// reaches an event came from.
func (p *PX) recordCall(x *ssa.Call, sc *ssa.Function, fr *pxFrame, st *pxState) {
	var args []*Term
	var keys []string
	for _, a := range x.Call.Args {
		t := p.term(a, fr, st)
		args = append(args, t)
		keys = append(keys, t.key)
	}
	name := qualifiedFnName(sc)
	st.vals["call:"+p.reg(fr, x)+p.iterTag(fr, x, st)] = &Term{K: TPure, Name: name, Args: args, V: x, T: x.Type(), key: "call:" + name + "(" + strings.Join(keys, ",") + ")"}
}

// originOf: the recorded call a leaf term (a call result or one component of
// it) stands for, or nil.
func (st *pxState) originOf(t *Term) *Term {
	if t == nil || t.K != TLeaf {
		return nil
	}
	k := t.key
	if strings.HasPrefix(k, "<x#") {
		if i := strings.Index(k[1:], "<"); i >= 0 {
			k = k[1+i : len(k)-1]
		}
	}
	if len(k) < 2 || k[0] != '<' {
		return nil
	}
	return st.vals["call:"+k[1:len(k)-1]]
}

// countedTest: cond compares a counter φ of block b (φ(init, φ±k), possibly
// already stepped: φ±k) with something else — the exit test of a counted loop.
func countedTest(cond ssa.Value, b *ssa.BasicBlock) bool {
	bo, ok := cond.(*ssa.BinOp)
	if !ok {
		return false
	}
	switch bo.Op {
	case token.LSS, token.LEQ, token.GTR, token.GEQ, token.NEQ:
	default:
		return false
	}
	isCounter := func(v ssa.Value) bool {
		if st, ok := v.(*ssa.BinOp); ok && (st.Op == token.ADD || st.Op == token.SUB) {
			if _, isC := st.Y.(*ssa.Const); isC {
				v = st.X
			}
		}
		phi, ok := v.(*ssa.Phi)
		if !ok || phi.Block() != b {
			return false
		}
		_, isCnt := counterStep(phi)
		return isCnt
	}
	return isCounter(bo.X) || isCounter(bo.Y)
}
