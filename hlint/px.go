package main

// px — path-sensitive, interprocedural exploration over the ISet domain.
//
// The intraprocedural fixpoint of flow.go loses every relation that crosses a
// function boundary, so a behaviour-preserving "extract helper" refactoring
// made rules that look inside one function blind.  px walks the CFG path by
// path (no joins), keeps one environment of facts per path, resolves φ-nodes
// by the edge actually taken, and steps INTO in-package callees (parameters
// are substituted by the caller's argument terms, so facts are shared across
// frames and relations such as "form == compact ⇒ n ≤ 7" survive a helper
// that returns `form`).  Branches whose condition is decided by the facts are
// followed without forking; undecided revisits of a block are capped (loops
// are unrolled once), decided ones are not (loops over constant bounds unroll
// completely).  No solver is involved: the domain is the same interval-set
// domain, only applied per path.

import (
	"fmt"
	"go/constant"
	"go/token"
	"go/types"
	"math/big"
	"strings"

	"golang.org/x/tools/go/ssa"
)

type pxFrame struct {
	fn     *ssa.Function
	id     string // "" for the root, "c3/" … for inlined frames
	subst  map[*ssa.Parameter]*Term
	parent *pxFrame
	site   *ssa.Call
	depth  int
}

type pxState struct {
	env    Env
	vals   map[string]*Term   // path-bound values: φ, inlined call results, keyed by frame id + register
	bseq   map[string]*ByteSeq // symbolic []byte values
	visits map[string]int
	steps  *int
	trace  []pxEvent
}

// pxEvent: something a rule asked to remember along the path.
type pxEvent struct {
	Kind  string
	Call  *ssa.Call
	Frame *pxFrame
	Args  []*Term
	Env   Env
	Pos   string
	Extra string
}

func (s *pxState) clone() *pxState {
	c := &pxState{env: s.env.clone(), vals: make(map[string]*Term, len(s.vals)), bseq: make(map[string]*ByteSeq, len(s.bseq)), visits: make(map[string]int, len(s.visits)), steps: s.steps}
	c.trace = append([]pxEvent(nil), s.trace...)
	for k, v := range s.vals {
		c.vals[k] = v
	}
	c.bseq = cloneBytes(s.bseq)
	for k, v := range s.visits {
		c.visits[k] = v
	}
	return c
}

// pxHooks: what a rule wants to see.
type pxHooks struct {
	// onInstr is called for every instruction before it is interpreted.
	// Returning false for a call instruction prevents stepping into the callee.
	onInstr func(fr *pxFrame, in ssa.Instruction, st *pxState) bool
	// onReturn is called when the ROOT frame returns.
	onReturn func(fr *pxFrame, ret *ssa.Return, results []*Term, st *pxState)
	// onBlock is called when a block is entered.
	onBlock func(fr *pxFrame, b *ssa.BasicBlock, st *pxState)
	// inline decides whether a static in-package callee is stepped into
	// (nil: every package function with a body, depth < 4, not on the stack).
	inline func(fr *pxFrame, callee *ssa.Function) bool
}

type PX struct {
	w         *World
	hooks     pxHooks
	f         *Flow // evaluator with a term hook
	cur       *pxState
	curFrame  *pxFrame
	paths     int
	Truncated bool
	maxPaths  int
	maxSteps  int
	seq       int
}

func (w *World) newPX(h pxHooks) *PX {
	p := &PX{w: w, hooks: h, maxPaths: 4000, maxSteps: 400000}
	p.curFrame = &pxFrame{subst: map[*ssa.Parameter]*Term{}}
	p.cur = &pxState{env: Env{}, vals: map[string]*Term{}, bseq: map[string]*ByteSeq{}, visits: map[string]int{}}
	p.f = &Flow{w: w, terms: map[ssa.Value]*Term{}}
	p.f.termHook = func(v ssa.Value) *Term { return p.term(v, p.curFrame, p.cur) }
	return p
}

// Run explores fn from its entry with the initial facts ctx (keys of root
// parameters are "<p:name>").
func (p *PX) Run(fn *ssa.Function, ctx Env) {
	if fn.Blocks == nil {
		return
	}
	steps := 0
	st := &pxState{env: Env{}, vals: map[string]*Term{}, bseq: map[string]*ByteSeq{}, visits: map[string]int{}, steps: &steps}
	for k, v := range ctx {
		st.env[k] = v
	}
	root := &pxFrame{fn: fn, subst: map[*ssa.Parameter]*Term{}}
	p.block(root, fn.Blocks[0], nil, st, func(results []*Term, ret *ssa.Return, st2 *pxState) {
		p.paths++
		if p.hooks.onReturn != nil {
			p.hooks.onReturn(root, ret, results, st2)
		}
	})
}

func (p *PX) reg(fr *pxFrame, v ssa.Value) string { return fr.id + regName(v) }

// term builds the path-level term of v in frame fr.
func (p *PX) term(v ssa.Value, fr *pxFrame, st *pxState) *Term {
	switch x := v.(type) {
	case *ssa.Const:
		if x.Value == nil {
			return &Term{K: TLeaf, V: v, T: v.Type(), key: "nil:" + v.Type().String()}
		}
		switch x.Value.Kind() {
		case constant.Bool:
			b := constant.BoolVal(x.Value)
			return &Term{K: TBoolConst, Bool: b, T: v.Type(), key: fmt.Sprintf("%v", b)}
		case constant.Int:
			if bv, ok := new(big.Int).SetString(x.Value.ExactString(), 10); ok {
				return &Term{K: TConst, C: bv, T: v.Type(), key: bv.String()}
			}
		}
		return &Term{K: TLeaf, V: v, T: v.Type(), key: "const:" + x.Value.ExactString()}
	case *ssa.Parameter:
		if t, ok := fr.subst[x]; ok {
			return t
		}
		return &Term{K: TLeaf, V: v, T: v.Type(), key: "<" + fr.id + "p:" + x.Name() + ">"}
	case *ssa.Phi:
		if t, ok := st.vals[p.reg(fr, v)]; ok {
			return t
		}
	case *ssa.BinOp:
		a, b := p.term(x.X, fr, st), p.term(x.Y, fr, st)
		// (x >> a) >> b = x >> (a+b) for constant shifts of the same signedness (bits >>= 8 in a loop)
		if x.Op == token.SHR && b.K == TConst && a.K == TBin && a.Op == token.SHR && a.B.K == TConst && types.Identical(a.T, v.Type()) {
			sum := new(big.Int).Add(a.B.C, b.C)
			nb := &Term{K: TConst, C: sum, T: b.T, key: sum.String()}
			a, b = a.A, nb
		}
		t := &Term{K: TBin, Op: x.Op, A: a, B: b, T: v.Type(), key: "(" + a.key + " " + x.Op.String() + " " + b.key + ")"}
		if a.K == TConst && b.K == TConst {
			// fold: both operands are constants on this path
			switch x.Op {
			case token.EQL, token.NEQ, token.LSS, token.LEQ, token.GTR, token.GEQ:
				c := a.C.Cmp(b.C)
				r := map[token.Token]bool{token.EQL: c == 0, token.NEQ: c != 0, token.LSS: c < 0, token.LEQ: c <= 0, token.GTR: c > 0, token.GEQ: c >= 0}[x.Op]
				return &Term{K: TBoolConst, Bool: r, T: v.Type(), key: fmt.Sprintf("%v", r)}
			default:
				var fl evalFlags
				if s := p.f.evalStruct(t, Env{}, &fl); s != nil && s.Card().Cmp(one) == 0 {
					c := s.Min()
					return &Term{K: TConst, C: c, T: v.Type(), key: c.String()}
				}
			}
		}
		return t
	case *ssa.UnOp:
		switch x.Op {
		case token.NOT:
			a := p.term(x.X, fr, st)
			return &Term{K: TNot, A: a, T: v.Type(), key: "!" + a.key}
		case token.SUB:
			a := p.term(x.X, fr, st)
			z := &Term{K: TConst, C: new(big.Int), T: v.Type(), key: "0"}
			return &Term{K: TBin, Op: token.SUB, A: z, B: a, T: v.Type(), key: "(0 - " + a.key + ")"}
		case token.MUL:
			if fa, ok := x.X.(*ssa.FieldAddr); ok {
				base := p.term(fa.X, fr, st)
				return &Term{K: TLeaf, V: v, T: v.Type(), key: fmt.Sprintf("<fld:%s.%d>", strings.Trim(base.key, "<>"), fa.Field)}
			}
			if g, ok := x.X.(*ssa.Global); ok {
				if c, ok := p.w.globalInit(g); ok {
					return &Term{K: TConst, C: c, T: v.Type(), key: c.String()}
				}
			}
			// load of a local variable: the value last stored on this path
			if al, ok := x.X.(*ssa.Alloc); ok {
				if t, ok := st.vals[p.reg(fr, al)+"*"]; ok {
					return t
				}
			}
			if ia, ok := x.X.(*ssa.IndexAddr); ok {
				// element of a symbolic byte sequence
				if bs := p.byteSeqOf(ia.X, fr, st); bs != nil {
					if it := p.term(ia.Index, fr, st); it.K == TConst && it.C.IsInt64() {
						if i := int(it.C.Int64()); i >= 0 && i < len(bs.Oct) && bs.Oct[i] != nil {
							return bs.Oct[i]
						}
					}
				}
			}
		}
	case *ssa.Convert:
		a := p.term(x.X, fr, st)
		t := &Term{K: TConv, A: a, V: v, T: v.Type(), key: "conv:" + types.TypeString(v.Type(), nil) + "(" + a.key + ")"}
		if a.K == TConst {
			var fl evalFlags
			if s := p.f.evalStruct(t, Env{}, &fl); s != nil && s.Card().Cmp(one) == 0 {
				c := s.Min()
				return &Term{K: TConst, C: c, T: v.Type(), key: c.String()}
			}
		}
		return t
	case *ssa.ChangeType:
		a := p.term(x.X, fr, st)
		if _, _, ok := intTypeInfo(p.w, v.Type()); ok {
			return &Term{K: TConv, A: a, T: v.Type(), key: "conv:" + types.TypeString(v.Type(), nil) + "(" + a.key + ")"}
		}
		return a
	case *ssa.MakeInterface:
		// a boxed boolean / integer keeps its value term (return true / return tag == 'T')
		if b, ok := x.X.Type().Underlying().(*types.Basic); ok && b.Info()&(types.IsBoolean|types.IsInteger) != 0 {
			return p.term(x.X, fr, st)
		}
	case *ssa.Index:
		if b, ok := x.X.Type().Underlying().(*types.Basic); ok && b.Info()&types.IsString != 0 {
			a, i := p.term(x.X, fr, st), p.term(x.Index, fr, st)
			return &Term{K: TPure, Name: "strindex", Args: []*Term{a, i}, T: v.Type(), key: "idx(" + a.key + "," + i.key + ")"}
		}
	case *ssa.Call:
		if t, ok := st.vals[p.reg(fr, v)]; ok {
			return t
		}
		c := x.Common()
		if b, ok := c.Value.(*ssa.Builtin); ok && b.Name() == "len" && len(c.Args) == 1 {
			if bs := p.byteSeqOf(c.Args[0], fr, st); bs != nil && !bs.Open {
				n := big.NewInt(int64(len(bs.Oct)))
				return &Term{K: TConst, C: n, T: v.Type(), key: n.String()}
			}
			a := p.term(c.Args[0], fr, st)
			return &Term{K: TPure, Name: "len", Args: []*Term{a}, T: v.Type(), key: "len(" + a.key + ")"}
		}
		name := ""
		if c.IsInvoke() {
			name = "(" + types.TypeString(c.Value.Type(), func(p *types.Package) string { return p.Name() }) + ")." + c.Method.Name()
		} else if sc := c.StaticCallee(); sc != nil {
			name = qualifiedFnName(sc)
		}
		if pureMethods[name] {
			var args []*Term
			var keys []string
			if c.IsInvoke() {
				a := p.term(c.Value, fr, st)
				args = append(args, a)
				keys = append(keys, a.key)
			}
			for _, a := range c.Args {
				ta := p.term(a, fr, st)
				args = append(args, ta)
				keys = append(keys, ta.key)
			}
			return &Term{K: TPure, Name: name, Args: args, T: v.Type(), key: "pure:" + name + "(" + strings.Join(keys, ",") + ")"}
		}
	case *ssa.Extract:
		if t, ok := st.vals[p.reg(fr, x.Tuple)+fmt.Sprintf("#%d", x.Index)]; ok {
			return t
		}
		a := p.term(x.Tuple, fr, st)
		return &Term{K: TLeaf, V: v, T: v.Type(), key: fmt.Sprintf("<x#%d%s>", x.Index, a.key)}
	}
	return &Term{K: TLeaf, V: v, T: v.Type(), key: "<" + p.reg(fr, v) + ">"}
}

// eval evaluates v on the current path.
func (p *PX) eval(v ssa.Value, fr *pxFrame, st *pxState) (ISet, evalFlags) {
	p.cur, p.curFrame = st, fr
	return p.f.Eval(p.term(v, fr, st), st.env)
}

func (p *PX) evalTerm(t *Term, st *pxState) (ISet, evalFlags) {
	if st.vals == nil {
		st.vals = map[string]*Term{}
	}
	if st.bseq == nil {
		st.bseq = map[string]*ByteSeq{}
	}
	p.cur = st
	return p.f.Eval(t, st.env)
}

type pxCont func(results []*Term, ret *ssa.Return, st *pxState)

func (p *PX) defaultInline(fr *pxFrame, callee *ssa.Function) bool {
	if callee.Blocks == nil || !p.w.inPkg(callee) || fr.depth >= 5 {
		return false
	}
	for f := fr; f != nil; f = f.parent {
		if f.fn == callee {
			return false
		}
	}
	return true
}

// block interprets block b entered from pred (nil for the entry).
func (p *PX) block(fr *pxFrame, b *ssa.BasicBlock, pred *ssa.BasicBlock, st *pxState, k pxCont) {
	if p.Truncated {
		return
	}
	*st.steps++
	if *st.steps > p.maxSteps || p.paths > p.maxPaths {
		p.Truncated = true
		return
	}
	// φ-nodes: resolved by the edge taken (simultaneous assignment)
	if pred != nil {
		pi := -1
		for i, q := range b.Preds {
			if q == pred {
				pi = i
			}
		}
		var names []string
		var vals []*Term
		for _, in := range b.Instrs {
			phi, ok := in.(*ssa.Phi)
			if !ok {
				break
			}
			if pi >= 0 {
				names = append(names, p.reg(fr, phi))
				vals = append(vals, p.term(phi.Edges[pi], fr, st))
				if bs := p.byteSeqOf(phi.Edges[pi], fr, st); bs != nil {
					st.bseq[p.reg(fr, phi)] = bs
				} else {
					delete(st.bseq, p.reg(fr, phi))
				}
			}
		}
		for i, n := range names {
			st.vals[n] = vals[i]
		}
	}
	if p.hooks.onBlock != nil {
		p.hooks.onBlock(fr, b, st)
	}
	p.instrs(fr, b, 0, st, k)
}

// instrs interprets b.Instrs[from:].
func (p *PX) instrs(fr *pxFrame, b *ssa.BasicBlock, from int, st *pxState, k pxCont) {
	for i := from; i < len(b.Instrs); i++ {
		in := b.Instrs[i]
		if _, isPhi := in.(*ssa.Phi); isPhi {
			continue
		}
		p.cur, p.curFrame = st, fr
		stepIn := true
		if p.hooks.onInstr != nil {
			stepIn = p.hooks.onInstr(fr, in, st)
		}
		switch x := in.(type) {
		case *ssa.Store:
			// local variable cells and symbolic byte sequences
			if al, ok := x.Addr.(*ssa.Alloc); ok {
				st.vals[p.reg(fr, al)+"*"] = p.term(x.Val, fr, st)
			}
			p.byteStore(x, fr, st)
		case *ssa.Call:
			p.byteCall(x, fr, st)
			sc := x.Call.StaticCallee()
			if sc == nil || !stepIn {
				continue
			}
			inl := p.defaultInline(fr, sc)
			if inl && p.hooks.inline != nil {
				inl = p.hooks.inline(fr, sc)
			}
			if !inl {
				continue
			}
			p.seq++
			child := &pxFrame{fn: sc, id: fmt.Sprintf("%sc%d/", fr.id, p.seq), subst: map[*ssa.Parameter]*Term{}, parent: fr, site: x, depth: fr.depth + 1}
			for ai, prm := range sc.Params {
				if ai < len(x.Call.Args) {
					child.subst[prm] = p.term(x.Call.Args[ai], fr, st)
					if bs := p.byteSeqOf(x.Call.Args[ai], fr, st); bs != nil {
						st.bseq[child.id+regName(prm)] = bs
					}
				}
			}
			rest := i + 1
			callReg := p.reg(fr, x)
			p.block(child, sc.Blocks[0], nil, st, func(results []*Term, ret *ssa.Return, st2 *pxState) {
				// bind the results in the caller and continue after the call
				if len(results) == 1 {
					st2.vals[callReg] = results[0]
				}
				for ri, rt := range results {
					st2.vals[callReg+fmt.Sprintf("#%d", ri)] = rt
				}
				if ret != nil {
					for ri, rv := range ret.Results {
						if bs := p.byteSeqOf(rv, child, st2); bs != nil {
							if len(results) == 1 {
								st2.bseq[callReg] = bs
							}
							st2.bseq[callReg+fmt.Sprintf("#%d", ri)] = bs
						}
					}
				}
				p.instrs(fr, b, rest, st2, k)
			})
			return
		case *ssa.Return:
			var res []*Term
			for _, r := range x.Results {
				res = append(res, p.term(r, fr, st))
			}
			k(res, x, st)
			return
		case *ssa.Panic:
			return
		case *ssa.Jump:
			p.enter(fr, b, b.Succs[0], st, k, true)
			return
		case *ssa.If:
			c := p.term(x.Cond, fr, st)
			p.cur, p.curFrame = st, fr
			te, tok := p.f.refine(st.env, c, true)
			fe, fok := p.f.refine(st.env, c, false)
			if v, ok := st.env[c.key]; ok && len(v) == 1 && v[0].Lo.Cmp(v[0].Hi) == 0 {
				if v[0].Lo.Sign() == 0 {
					tok = false
				} else {
					fok = false
				}
			}
			if cs, _ := p.f.Eval(c, st.env); cs != nil && c.K != TLeaf && len(cs) == 1 && cs[0].Lo.Cmp(cs[0].Hi) == 0 && (c.K == TBoolConst) {
				_ = cs
			}
			decided := tok != fok
			if tok && fok {
				s2 := st.clone()
				s2.env = fe
				st.env = te
				p.enter(fr, b, b.Succs[0], st, k, false)
				p.enter(fr, b, b.Succs[1], s2, k, false)
			} else if tok {
				st.env = te
				p.enter(fr, b, b.Succs[0], st, k, decided)
			} else if fok {
				st.env = fe
				p.enter(fr, b, b.Succs[1], st, k, decided)
			}
			return
		}
	}
}

func (p *PX) enter(fr *pxFrame, from, to *ssa.BasicBlock, st *pxState, k pxCont, decided bool) {
	key := fmt.Sprintf("%s%d", fr.id, to.Index)
	if !decided {
		st.visits[key]++
		if st.visits[key] > 2 {
			return // loop unrolled once on undecided conditions
		}
	} else {
		st.visits[key+"d"]++
		if st.visits[key+"d"] > 70000 {
			return
		}
	}
	p.block(fr, to, from, st, k)
}
