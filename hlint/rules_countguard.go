package main

// C03.R7 (counts) — a guard on a declared count or index refuses only
// negative values.
//
// Lengths, field counts and table indices arrive as wire integers; 0 is a
// legal value of every one of them (the empty list, the class without fields,
// the first entry of a table).  Obligation per comparison, in a function on
// the decode path, of a signed integer derived from the wire (the result of an
// integer reader of the package, or arithmetic on the tag octet — followed
// through conversions, φ-nodes and ± constants) with a constant in [-1,1],
// one side of which only returns (an error, or "no value"): the values on
// that side, by interval refinement of the comparison, are all negative.
// `count <= 0` for `count < 0` turns the empty container into an error or a
// nil that is never registered.

import (
	"fmt"
	"go/types"
	"math/big"

	"golang.org/x/tools/go/ssa"
)

func (w *World) ruleCountGuardsTight(r *Report, rule string, min int) {
	reach := w.reachPkg(w.decodeEntryPoints()...)
	consumers := w.canReach(w.streamConsumers())
	n := 0
	for _, fn := range w.SrcFuncs() {
		if !reach[fn] && !reach[rootFn(fn)] {
			continue
		}
		var f *Flow
		// wire-derived: an integer result of a package function that reads the stream,
		// or arithmetic on a byte-typed parameter / tag value
		memo := map[ssa.Value]int{}
		var wire func(v ssa.Value, d int) bool
		wire = func(v ssa.Value, d int) bool {
			if d > 8 {
				return false
			}
			if m, ok := memo[v]; ok {
				return m == 1
			}
			memo[v] = 2
			res := false
			switch x := v.(type) {
			case *ssa.Extract:
				if c, ok := x.Tuple.(*ssa.Call); ok {
					for _, cal := range w.calleesOf(c) {
						if w.inPkg(cal) && consumers[cal] {
							if b, ok := x.Type().Underlying().(*types.Basic); ok && b.Info()&types.IsInteger != 0 {
								res = true
							}
						}
					}
				}
			case *ssa.Convert:
				res = wire(x.X, d+1)
			case *ssa.ChangeType:
				res = wire(x.X, d+1)
			case *ssa.Phi:
				for _, e := range x.Edges {
					if wire(e, d+1) {
						res = true
					}
				}
			case *ssa.BinOp:
				_, cy := x.Y.(*ssa.Const)
				if cy {
					res = wire(x.X, d+1)
				}
			case *ssa.Parameter:
				if b, ok := x.Type().Underlying().(*types.Basic); ok && (b.Kind() == types.Uint8 || b.Kind() == types.Byte) {
					res = true
				}
			}
			if res {
				memo[v] = 1
			}
			return res
		}
		onlyReturns := func(b *ssa.BasicBlock) bool {
			for i := 0; i < 3; i++ {
				switch b.Instrs[len(b.Instrs)-1].(type) {
				case *ssa.Return:
					return true
				case *ssa.Jump:
					b = b.Succs[0]
				default:
					return false
				}
			}
			return false
		}
		cnt := 0
		inLoop := map[*ssa.BasicBlock]bool{}
		loops := naturalLoops(fn)
		for _, lp := range loops {
			for b := range lp.body {
				inLoop[b] = true
			}
		}
		// rotatedPreTest: the compiler's form of `for j := range n` (and of any loop it
		// rotates) tests the bound once BEFORE the loop (`0 < n`) and again at the bottom
		// (`j+1 < n`), both leaving to the same block: the test in front is the loop test
		// of the first iteration, not a guard that refuses a count — like the header test
		// of `for j := 0; j < n; j++`, which is skipped as being inside the loop.
		rotatedPreTest := func(b, into, out *ssa.BasicBlock, operand ssa.Value) bool {
			for _, lp := range loops {
				if lp.header != into || lp.body[b] {
					continue
				}
				for lb := range lp.body {
					li, ok := lb.Instrs[len(lb.Instrs)-1].(*ssa.If)
					if !ok {
						continue
					}
					lbo, ok := li.Cond.(*ssa.BinOp)
					if !ok || (lbo.X != operand && lbo.Y != operand) {
						continue
					}
					if (lb.Succs[0] == lp.header && lb.Succs[1] == out) || (lb.Succs[1] == lp.header && lb.Succs[0] == out) {
						return true
					}
				}
			}
			return false
		}
		for _, b := range fn.Blocks {
			iff, ok := b.Instrs[len(b.Instrs)-1].(*ssa.If)
			if !ok || inLoop[b] {
				continue // a loop test (`for left := n; left > 0; left--`) is not a guard
			}
			bo, ok := iff.Cond.(*ssa.BinOp)
			if !ok {
				continue
			}
			var operand ssa.Value
			var k *ssa.Const
			if c, ok := bo.Y.(*ssa.Const); ok {
				operand, k = bo.X, c
			} else if c, ok := bo.X.(*ssa.Const); ok {
				operand, k = bo.Y, c
			}
			if k == nil || k.Value == nil {
				continue
			}
			bt, ok := operand.Type().Underlying().(*types.Basic)
			if !ok || bt.Info()&types.IsInteger == 0 || bt.Info()&types.IsUnsigned != 0 {
				continue
			}
			if k.Int64() < -1 || k.Int64() > 1 {
				continue
			}
			// the size of a container already in memory (v.Len(), len(s)): an early
			// return may treat the empty container specially, nothing larger
			size := isSizeValue(operand, 0)
			if !size && !wire(operand, 0) {
				continue
			}
			for _, succ := range b.Succs {
				other := b.Succs[0]
				if other == succ {
					other = b.Succs[1]
				}
				if !onlyReturns(succ) || onlyReturns(other) {
					continue
				}
				if rotatedPreTest(b, other, succ, operand) {
					continue
				}
				if f == nil {
					f = w.flow(fn)
				}
				env := f.EdgeEnv(b, succ)
				set, _ := f.Eval(f.term(operand), env)
				if set == nil {
					continue
				}
				// a test for equality with a constant that selects a case (x == 0 → the empty form) is not a refusal of a range
				if bo.Op.String() == "==" || bo.Op.String() == "!=" {
					continue
				}
				// only lower-bound refusals: the refused side is the one below the constant
				if !set.Empty() && set.Min().Cmp(big.NewInt(k.Int64())) > 0 {
					continue // the side above the constant (too large): not this rule
				}
				n++
				cnt++
				ok2 := set.Empty() || set.Max().Sign() < 0
				fact := fmt.Sprintf("the side that only returns carries %s ∈ %s", f.term(operand).Key(), set)
				if size {
					ok2 = set.Empty() || set.Max().Sign() <= 0
					if ok2 {
						fact += ": only the empty container takes the early return"
					} else {
						fact += ": a container with elements takes the early return — its elements are dropped"
					}
				} else if ok2 {
					fact += ": only negative values are refused"
				} else {
					fact += ": a non-negative value is refused — 0 is a legal count / the first index"
				}
				r.add(rule, fmt.Sprintf("%s · lower-bound test #%d", fnName(fn), cnt), w.instrPos(iff), ok2, fact)
			}
		}
	}
	r.floor(rule+" (lower-bound tests on wire integers)", n, min)
}
