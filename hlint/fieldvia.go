package main

import (
	"golang.org/x/tools/go/ssa"
)

// fieldOfLoadVia: like fieldOfLoad, but a table handed to a helper as an
// argument is followed to what every caller passes: `indexOf(e.table, name)`
// reads the same table as the method `e.indexOf(name)` did.  All static call
// sites must pass a load of the same field; a function that can be entered in
// a way that is not a static in-package call does not resolve.
func (w *World) fieldOfLoadVia(v ssa.Value) (string, int, bool) {
	return w.fieldOfLoadViaD(v, 0)
}

func (w *World) fieldOfLoadViaD(v ssa.Value, depth int) (string, int, bool) {
	if o, f, ok := w.fieldOfLoad(v); ok {
		return o, f, true
	}
	if depth > 3 {
		return "", 0, false
	}
	switch x := v.(type) {
	case *ssa.ChangeType:
		return w.fieldOfLoadViaD(x.X, depth)
	case *ssa.Parameter:
		g := x.Parent()
		pi := -1
		for i, p := range g.Params {
			if p == x {
				pi = i
			}
		}
		if pi < 0 {
			return "", 0, false
		}
		if _, ok := w.staticCallersOf(g); !ok {
			return "", 0, false
		}
		owner, fld, n := "", 0, 0
		for _, e := range w.CG.Nodes[g].In {
			c, ok := e.Site.(*ssa.Call)
			if !ok || pi >= len(c.Call.Args) {
				return "", 0, false
			}
			o, f, ok := w.fieldOfLoadViaD(c.Call.Args[pi], depth+1)
			if !ok || (n > 0 && (o != owner || f != fld)) {
				return "", 0, false
			}
			owner, fld = o, f
			n++
		}
		return owner, fld, n > 0
	}
	return "", 0, false
}

// termContainsVia: the flow term of v (in its own function) contains the text
// `needle` — or v is a parameter and that holds for the argument at every
// static in-package call site (recursively): `e.registeredName(typ.Name())`
// looks `typ.Name()` up in the name map exactly as the inlined
// `e.nameMap[typ.Name()]` did.  A function that can be entered otherwise does
// not resolve.
func (w *World) termContainsVia(v ssa.Value, needle string, depth int) bool {
	if in, ok := v.(ssa.Instruction); ok && in.Parent() != nil {
		if containsStr(w.flow(in.Parent()).term(v).Key(), needle) {
			return true
		}
	}
	x, ok := v.(*ssa.Parameter)
	if !ok || depth > 3 {
		return false
	}
	g := x.Parent()
	pi := -1
	for i, p := range g.Params {
		if p == x {
			pi = i
		}
	}
	if pi < 0 {
		return false
	}
	if _, ok := w.staticCallersOf(g); !ok {
		return false
	}
	n := 0
	for _, e := range w.CG.Nodes[g].In {
		c, ok := e.Site.(*ssa.Call)
		if !ok || pi >= len(c.Call.Args) || !w.termContainsVia(c.Call.Args[pi], needle, depth+1) {
			return false
		}
		n++
	}
	return n > 0
}
