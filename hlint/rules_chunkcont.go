package main

// C09.R5 / C06.R2 — chunk continuation follows the grammar.
//
//   string ::= x52 b1 b0 <utf8-data> string | 'S' b1 b0 <utf8-data> | [x00-x1f] … | [x30-x33] b0 …
//   binary ::= x41 b1 b0 <binary-data> binary | 'B' b1 b0 <binary-data> | [x20-x2f] … | [x34-x37] b0 …
//
// Only the non-final chunk form is followed by another chunk of the same
// value.  The string and binary decoders are explored path by path (helpers
// and tag predicates stepped into; the length reader and the tag sources
// opaque).  Obligation per tag-source call that
// a path reaches after a chunk length has been read (that is: the read of the
// NEXT chunk's tag): the tag handed to the latest length reader on that path —
// the tag of the chunk just consumed — cannot be one of the production's final
// forms under the path's facts.  A reader that goes on after 'S' / 'B' / a
// compact form swallows the first octet(s) of the next value on the stream.

import (
	"fmt"
	"sort"
	"strings"

	"golang.org/x/tools/go/ssa"
)

func (w *World) ruleChunkContinuation(r *Report, rule string) {
	n := 0
	for _, cn := range []string{"string", "binary"} {
		c := w.codecs()[cn]
		if c == nil || c.Dec == nil {
			r.undecided(rule, cn+" decoder", "-", "not found")
			continue
		}
		fn := c.Dec
		r.fnSeen(fnName(fn))
		final := specTags(cn, "short").Union(specTags(cn, "medium")).Union(specTags(cn, "final"))
		type agg struct {
			ok    bool
			facts []string
			paths int
		}
		sites := map[string]*agg{}
		var px *PX
		px = w.newPX(pxHooks{
			inline: func(fr *pxFrame, callee *ssa.Function) bool {
				// a classifier of one octet (tag predicates, however written: ranges, masks,
				// wrap-around subtraction, tables) is used through its exact summary
				return !w.isLengthReaderFn(callee) && !w.isTagSourceFn(callee) && w.finiteFn(callee) == nil && !w.isTagPredicate(callee)
			},
			onInstr: func(fr *pxFrame, in ssa.Instruction, st *pxState) bool {
				x, ok := in.(*ssa.Call)
				if !ok {
					return true
				}
				sc := x.Call.StaticCallee()
				if w.isLengthReaderFn(sc) {
					st.trace = append(st.trace, pxEvent{Kind: "chunklen", Call: x, Frame: fr, Args: []*Term{px.term(x.Call.Args[1], fr, st)}, Pos: w.instrPos(x)})
					return false
				}
				if sc != nil && w.isTagSourceFn(sc) {
					return false
				}
				// a payload read (the stream and a buffer handed to a reader) is not followed
				stream, buf := x.Call.IsInvoke() && isStreamType(x.Call.Value.Type()), false
				for _, a := range x.Call.Args {
					if isStreamType(a.Type()) {
						stream = true
					}
					if isByteSlice(a.Type()) || isRuneSlice(a.Type()) {
						buf = true
					}
				}
				if stream && buf {
					return false
				}
				return true
			},
			// evaluated when the block holding the tag read is entered: before the
			// explorer forgets the registers of an earlier execution of that block
			prune: func(fr *pxFrame, b *ssa.BasicBlock, st *pxState) bool {
				var last *pxEvent
				for i := range st.trace {
					if st.trace[i].Kind == "chunklen" {
						last = &st.trace[i]
					}
				}
				if last == nil {
					return false // the tag of the first chunk
				}
				for _, in := range b.Instrs {
					x, ok := in.(*ssa.Call)
					if !ok || x.Call.StaticCallee() == nil || !w.isTagSourceFn(x.Call.StaticCallee()) {
						continue
					}
					k := w.instrPos(x)
					a := sites[k]
					if a == nil {
						a = &agg{ok: true}
						sites[k] = a
					}
					a.paths++
					I, _ := px.evalTerm(last.Args[0], st)
					if I == nil || !I.Intersect(final).Empty() {
						a.ok = false
						a.facts = append(a.facts, fmt.Sprintf("reached with the tag of the chunk just read (%s, length read at %s) ∈ %s, which includes the final forms %s: the reader continues after a chunk that ends the value", last.Args[0].key, last.Pos, I, I.Intersect(final)))
					}
				}
				return false
			},
		})
		px.views = true
		px.Run(fn, nil)
		if px.Truncated {
			r.undecided(rule, fnName(fn), w.pos(fn.Pos()), "path exploration exceeded its budget")
			continue
		}
		var order []string
		for k := range sites {
			order = append(order, k)
		}
		sort.Strings(order)
		for i, k := range order {
			a := sites[k]
			fact := fmt.Sprintf("on all %d paths the chunk just read cannot be a final form (%s): only x%02x continues", a.paths, final, specTags(cn, "chunk").Min())
			if !a.ok {
				fact = strings.Join(uniq(a.facts), "; ")
			}
			r.add(rule, fmt.Sprintf("%s · next-chunk tag read #%d", fnName(fn), i+1), k, a.ok, fact)
		}
		if len(order) > 0 {
			n++
		}
	}
	r.floor(rule+" (chunked decoders with a next-chunk read)", n, 2)
}
