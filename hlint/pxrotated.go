package main

// Summarised loops in ROTATED form.
//
// `for j := range n` (and any loop the compiler rotates) tests its bound before
// the loop (`0 < n`) and at the bottom (`j+1 < n`); the header — where the
// counter φ lives and where a summarised loop makes it a fresh symbol — carries
// no test.  The fact the body of `for j := 0; j < n; j++` gets from its header
// test is here an invariant of the header: it holds on the entry edge (the
// pre-test, looked up in the path's facts) and on every back edge (the branch
// that re-enters the header is the true side of `next < n`, next being the value
// the φ takes on that edge), n being the same loop-invariant value.  Established
// here for the fresh counter symbol so that rules asking for `j < bound` at an
// access inside the body (C03.R8 / C14.R8, C14.R1) find it.

import (
	"go/token"

	"golang.org/x/tools/go/ssa"
)

func (p *PX) rotatedCounterBound(fr *pxFrame, lp *loopInfo, phi *ssa.Phi, fresh, init *Term, st *pxState) {
	if init == nil {
		return
	}
	var bound ssa.Value
	back := 0
	for i, pred := range lp.header.Preds {
		if !lp.body[pred] {
			continue
		}
		back++
		iff, ok := pred.Instrs[len(pred.Instrs)-1].(*ssa.If)
		if !ok {
			return
		}
		bo, ok := iff.Cond.(*ssa.BinOp)
		if !ok {
			return
		}
		var b ssa.Value
		switch {
		case bo.Op == token.LSS && bo.X == phi.Edges[i] && pred.Succs[0] == lp.header:
			b = bo.Y // next < n, true side re-enters
		case bo.Op == token.GTR && bo.Y == phi.Edges[i] && pred.Succs[0] == lp.header:
			b = bo.X // n > next
		case bo.Op == token.GEQ && bo.X == phi.Edges[i] && pred.Succs[1] == lp.header:
			b = bo.Y // next >= n, false side re-enters
		case bo.Op == token.LEQ && bo.Y == phi.Edges[i] && pred.Succs[1] == lp.header:
			b = bo.X // n <= next
		default:
			return
		}
		if bound != nil && bound != b {
			return
		}
		bound = b
	}
	if bound == nil || back == 0 {
		return
	}
	// the bound is not computed inside the loop
	if in, ok := bound.(ssa.Instruction); ok && in.Block() != nil && lp.body[in.Block()] {
		return
	}
	bt := p.term(bound, fr, st)
	// the entry edge: init < bound is a fact of the path (the pre-test), or follows
	// from the value sets
	holds := false
	for _, k := range []string{"(" + init.key + " < " + bt.key + ")", "(" + bt.key + " > " + init.key + ")"} {
		if s, has := st.env[k]; has && s.Equal(single(1)) {
			holds = true
		}
	}
	for _, k := range []string{"(" + init.key + " >= " + bt.key + ")", "(" + bt.key + " <= " + init.key + ")"} {
		if s, has := st.env[k]; has && s.Equal(single(0)) {
			holds = true
		}
	}
	if !holds {
		is, _ := p.f.Eval(init, st.env)
		bs, _ := p.f.Eval(bt, st.env)
		if is != nil && bs != nil && !is.Empty() && !bs.Empty() && is.Max().Cmp(bs.Min()) < 0 {
			holds = true
		}
	}
	if !holds {
		return
	}
	st.env["("+fresh.key+" < "+bt.key+")"] = single(1)
}
