package main

// C03.R4, the 'M' arm of the map-field reader, on the path explorer.
//
// The block-level form looked for "the first Decoder method called in the
// blocks where tag == 'M'".  With the arms of the tag switch turned into
// entries of a table of functions (`start := _mapFieldStarts[tag]; done, err :=
// start(d, tag, dest)`) there is no such block.  Here the reader is explored
// with its tag octet fixed to 'M' (table look-ups are constants, the function
// value is stepped into): on every path that gets past the tag the first stream
// read must be the type reader, its error must be branched on, and on the
// paths where it failed the function returns a non-nil error without reading on.

import (
	"fmt"
	"go/types"
	"sort"
	"strings"

	"golang.org/x/tools/go/ssa"
)

func (w *World) ruleMapFieldTypeRead(r *Report, rule string) {
	rm := w.fn("(*Decoder).readMap")
	rt := w.fn("(*Decoder).readType")
	if rm == nil || rt == nil {
		r.undecided(rule, "(*Decoder).readMap", "-", "anchor not found")
		return
	}
	readers := map[*ssa.Function]string{}
	for fn, l := range w.readerBoundaries() {
		readers[fn] = l
	}
	readers[rt] = "type"
	if rd := w.fn("(*Decoder).ReadData"); rd != nil {
		readers[rd] = "value"
	}
	isTagSource := func(sc *ssa.Function) bool {
		if sc == nil || !w.inPkg(sc) {
			return false
		}
		rs := sc.Signature.Results()
		return rs.Len() == 2 && (typeStr(rs.At(0).Type()) == "byte" || typeStr(rs.At(0).Type()) == "uint8") && isErrorType(rs.At(1).Type())
	}
	rset := map[*ssa.Function]bool{}
	for fn := range readers {
		rset[fn] = true
	}
	for _, fn := range w.SrcFuncs() {
		if isTagSource(fn) {
			rset[fn] = true
		}
	}
	reachesReader := w.canReach(rset)
	const t = 'M'
	firsts := map[string]bool{}
	pos := "-"
	nPaths, nFailed := 0, 0
	var bad []string
	var px *PX
	px = w.newPX(pxHooks{
		onInstr: func(fr *pxFrame, in ssa.Instruction, st *pxState) bool {
			c, ok := in.(*ssa.Call)
			if !ok {
				return true
			}
			sc := c.Call.StaticCallee()
			if sc == nil {
				return true
			}
			if _, bound := st.vals["__tag"]; !bound {
				// (in the reader itself or in the head of the production split off into a
				// helper — only helpers that are not readers themselves are stepped into, so
				// the first tag read on the path is the reader's own tag)
				if isTagSource(sc) {
					reg := px.reg(fr, c)
					tt := &Term{K: TConst, C: bi(int64(t)), T: types.Typ[types.Uint8], key: fmt.Sprint(int(t))}
					st.vals[reg+"#0"] = tt
					st.vals["__tag"] = tt
					st.env["(<x#1<"+reg+">> != nil:error)"] = single(0)
					st.env["(<x#1<"+reg+">> == nil:error)"] = single(1)
					return false
				}
				return true
			}
			label, isReader := readers[sc]
			if !isReader && isTagSource(sc) {
				label, isReader = "tag", true
			}
			if !isReader {
				return true
			}
			if _, has := st.vals["__r1"]; !has {
				st.vals["__r1"] = &Term{K: TLeaf, key: label + "|" + fnName(sc)}
				ei := errIndex(sc.Signature)
				ek := "<" + px.reg(fr, c) + px.iterTag(fr, c, st) + ">"
				if sc.Signature.Results().Len() > 1 {
					ek = fmt.Sprintf("<x#%d%s>", ei, ek)
				}
				st.vals["__r1err"] = &Term{K: TLeaf, key: ek}
				if pos == "-" {
					pos = w.instrPos(c)
				}
			} else if _, has2 := st.vals["__r2"]; !has2 {
				st.vals["__r2"] = &Term{K: TLeaf, key: fnName(sc) + " at " + w.instrPos(c)}
			}
			return false
		},
		onReturn: func(fr *pxFrame, ret *ssa.Return, results []*Term, st *pxState) {
			if _, bound := st.vals["__tag"]; !bound {
				return
			}
			nPaths++
			r1 := st.vals["__r1"]
			if r1 == nil {
				firsts["nothing (return at "+w.instrPos(ret)+")"] = true
				return
			}
			firsts[r1.key] = true
			if !strings.HasPrefix(r1.key, "type|") {
				return
			}
			ek := st.vals["__r1err"].key
			failed := false
			if s, has := st.env["("+ek+" != nil:error)"]; has && s.Equal(single(1)) {
				failed = true
			}
			if s, has := st.env["("+ek+" == nil:error)"]; has && s.Equal(single(0)) {
				failed = true
			}
			if !failed {
				return
			}
			nFailed++
			if r2 := st.vals["__r2"]; r2 != nil {
				bad = append(bad, "after the type reader failed the path goes on reading ("+r2.key+")")
			}
			idx := errIndex(rm.Signature)
			if idx < 0 {
				return
			}
			et := results[idx]
			nonNil := et.key == ek || w.nonNilErr(ret.Results[idx], nil, nil, 0) || isBoxed(et)
			if s, has := st.env["("+et.key+" != nil:error)"]; has && s.Equal(single(1)) {
				nonNil = true
			}
			if !nonNil {
				bad = append(bad, "the type reader failed but the return at "+w.instrPos(ret)+" can report success")
			}
		},
		inline: func(fr *pxFrame, callee *ssa.Function) bool {
			// only what can lead to a stream read matters (the reflect helpers cannot)
			_, isReader := readers[callee]
			return !isReader && reachesReader[callee]
		},
		havoc: func(fr *pxFrame, lp *loopInfo) bool { return true },
	})
	px.Run(rm, Env{})
	var fs []string
	for k := range firsts {
		fs = append(fs, k)
	}
	sort.Strings(fs)
	ok := !px.Truncated && nPaths > 0 && len(fs) == 1 && strings.HasPrefix(fs[0], "type|") && nFailed > 0 && len(bad) == 0
	fact := fmt.Sprintf("with the tag fixed to 'M': first stream read on the %d explored paths: %v", nPaths, fs)
	switch {
	case px.Truncated:
		fact = "path exploration exceeded its budget"
	case len(bad) > 0:
		fact += "; " + strings.Join(uniq(bad), "; ")
	case ok:
		fact += "; its error is branched on and the failing paths return a non-nil error without reading on"
	case nFailed == 0 && len(fs) == 1 && strings.HasPrefix(fs[0], "type|"):
		fact += "; its error is dropped: no path distinguishes a failed type read"
	}
	r.add(rule, "(*Decoder).readMap · 'M' arm first read", pos, ok, fact)
}
