package main

// Unboxed wire integers are not narrowed (C07.R7).
//
// The readers hand integers on as interface values (int32 for the int forms,
// int64 for the long forms); the conversion helpers and field setters unbox
// them with type assertions and convert to the destination's width.  A
// conversion of such an unboxed integer to a type of FEWER bits (`uint64(
// uint32(i64))`) silently drops the high bits of every long that needs them:
// the number decoded differs from the number sent.  Obligation per integer
// conversion, in a function the decode entry points reach, whose operand is
// the result of a type assertion to an integer type: the destination is at
// least as wide as the asserted type.  (Found by the structural mutation sweep
// of round 8: EnsureUint64 narrowed through uint32 kept the 33 tests green.)

import (
	"fmt"
	"go/types"

	"golang.org/x/tools/go/ssa"
)

func (w *World) ruleUnboxedNotNarrowed(r *Report, rule string, min int) {
	reach := w.reachPkg(w.decodeEntryPoints()...)
	n := 0
	bitsOf := func(t types.Type) (uint, bool) {
		b, _, ok := intTypeInfo(w, t)
		return b, ok
	}
	for _, fn := range w.SrcFuncs() {
		if !(reach[fn] || reach[rootFn(fn)]) || fn.Blocks == nil {
			continue
		}
		k := 0
		for _, b := range fn.Blocks {
			for _, in := range b.Instrs {
				cv, ok := in.(*ssa.Convert)
				if !ok {
					continue
				}
				src := cv.X
				if ex, isEx := src.(*ssa.Extract); isEx {
					src = ex.Tuple
				}
				ta, ok := src.(*ssa.TypeAssert)
				if !ok {
					continue
				}
				sb, ok1 := bitsOf(ta.AssertedType)
				db, ok2 := bitsOf(cv.Type())
				if !ok1 || !ok2 {
					continue
				}
				n++
				k++
				good := db >= sb
				r.add(rule, fmt.Sprintf("%s · conversion #%d of an unboxed %s", fnName(fn), k, typeStr(ta.AssertedType)), w.instrPos(cv), good, map[bool]string{
					true:  fmt.Sprintf("converted to %s: no bits are lost", typeStr(cv.Type())),
					false: fmt.Sprintf("converted to %s (%d bits) from %s (%d bits): the high bits of every wire integer that needs them are dropped", typeStr(cv.Type()), db, typeStr(ta.AssertedType), sb)}[good])
			}
		}
	}
	r.floor(rule+" (conversions of unboxed wire integers)", n, min)
}
