package main

// Stream reads through a method value.
//
// `next := reader.ReadRune; for i := range buf { r, _, err := next() … }`: the
// method value of an interface method is a bound-method wrapper closed over the
// stream; calling it is the interface call `reader.ReadRune()`.  The rules that
// ask "is this call a read of the stream, with which method" (payloadunits.go:
// one ReadRune per buffer element, errors returned are read failures) see the
// same read through streamReadCall.

import (
	"go/types"
	"strings"

	"golang.org/x/tools/go/ssa"
)

// boundStreamWrapper: fn is the bound-method wrapper of a method of a stream
// interface; the interface type and the method name.
func boundStreamWrapper(fn *ssa.Function) (types.Type, string, bool) {
	if fn == nil || fn.Synthetic == "" || !strings.HasSuffix(fn.Name(), "$bound") || len(fn.FreeVars) != 1 {
		return nil, "", false
	}
	rt := fn.FreeVars[0].Type()
	if _, isIface := rt.Underlying().(*types.Interface); !isIface || !isStreamType(rt) {
		return nil, "", false
	}
	if _, isMethod := fn.Object().(*types.Func); !isMethod {
		return nil, "", false
	}
	return rt, strings.TrimSuffix(fn.Name(), "$bound"), true
}

// streamReadCall: c reads from a stream — an interface call on a stream type,
// or a call of a method value of such a method (named by the call itself, or,
// with px, known on the path through a variable / φ / parameter): the stream's
// type and the method.
func (w *World) streamReadCall(c *ssa.Call, px *PX, fr *pxFrame, st *pxState) (types.Type, string, bool) {
	if c.Call.IsInvoke() {
		if isStreamType(c.Call.Value.Type()) {
			return c.Call.Value.Type(), c.Call.Method.Name(), true
		}
		return nil, "", false
	}
	if t, m, ok := boundStreamWrapper(c.Call.StaticCallee()); ok {
		return t, m, true
	}
	if px != nil && st != nil {
		if _, isB := c.Call.Value.(*ssa.Builtin); !isB && c.Call.StaticCallee() == nil {
			if ft := px.term(c.Call.Value, fr, st); ft != nil && ft.K == TLeaf {
				if cl := px.closures[ft.key]; cl != nil {
					return boundStreamWrapper(cl.fn)
				}
			}
		}
	}
	return nil, "", false
}
