package main

import (
	"go/token"

	"golang.org/x/tools/go/ssa"
)

// spilledParam: the alloc is the frame copy of a by-value struct parameter
// (`func (reg T) m()` selecting `reg.f`: the builder spills the parameter into
// a local because a field address is taken) and that copy is never written
// again: its only store is the initial `*local = param`, every other use is a
// whole load or a field address that is itself only loaded from (recursively).
// A field load through it is then the field of the immutable parameter value.
func spilledParam(v ssa.Value) (*ssa.Parameter, bool) {
	al, ok := v.(*ssa.Alloc)
	if !ok || al.Heap || al.Referrers() == nil {
		return nil, false
	}
	var p *ssa.Parameter
	for _, ref := range *al.Referrers() {
		switch x := ref.(type) {
		case *ssa.Store:
			if x.Addr != ssa.Value(al) || p != nil {
				return nil, false
			}
			pp, isP := x.Val.(*ssa.Parameter)
			if !isP || x.Block() != al.Block() || al.Block().Index != 0 {
				return nil, false
			}
			p = pp
		case *ssa.DebugRef:
		default:
			if !readOnlyAddrUse(ref, al, 0) {
				return nil, false
			}
		}
	}
	return p, p != nil
}

// readOnlyAddrUse: the instruction only reads through the address a.
func readOnlyAddrUse(in ssa.Instruction, a ssa.Value, depth int) bool {
	if depth > 4 {
		return false
	}
	switch x := in.(type) {
	case *ssa.UnOp:
		return x.Op == token.MUL && x.X == a
	case *ssa.DebugRef:
		return true
	case *ssa.FieldAddr:
		if x.X != a || x.Referrers() == nil {
			return false
		}
		for _, r2 := range *x.Referrers() {
			if !readOnlyAddrUse(r2, x, depth+1) {
				return false
			}
		}
		return true
	}
	return false
}
