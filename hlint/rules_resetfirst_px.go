package main

// C11.R2 — one-shot entry points reset before work, read path by path.
//
// On every path through an entry point (in-package callees stepped into, the
// value dispatch and Reset themselves being the boundaries) each call of the
// value dispatch on a codec object is preceded, on that path, by a Reset of the
// SAME object.  Where Reset sits — in the entry point, in a convenience wrapper
// it delegates to, in a shared helper (`encodeWith(e, v)`), or in the
// constructor on the branch `w != nil` taken because the caller hands a
// writer it has just made — does not matter: the per-path event sequences are
// the same.  A call that is not stepped into (dynamic, recursive) and can reach
// the dispatch is accepted if every possible callee is itself reset-first or if
// some Reset precedes it on the path.

import (
	"fmt"
	"sort"
	"strings"

	"golang.org/x/tools/go/ssa"
)

type resetFirst struct {
	w           *World
	work        map[*ssa.Function]bool
	reachesWork map[*ssa.Function]bool
	isReset     func(*ssa.Function) bool
	memo        map[*ssa.Function]int // 1 computing, 2 true, 3 false
	why         map[*ssa.Function]string
}

func (rf *resetFirst) ok(fn *ssa.Function) bool {
	switch rf.memo[fn] {
	case 2:
		return true
	case 1, 3:
		return false
	}
	rf.memo[fn] = 1
	w := rf.w
	if rf.work[fn] {
		rf.memo[fn], rf.why[fn] = 3, "is the value dispatch itself"
		return false
	}
	nWork := 0
	var bad []string
	note := func(s string) {
		for _, b := range bad {
			if b == s {
				return
			}
		}
		bad = append(bad, s)
	}
	var px *PX
	px = w.newPX(pxHooks{
		inline: func(fr *pxFrame, callee *ssa.Function) bool {
			return !rf.work[callee] && !rf.isReset(callee)
		},
		onInstr: func(fr *pxFrame, in ssa.Instruction, st *pxState) bool {
			call, isCall := in.(*ssa.Call)
			if !isCall {
				return true
			}
			sc := w.unthunk(call.Call.StaticCallee())
			resetBefore := func(recv *Term) (same, any bool) {
				for _, ev := range st.trace {
					if ev.Kind == "reset" {
						any = true
						if recv != nil && len(ev.Args) == 1 && ev.Args[0].key == recv.key {
							same = true
						}
					}
				}
				return
			}
			switch {
			case sc != nil && rf.isReset(sc) && len(call.Call.Args) > 0:
				st.trace = append(st.trace, pxEvent{Kind: "reset", Call: call, Frame: fr, Args: []*Term{px.term(call.Call.Args[0], fr, st)}})
				return false
			case sc != nil && rf.work[sc] && len(call.Call.Args) > 0:
				nWork++
				recv := px.term(call.Call.Args[0], fr, st)
				if same, _ := resetBefore(recv); !same {
					note(fmt.Sprintf("the call to %s at %s is reached on a path without a preceding Reset of its receiver", fnName(sc), w.instrPos(call)))
				}
				return false
			case sc != nil && px.defaultInline(fr, sc):
				return true // stepped into
			}
			// not stepped into: can it reach the dispatch?
			for _, cal := range w.calleesOf(call) {
				if !rf.reachesWork[cal] || !w.inPkg(cal) {
					continue
				}
				nWork++
				if _, any := resetBefore(nil); any {
					continue
				}
				if rf.ok(cal) {
					continue
				}
				note(fmt.Sprintf("the call to %s at %s can reach the value dispatch without a preceding Reset (%s)", fnName(cal), w.instrPos(call), rf.why[cal]))
			}
			return true
		},
	})
	px.Run(fn, nil)
	if px.Truncated {
		note("exploration truncated")
	}
	if nWork == 0 {
		note("does not reach the value dispatch")
	}
	if len(bad) == 0 {
		rf.memo[fn] = 2
		return true
	}
	sort.Strings(bad)
	rf.memo[fn], rf.why[fn] = 3, strings.Join(bad, "; ")
	return false
}
