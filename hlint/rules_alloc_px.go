package main

// C14.R2 on the path explorer.
//
// The fixpoint of flow.go knows nothing about a size that travels through a
// struct (`shape := shapeList(n, open)` … `make([]T, shape.reserved)`): the
// clamp lives in the helper and the result comes back as a field of a value.
// When the fixpoint cannot bound an allocation, the function holding it is
// explored path by path with its helpers stepped into (production readers are
// not: they only produce the declared length), loops summarised; on every path
// that reaches the allocation the size must lie in [0, allocCap] under the
// facts of that path.  The obligation is unchanged.

import (
	"fmt"

	"golang.org/x/tools/go/ssa"
)

func (w *World) pxAllocBound(root *ssa.Function, target ssa.Instruction, size ssa.Value) (bool, string) {
	stop := w.readerBoundaries()
	reach := map[*ssa.BasicBlock]bool{target.Block(): true}
	for changed := true; changed; {
		changed = false
		for _, b := range root.Blocks {
			if reach[b] {
				continue
			}
			for _, s := range b.Succs {
				if reach[s] {
					reach[b] = true
					changed = true
					break
				}
			}
		}
	}
	useful := func(c *ssa.Call) bool {
		b := c.Block()
		after := false
		for _, in := range b.Instrs {
			if in == ssa.Instruction(c) {
				after = true
				continue
			}
			if after && in == target {
				return true
			}
		}
		for _, s := range b.Succs {
			if reach[s] {
				return true
			}
		}
		return false
	}
	var acc ISet
	met, bad := 0, 0
	badFact := ""
	var px *PX
	px = w.newPX(pxHooks{
		onInstr: func(fr *pxFrame, in ssa.Instruction, st *pxState) bool {
			if fr.parent == nil && in == target {
				met++
				S, fl := px.eval(size, fr, st)
				if S == nil || S.Empty() || fl.Overflow || !S.SubsetOf(mkSet(0, allocCap)) {
					bad++
					if badFact == "" {
						badFact = fmt.Sprintf("on a path the size is %s ∈ %s", px.term(size, fr, st).Key(), S)
					}
				} else {
					acc = acc.Union(S)
				}
				return true
			}
			if c, ok := in.(*ssa.Call); ok && fr.parent == nil && !useful(c) {
				return false // what happens after the allocation cannot bound it
			}
			return true
		},
		inline: func(fr *pxFrame, callee *ssa.Function) bool {
			_, isReader := stop[callee]
			return !isReader
		},
		havoc: func(fr *pxFrame, lp *loopInfo) bool { return true },
	})
	px.Run(root, Env{})
	if px.Truncated {
		return false, "path exploration exceeded its budget"
	}
	if met == 0 {
		return false, "no explored path reaches the allocation"
	}
	if bad > 0 {
		return false, badFact
	}
	return true, fmt.Sprintf("on each of the %d explored paths reaching the allocation (helpers stepped into) the size lies in %s", met, acc)
}
