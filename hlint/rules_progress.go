package main

// Loops make progress (C14: the decoder never runs away; C16: extraction
// terminates; C13/C02: the encoder returns).
//
// A loop none of whose exit tests can change from one iteration to the next
// either is never entered or never left.  Obligation per natural loop of the
// package (every function of the library, function literals included): at least
// one exit test — an `if` in the loop with a successor outside it, which is how
// `for cond`, `break`, `return` and the range forms all appear — depends on
// something the loop changes: a header φ (a loop-carried variable), a value
// produced by a call that has effects (a stream read, any package function), a
// load from memory while the loop stores or calls, a range iterator.  Getter
// methods of reflect.Value / reflect.Type and len/cap are functions of their
// operands.  `for v.Kind() == reflect.Ptr { }` with the `v = v.Elem()` gone is
// the shape this refuses: its test is the same in every iteration.

import (
	"fmt"
	"go/token"
	"strings"

	"golang.org/x/tools/go/ssa"
)

func (w *World) pureGetterCall(c *ssa.Call) bool {
	if _, ok := c.Call.Value.(*ssa.Builtin); ok {
		switch c.Call.Value.Name() {
		case "len", "cap", "min", "max", "real", "imag", "complex":
			return true
		}
		return false
	}
	name, pkg := "", ""
	if c.Call.IsInvoke() {
		name = c.Call.Method.Name()
		if p := c.Call.Method.Pkg(); p != nil {
			pkg = p.Path()
		}
	} else if sc := c.Call.StaticCallee(); sc != nil {
		if w.inPkg(sc) {
			return false
		}
		name = sc.Name()
		if sc.Pkg != nil {
			pkg = sc.Pkg.Pkg.Path()
		} else if sc.Signature.Recv() != nil {
			pkg = strings.TrimPrefix(strings.TrimPrefix(typeStr(sc.Signature.Recv().Type()), "*"), "(")
			if i := strings.Index(pkg, "."); i > 0 {
				pkg = pkg[:i]
			}
		}
	} else {
		return false
	}
	switch pkg {
	case "reflect":
		return !strings.HasPrefix(name, "Set") && !strings.HasPrefix(name, "Call") && name != "Send" && name != "Recv" && name != "Next" && name != "TrySend" && name != "TryRecv" && name != "Grow" && name != "Clear"
	case "strings", "unicode", "unicode/utf8", "math", "math/bits", "strconv", "bytes":
		return name != "Write" && name != "WriteString" && name != "WriteByte" && name != "WriteRune" && !strings.HasPrefix(name, "Read") && name != "Next" && name != "Reset" && name != "Truncate" && name != "Grow"
	}
	return false
}

func (w *World) ruleLoopsProgress(r *Report, rule string, min int, want func(fn *ssa.Function) bool) {
	n := 0
	for _, fn := range w.SrcFuncs() {
		if want != nil && !want(fn) {
			continue
		}
		for li, lp := range naturalLoops(fn) {
			// does the loop write memory / call out?
			writes := false
			for b := range lp.body {
				for _, in := range b.Instrs {
					switch x := in.(type) {
					case *ssa.Store, *ssa.MapUpdate, *ssa.Send, *ssa.Go, *ssa.Defer:
						writes = true
					case *ssa.Call:
						if !w.pureGetterCall(x) {
							writes = true
						}
					}
				}
			}
			memo := map[ssa.Value]int{} // 1 variant, 2 invariant, 3 in progress
			var variant func(v ssa.Value) bool
			variant = func(v ssa.Value) bool {
				in, ok := v.(ssa.Instruction)
				if !ok || in.Block() == nil || !lp.body[in.Block()] {
					return false
				}
				switch memo[v] {
				case 1:
					return true
				case 2, 3:
					return false
				}
				memo[v] = 3
				res := false
				switch x := v.(type) {
				case *ssa.Phi:
					if x.Block() == lp.header {
						// loop-carried: variant unless every back-edge value is the φ itself or invariant
						for i, e := range x.Edges {
							if lp.body[lp.header.Preds[i]] && e != ssa.Value(x) {
								if ein, ok := e.(ssa.Instruction); ok && ein.Block() != nil && lp.body[ein.Block()] {
									res = true
								}
							}
						}
					} else {
						// a merge inside the body: changes if an input changes, or if it
						// selects between different values at all (the selection is made anew)
						for _, e := range x.Edges {
							if variant(e) {
								res = true
							}
						}
					}
				case *ssa.Call:
					if !w.pureGetterCall(x) {
						res = true
					} else {
						for _, op := range x.Operands(nil) {
							if *op != nil && variant(*op) {
								res = true
							}
						}
					}
				case *ssa.UnOp:
					if x.Op == token.MUL {
						res = writes || variant(x.X)
					} else if x.Op == token.ARROW {
						res = true
					} else {
						res = variant(x.X)
					}
				case *ssa.Next, *ssa.Range, *ssa.Select:
					res = true
				case *ssa.Lookup:
					res = writes || variant(x.X) || variant(x.Index)
				default:
					for _, op := range in.Operands(nil) {
						if *op != nil && variant(*op) {
							res = true
						}
					}
				}
				if res {
					memo[v] = 1
				} else {
					memo[v] = 2
				}
				return res
			}
			exits, moving := 0, 0
			var firstPos string
			for b := range lp.body {
				iff, ok := b.Instrs[len(b.Instrs)-1].(*ssa.If)
				if !ok {
					continue
				}
				out := false
				for _, s := range b.Succs {
					if !lp.body[s] {
						out = true
					}
				}
				if !out {
					continue
				}
				exits++
				if firstPos == "" || b == lp.header {
					firstPos = w.instrPos(iff)
				}
				if variant(iff.Cond) {
					moving++
				}
			}
			// exits that are not tests: a panic / return block jumped to unconditionally cannot be in a natural loop
			n++
			pos := firstPos
			if pos == "" {
				pos = w.instrPos(lp.header.Instrs[0])
			}
			key := fmt.Sprintf("%s · loop #%d", fnName(fn), li+1)
			switch {
			case exits == 0:
				r.add(rule, key, pos, false, "the loop has no exit: once entered it never ends")
			case moving == 0:
				r.add(rule, key, pos, false, fmt.Sprintf("none of the %d exit tests depends on anything the loop changes (no loop-carried variable, no effectful call, no memory the loop writes): the loop is never entered or never left", exits))
			default:
				o := r.add(rule, key, pos, true, fmt.Sprintf("%d of %d exit tests depend on what the loop changes", moving, exits))
				o.Trivial = true
			}
		}
	}
	r.floor(rule+" (loops)", n, min)
}
