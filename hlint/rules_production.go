package main

// C02.R8 — every successful path of a container writer spells one production.
//
// The container writers are explored path by path (pxwriters.go); the ordered
// emissions of a path that can return a nil error are abstracted to tokens
// (G registration, R back-reference, S string, I int, B binary, D date,
// V one nested value, and one letter per header octet by the set it belongs
// to) and the token string must match the writer's production of the Hessian
// 2.0 grammar — the whole string, so that a stray octet, a terminator written
// twice or not at all, a count in the wrong place or a missing type are all
// mismatches.  Loop structure is not part of the token string (loop forms are
// free); element loops show up as V*, map entries as (VV)* or (SV)*.

import (
	"fmt"
	"regexp"
	"sort"
	"strings"
)

var writerProductions = map[string]struct {
	re   *regexp.Regexp
	text string
}{
	"(*Encoder).writeList": {regexp.MustCompile(`^(B|N|GR|G(t[SI]|v[SI]I|u|wI)V*|G(x[SI]|y)V*Z)$`),
		"binary | N | ref | x70-77 type value* | 'V' type int value* | x78-7f value* | x58 int value* | x55 type value* Z | x57 value* Z"},
	"(*Encoder).writeMap": {regexp.MustCompile(`^(N|GR|G(M[SI]|H)((VV)*|(SV)*)Z)$`),
		"N | ref | ('M' type | 'H') (value value)* Z   (a struct written as a map: (name value)*)"},
	"(*Encoder).writeObject": {regexp.MustCompile(`^(D|N|GR|G(CSIS*)?(c|OI)V*)$`),
		"date | N | ref | ('C' name int name*)? (x60-6f | 'O' int) value*"},
	"(*Encoder).writeRef": {regexp.MustCompile(`^QI$`), "x51 int"},
}

func octetClass(s ISet) byte {
	one := func(v int64) bool { return s.Equal(single(v)) }
	switch {
	case s == nil || s.Empty():
		return '?'
	case one(0x4e):
		return 'N'
	case one(0x5a):
		return 'Z'
	case one(0x4d):
		return 'M'
	case one(0x48):
		return 'H'
	case one(0x43):
		return 'C'
	case one(0x4f):
		return 'O'
	case one(0x51):
		return 'Q'
	case one(0x56):
		return 'v'
	case one(0x58):
		return 'w'
	case one(0x55):
		return 'x'
	case one(0x57):
		return 'y'
	case s.SubsetOf(mkSet(0x60, 0x6f)):
		return 'c'
	case s.SubsetOf(mkSet(0x70, 0x77)):
		return 't'
	case s.SubsetOf(mkSet(0x78, 0x7f)):
		return 'u'
	}
	return '?'
}

func (w *World) pathTokens(p wPath) string {
	var b strings.Builder
	for _, e := range p.Trace {
		switch {
		case e.Kind == "register":
			b.WriteByte('G')
		case e.Kind == "ref":
			b.WriteByte('R')
		case e.Kind == "octets" || e.Kind == "bytes":
			if len(e.Args) == 0 || e.Extra == "unmodelled" || e.Extra == "open" {
				b.WriteByte('Y')
				continue
			}
			for _, a := range e.Args {
				if a == nil {
					b.WriteByte('?')
					continue
				}
				s, _ := w.evalEv(a, e.Env)
				b.WriteByte(octetClass(s))
			}
		case e.Kind == "scalar:string":
			b.WriteByte('S')
		case e.Kind == "scalar:int":
			b.WriteByte('I')
		case e.Kind == "scalar:binary":
			b.WriteByte('B')
		case e.Kind == "scalar:date":
			b.WriteByte('D')
		case strings.HasPrefix(e.Kind, "scalar:"):
			b.WriteByte('s')
		case e.Kind == "value" || e.Kind == "list" || e.Kind == "map" || e.Kind == "object":
			b.WriteByte('V')
		}
	}
	return b.String()
}

func (w *World) ruleWriterProductions(r *Report, rule string) {
	var names []string
	for k := range writerProductions {
		names = append(names, k)
	}
	sort.Strings(names)
	n := 0
	for _, name := range names {
		fn := w.role(name)
		if fn == nil {
			r.undecided(rule, name, "-", "anchor not found")
			continue
		}
		wi := w.writerPaths(fn)
		if wi.truncated {
			r.undecided(rule, name, w.pos(fn.Pos()), "path exploration exceeded its budget")
			continue
		}
		prod := writerProductions[name]
		seen := map[string]bool{}
		var bad []string
		good := 0
		for _, p := range wi.paths {
			if !p.ErrNil {
				continue
			}
			t := w.pathTokens(p)
			if seen[t] {
				continue
			}
			seen[t] = true
			if prod.re.MatchString(t) {
				good++
			} else {
				bad = append(bad, t+" (returns at "+p.Pos+")")
			}
		}
		n++
		sort.Strings(bad)
		fact := fmt.Sprintf("%d distinct emission sequences of successful paths, all spell: %s", good, prod.text)
		if len(bad) > 0 {
			if len(bad) > 4 {
				bad = append(bad[:4], "…")
			}
			fact = fmt.Sprintf("emission sequences that are not a production (%s): %s   [G registration, R ref, S string, I int, V value, letters = header octets, ? = an octet outside every header set]", prod.text, strings.Join(bad, "; "))
		}
		if good == 0 && len(bad) == 0 {
			r.undecided(rule, name+" · emission sequences", w.pos(fn.Pos()), "no successful path was explored")
			continue
		}
		r.add(rule, name+" · emission sequences", w.pos(fn.Pos()), len(bad) == 0, fact)
	}
	r.floor(rule, n, 4)
}
