package main

// A table of value sizes by first octet agrees with the grammar (C05.R8 / C03.R13).
//
// "Wire fields with no Go counterpart are skipped without disturbing the
// fields after them" allows two implementations: decode the value and drop
// it, or step over it by its size.  The second needs, for every first octet
// it claims to know, the exact number of octets that follow — and that is a
// function of the first octet only for the fixed-size forms of the grammar
// (null, booleans, the int / long / double / date forms) and for the short
// binary (x20-x2f: tag - x20 octets).  A string's length counts characters,
// not octets, so no string form with a non-zero length has a size by tag; the
// medium / chunked forms, lists, maps, objects, references and definitions
// have none either.
//
// Instance: every package function of one 8-bit parameter returning (int,
// bool) — "size, known" — explored once per octet value (px, as the tag
// predicates are).  For each octet the function answers known == true for, the
// size must be the grammar's (frozen table, spec.go).  The unchanged tree has
// no such function: the clause is vacuous there and says so in its note; it
// exists because the skip-by-size design is the natural optimisation of the
// unknown-field path (seeded C05n: the short-string row skips the character
// count as an octet count, and a non-ASCII string in an unknown field shifts
// every field after it).

import (
	"fmt"
	"go/types"

	"golang.org/x/tools/go/ssa"
)

func specSizeByTag(tag int) (int, bool) {
	sf := specByTag[tag]
	if sf == nil {
		return 0, false
	}
	switch sf.Prod {
	case "null", "bool", "int", "long", "double", "date":
		if sf.Payload >= 0 {
			return sf.Payload, true
		}
	case "binary":
		if sf.Form == "short" {
			return tag - sf.Lo, true
		}
	case "string":
		if sf.Form == "short" && tag == sf.Lo {
			return 0, true
		}
	}
	return 0, false
}

func (w *World) ruleSizeTables(r *Report, rule string) {
	n := 0
	for _, fn := range w.SrcFuncs() {
		if fn.Parent() != nil || fn.Blocks == nil || !w.inPkg(fn) || fn.Signature.Recv() != nil || len(fn.Params) != 1 || fn.Signature.Results().Len() != 2 {
			continue
		}
		if bits, signed, ok := intTypeInfo(w, fn.Params[0].Type()); !ok || bits != 8 || signed {
			continue
		}
		r0, ok0 := fn.Signature.Results().At(0).Type().Underlying().(*types.Basic)
		r1, ok1 := fn.Signature.Results().At(1).Type().Underlying().(*types.Basic)
		if !ok0 || !ok1 || r0.Info()&types.IsInteger == 0 || r1.Info()&types.IsBoolean == 0 {
			continue
		}
		// role: the size is used to step over octets — at some call site the int
		// result is handed to a function answering a []byte (an octet read)
		isSkip := false
		for _, g := range w.SrcFuncs() {
			for _, b := range g.Blocks {
				for _, in := range b.Instrs {
					c, ok := in.(*ssa.Call)
					if !ok || c.Call.StaticCallee() != fn || c.Referrers() == nil {
						continue
					}
					for _, ref := range *c.Referrers() {
						ex, ok := ref.(*ssa.Extract)
						if !ok || ex.Index != 0 || ex.Referrers() == nil {
							continue
						}
						for _, u := range *ex.Referrers() {
							uc, ok := u.(*ssa.Call)
							if !ok {
								continue
							}
							res := uc.Call.Signature().Results()
							for i := 0; i < res.Len(); i++ {
								if typeStr(res.At(i).Type()) == "[]byte" {
									isSkip = true
								}
							}
						}
					}
				}
			}
		}
		if !isSkip {
			continue
		}
		n++
		var bad []string
		undecided := ""
		for tag := 0; tag < 256 && undecided == ""; tag++ {
			type outT struct {
				size  int64
				known bool
			}
			var outs []outT
			fail := false
			px := w.newPX(pxHooks{
				onReturn: func(fr *pxFrame, ret *ssa.Return, results []*Term, st *pxState) {
					if fr.parent != nil {
						return
					}
					px2 := w.newPX(pxHooks{})
					s, _ := px2.evalTerm(results[0], st)
					k, _ := px2.evalTerm(results[1], st)
					if s == nil || k == nil || k.Card().Cmp(one) != 0 {
						fail = true
						return
					}
					known := k.Min().Sign() != 0
					if known && s.Card().Cmp(one) != 0 {
						fail = true
						return
					}
					o := outT{known: known}
					if known {
						o.size = s.Min().Int64()
					}
					outs = append(outs, o)
				},
			})
			px.maxPaths, px.maxSteps = 64, 6000
			px.Run(fn, Env{"<p:" + fn.Params[0].Name() + ">": single(int64(tag))})
			if fail || px.Truncated || len(outs) == 0 {
				undecided = fmt.Sprintf("the answer for octet x%02x is not a constant the explorer can evaluate", tag)
				break
			}
			for _, o := range outs {
				if !o.known {
					continue
				}
				want, fixed := specSizeByTag(tag)
				switch {
				case !fixed:
					prod := "reserved"
					if sf := specByTag[tag]; sf != nil {
						prod = sf.Prod + " " + sf.Form
					}
					bad = append(bad, fmt.Sprintf("x%02x (%s): answers %d octets, but the size of this form is not a function of its first octet (a string's length counts characters; containers and chunked forms must be read)", tag, prod, o.size))
				case int64(want) != o.size:
					bad = append(bad, fmt.Sprintf("x%02x: answers %d octets, the grammar says %d", tag, o.size, want))
				}
			}
		}
		key := fnName(fn) + " · size by first octet"
		switch {
		case undecided != "":
			r.undecided(rule, key, w.pos(fn.Pos()), undecided)
		case len(bad) > 0:
			more := ""
			if len(bad) > 4 {
				more = fmt.Sprintf(" … and %d more", len(bad)-4)
				bad = bad[:4]
			}
			r.add(rule, key, w.pos(fn.Pos()), false, "a value stepped over by this size leaves octets of it on the stream (or eats octets of the next value): "+uniqJoin(bad)+more)
		default:
			r.add(rule, key, w.pos(fn.Pos()), true, "for every first octet the function claims to know, the size is the grammar's (fixed-size scalar forms and the short binary only)")
		}
	}
	r.note("%s: %d size-by-first-octet function(s) in the package (the clause is vacuous when there is none)", rule, n)
}
