package main

// Summarised loops whose counter is stopped by an equality test.
//
// `i := len(s); for { if i == 0 { break }; i--; … s[i] … }` and `for i :=
// len(t); i != 0; { i--; … }` count down to a constant with `==` / `!=` instead
// of `>`.  A counter that moves by exactly one per iteration, starts on the
// near side of the constant c and passes — in every iteration, before the back
// edge — a test that leaves the loop when it equals c cannot step over c: at
// the loop header it lies between c and its initial value.  (With `i > 0` the
// interval refinement of the test gives the same bound; with `!=` it cannot,
// the far side of c is excluded by the step, not by the comparison.)

import (
	"go/token"
	"math/big"

	"golang.org/x/tools/go/ssa"
)

// equalityExit: the constant c such that every iteration of lp tests the
// counter phi itself for equality with c and leaves the loop when equal.
func equalityExit(lp *loopInfo, phi *ssa.Phi) (*big.Int, bool) {
	var latches []*ssa.BasicBlock
	for _, q := range lp.header.Preds {
		if lp.body[q] {
			latches = append(latches, q)
		}
	}
	if len(latches) == 0 {
		return nil, false
	}
	for b := range lp.body {
		if len(b.Instrs) == 0 {
			continue
		}
		iff, ok := b.Instrs[len(b.Instrs)-1].(*ssa.If)
		if !ok {
			continue
		}
		bo, ok := iff.Cond.(*ssa.BinOp)
		if !ok || (bo.Op != token.EQL && bo.Op != token.NEQ) {
			continue
		}
		var cst *ssa.Const
		switch {
		case bo.X == ssa.Value(phi):
			cst, _ = bo.Y.(*ssa.Const)
		case bo.Y == ssa.Value(phi):
			cst, _ = bo.X.(*ssa.Const)
		}
		if cst == nil || cst.Value == nil {
			continue
		}
		if _, _, isInt := intTypeInfoNoWorld(cst.Type()); !isInt {
			continue
		}
		// the successor taken when phi == c is outside the loop
		eqSucc := b.Succs[0]
		if bo.Op == token.NEQ {
			eqSucc = b.Succs[1]
		}
		if lp.body[eqSucc] {
			continue
		}
		dom := true
		for _, l := range latches {
			if b != l && !b.Dominates(l) {
				dom = false
			}
		}
		if !dom {
			continue
		}
		c, ok := new(big.Int).SetString(cst.Value.ExactString(), 10)
		if !ok {
			continue
		}
		return c, true
	}
	return nil, false
}

// eqExitBound narrows the range rng of the fresh symbol of counter phi (step
// ±1, initial values is) by the equality exit of the loop, if it has one.
func eqExitBound(lp *loopInfo, phi *ssa.Phi, step int64, is, rng ISet) ISet {
	if step != 1 && step != -1 || is == nil || is.Empty() {
		return rng
	}
	c, ok := equalityExit(lp, phi)
	if !ok {
		return rng
	}
	if step < 0 && is.Min().Cmp(c) >= 0 {
		return rng.Intersect(ISet{{c, is.Max()}})
	}
	if step > 0 && is.Max().Cmp(c) <= 0 {
		return rng.Intersect(ISet{{is.Min(), c}})
	}
	return rng
}
