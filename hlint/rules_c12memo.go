package main

// Results do not depend on a process-wide memo (C12.R7).
//
// "Under every interleaving each call returns what it returns when run alone"
// fails without any data race when the codec keeps a synchronised package-level
// table (sync.Map) that API calls both fill and consult: what a call returns
// then depends on what OTHER instances encoded or decoded before (seeded C12m:
// field indexes cached by {type, field count}; C02n: field names cached by
// package path + name).  C12.R1 lets sync.* variables pass because their
// methods are race-free; this clause adds the frame condition: no function
// reachable from an API entry point calls a mutating method of a package-level
// sync.Map.  Stricter than the property — a memo keyed by the complete input
// of a pure function would be reported too (as C16.R5 for the extraction);
// the evidence says so.

import (
	"fmt"
	"sort"
	"strings"

	"golang.org/x/tools/go/ssa"
)

var syncMapMutators = map[string]bool{
	"(*sync.Map).Store": true, "(*sync.Map).LoadOrStore": true, "(*sync.Map).Delete": true, "(*sync.Map).LoadAndDelete": true,
	"(*sync.Map).Swap": true, "(*sync.Map).CompareAndSwap": true, "(*sync.Map).CompareAndDelete": true, "(*sync.Map).Clear": true,
}

func globalBehind(v ssa.Value, depth int) *ssa.Global {
	if depth > 6 {
		return nil
	}
	switch x := v.(type) {
	case *ssa.Global:
		return x
	case *ssa.FieldAddr:
		return globalBehind(x.X, depth+1)
	case *ssa.IndexAddr:
		return globalBehind(x.X, depth+1)
	case *ssa.UnOp:
		return globalBehind(x.X, depth+1)
	case *ssa.Phi:
		for _, e := range x.Edges {
			if g := globalBehind(e, depth+1); g != nil {
				return g
			}
		}
	}
	return nil
}

func (w *World) ruleNoProcessWideMemo(r *Report, rule string, reach map[*ssa.Function]bool, nRoots int) {
	sites := map[string][]string{}
	for _, fn := range w.SrcFuncs() {
		if !(reach[fn] || reach[rootFn(fn)]) || fn.Blocks == nil {
			continue
		}
		for _, b := range fn.Blocks {
			for _, in := range b.Instrs {
				c, ok := in.(*ssa.Call)
				if !ok {
					continue
				}
				sc := c.Call.StaticCallee()
				if sc == nil || !syncMapMutators[qualifiedFnName(sc)] || len(c.Call.Args) == 0 {
					continue
				}
				if g := globalBehind(c.Call.Args[0], 0); g != nil {
					sites[g.Name()] = append(sites[g.Name()], fmt.Sprintf("%s (%s at %s)", fnName(fn), qualifiedFnName(sc), w.instrPos(c)))
				}
			}
		}
	}
	if len(sites) == 0 {
		r.add(rule, "census", "-", true, fmt.Sprintf("no function reachable from the %d API entry points stores into a package-level sync.Map", nRoots))
		return
	}
	var names []string
	for n := range sites {
		names = append(names, n)
	}
	sort.Strings(names)
	for _, n := range names {
		sort.Strings(sites[n])
		r.add(rule, "package variable "+n, "-", false, "a process-wide table filled on a path from an API entry point: "+strings.Join(uniq(sites[n]), "; ")+" — what a call returns depends on what other instances did before it (not a data race; the property's 'returns what it returns when run alone')")
	}
}
