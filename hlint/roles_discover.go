package main

func (w *World) discoverRoles() {}
