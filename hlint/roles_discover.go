package main

// Structural discovery of roles whose conventional name is absent (the
// function was renamed / moved).  Each role is defined by what the function
// DOES, never by how it is called:
//
//   raw writer   (*Encoder).writeBytes : the Encoder method with one []byte
//                parameter that invokes Write on an io.Writer held in a field of
//                its receiver (the only leaf write of the encoder);
//   tag writer   (*Encoder).writeBT    : the Encoder method with one variadic
//                ...byte parameter that hands exactly that parameter to the raw
//                writer;
//   struct-field dispatcher (*Decoder).readStruct : the Decoder method
//                `func() (interface{}, error)` other than the value dispatch that
//                obtains a fresh tag itself and is reached from the field reader
//                without passing through another tag-reading function.
//
// A role is only discovered when exactly one function qualifies; otherwise the
// anchor stays missing and the rules report UNDECIDED as before.

import (
	"go/types"

	"golang.org/x/tools/go/ssa"
)

func (w *World) discoverRoles() {
	if w.roleNames == nil {
		w.roleNames = map[*ssa.Function]string{}
	}
	set := func(name string, fn *ssa.Function) {
		if fn == nil || w.Funcs[name] != nil {
			return
		}
		w.rolesCache[name] = fn
		w.roleNames[fn] = name
	}
	set("(*Encoder).writeBytes", w.discoverRawWriter())
	set("(*Encoder).writeBT", w.discoverTagWriter(w.fn("(*Encoder).writeBytes")))
	set("(*Decoder).readStruct", w.discoverStructDispatcher())
}

// canonName: the display name rules use for fn: the name of the role it was
// discovered for, or its own name.
func (w *World) canonName(fn *ssa.Function) string {
	if w.rolesCache == nil {
		w.rolesCache = map[string]*ssa.Function{}
		w.discoverRoles()
	}
	if n, ok := w.roleNames[fn]; ok {
		return n
	}
	return fnName(fn)
}

func isByteSliceType(t types.Type) bool {
	s, ok := t.Underlying().(*types.Slice)
	if !ok {
		return false
	}
	b, ok := s.Elem().Underlying().(*types.Basic)
	return ok && b.Kind() == types.Uint8
}

func (w *World) discoverRawWriter() *ssa.Function {
	var found *ssa.Function
	for _, c := range w.leafWrites() {
		fn := c.Parent()
		recv := fn.Signature.Recv()
		if recv == nil || !namedIs(recv.Type(), hessianPath, "Encoder") || fn.Parent() != nil {
			continue
		}
		ps := fn.Signature.Params()
		if ps.Len() != 1 || !isByteSliceType(ps.At(0).Type()) || fn.Signature.Variadic() {
			continue
		}
		// the writer is a field of the receiver, and what is written is the parameter
		ld, ok := c.Call.Value.(*ssa.UnOp)
		if !ok {
			continue
		}
		fa, ok := ld.X.(*ssa.FieldAddr)
		if !ok || len(fn.Params) != 2 || fa.X != ssa.Value(fn.Params[0]) {
			continue
		}
		if len(c.Call.Args) != 1 || c.Call.Args[0] != ssa.Value(fn.Params[1]) {
			continue
		}
		if found != nil && found != fn {
			return nil
		}
		found = fn
	}
	return found
}

func (w *World) discoverTagWriter(raw *ssa.Function) *ssa.Function {
	if raw == nil {
		return nil
	}
	var found *ssa.Function
	for _, fn := range w.SrcFuncs() {
		recv := fn.Signature.Recv()
		if recv == nil || fn.Parent() != nil || !namedIs(recv.Type(), hessianPath, "Encoder") || !fn.Signature.Variadic() {
			continue
		}
		ps := fn.Signature.Params()
		if ps.Len() != 1 || !isByteSliceType(ps.At(0).Type()) || len(fn.Params) != 2 {
			continue
		}
		forwards := false
		for _, b := range fn.Blocks {
			for _, in := range b.Instrs {
				if c, ok := in.(*ssa.Call); ok && c.Call.StaticCallee() == raw && len(c.Call.Args) == 2 && c.Call.Args[1] == ssa.Value(fn.Params[1]) {
					forwards = true
				}
			}
		}
		if !forwards {
			continue
		}
		if found != nil {
			return nil
		}
		found = fn
	}
	return found
}

// readsFreshTag: fn itself calls a tag source (readTag / getTag).
func (w *World) readsFreshTag(fn *ssa.Function) bool {
	for _, b := range fn.Blocks {
		for _, in := range b.Instrs {
			c, ok := in.(*ssa.Call)
			if !ok {
				continue
			}
			if sc := c.Call.StaticCallee(); sc != nil {
				switch qualifiedFnName(sc) {
				case "getTag", "readTag", "(*Decoder).readTag":
					return true
				}
			}
		}
	}
	return false
}

func (w *World) discoverStructDispatcher() *ssa.Function {
	rf, rd := w.Funcs["(*Decoder).readField"], w.Funcs["(*Decoder).ReadData"]
	if rf == nil {
		return nil
	}
	isCand := func(fn *ssa.Function) bool {
		sig := fn.Signature
		if fn == rd || sig.Recv() == nil || !namedIs(sig.Recv().Type(), hessianPath, "Decoder") || sig.Params().Len() != 0 || sig.Results().Len() != 2 {
			return false
		}
		if _, isIface := sig.Results().At(0).Type().Underlying().(*types.Interface); !isIface || !isErrorType(sig.Results().At(1).Type()) {
			return false
		}
		return w.readsFreshTag(fn)
	}
	// from the field reader through functions that do not read a tag themselves
	seen := map[*ssa.Function]bool{rf: true}
	stack := []*ssa.Function{rf}
	var found *ssa.Function
	for len(stack) > 0 {
		f := stack[len(stack)-1]
		stack = stack[:len(stack)-1]
		n := w.CG.Nodes[f]
		if n == nil {
			continue
		}
		for _, e := range n.Out {
			c := e.Callee.Func
			if c == nil || !w.inPkg(c) || seen[c] {
				continue
			}
			seen[c] = true
			if isCand(c) {
				if found != nil && found != c {
					return nil
				}
				found = c
				continue
			}
			if !w.readsFreshTag(c) {
				stack = append(stack, c)
			}
		}
	}
	return found
}
