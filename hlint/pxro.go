package main

// Path-explorer side of the read-only package tables (roinit.go) and of
// function values as terms (closures and calls through them: pxfuncs.go).
//
// Terms:
//   ro&(root/path)   address of the sub-object at path of a read-only root
//   ro[](root/path)  slice covering the whole array at path
//   roval(root/path) the array / struct stored at path, as a value
//   fn:<name>        a known function value
// A load through ro& of a leaf yields the constant / function the package
// initialiser stored (the zero value when it stored nothing).  A call whose
// callee is such a function value is an ordinary static call for the
// explorer (pxfuncs.go funcValueCallee).

import (
	"fmt"
	"go/token"
	"go/types"
	"strings"

	"golang.org/x/tools/go/ssa"
)

func roName(root ssa.Value) string {
	switch x := root.(type) {
	case *ssa.Global:
		return "g:" + x.Name()
	case *ssa.Alloc:
		return "lit:" + x.Name() + "@" + fmt.Sprint(int(x.Pos()))
	}
	return root.Name()
}

func roTerm(kind string, root ssa.Value, path []int, t types.Type) *Term {
	args := make([]*Term, len(path))
	for i, p := range path {
		args[i] = constT(int64(p), tInt)
	}
	return &Term{K: TPure, Name: kind, V: root, Args: args, T: t, key: kind + "(" + roName(root) + "/" + roPathKey(path) + ")"}
}

// roParts: kind, root and path of a read-only term.
func roParts(t *Term) (string, ssa.Value, []int, bool) {
	if t == nil || t.K != TPure || t.V == nil {
		return "", nil, nil, false
	}
	switch t.Name {
	case "ro&", "ro[]", "roval":
	default:
		return "", nil, nil, false
	}
	path := make([]int, len(t.Args))
	for i, a := range t.Args {
		path[i] = int(a.C.Int64())
	}
	return t.Name, t.V, path, true
}

func fnTerm(fn *ssa.Function) *Term {
	// (CV: the same value for the readers of frozen init-time memory, pxconc.go)
	return &Term{K: TLeaf, V: fn, T: fn.Type(), CV: &cval{k: cvFunc, Fn: fn, T: fn.Type()}, key: "fn:" + qualifiedFnName(fn) + fmt.Sprintf("@%d", int(fn.Pos()))}
}

// zeroOf: the term of the zero value of t (nil for types without one here).
func zeroOf(t types.Type) *Term {
	switch u := t.Underlying().(type) {
	case *types.Basic:
		switch {
		case u.Info()&types.IsBoolean != 0:
			return &Term{K: TBoolConst, Bool: false, T: t, key: "false"}
		case u.Info()&types.IsInteger != 0:
			return zeroTerm(t)
		}
	case *types.Signature, *types.Pointer, *types.Slice, *types.Map, *types.Interface, *types.Chan:
		return &Term{K: TLeaf, T: t, key: "nil:" + t.String()}
	}
	return nil
}

// roLoadTerm: the value at path of root, as a term of type typ (nil: unknown).
func (p *PX) roLoadTerm(root ssa.Value, path []int, fr *pxFrame, st *pxState) *Term {
	v, t, agg, ok := p.w.roLoad(root, path)
	if !ok {
		return nil
	}
	if agg {
		return roTerm("roval", root, path, t)
	}
	if v == nil {
		return zeroOf(t)
	}
	switch x := v.(type) {
	case *ssa.Const:
		return p.term(x, fr, st)
	case *ssa.Function:
		return fnTerm(x)
	}
	return nil
}

// roGlobalTerm: a package variable as a read-only address (nil: not one).
func (p *PX) roGlobalTerm(g *ssa.Global) *Term {
	pt, ok := g.Type().Underlying().(*types.Pointer)
	if !ok {
		return nil
	}
	switch pt.Elem().Underlying().(type) {
	case *types.Array, *types.Struct:
		if _, ok := p.w.roResolve(g); ok {
			return roTerm("ro&", g, nil, g.Type())
		}
	}
	return nil
}

// roGlobalSlice: the value of a slice-typed package variable that still holds
// the slice literal it was initialised with.
func (p *PX) roGlobalSlice(g *ssa.Global, t types.Type) *Term {
	if _, isSl := t.Underlying().(*types.Slice); !isSl {
		return nil
	}
	al, ok := p.w.roTabs().alias[g]
	if !ok {
		return nil
	}
	if _, ok := p.w.roResolve(g); !ok {
		return nil
	}
	return roTerm("ro[]", al, nil, t)
}

// roLen: the length of the array a ro& / ro[] term covers.
func roLen(t *Term) (int64, bool) {
	_, _, _, ok := roParts(t)
	if !ok {
		return 0, false
	}
	tt := t.T
	if pt, isP := tt.Underlying().(*types.Pointer); isP {
		tt = pt.Elem()
	}
	if at, isA := tt.Underlying().(*types.Array); isA {
		return at.Len(), true
	}
	if t.Name == "ro[]" {
		// the type of the term is the slice type: the length is that of the array at the path
		if rr, ok2 := roRootOfTerm(t); ok2 {
			if at, isA := rr.Underlying().(*types.Array); isA {
				return at.Len(), true
			}
		}
	}
	return 0, false
}

// roRootOfTerm: the type of the object a ro term designates.
func roRootOfTerm(t *Term) (types.Type, bool) {
	_, root, path, ok := roParts(t)
	if !ok {
		return nil, false
	}
	rt := root.Type()
	if pt, isP := rt.Underlying().(*types.Pointer); isP {
		rt = pt.Elem()
	}
	return roTypeAt(rt, path)
}

// knownNonNil: the term is an address, a function value or a concrete value
// boxed into an interface: it cannot be nil.
func knownNonNil(t *Term) bool {
	if t == nil {
		return false
	}
	if t.K == TPure && (t.Name == "ro&" || t.Name == "ro[]") {
		return true
	}
	if t.K == TLeaf && t.V != nil {
		switch t.V.(type) {
		case *ssa.Function, *ssa.MakeClosure, *ssa.MakeInterface, *ssa.IndexAddr, *ssa.FieldAddr, *ssa.Alloc, *ssa.Global:
			return !strings.HasPrefix(t.key, "nil:")
		}
	}
	return false
}

// nilCompare folds  x == nil / x != nil  when x is known not to be nil.
func nilCompare(op token.Token, a, b *Term, t types.Type) *Term {
	if op != token.EQL && op != token.NEQ {
		return nil
	}
	isNil := func(x *Term) bool { return x.K == TLeaf && strings.HasPrefix(x.key, "nil:") }
	if (isNil(a) && knownNonNil(b)) || (isNil(b) && knownNonNil(a)) {
		r := op == token.NEQ
		return &Term{K: TBoolConst, Bool: r, T: t, key: fmt.Sprintf("%v", r)}
	}
	return nil
}

// roIndexAddr / roFieldAddr / roSlice / roIndex / roField: address arithmetic on read-only terms.
func (p *PX) roIndexAddr(a, i *Term, t types.Type) *Term {
	kind, root, path, ok := roParts(a)
	if !ok || kind == "roval" || i.K != TConst || !i.C.IsInt64() {
		return nil
	}
	return roTerm("ro&", root, append(path, int(i.C.Int64())), t)
}

func (p *PX) roFieldAddr(a *Term, f int, t types.Type) *Term {
	kind, root, path, ok := roParts(a)
	if !ok || kind != "ro&" {
		return nil
	}
	return roTerm("ro&", root, append(path, f), t)
}

func (p *PX) roSlice(a *Term, x *ssa.Slice, fr *pxFrame, st *pxState) *Term {
	kind, root, path, ok := roParts(a)
	if !ok || kind == "roval" || x.High != nil || x.Max != nil {
		return nil
	}
	if x.Low != nil {
		if lo := p.term(x.Low, fr, st); !isZeroT(lo) {
			return nil
		}
	}
	return roTerm("ro[]", root, path, x.Type())
}

func (p *PX) roComponent(a *Term, i int, fr *pxFrame, st *pxState) *Term {
	kind, root, path, ok := roParts(a)
	if !ok || kind != "roval" {
		return nil
	}
	return p.roLoadTerm(root, append(path, i), fr, st)
}

// componentOf: field / element i of an aggregate value term.
func (p *PX) componentOf(whole *Term, i int, fr *pxFrame, st *pxState) *Term {
	if whole == nil {
		return nil
	}
	if whole.CV != nil {
		// a concrete aggregate read from frozen init-time memory (pxconc.go)
		if ct, ok := componentType(whole.T, i); ok {
			return p.concElem(whole, i, ct)
		}
		return nil
	}
	if whole.K != TPure {
		return nil
	}
	switch whole.Name {
	case "roval":
		return p.roComponent(whole, i, fr, st)
	case "struct", "array": // ("array": a local array of structs, pxlocalarray.go)
		if i >= 0 && i < len(whole.Args) && !strings.HasPrefix(whole.Args[i].key, "zero:") {
			return whole.Args[i]
		}
	}
	return nil
}

// componentType: the type of field / element i of a struct / array type.
func componentType(t types.Type, i int) (types.Type, bool) {
	if t == nil || i < 0 {
		return nil, false
	}
	switch u := t.Underlying().(type) {
	case *types.Struct:
		if i < u.NumFields() {
			return u.Field(i).Type(), true
		}
	case *types.Array:
		if int64(i) < u.Len() {
			return u.Elem(), true
		}
	}
	return nil, false
}
