package main

// px: struct fields as memory cells, and nil tests on values built on the path.

import (
	"go/token"
	"go/types"
	"strings"

	"golang.org/x/tools/go/ssa"
)

// fieldCellTracked: is the value stored into field fa remembered for later
// loads?  The cell is keyed by the base pointer's term and the field's version;
// every store to the field — through any pointer — advances the version, so an
// aliased store can only make the cell unreadable, never stale.
func (p *PX) fieldCellTracked(fa *ssa.FieldAddr, vt *Term, fr *pxFrame, st *pxState) bool {
	if vt.K == TPure && vt.Name == "append" {
		return true
	}
	// a struct that lives in a local variable of some frame on this path
	base := p.term(fa.X, fr, st)
	if base.K == TLeaf {
		if _, ok := base.V.(*ssa.Alloc); ok {
			return true
		}
	}
	return false
}

// structStore: a store of a whole struct value (`*p = T{…}`, `*p = *q`)
// overwrites every field of the destination: their versions advance.
func (p *PX) structStore(x *ssa.Store, st *pxState) {
	t := x.Val.Type()
	stt, ok := t.Underlying().(*types.Struct)
	if !ok {
		return
	}
	id := types.TypeString(t, nil)
	for i := 0; i < stt.NumFields(); i++ {
		p.bumpField(id+"."+itoa(i), st)
	}
}

func itoa(i int) string {
	if i == 0 {
		return "0"
	}
	s := ""
	for ; i > 0; i /= 10 {
		s = string(rune('0'+i%10)) + s
	}
	return s
}

// nilTest: c is `x == nil` / `x != nil` with x an interface value the path
// knows to be non-nil (boxed concrete value, errors.New / fmt.Errorf, or an
// in-package constructor every return of which is non-nil).  Returns the truth
// value of c.
func (p *PX) nilTest(c *Term) (truth, known bool) {
	if c == nil || c.K != TBin || (c.Op != token.EQL && c.Op != token.NEQ) || c.A == nil || c.B == nil {
		return false, false
	}
	isNilLeaf := func(t *Term) bool { return t.K == TLeaf && strings.HasPrefix(t.key, "nil:") }
	var x *Term
	switch {
	case isNilLeaf(c.B) && !isNilLeaf(c.A):
		x = c.A
	case isNilLeaf(c.A) && !isNilLeaf(c.B):
		x = c.B
	default:
		return false, false
	}
	if x.K != TLeaf || x.V == nil {
		return false, false
	}
	if _, isIface := x.V.Type().Underlying().(*types.Interface); !isIface {
		return false, false
	}
	if !p.w.nonNilErr(x.V, nil, nil, 0) {
		return false, false
	}
	return c.Op == token.NEQ, true
}
