package main

// px: struct fields as memory cells, and nil tests on values built on the path.

import (
	"go/token"
	"go/types"
	"strings"

	"golang.org/x/tools/go/ssa"
)

// fieldCellTracked: is the value stored into field fa remembered for later
// loads?  The cell is keyed by the base pointer's term and the field's version;
// every store to the field — through any pointer — advances the version, so an
// aliased store can only make the cell unreadable, never stale.
func (p *PX) fieldCellTracked(fa *ssa.FieldAddr, vt *Term, fr *pxFrame, st *pxState) bool {
	if vt.K == TPure && vt.Name == "append" {
		return true
	}
	// a struct that lives in a local variable of some frame on this path and whose
	// address is only handed down to static package callees (never stored, boxed,
	// captured or given to library / dynamic code, which could write it unseen)
	base := p.term(fa.X, fr, st)
	if base.K == TLeaf {
		if al, ok := base.V.(*ssa.Alloc); ok {
			leaks, known := allocLeakCache[al]
			if !known {
				leaks = p.w.addrLeaks(al, map[ssa.Value]bool{})
				allocLeakCache[al] = leaks
			}
			return !leaks
		}
	}
	return false
}

var allocLeakCache = map[*ssa.Alloc]bool{}

// structStore: a store of a whole struct value (`*p = T{…}`, `*p = *q`)
// overwrites every field of the destination: their versions advance.
func (p *PX) structStore(x *ssa.Store, st *pxState) {
	t := x.Val.Type()
	stt, ok := t.Underlying().(*types.Struct)
	if !ok {
		return
	}
	id := types.TypeString(t, nil)
	for i := 0; i < stt.NumFields(); i++ {
		p.bumpField(id+"."+itoa(i), st)
	}
}

func itoa(i int) string {
	if i == 0 {
		return "0"
	}
	s := ""
	for ; i > 0; i /= 10 {
		s = string(rune('0'+i%10)) + s
	}
	return s
}

// nilTest: c is `x == nil` / `x != nil` with x an interface value the path
// knows to be non-nil (boxed concrete value, errors.New / fmt.Errorf, or an
// in-package constructor every return of which is non-nil).  Returns the truth
// value of c.
func (p *PX) nilTest(c *Term) (truth, known bool) {
	if c == nil || c.K != TBin || (c.Op != token.EQL && c.Op != token.NEQ) || c.A == nil || c.B == nil {
		return false, false
	}
	isNilLeaf := func(t *Term) bool { return t.K == TLeaf && strings.HasPrefix(t.key, "nil:") }
	var x *Term
	switch {
	case isNilLeaf(c.B) && !isNilLeaf(c.A):
		x = c.A
	case isNilLeaf(c.A) && !isNilLeaf(c.B):
		x = c.B
	default:
		return false, false
	}
	if x.K != TLeaf || x.V == nil {
		return false, false
	}
	if _, isIface := x.V.Type().Underlying().(*types.Interface); !isIface {
		return false, false
	}
	if !p.w.nonNilErr(x.V, nil, nil, 0) {
		return false, false
	}
	return c.Op == token.NEQ, true
}

// wholeLocalArray: x is `arr[:]` of a local array whose elements are not octets.
func wholeLocalArray(x *ssa.Slice) (*ssa.Alloc, bool) {
	if x.Low != nil || x.High != nil || x.Max != nil {
		return nil, false
	}
	al, ok := x.X.(*ssa.Alloc)
	if !ok {
		return nil, false
	}
	if _, isBytes := isByteArrayPtr(al.Type()); isBytes {
		return nil, false
	}
	if _, ok := localArrayLen(al); !ok {
		return nil, false
	}
	return al, true
}

func localArrayLen(al *ssa.Alloc) (int64, bool) {
	pt, ok := al.Type().Underlying().(*types.Pointer)
	if !ok {
		return 0, false
	}
	at, ok := pt.Elem().Underlying().(*types.Array)
	if !ok {
		return 0, false
	}
	return at.Len(), true
}

func isSliceOrArrayPtr(t types.Type) bool {
	switch u := t.Underlying().(type) {
	case *types.Slice:
		return true
	case *types.Pointer:
		_, ok := u.Elem().Underlying().(*types.Array)
		return ok
	}
	return false
}

// appendCells: r = append(s, e1 … ek) of a slice whose elements are not octets
// and whose length is a number on this path: r[len(s)+j] holds ej and r[i] what
// s[i] held (cells are kept under "mem:idx(<slice term>,<index>)", the keys of
// element stores and loads).  A list filled by `append` in one loop and read by
// a `range` loop afterwards yields the values that were appended, in order.
func (p *PX) appendCells(x *ssa.Call, fr *pxFrame, st *pxState) {
	bi, ok := x.Call.Value.(*ssa.Builtin)
	if !ok || bi.Name() != "append" || len(x.Call.Args) != 2 || isByteSlice(x.Type()) || p.views {
		return
	}
	sl, ok := x.Call.Args[1].(*ssa.Slice)
	if !ok || sl.Low != nil || sl.High != nil {
		return
	}
	al, ok := sl.X.(*ssa.Alloc)
	if !ok {
		return
	}
	k, ok := localArrayLen(al)
	if !ok || k > 16 {
		return
	}
	base := p.term(x.Call.Args[0], fr, st)
	res := p.term(x, fr, st)
	lt := p.lenTerm(base, types.Typ[types.Int])
	if lt.K != TConst || !lt.C.IsInt64() || lt.C.Int64() < 0 || lt.C.Int64() > 64 {
		return
	}
	L := lt.C.Int64()
	cell := func(t *Term, i int64) string { return "mem:idx(" + t.key + "," + itoa(int(i)) + ")" }
	for i := int64(0); i < L; i++ {
		if v, ok := st.vals[cell(base, i)]; ok {
			st.vals[cell(res, i)] = v
		} else {
			delete(st.vals, cell(res, i))
		}
	}
	at := p.term(al, fr, st)
	for j := int64(0); j < k; j++ {
		if v, ok := st.vals[cell(at, j)]; ok {
			st.vals[cell(res, L+j)] = v
		} else {
			delete(st.vals, cell(res, L+j))
		}
	}
}
