package main

// List wire names keep the whole Go name (C16.R9).
//
// The name map is closed and consistent only if distinct list types get
// distinct wire names: `[]T` and `[][]T` differ in nothing but the number of
// brackets in front of the same root element name.  Where the map builder
// rewrites the names it has collected (a loop ranging over the name map that
// stores back into it), the name stored must therefore be computed from the
// WHOLE of the name read — through replacements, concatenations, trimming by a
// constant, in-package helpers that themselves keep the whole of their
// argument — and not only from a part cut out of it at a position found by
// searching (`s[strings.LastIndex(s, "]")+1:]` is the root element: every
// nesting depth has the same one) or from a table looked up with such a part.
// A path on which the stored name depends on the old name only through such a
// part gives all nesting depths of one element type the same wire name, and
// the type map can hold only one of them (demonstration: seeded C16j).
//
// whole(x, src): x == src · a + b with either side whole · a φ whose every
// incoming value is whole · a slice with constant bounds of a whole string ·
// a call of an in-package function whose every return is whole in a parameter
// that is given a whole argument · any other call given a whole argument
// (library string functions, conversions).  Not whole: constants, slices at
// computed positions, map look-ups, everything else.

import (
	"fmt"
	"go/constant"
	"go/types"

	"golang.org/x/tools/go/ssa"
)

type wholeDep struct {
	w    *World
	memo map[[2]ssa.Value]int // 0 unknown, 1 in progress, 2 true, 3 false
}

func (d *wholeDep) whole(x, src ssa.Value) bool {
	if x == src {
		return true
	}
	k := [2]ssa.Value{x, src}
	switch d.memo[k] {
	case 1:
		return true // a cycle through a φ adds nothing: decided by the other edges
	case 2:
		return true
	case 3:
		return false
	}
	d.memo[k] = 1
	res := d.compute(x, src)
	if res {
		d.memo[k] = 2
	} else {
		d.memo[k] = 3
	}
	return res
}

func (d *wholeDep) compute(x, src ssa.Value) bool {
	switch v := x.(type) {
	case *ssa.Const, *ssa.Lookup, *ssa.Index, *ssa.Parameter, *ssa.Global:
		// a constant, a table entry, one byte, an unrelated input: not the name
		return false
	case *ssa.BinOp:
		return d.whole(v.X, src) || d.whole(v.Y, src)
	case *ssa.Phi:
		for _, e := range v.Edges {
			if !d.whole(e, src) {
				return false
			}
		}
		return len(v.Edges) > 0
	case *ssa.Slice:
		if (v.Low == nil || isConstInt(v.Low)) && (v.High == nil || isConstInt(v.High)) {
			return d.whole(v.X, src)
		}
		// a part cut out at a computed position
		return false
	case *ssa.ChangeType:
		return d.whole(v.X, src)
	case *ssa.Convert:
		return d.whole(v.X, src)
	case *ssa.MakeInterface:
		return d.whole(v.X, src)
	case *ssa.Extract:
		switch t := v.Tuple.(type) {
		case *ssa.Call:
			return d.call(t, v.Index, src)
		case *ssa.Lookup, *ssa.TypeAssert:
			return false
		}
		return true
	case *ssa.Call:
		return d.call(v, 0, src)
	case *ssa.UnOp:
		// a load: whole when the stores to a local cell are whole
		if al, ok := v.X.(*ssa.Alloc); ok {
			any := false
			for _, ref := range *al.Referrers() {
				if st, ok := ref.(*ssa.Store); ok && st.Addr == al {
					any = true
					if !d.whole(st.Val, src) {
						return false
					}
				}
			}
			if any {
				return true
			}
		}
		return true
	}
	// memory, builders, anything the vocabulary does not name: may be the whole name
	return true
}

func isConstInt(v ssa.Value) bool {
	c, ok := v.(*ssa.Const)
	return ok && c.Value != nil && c.Value.Kind() == constant.Int
}

func (d *wholeDep) call(c *ssa.Call, resIdx int, src ssa.Value) bool {
	callee := c.Call.StaticCallee()
	args := c.Call.Args
	if callee != nil && callee.Blocks != nil && callee.Pkg == d.w.Pkg {
		// summary: parameters in which every return is whole
		for pi, p := range callee.Params {
			if pi >= len(args) || !d.whole(args[pi], src) {
				continue
			}
			all, n := true, 0
			for _, b := range callee.Blocks {
				ret, ok := b.Instrs[len(b.Instrs)-1].(*ssa.Return)
				if !ok || resIdx >= len(ret.Results) {
					continue
				}
				n++
				if !d.whole(ret.Results[resIdx], p) {
					all = false
				}
			}
			if all && n > 0 {
				return true
			}
		}
		return false
	}
	// library function / builtin / dynamic call: a result computed from no
	// argument that depends on the name comes from memory (a builder, a buffer)
	// and may be the whole name; otherwise it keeps what its arguments keep
	dep := false
	for _, a := range args {
		if dependsAtAll(a, src, map[ssa.Value]bool{}) {
			dep = true
			if d.whole(a, src) {
				return true
			}
		}
	}
	if c.Call.IsInvoke() && dependsAtAll(c.Call.Value, src, map[ssa.Value]bool{}) {
		dep = true
		if d.whole(c.Call.Value, src) {
			return true
		}
	}
	return !dep
}

// dependsAtAll: x is computed from src in any way (used to select the stores
// that rewrite a name read from the map, as opposed to unrelated entries).
func dependsAtAll(x, src ssa.Value, seen map[ssa.Value]bool) bool {
	if x == src {
		return true
	}
	if seen[x] {
		return false
	}
	seen[x] = true
	in, ok := x.(ssa.Instruction)
	if !ok {
		return false
	}
	for _, op := range in.Operands(nil) {
		if *op != nil && dependsAtAll(*op, src, seen) {
			return true
		}
	}
	return false
}

func (w *World) ruleListNamesKeepWhole(r *Report, rule string, building map[*ssa.Function]bool, min int) {
	n := 0
	d := &wholeDep{w: w, memo: map[[2]ssa.Value]int{}}
	// sources: the values read by ranging over a map[string]string, and the
	// parameters of in-package functions that are handed such a value whole
	type srcT struct {
		fn  *ssa.Function
		val ssa.Value
	}
	var work []srcT
	seen := map[ssa.Value]bool{}
	push := func(fn *ssa.Function, v ssa.Value) {
		if !seen[v] {
			seen[v] = true
			work = append(work, srcT{fn, v})
		}
	}
	for _, fn := range w.SrcFuncs() {
		if !building[fn] || fn.Blocks == nil {
			continue
		}
		for _, b := range fn.Blocks {
			for _, in := range b.Instrs {
				ex, ok := in.(*ssa.Extract)
				if !ok || ex.Index != 2 {
					continue
				}
				nx, ok := ex.Tuple.(*ssa.Next)
				if !ok {
					continue
				}
				rg, ok := nx.Iter.(*ssa.Range)
				if !ok || typeStr(rg.X.Type()) != "map[string]string" {
					continue
				}
				push(fn, ex)
			}
		}
	}
	perFn := map[*ssa.Function]int{}
	for len(work) > 0 {
		s := work[0]
		work = work[1:]
		fn, src := s.fn, s.val
		for _, b := range fn.Blocks {
			for _, in := range b.Instrs {
				switch x := in.(type) {
				case *ssa.Call:
					callee := x.Call.StaticCallee()
					if callee == nil || callee.Blocks == nil || callee.Pkg != w.Pkg {
						continue
					}
					for ai, a := range x.Call.Args {
						if ai < len(callee.Params) && isStringT(a.Type()) && dependsAtAll(a, src, map[ssa.Value]bool{}) && d.whole(a, src) {
							push(callee, callee.Params[ai])
						}
					}
				case *ssa.MapUpdate:
					if typeStr(x.Map.Type()) != "map[string]string" || !isStringT(x.Value.Type()) {
						continue
					}
					if x.Value == src || !dependsAtAll(x.Value, src, map[ssa.Value]bool{}) {
						continue
					}
					perFn[fn]++
					n++
					ok := d.whole(x.Value, src)
					r.add(rule, fmt.Sprintf("%s · rewritten name stored #%d", fnName(fn), perFn[fn]), w.instrPos(x), ok, map[bool]string{
						true:  "the name stored may be computed from the whole of the name read from the map (replacements, concatenation, helpers that keep their argument) on every path",
						false: "on some path the name stored depends on the name read only through a part cut out at a searched position or a table looked up with it: every nesting depth of one element type ([]T, [][]T) gets the same wire name and the type map can hold only one of them"}[ok])
				}
			}
		}
	}
	r.floor(rule+" (rewritten names stored)", n, min)
}

func isStringT(t types.Type) bool {
	bt, ok := t.Underlying().(*types.Basic)
	return ok && bt.Info()&types.IsString != 0
}

// Every name-map key has a type-map entry (C16.R10).
//
// The rewrite pass of the map builder reads `typMap[k]` for the keys k of the
// name map WITHOUT testing presence (the value is stored again under the
// rewritten wire name).  That is sound only while keys(nameMap) ⊆
// keys(typMap): wherever the construction writes `nameMap[K] = …` with a key
// that is not itself a key read back from the name map, it also writes
// `typMap[K] = …` under the same key term, in the same block or in one that
// dominates it.  Otherwise the unchecked look-up yields the nil type for some
// list type and the type map ends up mapping its wire name to nil (seeded
// C16l: the type map keyed by wire name only, a custom-named slice type).
// The clause is claimed only while such an unchecked look-up exists.
func (w *World) ruleNameKeysHaveTypes(r *Report, rule string, building map[*ssa.Function]bool) {
	// 1. is there an unchecked look-up of the type map by a key of the name map?
	unchecked := 0
	for _, fn := range w.SrcFuncs() {
		if !building[fn] || fn.Blocks == nil {
			continue
		}
		for _, b := range fn.Blocks {
			for _, in := range b.Instrs {
				lk, ok := in.(*ssa.Lookup)
				if !ok || typeStr(lk.X.Type()) != "map[string]reflect.Type" {
					continue
				}
				okUsed := false
				if lk.CommaOk {
					for _, ref := range *lk.Referrers() {
						if ex, isEx := ref.(*ssa.Extract); isEx && ex.Index == 1 && ex.Referrers() != nil {
							for _, u := range *ex.Referrers() {
								if _, dbg := u.(*ssa.DebugRef); !dbg {
									okUsed = true
								}
							}
						}
					}
				}
				if okUsed {
					continue
				}
				// the key: read back from a name map (range key)
				if ex, isEx := lk.Index.(*ssa.Extract); isEx && ex.Index == 1 {
					if nx, isNx := ex.Tuple.(*ssa.Next); isNx {
						if rg, isRg := nx.Iter.(*ssa.Range); isRg && typeStr(rg.X.Type()) == "map[string]string" {
							unchecked++
						}
					}
				}
			}
		}
	}
	if unchecked == 0 {
		r.note("C16.R10: no unchecked look-up of the type map by a name-map key: clause not needed")
		return
	}
	n := 0
	for _, fn := range w.SrcFuncs() {
		if !building[fn] || fn.Blocks == nil {
			continue
		}
		f := w.flow(fn)
		var nameUpd, typUpd []*ssa.MapUpdate
		for _, b := range fn.Blocks {
			for _, in := range b.Instrs {
				if mu, ok := in.(*ssa.MapUpdate); ok {
					switch typeStr(mu.Map.Type()) {
					case "map[string]string":
						nameUpd = append(nameUpd, mu)
					case "map[string]reflect.Type":
						typUpd = append(typUpd, mu)
					}
				}
			}
		}
		for i, nu := range nameUpd {
			// a key read back from the name map is already there
			if ex, isEx := nu.Key.(*ssa.Extract); isEx && ex.Index == 1 {
				if nx, isNx := ex.Tuple.(*ssa.Next); isNx {
					if rg, isRg := nx.Iter.(*ssa.Range); isRg && typeStr(rg.X.Type()) == "map[string]string" {
						continue
					}
				}
			}
			n++
			kk := f.term(nu.Key).Key()
			ok := false
			for _, tu := range typUpd {
				if f.term(tu.Key).Key() == kk && (tu.Block() == nu.Block() || tu.Block().Dominates(nu.Block())) {
					ok = true
				}
			}
			r.add(rule, fmt.Sprintf("%s · nameMap key #%d", fnName(fn), i+1), w.instrPos(nu), ok, map[bool]string{
				true:  fmt.Sprintf("key %s: a typMap entry under the same key term is written in the same or a dominating block", kk),
				false: fmt.Sprintf("key %s enters the name map without a typMap entry under the same key on this path, while the rewrite pass reads typMap[key] for every name-map key without testing presence: the nil type is stored under the rewritten wire name", kk)}[ok])
		}
	}
	r.floor(rule+" (name-map keys)", n, 2)
}

// A descent by type goes to the IMMEDIATE element type (C16.R2c).
//
// When a container has no element to look at, the walk goes on with
// reflect.New of its element (or key) type.  The closure property needs every
// list type on the way to be visited: for an empty `[][]T` the next stop is
// `[]T`, not `T`.  The type handed to reflect.New may therefore have its
// POINTERS taken off (the walk unwraps them anyway) but no list or map
// dimension: an in-package reflect.Type→reflect.Type helper applied to it
// must not compare a Kind() with Array, Slice or Map (a helper that does
// strips dimensions, and the intermediate list types of an empty slice of
// slices are never registered — seeded C16n).
func (w *World) ruleZeroDescentImmediate(r *Report, rule string, vw *valueWalk) {
	n := 0
	containerKinds := map[int64]string{17: "Array", 21: "Map", 23: "Slice"}
	stripsDims := func(fn *ssa.Function) (string, bool) {
		seen := map[*ssa.Function]bool{}
		var visit func(f *ssa.Function, depth int) (string, bool)
		visit = func(f *ssa.Function, depth int) (string, bool) {
			if f == nil || f.Blocks == nil || seen[f] || depth > 2 || f.Pkg != w.Pkg {
				return "", false
			}
			seen[f] = true
			for _, b := range f.Blocks {
				for _, in := range b.Instrs {
					switch x := in.(type) {
					case *ssa.BinOp:
						for _, pair := range [][2]ssa.Value{{x.X, x.Y}, {x.Y, x.X}} {
							c, isC := pair[1].(*ssa.Const)
							if !isC || c.Value == nil || typeStr(pair[0].Type()) != "reflect.Kind" {
								continue
							}
							if k, ok := containerKinds[c.Int64()]; ok {
								return k, true
							}
						}
					case *ssa.Call:
						if k, ok := visit(x.Call.StaticCallee(), depth+1); ok {
							return k, true
						}
					}
				}
			}
			return "", false
		}
		return visit(fn, 0)
	}
	for _, g := range vw.fns {
		for _, c := range vw.zeroDescents(g) {
			for _, a := range c.Call.Args {
				nc, ok := a.(*ssa.Call)
				if !ok || nc.Call.StaticCallee() == nil || qualifiedFnName(nc.Call.StaticCallee()) != "reflect.New" || len(nc.Call.Args) != 1 {
					continue
				}
				n++
				good, fact := true, "the type handed to reflect.New is the container's element / key type, with at most its pointers taken off"
				if tc, isCall := nc.Call.Args[0].(*ssa.Call); isCall {
					if h := tc.Call.StaticCallee(); h != nil && h.Pkg == w.Pkg {
						if k, strips := stripsDims(h); strips {
							good = false
							fact = fmt.Sprintf("the type handed to reflect.New goes through %s, which tests Kind() against reflect.%s: it takes list / map dimensions off, so for an empty container of containers the intermediate container types are never visited and are missing from both maps", fnName(h), k)
						}
					}
				}
				r.add(rule, fmt.Sprintf("%s · descent by type #%d", fnName(g), n), w.instrPos(c), good, fact)
			}
		}
	}
	r.floor(rule+" (descents by type)", n, 1)
}
