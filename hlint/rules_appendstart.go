package main

// C03.R9 — a container that is grown by appending starts empty.
//
// The list readers either pre-allocate the declared number of slots and store
// element j into slot j, or — when the length is unknown (variable-length
// forms) or too large to be trusted — start from nothing and append.  Mixing
// the two puts the elements behind phantom zero slots: a list of n values
// decodes with more than n members.  Obligation per append (builtin append or
// reflect.Append) on the decode path whose container is a loop-carried
// variable initialised, before the loop, from a made slice (make,
// reflect.MakeSlice, also wrapped in reflect.ValueOf): on every path that
// reaches the append, the length the slice was made with evaluates to exactly
// 0 under the path's facts (the pre-allocation flag and the append mode are
// correlated through the path, which is why this is decided on paths).

import (
	"fmt"
	"os"
	"sort"

	"golang.org/x/tools/go/ssa"
)

// madeLenOf: the length operand of the make a container value starts from.
func madeLenOf(v ssa.Value, depth int) ssa.Value {
	if depth > 6 {
		return nil
	}
	switch x := v.(type) {
	case *ssa.MakeSlice:
		return x.Len
	case *ssa.Call:
		if sc := x.Call.StaticCallee(); sc != nil {
			switch qualifiedFnName(sc) {
			case "reflect.MakeSlice":
				if len(x.Call.Args) == 3 {
					return x.Call.Args[1]
				}
			case "reflect.ValueOf":
				return madeLenOf(x.Call.Args[0], depth+1)
			}
		}
	case *ssa.MakeInterface:
		return madeLenOf(x.X, depth+1)
	case *ssa.ChangeType:
		return madeLenOf(x.X, depth+1)
	}
	return nil
}

func (w *World) ruleAppendStartsEmpty(r *Report, rule string, min int) {
	reach := w.reachPkg(w.decodeEntryPoints()...)
	stop := w.readerBoundaries()
	nested := w.reachesReadData()
	consumers := w.canReach(w.streamConsumers())
	n := 0
	for _, fn := range w.SrcFuncs() {
		if !reach[fn] && !reach[rootFn(fn)] {
			continue
		}
		type site struct {
			call *ssa.Call
			lenV ssa.Value
			slot bool // an indexed store slot (reflect Index on the loop-carried container), not an append
		}
		var sites []site
		for _, lp := range naturalLoops(fn) {
			for b := range lp.body {
				for _, in := range b.Instrs {
					c, ok := in.(*ssa.Call)
					if !ok || len(c.Call.Args) == 0 {
						continue
					}
					isApp := false
					if bi, ok := c.Call.Value.(*ssa.Builtin); ok && bi.Name() == "append" {
						isApp = true
					} else if sc := c.Call.StaticCallee(); sc != nil && qualifiedFnName(sc) == "reflect.Append" {
						isApp = true
					}
					if !isApp {
						// `container.Index(j)` on the loop-carried container: the slot of the
						// pre-allocated mode, judged on the first turn like the append
						if sc := c.Call.StaticCallee(); sc != nil && qualifiedFnName(sc) == "(reflect.Value).Index" && len(c.Call.Args) == 2 {
							if phi, ok := c.Call.Args[0].(*ssa.Phi); ok && phi.Block() == lp.header {
								for i, e := range phi.Edges {
									if !lp.body[lp.header.Preds[i]] {
										if lv := madeLenOf(e, 0); lv != nil {
											sites = append(sites, site{c, lv, true})
										}
									}
								}
							}
						}
						continue
					}
					phi, ok := c.Call.Args[0].(*ssa.Phi)
					if !ok || phi.Block() != lp.header {
						continue
					}
					for i, e := range phi.Edges {
						if !lp.body[lp.header.Preds[i]] {
							if lv := madeLenOf(e, 0); lv != nil {
								sites = append(sites, site{c, lv, false})
							}
						}
					}
				}
			}
		}
		if len(sites) == 0 {
			continue
		}
		canReach := map[*ssa.BasicBlock]bool{}
		for _, s := range sites {
			canReach[s.call.Block()] = true
		}
		for changed := true; changed; {
			changed = false
			for _, b := range fn.Blocks {
				if canReach[b] {
					continue
				}
				for _, sc := range b.Succs {
					if canReach[sc] {
						canReach[b] = true
						changed = true
						break
					}
				}
			}
		}
		inLoop := map[*ssa.BasicBlock]bool{}
		for _, lp := range naturalLoops(fn) {
			for b := range lp.body {
				inLoop[b] = true
			}
		}
		type res struct {
			met, bad int
			fact     string
		}
		results := make([]res, len(sites))
		var px *PX
		px = w.newPX(pxHooks{
			onInstr: func(fr *pxFrame, in ssa.Instruction, st *pxState) bool {
				if fr.parent != nil {
					return true
				}
				// what the loop body does to an element is not followed: the allocation
				// decision is taken before the loop
				if _, isCall := in.(*ssa.Call); isCall && inLoop[in.Block()] {
					hit := false
					for _, s := range sites {
						if in == ssa.Instruction(s.call) {
							hit = true
						}
					}
					if !hit {
						return false
					}
				}
				for i, s := range sites {
					if in != ssa.Instruction(s.call) {
						continue
					}
					st.visits["appendseen"]++
					lt := px.term(s.lenV, fr, st)
					L, _ := px.evalTerm(lt, st)
					results[i].met++
					if s.slot {
						it := px.term(s.call.Call.Args[1], fr, st)
						I, _ := px.evalTerm(it, st)
						is1 := func(k string, v int64) bool {
							x, has := st.env[k]
							return has && x.Equal(single(v))
						}
						a, b := it.key, lt.key
						okS := is1("("+a+" >= "+b+")", 0) || is1("("+a+" < "+b+")", 1) || is1("("+b+" <= "+a+")", 0) || is1("("+b+" > "+a+")", 1) ||
							is1("("+a+" != "+b+")", 1) || is1("("+a+" == "+b+")", 0) ||
							(L != nil && I != nil && !L.Empty() && !I.Empty() && L.Min().Cmp(I.Max()) > 0)
						if !okS {
							results[i].bad++
							if results[i].fact == "" {
								results[i].fact = fmt.Sprintf("slot %s ∈ %s of a container made with length %s ∈ %s: nothing on the path puts the slot below that length", a, I, b, L)
							}
						}
						continue
					}
					if L == nil || !L.Equal(single(0)) {
						results[i].bad++
						if results[i].fact == "" {
							results[i].fact = fmt.Sprintf("the container appended to was made with length %s ∈ %s", lt.key, L)
						}
					}
				}
				return true
			},
			inline: func(fr *pxFrame, callee *ssa.Function) bool {
				_, isReader := stop[callee]
				// helpers that compute (the allocation decision, conversions) are stepped
				// into, also a helper of the reader itself that reads the length (one level);
				// the readers of values only produce what is decided on
				return !isReader && !nested[callee] && (!consumers[callee] || fr.parent == nil) && !w.isTagPredicate(callee) && w.finiteFn(callee) == nil
			},
			// one iteration is enough: the made length does not change afterwards
			prune: func(fr *pxFrame, b *ssa.BasicBlock, st *pxState) bool {
				if fr.parent != nil {
					return false
				}
				// a loop whose test is decided (for { … } over a variable-length form) would be
				// unrolled to the step budget: three rounds show every way to the append
				if st.visits[fmt.Sprintf("x:%s%d", fr.id, b.Index)] >= 3 {
					return true
				}
				return !canReach[b] || st.visits["appendseen"] > 0
			},
		})
		px.maxPaths, px.maxSteps = 20000, 150000
		cnt := map[string]int{}
		if os.Getenv("HLINT_APPDBG") != "" {
			px.hooks.onBlock = func(fr *pxFrame, b *ssa.BasicBlock, st *pxState) { cnt[fmt.Sprintf("%s#%d", fnName(fr.fn), b.Index)]++ }
		}
		px.Run(fn, Env{})
		if os.Getenv("HLINT_APPDBG") != "" {
			type kv struct {
				k string
				v int
			}
			var kvs []kv
			for k, v := range cnt {
				kvs = append(kvs, kv{k, v})
			}
			sort.Slice(kvs, func(i, j int) bool { return kvs[i].v > kvs[j].v })
			for i := 0; i < len(kvs) && i < 12; i++ {
				fmt.Fprintf(os.Stderr, "APPDBG %s %s %d\n", fnName(fn), kvs[i].k, kvs[i].v)
			}
		}
		for i, s := range sites {
			n++
			key := fmt.Sprintf("%s · append #%d", fnName(fn), i+1)
			if s.slot {
				key = fmt.Sprintf("%s · slot store #%d", fnName(fn), i+1)
			}
			rs := results[i]
			switch {
			case px.Truncated:
				r.undecided(rule, key, w.instrPos(s.call), "path exploration truncated")
			case rs.met == 0:
				o := r.add(rule, key, w.instrPos(s.call), true, "not reached by any explored path")
				o.Trivial = true
			case rs.bad > 0 && s.slot:
				r.add(rule, key, w.instrPos(s.call), false, fmt.Sprintf("%s (%d of %d paths reaching the store on the first turn): the store indexes past the end of the container — the pre-allocation was skipped but the append mode was not chosen", rs.fact, rs.bad, rs.met))
			case rs.bad > 0:
				r.add(rule, key, w.instrPos(s.call), false, fmt.Sprintf("%s on %d of %d paths reaching the append: the elements are appended behind that many zero slots", rs.fact, rs.bad, rs.met))
			default:
				r.add(rule, key, w.instrPos(s.call), true, map[bool]string{false: fmt.Sprintf("on all %d paths reaching the append the container was made with length 0", rs.met), true: fmt.Sprintf("on all %d paths reaching the store on the first turn the slot is below the length the container was made with", rs.met)}[s.slot])
			}
		}
	}
	// no floor: readers that keep the container in a captured variable or grow it
	// in a helper are not instances; the census says how many were decided
	_ = min
	if n == 0 {
		o := r.add(rule, "census", "-", true, "no append to a loop-carried made container on the decode path: nothing to decide")
		o.Trivial = true
	}
}
