package main

// C01.R6 on paths: the validity guard of a reflect accessor's receiver, when
// block dominance in the accessor's own function does not show it.
//
// `for _, side := range [...]reflect.Value{h.current, v} { if !side.CanAddr() {
// …; return } }; h.current.Pointer() == v.Pointer()` tests both receivers, but
// through copies held in a local array of parts and inside a loop: no block
// "dominated by the true edge of recv.CanAddr()" exists.  Path by path (the
// loop over the two parts unrolls, reflect getters are pure terms of their
// receiver, a field loaded twice with no store in between is one term) the
// fact is there: on every path that reaches the accessor, a test that only a
// valid Value passes (IsValid, CanAddr, CanSet, CanInterface answered true, or
// Kind() known not to be Invalid) holds for the receiver's term.

import (
	"golang.org/x/tools/go/ssa"
)

func (w *World) pxGuardedValid(fn *ssa.Function, call *ssa.Call) bool {
	if fn == nil || fn.Blocks == nil || len(call.Call.Args) == 0 {
		return false
	}
	reached, bad := 0, false
	var px *PX
	px = w.newPX(pxHooks{
		onInstr: func(fr *pxFrame, in ssa.Instruction, st *pxState) bool {
			if fr.parent != nil || in != ssa.Instruction(call) {
				return true
			}
			reached++
			rt := px.term(call.Call.Args[0], fr, st)
			ok := false
			for _, name := range []string{"(reflect.Value).IsValid", "(reflect.Value).CanAddr", "(reflect.Value).CanSet", "(reflect.Value).CanInterface"} {
				if s, has := st.env["pure:"+name+"("+rt.key+")"]; has && s.Equal(single(1)) {
					ok = true
				}
			}
			if s, has := st.env["pure:(reflect.Value).Kind("+rt.key+")"]; has && !s.Empty() && !s.Contains(0) {
				ok = true
			}
			if !ok {
				bad = true
			}
			return true
		},
	})
	px.extraPure = map[string]bool{}
	for k := range reflectGetters {
		px.extraPure[k] = true
	}
	px.extraPure["(reflect.Value).CanSet"] = true
	px.extraPure["(reflect.Value).CanInterface"] = true
	px.Run(fn, Env{})
	return !px.Truncated && reached > 0 && !bad
}
