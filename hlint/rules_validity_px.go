package main

// C01.R6 on paths: the validity guard of a reflect accessor's receiver, when
// block dominance in the accessor's own function does not show it.
//
// `for _, side := range [...]reflect.Value{h.current, v} { if !side.CanAddr() {
// …; return } }; h.current.Pointer() == v.Pointer()` tests both receivers, but
// through copies held in a local array of parts and inside a loop: no block
// "dominated by the true edge of recv.CanAddr()" exists.  Path by path (the
// loop over the two parts unrolls, reflect getters are pure terms of their
// receiver, a field loaded twice with no store in between is one term) the
// fact is there: on every path that reaches the accessor, a test that only a
// valid Value passes (IsValid, CanAddr, CanSet, CanInterface answered true, or
// Kind() known not to be Invalid) holds for the receiver's term.

import (
	"time"

	"golang.org/x/tools/go/ssa"
)

// one exploration per function answers for all its accessor calls; it is kept
// small (few paths, shallow inlining, a few seconds): a function too large for
// that stays with the dominance answer (not guarded = reported, as before).
var pxGuardedCache = map[*ssa.Function]map[*ssa.Call]bool{}

func (w *World) pxGuardedValid(fn *ssa.Function, call *ssa.Call) bool {
	if fn == nil || fn.Blocks == nil || len(call.Call.Args) == 0 {
		return false
	}
	if res, done := pxGuardedCache[fn]; done {
		return res[call]
	}
	reached, bad := map[*ssa.Call]int{}, map[*ssa.Call]bool{}
	var px *PX
	px = w.newPX(pxHooks{
		inline: func(fr *pxFrame, callee *ssa.Function) bool { return fr.depth < 2 },
		onInstr: func(fr *pxFrame, in ssa.Instruction, st *pxState) bool {
			c, isC := in.(*ssa.Call)
			if !isC || fr.parent != nil || len(c.Call.Args) == 0 {
				return true
			}
			sc := c.Call.StaticCallee()
			if sc == nil || sc.Signature.Recv() == nil || typeStr(sc.Signature.Recv().Type()) != "reflect.Value" || !zeroValuePanics[sc.Name()] {
				return true
			}
			reached[c]++
			rt := px.term(c.Call.Args[0], fr, st)
			ok := false
			for _, name := range []string{"(reflect.Value).IsValid", "(reflect.Value).CanAddr", "(reflect.Value).CanSet", "(reflect.Value).CanInterface"} {
				if s, has := st.env["pure:"+name+"("+rt.key+")"]; has && s.Equal(single(1)) {
					ok = true
				}
			}
			if s, has := st.env["pure:(reflect.Value).Kind("+rt.key+")"]; has && !s.Empty() && !s.Contains(0) {
				ok = true
			}
			if !ok {
				bad[c] = true
			}
			return true
		},
	})
	px.extraPure = map[string]bool{}
	for k := range reflectGetters {
		px.extraPure[k] = true
	}
	px.extraPure["(reflect.Value).CanSet"] = true
	px.extraPure["(reflect.Value).CanInterface"] = true
	px.maxPaths, px.maxSteps = 300, 40000
	// (a budget of ~5 s of the explorer's wall clock)
	px.started = time.Now().Add(-(pxWallBudget - 5*time.Second))
	px.Run(fn, Env{})
	res := map[*ssa.Call]bool{}
	pxGuardedCache[fn] = res
	if px.Truncated {
		return false
	}
	for c, n := range reached {
		res[c] = n > 0 && !bad[c]
	}
	return res[call]
}
