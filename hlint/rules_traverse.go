package main

// Counted traversals are complete (shared by C16, C05, C02, C01).
//
// The encoder writes every field / element / key, the class-definition writer
// names every field, the type walk visits every field type, the converters
// fill every slot: all of these are counted loops `for i := 0; i < size; i++`
// whose induction variable indexes the collection whose size bounds the loop.
// Obligation per such loop in the package (induction variable = header phi
// with a constant step; exit test against a size: len, Len, NumField, NumIn…
// taken directly or through a local; the variable used as an index inside the
// loop): it starts at 0, advances by 1 and stops at `< size` — or runs
// downwards from size-1 to 0.  A step of 2, a start at 1 or `< size-1` skip
// members (a field not encoded, a field type missing from the type map); `<=
// size` indexes one past the end.  Loops of any other shape (chunking loops,
// loops to a terminator) are not instances.

import (
	"fmt"
	"go/token"
	"go/types"

	"golang.org/x/tools/go/ssa"
)

func isSizeValue(v ssa.Value, depth int) bool {
	if depth > 4 {
		return false
	}
	switch t := v.(type) {
	case *ssa.Call:
		if b, ok := t.Call.Value.(*ssa.Builtin); ok {
			return b.Name() == "len"
		}
		name := ""
		if t.Call.IsInvoke() {
			name = t.Call.Method.Name()
		} else if sc := t.Call.StaticCallee(); sc != nil {
			name = sc.Name()
		}
		switch name {
		case "Len", "NumField", "NumMethod", "NumIn", "NumOut":
			return true
		}
	case *ssa.Convert:
		return isSizeValue(t.X, depth+1)
	case *ssa.ChangeType:
		return isSizeValue(t.X, depth+1)
	case *ssa.Phi:
		for _, e := range t.Edges {
			if !isSizeValue(e, depth+1) {
				return false
			}
		}
		return len(t.Edges) > 0
	}
	return false
}

func usedAsIndexIn(v ssa.Value, lp *loopInfo) bool {
	for _, ref := range *v.Referrers() {
		if ref.Block() == nil || !lp.body[ref.Block()] {
			continue
		}
		switch t := ref.(type) {
		case *ssa.IndexAddr:
			if t.Index == v {
				return true
			}
		case *ssa.Index:
			if t.Index == v {
				return true
			}
		case *ssa.Call:
			name := ""
			if t.Call.IsInvoke() {
				name = t.Call.Method.Name()
			} else if sc := t.Call.StaticCallee(); sc != nil {
				name = sc.Name()
			}
			switch name {
			case "Field", "Index", "In", "Out", "Method":
				return true
			}
		case *ssa.Convert:
			if usedAsIndexIn(t, lp) {
				return true
			}
		}
	}
	return false
}

func (w *World) ruleCountedTraversals(r *Report, rule string, min int, want func(fn *ssa.Function) bool) {
	n := 0
	for _, fn := range w.SrcFuncs() {
		if want != nil && !want(fn) {
			continue
		}
		k := 0
		for _, lp := range naturalLoops(fn) {
			for _, in := range lp.header.Instrs {
				phi, ok := in.(*ssa.Phi)
				if !ok {
					break
				}
				if b, isB := phi.Type().Underlying().(*types.Basic); !isB || b.Info()&types.IsInteger == 0 {
					continue
				}
				// the edges: one from outside (init), the others i ± const from inside
				var init ssa.Value
				step, stepOK := int64(0), true
				for i, e := range phi.Edges {
					if !lp.body[lp.header.Preds[i]] {
						init = e
						continue
					}
					bo, isBo := e.(*ssa.BinOp)
					if !isBo || bo.X != phi || (bo.Op != token.ADD && bo.Op != token.SUB) {
						stepOK = false
						continue
					}
					c, isC := bo.Y.(*ssa.Const)
					if !isC || c.Value == nil {
						stepOK = false
						continue
					}
					s := c.Int64()
					if bo.Op == token.SUB {
						s = -s
					}
					if step != 0 && step != s {
						stepOK = false
					}
					step = s
				}
				if init == nil || !stepOK || step == 0 {
					continue
				}
				iff, ok := lp.header.Instrs[len(lp.header.Instrs)-1].(*ssa.If)
				if !ok {
					continue
				}
				cmp, ok := iff.Cond.(*ssa.BinOp)
				if !ok {
					continue
				}
				op, bound := cmp.Op, cmp.Y
				if cmp.Y == ssa.Value(phi) {
					bound = cmp.X
					switch op {
					case token.LSS:
						op = token.GTR
					case token.LEQ:
						op = token.GEQ
					case token.GTR:
						op = token.LSS
					case token.GEQ:
						op = token.LEQ
					}
				} else if cmp.X != ssa.Value(phi) {
					continue
				}
				// the test as the condition to CONTINUE: `if i >= n { break }` at the head
				// of a bare `for` is the same loop
				if !lp.body[lp.header.Succs[0]] {
					op = negOp(op)
				}
				if !usedAsIndexIn(phi, lp) {
					continue
				}
				initC, initIsC := init.(*ssa.Const)
				up := isSizeValue(bound, 0)
				// downward form: init = size-1, test i >= 0
				down := false
				if bo, isBo := init.(*ssa.BinOp); isBo && bo.Op == token.SUB && isSizeValue(bo.X, 0) {
					down = true
				}
				// `< size-1` is an instance too (a skipped last member)
				short := false
				if bo, isBo := bound.(*ssa.BinOp); isBo && (bo.Op == token.SUB || bo.Op == token.ADD) && isSizeValue(bo.X, 0) {
					if _, isC := bo.Y.(*ssa.Const); isC {
						short, up = true, true
					}
				}
				if !up && !down {
					continue
				}
				k++
				n++
				ok2, fact := false, ""
				switch {
				case down:
					bo := init.(*ssa.BinOp)
					c, isC := bo.Y.(*ssa.Const)
					bc, bIsC := bound.(*ssa.Const)
					ok2 = isC && c.Value != nil && c.Int64() == 1 && step == -1 && bIsC && bc.Value != nil &&
						((op == token.GEQ && bc.Int64() == 0) || (op == token.GTR && bc.Int64() == -1) ||
							// `i != -1`: from size-1 (≥ -1) in steps of one the counter meets -1 exactly —
							// the mirror image of the upward `i != size`
							(op == token.NEQ && bc.Int64() == -1))
					fact = fmt.Sprintf("downward traversal from %s by %d while i %s %s", init, step, op, bound)
				default:
					ok2 = initIsC && initC.Value != nil && initC.Int64() == 0 && step == 1 && (op == token.LSS || op == token.NEQ) && !short
					fact = fmt.Sprintf("starts at %s, advances by %d, continues while i %s %s", init, step, op, boundStr(bound))
				}
				if ok2 {
					fact += ": every member is visited, none beyond the end"
				} else {
					fact += ": members are skipped or the index passes the end"
				}
				r.add(rule, fmt.Sprintf("%s · counted loop #%d", fnName(fn), k), w.instrPos(iff), ok2, fact)
			}
		}
	}
	r.floor(rule+" (counted loops over a collection)", n, min)
}

func boundStr(v ssa.Value) string {
	if c, ok := v.(*ssa.Call); ok {
		return c.String()
	}
	if b, ok := v.(*ssa.BinOp); ok {
		return boundStr(b.X) + " " + b.Op.String() + " " + b.Y.String()
	}
	return v.String()
}
