package main

// C03.R8 / C14.R8 — element accesses of call-local containers are in range.
//
// The list readers size a container from a declared length (or not at all,
// when the length is unknown or too large to be trusted) and then store
// element j; the converters walk a source and a destination made for it.  A
// store past the end panics: behind the recovering entry points that turns a
// legal long list into an error, through the exported readers it crashes.
// Obligation per access with a computed index on the decode path — `s[j]` on
// a slice that is not one of the decoder's per-stream tables (those are
// C14.R1) and `v.Index(j)` on a reflect.Value: on every path (explored as for
// C14.R1: helpers stepped into, loops summarised) the index is proven >= 0 and
// below the length of the container — a comparison with len(s) / v.Len(), or
// with the very term the container was made with (`make([]T, n)`,
// reflect.MakeSlice(t, n, n)) on that path.  The pre-allocation flag and the
// append mode are correlated through the path: dropping `appendMode = true`
// where the pre-allocation is skipped leaves a path that stores into an empty
// slice.

import (
	"fmt"
	"go/token"
	"go/types"
	"os"
	"sort"
	"strings"

	"golang.org/x/tools/go/ssa"
)

type localIdxSite struct {
	in    ssa.Instruction
	base  ssa.Value
	index ssa.Value
}

func (w *World) localIndexSites(fn *ssa.Function) []localIdxSite {
	var out []localIdxSite
	for _, b := range fn.Blocks {
		for _, in := range b.Instrs {
			switch x := in.(type) {
			case *ssa.IndexAddr:
				if _, isC := x.Index.(*ssa.Const); isC {
					// a constant index into an array is checked by the compiler; into a slice
					// (the octets a read helper returned) it is an instance
					if _, isSl := x.X.Type().Underlying().(*types.Slice); !isSl {
						continue
					}
				}
				if owner, _, ok := w.fieldOfLoad(x.X); ok && (owner == "Decoder" || owner == "Encoder") {
					continue
				}
				out = append(out, localIdxSite{x, x.X, x.Index})
			case *ssa.Call:
				if sc := x.Call.StaticCallee(); sc != nil && qualifiedFnName(sc) == "(reflect.Value).Index" && len(x.Call.Args) == 2 {
					if _, isC := x.Call.Args[1].(*ssa.Const); isC {
						continue
					}
					if _, carried := x.Call.Args[0].(*ssa.Phi); carried {
						// a container that an iteration may replace (grown by reflect.Append):
						// its length is not a term of the path; not an instance
						continue
					}
					out = append(out, localIdxSite{x, x.Call.Args[0], x.Call.Args[1]})
				}
			}
		}
	}
	return out
}

func (w *World) ruleLocalIndexInRange(r *Report, rule string, min int) {
	reach := w.reachPkg(w.decodeEntryPoints()...)
	stop := w.readerBoundaries()
	nested := w.reachesReadData()
	n := 0
	for _, fn := range w.SrcFuncs() {
		if !reach[fn] && !reach[rootFn(fn)] {
			continue
		}
		sites := w.localIndexSites(fn)
		if len(sites) == 0 {
			continue
		}
		isSite := map[ssa.Instruction]int{}
		for i, s := range sites {
			isSite[s.in] = i
		}
		canReach := map[*ssa.BasicBlock]bool{}
		for _, s := range sites {
			canReach[s.in.Block()] = true
		}
		for changed := true; changed; {
			changed = false
			for _, b := range fn.Blocks {
				if canReach[b] {
					continue
				}
				for _, sc := range b.Succs {
					if canReach[sc] {
						canReach[b] = true
						changed = true
						break
					}
				}
			}
		}
		type res struct {
			met, bad int
			fact     string
		}
		results := make([]res, len(sites))
		var px *PX
		px = w.newPX(pxHooks{
			onInstr: func(fr *pxFrame, in ssa.Instruction, st *pxState) bool {
				if c, ok := in.(*ssa.Call); ok {
					if sc := c.Call.StaticCallee(); sc != nil && qualifiedFnName(sc) == "reflect.MakeSlice" && len(c.Call.Args) == 3 {
						st.vals["mklenx:"+px.term(c, fr, st).key] = px.term(c.Call.Args[1], fr, st)
					}
				}
				i, ok := isSite[in]
				if !ok || fr.parent != nil {
					return true
				}
				s := sites[i]
				it := px.term(s.index, fr, st)
				I, _ := px.evalTerm(it, st)
				lower := I != nil && !I.Empty() && I.Min().Sign() >= 0
				base := px.term(s.base, fr, st)
				is1 := func(k string, v int64) bool {
					x, has := st.env[k]
					return has && x.Equal(single(v))
				}
				rel := func(a, b string) bool {
					return is1("("+a+" >= "+b+")", 0) || is1("("+a+" < "+b+")", 1) || is1("("+b+" <= "+a+")", 0) || is1("("+b+" > "+a+")", 1)
				}
				upper, how := false, ""
				var lens []*Term
				if _, isCall := s.in.(*ssa.Call); isCall {
					lens = append(lens, &Term{K: TPure, Name: "(reflect.Value).Len", Args: []*Term{base}, T: types.Typ[types.Int], key: "pure:(reflect.Value).Len(" + base.key + ")"})
				} else {
					lens = append(lens, px.lenTerm(base, types.Typ[types.Int]))
				}
				// make([]T, const) is a slice of a fresh array: its length is in the type
				if sl, ok := s.base.(*ssa.Slice); ok {
					if pt, ok := sl.X.Type().Underlying().(*types.Pointer); ok {
						if at, ok := pt.Elem().Underlying().(*types.Array); ok {
							lo, hi, known := int64(0), at.Len(), true
							if sl.Low != nil {
								if c, ok := sl.Low.(*ssa.Const); ok && c.Value != nil {
									lo = c.Int64()
								} else {
									known = false
								}
							}
							if sl.High != nil {
								if c, ok := sl.High.(*ssa.Const); ok && c.Value != nil {
									hi = c.Int64()
								} else {
									known = false
								}
							}
							if known {
								lens = append(lens, constT(hi-lo, types.Typ[types.Int]))
							}
						}
					}
				}
				for _, pfx := range []string{"mklen:", "mklenx:"} {
					if ml := st.vals[pfx+base.key]; ml != nil {
						lens = append(lens, ml)
					}
				}
				for _, lt := range lens {
					// len - c with c >= 1 is below len
					if it.K == TBin && it.Op == token.SUB && it.A.key == lt.key && it.B.K == TConst && it.B.C.Sign() > 0 {
						upper, how = true, "being "+lt.key+" minus a positive constant"
						break
					}
					if rel(it.key, lt.key) {
						upper, how = true, "a test against "+lt.key
						break
					}
					// `for j := 0; j != n; j++` over a container made with n (n >= 0, or the
					// make would have failed): a counter that starts at 0 and steps by one
					// is below n as long as it differs from it
					if strings.HasPrefix(it.key, "<hv") && I != nil && !I.Empty() && I.Min().Sign() >= 0 && (is1("("+it.key+" != "+lt.key+")", 1) || is1("("+it.key+" == "+lt.key+")", 0)) {
						upper, how = true, "counting up from 0 while different from "+lt.key
						break
					}
					if L, _ := px.evalTerm(lt, st); L != nil && !L.Empty() && I != nil && !I.Empty() && L.Min().Cmp(I.Max()) > 0 {
						upper, how = true, "the length range "+L.String()+" of "+lt.key
						break
					}
				}
				if os.Getenv("HLINT_IDXDBG") != "" && !upper {
					var ks []string
					for k, v := range st.vals {
						if strings.HasPrefix(k, "mklen") {
							ks = append(ks, k+"="+v.key)
						}
					}
					sort.Strings(ks)
					fmt.Fprintf(os.Stderr, "LIDX %s base=%s (%T) idx=%s mk=%v\n", w.instrPos(s.in), base.key, s.base, it.key, ks)
				}
				// len(made) == len(y) and y[c'] with c' >= c has already been evaluated on every
				// way here (a dominating access): had y been shorter, control would not be here
				if c, isC := s.index.(*ssa.Const); !upper && isC && c.Value != nil && fr.parent == nil {
					for _, lt := range lens {
						if lt.K != TPure || lt.Name != "len" || len(lt.Args) != 1 {
							continue
						}
						// … or in every static caller, on the value handed over as that parameter
						// (rules_localidx_callers.go)
						if prm, isP := lt.Args[0].V.(*ssa.Parameter); isP && lt.Args[0].K == TLeaf && prm.Parent() == fn {
							if at, ok := w.callersAccessFirst(fn, prm, c.Int64()); ok {
								upper, how = true, fmt.Sprintf("the access [%d] at %s, in every caller, of the value whose length it was made with", c.Int64(), at)
							}
						}
						for _, b2 := range fn.Blocks {
							for _, in2 := range b2.Instrs {
								var x2, i2 ssa.Value
								switch y := in2.(type) {
								case *ssa.Index:
									x2, i2 = y.X, y.Index
								case *ssa.IndexAddr:
									x2, i2 = y.X, y.Index
								}
								if x2 == nil || in2 == s.in {
									continue
								}
								c2, ok := i2.(*ssa.Const)
								if !ok || c2.Value == nil || c2.Int64() < c.Int64() {
									continue
								}
								dom := b2 != s.in.Block() && b2.Dominates(s.in.Block())
								if b2 == s.in.Block() {
									for _, q := range b2.Instrs {
										if q == in2 {
											dom = true
											break
										}
										if q == s.in {
											break
										}
									}
								}
								if dom && px.term(x2, fr, st).key == lt.Args[0].key {
									upper, how = true, fmt.Sprintf("the dominating access %s[%d] at %s of the value whose length it was made with", lt.Args[0].key, c2.Int64(), w.instrPos(in2))
								}
							}
						}
					}
				}
				// an instance on this path only if the path knows what the container was
				// made with (or the access is related to its length already): a container
				// handed in from elsewhere (parameter, capture, field) is its owner's business
				if !upper && len(lens) < 2 {
					return true
				}
				results[i].met++
				if !lower || !upper {
					results[i].bad++
					if results[i].fact == "" {
						var ls []string
						for _, lt := range lens {
							ls = append(ls, lt.key)
						}
						results[i].fact = fmt.Sprintf("index %s ∈ %s: lower bound proven=%v, upper bound proven=%v (no test against %v on this path)", it.key, I, lower, upper, ls)
					}
				} else if results[i].fact == "" || results[i].bad == 0 {
					if results[i].bad == 0 {
						results[i].fact = fmt.Sprintf("index %s ∈ %s, bounded by %s", it.key, I, how)
					}
				}
				return true
			},
			inline: func(fr *pxFrame, callee *ssa.Function) bool {
				// helpers of the function are stepped into; the readers of nested values are not
				_, isReader := stop[callee]
				return !isReader && !nested[callee] && !w.isTagPredicate(callee) && w.finiteFn(callee) == nil
			},
			// a path that can no longer reach an access has nothing left to decide
			prune: func(fr *pxFrame, b *ssa.BasicBlock, st *pxState) bool {
				return fr.parent == nil && !canReach[b]
			},
			havoc: func(fr *pxFrame, lp *loopInfo) bool { return true },
		})
		px.maxPaths, px.maxSteps = 40000, 400000
		px.Run(fn, Env{})
		var order []int
		for i := range sites {
			order = append(order, i)
		}
		sort.Ints(order)
		for _, i := range order {
			s, rs := sites[i], results[i]
			kind := "s[j]"
			if _, isCall := s.in.(*ssa.Call); isCall {
				kind = "v.Index(j)"
			}
			key := fmt.Sprintf("%s · %s #%d", fnName(fn), kind, i+1)
			n++
			switch {
			case px.Truncated:
				r.undecided(rule, key, w.instrPos(s.in), "path exploration truncated")
			case rs.met == 0:
				o := r.add(rule, key, w.instrPos(s.in), true, "not reached by any explored path")
				o.Trivial = true
			case rs.bad > 0:
				r.add(rule, key, w.instrPos(s.in), false, fmt.Sprintf("%s (%d of %d paths): the access can pass the end of the container", rs.fact, rs.bad, rs.met))
			default:
				r.add(rule, key, w.instrPos(s.in), true, fmt.Sprintf("%s (all %d paths)", rs.fact, rs.met))
			}
		}
	}
	r.floor(rule+" (computed-index accesses of local containers on the decode path)", n, min)
}
