package main

// Symbolic []byte values for the path explorer: enough of Go's byte-slice
// vocabulary to read the wire forms off an encoder whatever idiom it is
// written in — composite literals, make + index stores, append, helper
// functions returning slices, binary.BigEndian.PutUintNN, bytes.Buffer.

import (
	"fmt"
	"go/token"
	"go/types"
	"math/big"
	"strings"

	"golang.org/x/tools/go/ssa"
)

// ByteSeq is a view on a symbolic buffer: Oct are the octets of the view.
type ByteSeq struct {
	buf  *[]*Term // shared backing store (copied when the path forks: see cloneBytes)
	off  int
	Oct  []*Term // materialised view (len = known length)
	Open bool    // followed by payload of statically unknown length
	Pay  []ssa.Value
	// Parts: for an Open sequence built by append, everything in order — the
	// octets of Oct, then payload segments and the octets appended after them
	// (nil: nothing is known beyond Oct / Pay)
	Parts []bsPart
}

// bsPart: one octet (oct) or one payload of statically unknown length (seg: the
// term of the appended value) of an append-built sequence.
type bsPart struct {
	oct, seg *Term
	pos      string
}

func octParts(oct []*Term, pos string) []bsPart {
	out := make([]bsPart, 0, len(oct))
	for _, o := range oct {
		out = append(out, bsPart{oct: o, pos: pos})
	}
	return out
}

// partsOf: the sequence as parts (octets only when it is closed).
func (b *ByteSeq) partsOf(pos string) ([]bsPart, bool) {
	if !b.Open {
		return octParts(b.Oct, pos), true
	}
	if b.Parts == nil {
		return nil, false
	}
	return append([]bsPart(nil), b.Parts...), true
}

func zeroTerm(t types.Type) *Term {
	return &Term{K: TConst, C: new(big.Int), T: t, key: "0"}
}

func isByteArrayPtr(t types.Type) (int, bool) {
	p, ok := t.Underlying().(*types.Pointer)
	if !ok {
		return 0, false
	}
	a, ok := p.Elem().Underlying().(*types.Array)
	if !ok {
		return 0, false
	}
	b, ok := a.Elem().Underlying().(*types.Basic)
	if !ok || b.Kind() != types.Uint8 {
		return 0, false
	}
	return int(a.Len()), true
}

func isByteSlice(t types.Type) bool {
	s, ok := t.Underlying().(*types.Slice)
	if !ok {
		return false
	}
	b, ok := s.Elem().Underlying().(*types.Basic)
	return ok && b.Kind() == types.Uint8
}

// byteSeqOf returns the symbolic value of v if it is a tracked byte sequence.
func (p *PX) byteSeqOf(v ssa.Value, fr *pxFrame, st *pxState) *ByteSeq {
	switch x := v.(type) {
	case *ssa.Alloc:
		if n, ok := isByteArrayPtr(x.Type()); ok {
			key := p.reg(fr, x)
			if bs, ok := st.bseq[key]; ok {
				return bs
			}
			oct := make([]*Term, n)
			for i := range oct {
				oct[i] = zeroTerm(types.Typ[types.Uint8])
			}
			bs := &ByteSeq{Oct: oct}
			st.bseq[key] = bs
			return bs
		}
		return nil
	case *ssa.Const:
		if x.Value == nil && isByteSlice(x.Type()) {
			return &ByteSeq{}
		}
		return nil
	case *ssa.Parameter:
		return st.bseq[fr.id+regName(x)]
	case *ssa.FreeVar:
		// captured by value: the value of the frame that made the closure
		if bv, bf := p.boundValue(x, fr); bv != ssa.Value(x) {
			return p.byteSeqOf(bv, bf, st)
		}
		return nil
	case *ssa.Slice:
		base := p.byteSeqOf(x.X, fr, st)
		if base == nil {
			return nil
		}
		lo, hi := 0, len(base.Oct)
		if x.Low != nil {
			t := p.term(x.Low, fr, st)
			s, _ := p.evalTerm(t, st)
			if s == nil || s.Card().Cmp(one) != 0 {
				return nil
			}
			lo = int(s.Min().Int64())
		}
		if x.High != nil {
			t := p.term(x.High, fr, st)
			s, _ := p.evalTerm(t, st)
			if s == nil || s.Card().Cmp(one) != 0 {
				return nil
			}
			hi = int(s.Min().Int64())
		}
		if lo < 0 || hi > len(base.Oct) || lo > hi {
			return nil
		}
		// a sub-view shares storage: same Term pointers slice
		return &ByteSeq{Oct: base.Oct[lo:hi:hi], Open: base.Open && hi == len(base.Oct), Pay: base.Pay}
	case *ssa.MakeSlice:
		key := p.reg(fr, x)
		if bs, ok := st.bseq[key]; ok {
			return bs
		}
		if !isByteSlice(x.Type()) {
			return nil
		}
		s, _ := p.eval(x.Len, fr, st)
		if s == nil || s.Card().Cmp(one) != 0 || s.Min().Int64() > 4096 {
			return nil
		}
		oct := make([]*Term, s.Min().Int64())
		for i := range oct {
			oct[i] = zeroTerm(types.Typ[types.Uint8])
		}
		bs := &ByteSeq{Oct: oct}
		st.bseq[key] = bs
		return bs
	case *ssa.Phi, *ssa.Call, *ssa.Extract:
		key := p.reg(fr, v)
		if ex, ok := v.(*ssa.Extract); ok {
			key = p.reg(fr, ex.Tuple) + fmt.Sprintf("#%d", ex.Index)
		}
		return st.bseq[key]
	case *ssa.UnOp:
		if x.Op == token.MUL {
			if al, ok := x.X.(*ssa.Alloc); ok {
				if bs := st.bseq[p.reg(fr, al)+"*"]; bs != nil {
					return bs
				}
				return nilCellBytes(st, p.reg(fr, al)+"*", x.Type())
			}
			if ia, ok := x.X.(*ssa.IndexAddr); ok && isByteSlice(x.Type()) && !isByteSlice(ia.X.Type()) {
				// an element of a [][]byte whose cell was filled on this path
				return st.bseq["mem:"+p.term(ia, fr, st).key]
			}
			if _, ok := x.X.(*ssa.FreeVar); ok {
				// a variable captured by a closure: the cell of the frame that made it
				if cell, ok := p.cellOf(x.X, fr); ok {
					if bs := st.bseq[cell]; bs != nil {
						return bs
					}
					return nilCellBytes(st, cell, x.Type())
				}
			}
			if g, ok := x.X.(*ssa.Global); ok {
				if vals, ok := p.w.globalBytes(g); ok {
					bs := &ByteSeq{}
					for _, gv := range vals {
						if c, ok := p.w.constOf(gv); ok {
							bs.Oct = append(bs.Oct, &Term{K: TConst, C: big.NewInt(c), T: types.Typ[types.Uint8], key: fmt.Sprint(c)})
						} else {
							return nil
						}
					}
					return bs
				}
			}
		}
	case *ssa.ChangeType:
		return p.byteSeqOf(x.X, fr, st)
	case *ssa.Convert:
		return nil
	}
	return nil
}

// byteStore: *addr = val where addr indexes a tracked sequence.
func (p *PX) byteStore(x *ssa.Store, fr *pxFrame, st *pxState) {
	if al, ok := x.Addr.(*ssa.Alloc); ok {
		// a local []byte variable cell
		if bs := p.byteSeqOf(x.Val, fr, st); bs != nil {
			st.bseq[p.reg(fr, al)+"*"] = bs
		} else if isByteSlice(x.Val.Type()) {
			delete(st.bseq, p.reg(fr, al)+"*")
		}
		return
	}
	ia, ok := x.Addr.(*ssa.IndexAddr)
	if !ok {
		return
	}
	bs := p.byteSeqOf(ia.X, fr, st)
	if bs == nil {
		return
	}
	s, _ := p.eval(ia.Index, fr, st)
	if s == nil || s.Card().Cmp(one) != 0 {
		// store at an unknown index: the content is no longer known
		for i := range bs.Oct {
			bs.Oct[i] = nil
		}
		return
	}
	i := int(s.Min().Int64())
	if i >= 0 && i < len(bs.Oct) {
		// copy-on-write of the element slot keeps sibling paths independent
		bs.Oct[i] = p.term(x.Val, fr, st)
	}
}

// cloneBytes deep-copies the octet slices so that forked paths do not alias.
func cloneBytes(m map[string]*ByteSeq) map[string]*ByteSeq {
	out := make(map[string]*ByteSeq, len(m))
	// views sharing storage must keep sharing after the copy: copy per distinct backing array
	type span struct {
		first *Term
	}
	copied := map[*ByteSeq]*ByteSeq{}
	for k, v := range m {
		if c, ok := copied[v]; ok {
			out[k] = c
			continue
		}
		c := &ByteSeq{Open: v.Open, Pay: v.Pay, Oct: append([]*Term(nil), v.Oct...), Parts: append([]bsPart(nil), v.Parts...)}
		if v.Parts == nil {
			c.Parts = nil
		}
		copied[v] = c
		out[k] = c
	}
	return out
}

// byteCall models calls that create or fill byte sequences.
func (p *PX) byteCall(x *ssa.Call, fr *pxFrame, st *pxState) {
	key := p.reg(fr, x)
	// the operands in the order of the callee's parameters (receiver first)
	args := x.Call.Args
	if bi, ok := x.Call.Value.(*ssa.Builtin); ok {
		switch bi.Name() {
		case "append":
			if !isByteSlice(x.Type()) || len(x.Call.Args) != 2 {
				return
			}
			base := p.byteSeqOf(x.Call.Args[0], fr, st)
			add := p.byteSeqOf(x.Call.Args[1], fr, st)
			if base == nil {
				delete(st.bseq, key)
				return
			}
			pos := p.w.instrPos(x)
			if base.Open {
				// octets and payloads appended after a payload: kept in order in Parts
				// (append(out, tag); append(out, chunk...); append(out, tag2) …)
				parts, ok := base.partsOf(pos)
				if !ok {
					delete(st.bseq, key)
					return
				}
				n := &ByteSeq{Oct: append([]*Term(nil), base.Oct...), Open: true, Pay: append([]ssa.Value(nil), base.Pay...)}
				if add == nil {
					parts = append(parts, bsPart{seg: p.term(x.Call.Args[1], fr, st), pos: pos})
					n.Pay = append(n.Pay, x.Call.Args[1])
				} else if more, ok := add.partsOf(pos); ok {
					parts = append(parts, more...)
				} else {
					delete(st.bseq, key)
					return
				}
				n.Parts = parts
				st.bseq[key] = n
				return
			}
			n := &ByteSeq{Oct: append(append([]*Term(nil), base.Oct...)), Pay: base.Pay}
			if add == nil {
				n.Open = true
				n.Pay = append(append([]ssa.Value(nil), base.Pay...), x.Call.Args[1])
				n.Parts = append(octParts(n.Oct, pos), bsPart{seg: p.term(x.Call.Args[1], fr, st), pos: pos})
			} else {
				n.Oct = append(n.Oct, add.Oct...)
				n.Open = add.Open
				if add.Open {
					if more, ok := add.partsOf(pos); ok {
						n.Parts = append(octParts(base.Oct, pos), more...)
					}
				}
			}
			st.bseq[key] = n
		case "copy":
			if len(x.Call.Args) == 2 {
				dst, src := p.byteSeqOf(x.Call.Args[0], fr, st), p.byteSeqOf(x.Call.Args[1], fr, st)
				if dst != nil {
					for i := range dst.Oct {
						if src != nil && i < len(src.Oct) {
							dst.Oct[i] = src.Oct[i]
						} else if src == nil {
							dst.Oct[i] = nil
						}
					}
				}
			}
		}
		return
	}
	sc := x.Call.StaticCallee()
	if sc == nil || len(sc.FreeVars) > 0 {
		// a library function called through a function value known on the path (the
		// method value `put16 := binary.BigEndian.PutUint16`, pxlibfv.go)
		if lf, recv := p.libFuncValue(&x.Call, fr, st); lf != nil {
			sc = lf
			if recv != nil {
				args = append([]ssa.Value{nil}, args...)
			}
		} else if fn, _, _ := p.funcValueCallee(x, fr, st); fn != nil && p.w.inPkg(fn) && fn.Blocks != nil {
			// a package function or closure known on the path (`conv(buf)` with conv a
			// function literal handed to the maker of this closure): the same call as the
			// static one — package code is followed or summarised, it does not scribble
			// over the buffers it is handed out of sight
			return
		}
	}
	if sc == nil {
		// a dynamic call may fill the buffers it is handed (io.Reader.Read); an
		// io.Writer's Write must not modify its argument (contract of io.Writer)
		if !(x.Call.IsInvoke() && x.Call.Method.Name() == "Write") {
			p.clobberByteArgs(x, fr, st)
		}
		return
	}
	name := qualifiedFnName(sc)
	switch name {
	default:
		// library code that receives a tracked buffer may write into it
		// (io.ReadFull, utf8.EncodeRune …): its content is no longer known
		if !p.w.inPkg(sc) && !strings.HasSuffix(name, ".Write") && !readOnlyExternal(sc) && !byteOrderGetter(sc) {
			p.clobberByteArgs(x, fr, st)
		}
	case "bytes.NewBuffer":
		init := p.byteSeqOf(args[0], fr, st)
		if init == nil {
			if isNilConst(args[0]) {
				init = &ByteSeq{}
			} else {
				return
			}
		}
		st.bseq[key] = &ByteSeq{Oct: append([]*Term(nil), init.Oct...)}
	case "(*bytes.Buffer).WriteByte", "(*strings.Builder).WriteByte":
		if buf := p.bufferOf(args[0], fr, st); buf != nil && !buf.Open {
			buf.Oct = append(buf.Oct, p.term(args[1], fr, st))
		}
	case "(*bytes.Buffer).Write", "(*bytes.Buffer).WriteString", "(*strings.Builder).Write", "(*strings.Builder).WriteString":
		if buf := p.bufferOf(args[0], fr, st); buf != nil && !buf.Open {
			if add := p.byteSeqOf(args[1], fr, st); add != nil && !add.Open {
				buf.Oct = append(buf.Oct, add.Oct...)
			} else {
				buf.Open = true
				buf.Pay = append(buf.Pay, args[1])
			}
		} else if buf != nil {
			buf.Pay = append(buf.Pay, args[1])
		}
	case "(*bytes.Buffer).Bytes", "(*bytes.Buffer).String", "(*strings.Builder).String":
		// (the text accumulated so far; a string result is looked up by the call's register)
		if buf := p.bufferOf(args[0], fr, st); buf != nil {
			st.bseq[key] = &ByteSeq{Oct: append([]*Term(nil), buf.Oct...), Open: buf.Open, Pay: buf.Pay}
		}
	case "io.ReadFull", "io.ReadAtLeast":
		// the buffer is overwritten with octets of the stream: unknown values
		if len(x.Call.Args) >= 2 {
			if dst := p.byteSeqOf(args[1], fr, st); dst != nil {
				// when the number of octets consumed so far on this path is known the
				// octets are named by their position in the stream (<in@k>), so that a
				// rule can relate them to what an encoder wrote at that position
				pos, known := p.inPos(st)
				for i := range dst.Oct {
					if known {
						dst.Oct[i] = &Term{K: TLeaf, T: types.Typ[types.Uint8], key: fmt.Sprintf("<in@%d>", pos+i)}
					} else {
						dst.Oct[i] = &Term{K: TLeaf, T: types.Typ[types.Uint8], key: fmt.Sprintf("<in:%s%s#%d>", key, p.iterTag(fr, x, st), i)}
					}
				}
				if known {
					p.setInPos(st, pos+len(dst.Oct))
				}
			} else {
				p.setInPos(st, -1)
			}
		}
	case "(encoding/binary.bigEndian).PutUint16", "(binary.bigEndian).PutUint16":
		p.putUint(x, args, fr, st, 2)
	case "(encoding/binary.bigEndian).PutUint32", "(binary.bigEndian).PutUint32":
		p.putUint(x, args, fr, st, 4)
	case "(encoding/binary.bigEndian).PutUint64", "(binary.bigEndian).PutUint64":
		p.putUint(x, args, fr, st, 8)
	case "(encoding/binary.bigEndian).AppendUint16", "(binary.bigEndian).AppendUint16", "(encoding/binary.bigEndian).AppendUint32", "(binary.bigEndian).AppendUint32", "(encoding/binary.bigEndian).AppendUint64", "(binary.bigEndian).AppendUint64":
		n := map[byte]int{'6': 2, '2': 4, '4': 8}[name[len(name)-1]]
		base := p.byteSeqOf(args[1], fr, st)
		if base == nil {
			return
		}
		v := p.term(args[2], fr, st)
		if base.Open {
			parts, ok := base.partsOf(p.w.instrPos(x))
			if !ok {
				delete(st.bseq, key)
				return
			}
			for i := 0; i < n; i++ {
				parts = append(parts, bsPart{oct: windowTerm(v, 8*(n-1-i)), pos: p.w.instrPos(x)})
			}
			st.bseq[key] = &ByteSeq{Oct: append([]*Term(nil), base.Oct...), Open: true, Pay: base.Pay, Parts: parts}
			return
		}
		nb := &ByteSeq{Oct: append([]*Term(nil), base.Oct...)}
		for i := 0; i < n; i++ {
			nb.Oct = append(nb.Oct, windowTerm(v, 8*(n-1-i)))
		}
		st.bseq[key] = nb
	}
}

// clobberByteArgs: the octets of every tracked sequence passed to x become unknown.
func (p *PX) clobberByteArgs(x *ssa.Call, fr *pxFrame, st *pxState) {
	for _, a := range x.Call.Args {
		if !isByteSlice(a.Type()) {
			continue
		}
		if bs := p.byteSeqOf(a, fr, st); bs != nil {
			for i := range bs.Oct {
				bs.Oct[i] = nil
			}
		}
	}
}

func windowTerm(v *Term, shift int) *Term {
	inner := v
	if shift > 0 {
		c := &Term{K: TConst, C: big.NewInt(int64(shift)), T: types.Typ[types.Uint], key: fmt.Sprint(shift)}
		inner = &Term{K: TBin, Op: token.SHR, A: v, B: c, T: v.T, key: "(" + v.key + " >> " + c.key + ")"}
	}
	return &Term{K: TConv, A: inner, T: types.Typ[types.Uint8], key: "conv:uint8(" + inner.key + ")"}
}

func (p *PX) putUint(x *ssa.Call, args []ssa.Value, fr *pxFrame, st *pxState, n int) {
	// the receiver is arg 0 (the bigEndian value), then the slice, then the integer
	if len(args) != 3 {
		return
	}
	dst := p.byteSeqOf(args[1], fr, st)
	if dst == nil || len(dst.Oct) < n {
		return
	}
	v := p.term(args[2], fr, st)
	for i := 0; i < n; i++ {
		dst.Oct[i] = windowTerm(v, 8*(n-1-i))
	}
}

// bufferOf: the symbolic content of a *bytes.Buffer value.
func (p *PX) bufferOf(v ssa.Value, fr *pxFrame, st *pxState) *ByteSeq {
	switch x := v.(type) {
	case *ssa.Call:
		return st.bseq[p.reg(fr, x)]
	case *ssa.Alloc:
		// new(bytes.Buffer) / var b bytes.Buffer
		if pt, ok := x.Type().Underlying().(*types.Pointer); ok && (typeStr(pt.Elem()) == "bytes.Buffer" || typeStr(pt.Elem()) == "strings.Builder") {
			key := p.reg(fr, x)
			if bs, ok := st.bseq[key]; ok {
				return bs
			}
			bs := &ByteSeq{}
			st.bseq[key] = bs
			return bs
		}
	case *ssa.Phi:
		return st.bseq[p.reg(fr, x)]
	case *ssa.Parameter:
		return st.bseq[fr.id+regName(x)]
	case *ssa.FreeVar:
		if bv, bf := p.boundValue(x, fr); bv != ssa.Value(x) {
			return p.bufferOf(bv, bf, st)
		}
	}
	return nil
}

// inPos: the number of payload octets read from the stream so far on this
// path, if every read so far had a known size.
func (p *PX) inPos(st *pxState) (int, bool) {
	v, ok := st.vals["__inpos"]
	if !ok {
		return 0, true
	}
	if v.K != TConst || v.C.Sign() < 0 {
		return 0, false
	}
	return int(v.C.Int64()), true
}

func (p *PX) setInPos(st *pxState, n int) {
	c := big.NewInt(int64(n))
	st.vals["__inpos"] = &Term{K: TConst, C: c, T: types.Typ[types.Int], key: c.String()}
}

// beTerm: the big-endian composition of octets as a term of type t:
// ((t(o0) << 8(n-1)) | … | t(o[n-1])).
func beTerm(oct []*Term, t types.Type) *Term {
	var acc *Term
	n := len(oct)
	for i, o := range oct {
		if o == nil {
			return nil
		}
		x := &Term{K: TConv, A: o, T: t, key: "conv:" + types.TypeString(t, nil) + "(" + o.key + ")"}
		if sh := 8 * (n - 1 - i); sh > 0 {
			c := &Term{K: TConst, C: big.NewInt(int64(sh)), T: types.Typ[types.Uint], key: fmt.Sprint(sh)}
			x = &Term{K: TBin, Op: token.SHL, A: x, B: c, T: t, key: "(" + x.key + " << " + c.key + ")"}
		}
		if acc == nil {
			acc = x
		} else {
			acc = &Term{K: TBin, Op: token.OR, A: acc, B: x, T: t, key: "(" + acc.key + " | " + x.key + ")"}
		}
	}
	return acc
}

// byteOrderGetter: encoding/binary's ByteOrder.UintNN methods only read the buffer.
func byteOrderGetter(sc *ssa.Function) bool {
	if sc == nil || sc.Pkg == nil || sc.Pkg.Pkg.Path() != "encoding/binary" || sc.Signature.Recv() == nil {
		return false
	}
	switch sc.Name() {
	case "Uint16", "Uint32", "Uint64":
		return true
	}
	return false
}

// nilCellBytes: a []byte variable that still holds the zero value it was
// declared with (`var out []byte` … `out = append(out, …)`, also when the
// append sits in a closure that captured the variable) is the empty sequence.
func nilCellBytes(st *pxState, cell string, t types.Type) *ByteSeq {
	if !isByteSlice(t) {
		return nil
	}
	if v, ok := st.vals[cell]; ok && v != nil && v.K == TLeaf && strings.HasPrefix(v.key, "nil:") {
		return &ByteSeq{}
	}
	return nil
}
