package main

// Error results on a path of the explorer, classified by the VALUE that reaches
// the return on that path, not by the syntactic operand of the return
// instruction: with named results or one merged `return v, err` the operand is
// a φ-node whose term on the path is the edge taken (nil, a callee's error
// that the path has tested, or an error constructed by a rejecting branch).

import "golang.org/x/tools/go/ssa"

// pxErrConstructed: the error is a concrete value boxed on this path (the
// function itself, or a helper stepped into, built it: a rejection).
func pxErrConstructed(v ssa.Value, t *Term) bool {
	if _, mk := v.(*ssa.MakeInterface); mk {
		return true
	}
	if t != nil && t.K == TLeaf && t.V != nil {
		if _, mk := t.V.(*ssa.MakeInterface); mk {
			return true
		}
	}
	return false
}
