package main

// Helpers of the object reader rules (C05.R1/R2) that let them follow the body
// of the field loop into functions extracted from it.

import (
	"go/token"
	"sort"

	"golang.org/x/tools/go/ssa"
)

// iterationIndex: cond is the bound test `i < len(X)` of a loop with header h,
// written with the counter itself (index loop) or with counter+1 (the form the
// compiler gives a `range` loop, whose body indexes with the incremented
// register).  Returns the value that indexes the current iteration's element.
func iterationIndex(cond ssa.Value, h *ssa.BasicBlock) ssa.Value {
	bo, ok := cond.(*ssa.BinOp)
	if !ok || bo.Op != token.LSS {
		return nil
	}
	if phi, isPhi := bo.X.(*ssa.Phi); isPhi && phi.Block() == h {
		return phi
	}
	if inc, isInc := bo.X.(*ssa.BinOp); isInc && inc.Op == token.ADD {
		if phi, isPhi := inc.X.(*ssa.Phi); isPhi && phi.Block() == h {
			if c, isC := inc.Y.(*ssa.Const); isC && c.Value != nil && c.Int64() == 1 {
				// the φ must be fed by this very increment (i = i+1 each round)
				for _, e := range phi.Edges {
					if e == ssa.Value(inc) {
						return inc
					}
				}
			}
		}
	}
	return nil
}

// tagReaders: the consumers that read (or hand on) a tag octet, recognised by
// their results (a byte …, an error).
func (w *World) tagReaders(consumers map[*ssa.Function]bool) map[*ssa.Function]bool {
	out := map[*ssa.Function]bool{}
	for fn := range consumers {
		// (also a prelude helper that hands the octet back with what it already
		// decided about it: `tag, settled, err := d.leadTag(who)`, dispatch_lead.go)
		if handsBackOctet(fn) {
			out[fn] = true
		}
	}
	return out
}

// valueCounter decides how many wire values a call consumes.  A function that
// itself obtains a tag (calls a tag reader directly) starts a value: it is a
// value reader and stands for exactly one value.  Any other consumer is a
// composition of value readers; the set of totals over its paths to a return
// that can succeed is computed from its CFG (consumer calls inside a loop make
// the total unknown).
type valueCounter struct {
	w         *World
	consumers map[*ssa.Function]bool
	tagRd     map[*ssa.Function]bool
	memo      map[*ssa.Function][]int
	busy      map[*ssa.Function]bool
	leaves    map[*ssa.Call]bool // calls of value readers met, directly or inside compositions
}

func (w *World) newValueCounter(consumers map[*ssa.Function]bool) *valueCounter {
	return &valueCounter{w: w, consumers: consumers, tagRd: w.tagReaders(consumers), memo: map[*ssa.Function][]int{}, busy: map[*ssa.Function]bool{}, leaves: map[*ssa.Call]bool{}}
}

func (vc *valueCounter) isValueReader(fn *ssa.Function) bool {
	return vc.opensValue(fn, 0)
}

// opensValue: fn obtains a tag itself — directly, or in code extracted from it:
// an unexported function all of whose uses are static calls from fn and whose
// call precedes every other read of fn (the head of the production split off,
// `readMapHead` of `readMap`) is part of fn.
func (vc *valueCounter) opensValue(fn *ssa.Function, depth int) bool {
	for _, cs := range vc.w.callSitesIn(fn) {
		sc := cs.call.Call.StaticCallee()
		if sc == nil {
			continue
		}
		if vc.tagRd[sc] {
			return true
		}
		if depth < 3 && sc != fn && vc.consumers[sc] && vc.w.extractedFrom(sc, fn) && vc.readsFirst(cs.call, fn) && vc.opensValue(sc, depth+1) {
			return true
		}
	}
	return false
}

// readsFirst: call c precedes every other consuming call of fn (the head of the
// production comes first; a value reader with a single caller that sits in one
// branch next to another reader — `readField` / `ReadData` in the bind / skip
// arms of an extracted field reader — is an alternative, not the head).
func (vc *valueCounter) readsFirst(c *ssa.Call, fn *ssa.Function) bool {
	for _, cs := range vc.w.callSitesIn(fn) {
		if cs.call == c {
			continue
		}
		consumes := false
		for _, g := range vc.w.calleesOf(cs.call) {
			if vc.consumers[g] && vc.w.inPkg(g) {
				consumes = true
			}
		}
		if !consumes {
			continue
		}
		if cs.call.Block() == c.Block() {
			for _, in := range c.Block().Instrs {
				if in == ssa.Instruction(cs.call) {
					return false // the other call comes first
				}
				if in == ssa.Instruction(c) {
					break
				}
			}
			continue
		}
		if !c.Block().Dominates(cs.call.Block()) {
			return false
		}
	}
	return true
}

// extractedFrom: h is an unexported package function with a body whose only
// uses in the package are static calls made by fn.
func (w *World) extractedFrom(h, fn *ssa.Function) bool {
	if h == nil || h.Blocks == nil || !w.inPkg(h) || h.Parent() != nil || token.IsExported(h.Name()) {
		return false
	}
	refs := h.Referrers()
	n := 0
	if refs != nil {
		for _, ref := range *refs {
			c, ok := ref.(*ssa.Call)
			if !ok || c.Call.Value != ssa.Value(h) || c.Parent() != fn {
				return false
			}
			n++
		}
	}
	if n > 0 {
		return true
	}
	// (methods are not referred to as values by their static calls: use the call graph)
	node := w.CG.Nodes[h]
	if node == nil || len(node.In) == 0 {
		return false
	}
	for _, e := range node.In {
		c, ok := e.Site.(*ssa.Call)
		if !ok || c.Call.StaticCallee() != h || c.Parent() != fn {
			return false
		}
	}
	return true
}

// ofCall: the possible numbers of values call c consumes (nil: unknown).
func (vc *valueCounter) ofCall(c *ssa.Call) []int {
	var cal *ssa.Function
	for _, g := range vc.w.calleesOf(c) {
		if vc.consumers[g] && vc.w.inPkg(g) {
			if cal != nil && cal != g {
				vc.leaves[c] = true
				return []int{1} // dynamic choice among readers: one value, as for any value reader
			}
			cal = g
		}
	}
	if cal == nil {
		return []int{0}
	}
	if vc.tagRd[cal] {
		return nil // a bare tag read inside a composition is not a value
	}
	if c.Call.StaticCallee() != cal || cal.Blocks == nil || vc.isValueReader(cal) {
		vc.leaves[c] = true
		return []int{1}
	}
	return vc.ofFunc(cal)
}

// ofFunc: totals over the paths of fn from entry to a return that may succeed.
func (vc *valueCounter) ofFunc(fn *ssa.Function) []int {
	if r, ok := vc.memo[fn]; ok {
		return r
	}
	if vc.busy[fn] {
		return nil
	}
	vc.busy[fn] = true
	defer delete(vc.busy, fn)
	r := vc.compute(fn)
	vc.memo[fn] = r
	return r
}

func (vc *valueCounter) compute(fn *ssa.Function) []int {
	w := vc.w
	own := map[*ssa.BasicBlock][]int{}
	inLoop := map[*ssa.BasicBlock]bool{}
	for _, lp := range naturalLoops(fn) {
		for b := range lp.body {
			inLoop[b] = true
		}
	}
	for _, b := range fn.Blocks {
		tot := []int{0}
		for _, in := range b.Instrs {
			c, ok := in.(*ssa.Call)
			if !ok {
				continue
			}
			k := vc.ofCall(c)
			if k == nil {
				return nil
			}
			if len(k) == 1 && k[0] == 0 {
				continue
			}
			if inLoop[b] {
				return nil
			}
			tot = addCounts(tot, k)
		}
		own[b] = tot
	}
	f := w.flow(fn)
	ei := errIndex(fn.Signature)
	memo := map[*ssa.BasicBlock][]int{}
	state := map[*ssa.BasicBlock]int{}
	var from func(b *ssa.BasicBlock) []int
	from = func(b *ssa.BasicBlock) []int {
		if state[b] == 2 {
			return memo[b]
		}
		if state[b] == 1 {
			return []int{} // back edge: the loop body consumes nothing (checked above)
		}
		state[b] = 1
		var rest []int
		if ret, isRet := b.Instrs[len(b.Instrs)-1].(*ssa.Return); isRet {
			fails := false
			if ei >= 0 && !isNilConst(ret.Results[ei]) {
				if w.nonNilErr(ret.Results[ei], nil, nil, 0) {
					fails = true
				} else if te := f.At(b); te != nil {
					k := "(" + f.term(ret.Results[ei]).key + " != nil:error)"
					if s, has := te[k]; has && s.Equal(single(1)) {
						fails = true
					}
				}
			}
			if !fails {
				rest = []int{0}
			}
		} else {
			seen := map[int]bool{}
			for _, s := range b.Succs {
				for _, k := range from(s) {
					if !seen[k] {
						seen[k] = true
						rest = append(rest, k)
					}
				}
			}
		}
		res := addCounts(own[b], rest)
		if len(rest) == 0 {
			res = []int{}
		}
		state[b] = 2
		memo[b] = res
		return res
	}
	res := from(fn.Blocks[0])
	sort.Ints(res)
	if len(res) > 8 {
		return nil
	}
	return res
}

func addCounts(a, b []int) []int {
	seen := map[int]bool{}
	var out []int
	for _, x := range a {
		for _, y := range b {
			if !seen[x+y] {
				seen[x+y] = true
				out = append(out, x+y)
			}
		}
	}
	sort.Ints(out)
	return out
}

// privateHelpers: root and the unexported package functions/methods every
// static call site of which lies in root or in another private helper (code
// extracted from root).  The value is the list of call sites of each helper.
func (w *World) privateHelpers(root *ssa.Function) map[*ssa.Function][]*ssa.Call {
	sites := map[*ssa.Function][]*ssa.Call{}
	siteFn := map[*ssa.Call]*ssa.Function{}
	for _, caller := range w.SrcFuncs() {
		for _, cs := range w.callSitesIn(caller) {
			if sc := cs.call.Call.StaticCallee(); sc != nil && w.inPkg(sc) && sc.Blocks != nil {
				sites[sc] = append(sites[sc], cs.call)
				siteFn[cs.call] = caller
			}
		}
	}
	scope := map[*ssa.Function][]*ssa.Call{root: nil}
	for changed := true; changed; {
		changed = false
		for _, fn := range w.SrcFuncs() {
			if _, in := scope[fn]; in || fn.Parent() != nil || token.IsExported(fn.Name()) || len(sites[fn]) == 0 {
				continue
			}
			all := true
			for _, c := range sites[fn] {
				if _, in := scope[siteFn[c]]; !in && siteFn[c] != fn {
					all = false
				}
			}
			if all {
				scope[fn] = sites[fn]
				changed = true
			}
		}
	}
	return scope
}

// throughParams resolves v, a value inside helper fn, to the values it stands
// for in the callers: a parameter is replaced by the argument at each call
// site of the helper (recursively).  ok=false when a parameter of a function
// without known call sites is met.
func throughParams(v ssa.Value, fn *ssa.Function, scope map[*ssa.Function][]*ssa.Call, depth int) ([]ssa.Value, bool) {
	p, isP := v.(*ssa.Parameter)
	if !isP {
		return []ssa.Value{v}, true
	}
	sites := scope[fn]
	if len(sites) == 0 || depth > 4 {
		return nil, false
	}
	pi := -1
	for i, q := range fn.Params {
		if q == p {
			pi = i
		}
	}
	var out []ssa.Value
	for _, c := range sites {
		if pi < 0 || pi >= len(c.Call.Args) {
			return nil, false
		}
		r, ok := throughParams(c.Call.Args[pi], c.Parent(), scope, depth+1)
		if !ok {
			return nil, false
		}
		out = append(out, r...)
	}
	return out, true
}
