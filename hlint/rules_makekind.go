package main

// C01.R12 / C14.R10 — a kind-specific constructor of package reflect is given
// a type whose kind the path has established.
//
// reflect.MakeSlice panics on anything but a slice type, reflect.MakeMap on
// anything but a map type.  The decoder takes such types from the caller's
// type map (by a name read from the wire) or from the destination field; the
// object reader tests `typ.Kind() != Struct` and the typed-map reader
// `mType.Kind() == Map` before building — the list reader and the slice
// converter must do the same for MakeSlice.  Obligation per call of
// reflect.MakeSlice / MakeMap / MakeMapWithSize on the decode path: at the
// call, the interval facts of the function (Kind() comparisons, kind
// predicates, switches) restrict Kind(type argument) to the kind the
// constructor accepts — or the type argument is built by reflect.SliceOf /
// MapOf / TypeOf of a value of that kind.  Array types reach both places (the
// extraction registers `[N]T` like `[]T`, the field dispatcher routes Array to
// the list arm): every array field or array value encodes and then fails to
// decode, and a typed list naming a registered struct type panics.

import (
	"fmt"
	"go/token"

	"golang.org/x/tools/go/ssa"
)

func (w *World) ruleMakeKindChecked(r *Report, rule string, want func(fn *ssa.Function) bool) {
	need := map[string]int64{"reflect.MakeSlice": 23, "reflect.MakeMap": 21, "reflect.MakeMapWithSize": 21}
	kindName := map[int64]string{23: "Slice", 21: "Map"}
	n := 0
	for _, fn := range w.SrcFuncs() {
		if want != nil && !want(fn) {
			continue
		}
		var f *Flow
		cnt := 0
		for _, b := range fn.Blocks {
			for _, in := range b.Instrs {
				c, ok := in.(*ssa.Call)
				if !ok || c.Call.StaticCallee() == nil {
					continue
				}
				k, ok := need[qualifiedFnName(c.Call.StaticCallee())]
				if !ok || len(c.Call.Args) == 0 {
					continue
				}
				n++
				cnt++
				t := c.Call.Args[0]
				key := fmt.Sprintf("%s · %s #%d", fnName(fn), c.Call.StaticCallee().Name(), cnt)
				// built for the purpose?
				if tc, isC := t.(*ssa.Call); isC && tc.Call.StaticCallee() != nil {
					switch qualifiedFnName(tc.Call.StaticCallee()) {
					case "reflect.SliceOf", "reflect.MapOf":
						o := r.add(rule, key, w.instrPos(c), true, "the type is built by "+tc.Call.StaticCallee().Name())
						o.Trivial = true
						continue
					}
				}
				if f == nil {
					f = w.flow(fn)
				}
				env := f.At(b)
				kk := "pure:(reflect.Type).Kind(" + f.term(t).Key() + ")"
				set, has := env[kk]
				ok2 := has && set.Equal(single(k))
				fact := fmt.Sprintf("Kind(%s) ∈ %v at the call: the type is known to be a %s", f.term(t).Key(), set, kindName[k])
				if !ok2 {
					have := "nothing is known about its kind"
					if has {
						have = fmt.Sprintf("its kind is only known to be in %v", set)
					}
					fact = fmt.Sprintf("the type argument %s comes from outside (type map / destination) and %s at the call: any other kind — an array type registered like a slice, a struct named in a list header — makes %s panic", f.term(t).Key(), have, c.Call.StaticCallee().Name())
				}
				if !ok2 && w.kindTestedOnCell(fn, c, t, k) {
					ok2, fact = true, "the variable holding the type is compared with the required kind on the way to the call"
				}
				if !ok2 {
					// a function only reached through function values (a table of readers indexed
					// by kind): which kinds reach it is decided by the table, not judged here
					if w.onlyThroughFunctionValues(fn, 0) && shapeOf(t, paramShapes(fn), 0) != "" {
						o := r.add(rule, key, w.instrPos(c), true, "the type is an expression over the parameters of a function that is only called through function values: the kinds that reach it are the callers' choice")
						o.Trivial = true
						continue
					}
				}
				if !ok2 {
					// the kind may have been established by the callers (the field dispatcher's
					// `case reflect.Map: return d.readMap(field)`): the type argument, written as
					// an expression over this function's parameters, is looked up in every
					// static caller at the call, with the arguments put in
					if okC, factC := w.kindInCallers(fn, t, k); okC {
						ok2, fact = true, factC
					}
				}
				r.add(rule, key, w.instrPos(c), ok2, fact)
			}
		}
	}
	if n == 0 {
		o := r.add(rule, "census", "-", true, "no reflect.MakeSlice / MakeMap on the decode path")
		o.Trivial = true
	}
}

// shapeOf: v as an expression over the placeholders in subst (calls of static callees
// and interface methods with their operands, conversions); "" if v is not such an expression.
func shapeOf(v ssa.Value, subst map[ssa.Value]string, depth int) string {
	if s, ok := subst[v]; ok {
		return s
	}
	if depth > 6 {
		return ""
	}
	switch x := v.(type) {
	case *ssa.Call:
		name := ""
		var ops []ssa.Value
		if x.Call.IsInvoke() {
			name = "." + x.Call.Method.Name()
			ops = append(ops, x.Call.Value)
		} else if sc := x.Call.StaticCallee(); sc != nil {
			name = qualifiedFnName(sc)
		} else {
			return ""
		}
		ops = append(ops, x.Call.Args...)
		out := name + "("
		for i, a := range ops {
			sa := shapeOf(a, subst, depth+1)
			if sa == "" {
				return ""
			}
			if i > 0 {
				out += ","
			}
			out += sa
		}
		return out + ")"
	case *ssa.ChangeType:
		return shapeOf(x.X, subst, depth+1)
	case *ssa.MakeInterface:
		return shapeOf(x.X, subst, depth+1)
	case *ssa.UnOp:
		// a parameter spilled to a cell (its address is taken, or a closure captures it)
		// and never assigned again
		if al, ok := x.X.(*ssa.Alloc); ok {
			var stored ssa.Value
			n := 0
			for _, ref := range *al.Referrers() {
				if st, ok := ref.(*ssa.Store); ok && st.Addr == ssa.Value(al) {
					stored = st.Val
					n++
				}
			}
			if n == 1 {
				// a variable assigned once (a parameter spilled, or a local a closure captures)
				return shapeOf(stored, subst, depth+1)
			}
		}
	}
	return ""
}

// staticCallSites: the call instructions of the package whose static callee is fn.
func (w *World) staticCallSites(fn *ssa.Function) []*ssa.Call {
	var out []*ssa.Call
	for _, g := range w.allPkgFuncs() {
		for _, b := range g.Blocks {
			for _, in := range b.Instrs {
				if c, ok := in.(*ssa.Call); ok && c.Call.StaticCallee() == fn {
					out = append(out, c)
				}
			}
		}
	}
	return out
}

// kindInCallers: in every static caller of fn, at the call, the value with the same
// shape as t (over the arguments) is known to have kind k.
func (w *World) kindInCallers(fn *ssa.Function, t ssa.Value, k int64) (bool, string) {
	callers, ok := w.staticCallersOf(fn)
	if !ok || len(callers) == 0 {
		return false, ""
	}
	ps := map[ssa.Value]string{}
	for i, p := range fn.Params {
		ps[p] = fmt.Sprintf("$%d", i)
	}
	want := shapeOf(t, ps, 0)
	if want == "" {
		return false, ""
	}
	var names []string
	for _, cf := range callers {
		f := w.flow(cf)
		for _, b := range cf.Blocks {
			for _, in := range b.Instrs {
				c, isC := in.(*ssa.Call)
				if !isC || c.Call.StaticCallee() != fn {
					continue
				}
				as := map[ssa.Value]string{}
				for i, a := range c.Call.Args {
					as[a] = fmt.Sprintf("$%d", i)
				}
				found := false
				env := f.At(b)
				for _, b2 := range cf.Blocks {
					for _, in2 := range b2.Instrs {
						v2, isV := in2.(ssa.Value)
						if !isV || typeStr(v2.Type()) != "reflect.Type" {
							continue
						}
						if shapeOf(v2, as, 0) != want {
							continue
						}
						if set, has := env["pure:(reflect.Type).Kind("+f.term(v2).Key()+")"]; has && set.Equal(single(k)) {
							found = true
						}
					}
				}
				if !found {
					return false, ""
				}
				names = append(names, fnName(cf)+" at "+w.instrPos(c))
			}
		}
	}
	if len(names) == 0 {
		return false, ""
	}
	return true, fmt.Sprintf("the kind is established by every caller before the call (%v): %s has the required kind there", names, want)
}

func paramShapes(fn *ssa.Function) map[ssa.Value]string {
	ps := map[ssa.Value]string{}
	for i, p := range fn.Params {
		ps[p] = fmt.Sprintf("$%d", i)
	}
	return ps
}

// kindTestedOnCell: t is a load of a local variable cell, and a load of the same cell
// is compared (Kind() == k) by an if whose true side dominates the call.
func (w *World) kindTestedOnCell(fn *ssa.Function, call *ssa.Call, t ssa.Value, k int64) bool {
	ld, ok := t.(*ssa.UnOp)
	if !ok {
		return false
	}
	cell, ok := ld.X.(*ssa.Alloc)
	if !ok {
		return false
	}
	for _, b := range fn.Blocks {
		iff, ok := b.Instrs[len(b.Instrs)-1].(*ssa.If)
		if !ok {
			continue
		}
		bo, ok := iff.Cond.(*ssa.BinOp)
		if !ok || bo.Op.String() != "==" {
			continue
		}
		kc, kv := bo.X, bo.Y
		if _, isC := kc.(*ssa.Const); isC {
			kc, kv = bo.Y, bo.X
		}
		cst, isC := kv.(*ssa.Const)
		kcall, isCall := kc.(*ssa.Call)
		if !isC || !isCall || cst.Value == nil || cst.Int64() != k || calleeName(&kcall.Call) != "Kind" {
			continue
		}
		var recv ssa.Value
		if kcall.Call.IsInvoke() {
			recv = kcall.Call.Value
		} else if len(kcall.Call.Args) > 0 {
			recv = kcall.Call.Args[0]
		}
		l2, ok := recv.(*ssa.UnOp)
		if !ok || l2.X != ssa.Value(cell) {
			continue
		}
		ts := b.Succs[0]
		if (ts == call.Block() || ts.Dominates(call.Block())) && len(ts.Preds) == 1 {
			return true
		}
	}
	return false
}

// onlyThroughFunctionValues: fn is not exported and has no static call site — or every
// static call site sits in a function literal that hands its own parameters on and is
// itself only used as a value (`table[kind] = func(d, v) error { return d.readMap(v) }`).
func (w *World) onlyThroughFunctionValues(fn *ssa.Function, depth int) bool {
	if depth > 2 || (fn.Parent() == nil && token.IsExported(fn.Name()) && fn.Signature.Recv() == nil) {
		return false
	}
	sites := w.staticCallSites(fn)
	if len(sites) == 0 {
		return fn.Parent() != nil // a literal nobody calls statically is a value
	}
	for _, c := range sites {
		cf := c.Parent()
		if cf.Parent() == nil || !w.onlyThroughFunctionValues(cf, depth+1) {
			return false
		}
	}
	return true
}
