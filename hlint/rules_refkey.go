package main

// C04.R6 — the key of the encoder's ref table identifies the container.
//
// The registrar is explored path by path with reflect.Value getters as pure
// terms.  On each path the facts about Kind() single out the container C whose
// identity is being registered: the value itself, or the innermost value behind
// the pointers that were unwrapped (the first term Elem^k(v) whose Kind is
// known not to be Ptr).  Obligations per path that reaches the table:
//
//   K1  the key carries reflect.Type of C.  Two containers can share an address
//       (a struct and its first field, an array and its first element); anything
//       coarser than the type (the Kind, nothing) makes the second one a false
//       hit: it is written as a back-reference and its content is never visited.
//   K2  for the reference kinds (slice, map) the address component is C.Pointer()
//       whatever the access path: a map reached through a *map on one path and
//       directly on another is ONE container and must hit the same key.
//
// Both are necessary conditions of C04 (identity of the decoded graph) and of
// C13 (a false hit skips an unrepresentable value silently).

import (
	"fmt"
	"sort"
	"strings"

	"golang.org/x/tools/go/ssa"
)

var reflectGetters = map[string]bool{
	"(reflect.Value).Elem": true, "(reflect.Value).Pointer": true, "(reflect.Value).UnsafePointer": true,
	"(reflect.Value).IsNil": true, "(reflect.Value).IsValid": true, "(reflect.Value).CanAddr": true,
	"(reflect.Value).Addr": true, "(reflect.Value).UnsafeAddr": true,
}

type refKeyPath struct {
	comps []*Term // components stored into the key (struct fields in order) or the key itself
	env   Env
	pos   string
}

func (w *World) refKeyPaths(reg *ssa.Function) ([]refKeyPath, bool) {
	fi := w.encRefField()
	var out []refKeyPath
	seenSig := map[string]bool{}
	var px *PX
	px = w.newPX(pxHooks{
		onInstr: func(fr *pxFrame, in ssa.Instruction, st *pxState) bool {
			var m, key ssa.Value
			switch x := in.(type) {
			case *ssa.MapUpdate:
				m, key = x.Map, x.Key
			case *ssa.Lookup:
				m, key = x.X, x.Index
			default:
				return true
			}
			if o, f, ok := w.fieldOfLoad(m); !ok || o != "Encoder" || f != fi {
				return true
			}
			rp := refKeyPath{env: st.env.clone(), pos: w.instrPos(in)}
			// a struct key: the values last stored into the fields of the local it is loaded from
			if ld, ok := key.(*ssa.UnOp); ok {
				if al, ok := ld.X.(*ssa.Alloc); ok {
					byField := map[int]*Term{}
					for _, ref := range *al.Referrers() {
						fa, ok := ref.(*ssa.FieldAddr)
						if !ok {
							continue
						}
						id := fieldID(fa)
						for i := len(st.trace) - 1; i >= 0; i-- {
							if e := st.trace[i]; e.Kind == "fieldstore" && e.Extra == id && e.Frame == fr {
								byField[fa.Field] = e.Args[0]
								break
							}
						}
					}
					var idx []int
					for i := range byField {
						idx = append(idx, i)
					}
					sort.Ints(idx)
					for _, i := range idx {
						rp.comps = append(rp.comps, byField[i])
					}
				}
			}
			if len(rp.comps) == 0 {
				kt := px.term(key, fr, st)
				if kt.K == TPure && kt.Name == "struct" {
					rp.comps = kt.Args // a key built by a helper and handed over by value
				} else {
					rp.comps = []*Term{kt}
				}
			}
			var ks []string
			for _, c := range rp.comps {
				ks = append(ks, c.key)
			}
			sig := strings.Join(ks, "|") + "@" + rp.pos
			if !seenSig[sig] {
				seenSig[sig] = true
				out = append(out, rp)
			}
			return true
		},
	})
	px.extraPure = reflectGetters
	px.Run(reg, nil)
	return out, px.Truncated
}

// containerOf: the term of the container registered on this path — the first
// of v, Elem(v), Elem(Elem(v)) … whose Kind is known not to be Ptr.
func (w *World) containerOf(px *PX, v *Term, env Env) (*Term, ISet) {
	cur := v
	for i := 0; i < 4; i++ {
		kt := &Term{K: TPure, Name: "(reflect.Value).Kind", Args: []*Term{cur}, key: "pure:(reflect.Value).Kind(" + cur.key + ")"}
		ks, has := env[kt.key]
		if has && !ks.Contains(kindPtr) {
			return cur, ks
		}
		if !has && i == 0 {
			// nothing known about the value itself: the path did not test it
			return nil, nil
		}
		cur = &Term{K: TPure, Name: "(reflect.Value).Elem", Args: []*Term{cur}, key: "pure:(reflect.Value).Elem(" + cur.key + ")"}
	}
	return nil, nil
}

const (
	kindMap   = 21
	kindPtr   = 22
	kindSlice = 23
)

func stripConvs(t *Term) *Term {
	for t != nil && t.K == TConv {
		t = t.A
	}
	return t
}

func (w *World) ruleRefKeyIdentity(r *Report, rule string) {
	reg := w.encRegistrar()
	if reg == nil || len(reg.Params) < 2 {
		r.undecided(rule, "registrar", "-", "encoder ref-table registrar not found")
		return
	}
	var vp *ssa.Parameter
	for _, p := range reg.Params {
		if typeStr(p.Type()) == "reflect.Value" {
			vp = p
		}
	}
	if vp == nil {
		r.undecided(rule, fnName(reg), w.pos(reg.Pos()), "the registrar takes no reflect.Value")
		return
	}
	paths, trunc := w.refKeyPaths(reg)
	if trunc {
		r.undecided(rule, fnName(reg), w.pos(reg.Pos()), "path exploration exceeded its budget")
		return
	}
	px := w.newPX(pxHooks{})
	v := &Term{K: TLeaf, V: vp, T: vp.Type(), key: "<p:" + vp.Name() + ">"}
	n := 0
	seen := map[string]bool{}
	for _, p := range paths {
		c, kinds := w.containerOf(px, v, p.env)
		if c == nil {
			continue
		}
		depth := strings.Count(c.key, "(reflect.Value).Elem(")
		class := "value kinds"
		if kinds.SubsetOf(ISet{{bi(kindMap), bi(kindMap)}, {bi(kindSlice), bi(kindSlice)}}) {
			class = "slice/map"
		} else if kinds.Contains(kindMap) || kinds.Contains(kindSlice) {
			class = "mixed"
		}
		key := fmt.Sprintf("%s · container behind %d pointer level(s), %s", fnName(reg), depth, class)
		if seen[key+p.pos] {
			continue
		}
		seen[key+p.pos] = true
		n++
		wantTyp := "pure:(reflect.Value).Type(" + c.key + ")"
		hasTyp := false
		var addrs []string
		for _, comp := range p.comps {
			s := stripConvs(comp)
			if s.key == wantTyp {
				hasTyp = true
			} else {
				addrs = append(addrs, s.key)
			}
		}
		ok, fact := true, fmt.Sprintf("key = (%s); container C = %s", strings.Join(keysOf(p.comps), ", "), c.key)
		if !hasTyp {
			ok = false
			fact += "; K1: no key component is C.Type(): a struct and its first field, an array and its first element share an address, so the second one met is taken for the first and written as a back-reference — its content is never visited"
		}
		if class == "slice/map" {
			want := "pure:(reflect.Value).Pointer(" + c.key + ")"
			want2 := "pure:(reflect.Value).UnsafePointer(" + c.key + ")"
			found := false
			for _, a := range addrs {
				if a == want || a == want2 {
					found = true
				}
			}
			if !found {
				ok = false
				fact += "; K2: the address component is not C.Pointer(): the same slice/map reached through a pointer and directly gets two keys, is written twice and decodes into two containers"
			}
		} else if class == "mixed" {
			ok = false
			fact += "; the path does not separate the reference kinds (slice, map) from the others"
		}
		r.add(rule, key, p.pos, ok, fact)
	}
	r.floor(rule+" (registrar paths)", n, 3)
}

func keysOf(ts []*Term) []string {
	var out []string
	for _, t := range ts {
		out = append(out, t.key)
	}
	return out
}
