package main

import (
	"fmt"
	"go/token"
	"go/types"
	"sort"
	"strings"

	"golang.org/x/tools/go/ssa"
)

func init() {
	register("C14", rulesC14,
		"General panic-freedom of the reflective decoder is beyond a sound static argument here (whether reflect.Value.Set panics depends on run-time types in the caller's type map). Decides the clauses whose truth is in the shape of the code: "+
			"R1 every element access on a per-stream table (class definitions, type list, ref list) has an index proven ≥ 0 by intervals and is dominated by a comparison with the table's length; "+
			"R2 every allocation whose size is not a constant has a size operand proven inside [0, 2^20] by interval analysis (with call-site context for size parameters and return-range summaries for the length readers), or is the length of a container already held in memory; "+
			"R3 every stream-reading loop contains a consuming read whose error is propagated and which dominates the back edge, loop exits follow the exit discipline (C06.R3) and failed tag reads are errors (C06.R4), so no loop can iterate on an exhausted reader; "+
			"R4 every documented decode entry point is protected by a deferred recover that assigns its error result (directly or through the protected function it delegates to), so the residual panic sites (enumerated: explicit panics, reflect setters, type assertions, map insertion with interface keys) cannot escape. "+
			"Does NOT decide: time/memory as functions of input size beyond R2/R3, stack depth on deeply nested input, fatal runtime errors other than out-of-memory by declared size.",
		"obligation = one table index use / allocation / stream loop / decode entry point; the panic-site census is reported as a role",
		"recover() in a deferred function stops a panic of the same goroutine; runtime fatal errors (stack exhaustion) are not panics")
	register("C16", rulesC16,
		"Decides structural necessary conditions of 'extraction terminates and yields closed, consistent maps': "+
			"R1 every recursion cycle of the extraction functions has a visited cut-off: in the type walk each recursive call on a struct field's type is dominated by the miss edge of a membership test on the accumulator and by the insertion; in the value walk every recursive call is dominated by the extractor's verdict, and every extractor closure returns true only after inserting the key it tested; "+
			"R2 absent containers are descended by type: empty slices and maps recurse on reflect.New of the element type, and the pointer unwrapping does the same for nil pointers (sibling rule); "+
			"R3 the name map and the type map are written in pairs: every nameMap[k] = w has a typMap[w] = t with the same term w in the same function. "+
			"Does NOT decide closure over interface-typed fields (value dependent), nor that list type names are what a Java peer expects.",
		"obligation = one recursive call / extractor closure / container kind / name-map update",
		"cycles of Go types pass through a named struct type")
	register("C09", rulesC09,
		"Decides structural necessary conditions of 'strings and byte arrays of any length and content': "+
			"R1 length unit — string lengths derive from len of the []rune conversion of the input and chunk cuts index that rune slice (a chunk cannot end inside a code point); binary lengths from len([]byte); the read side pulls one rune (resp. octet) per counted unit; "+
			"R2 chunk forms — per form the first-octet set, the proven length range and the header octet windows conform to the specification; the remaining length and the offset step by the chunk size (invariant offset+remaining=len), the loop is guarded by remaining > chunk; the readers compute lengths inside each form's range and size chunk buffers from each header (C03.R5); "+
			"R3 null is a value, not a terminator — because the string encoder has a form whose first octet is N for a non-absent value (the empty string), every container reader loop must not leave on a nil element or key (loop exit discipline). "+
			"Does NOT decide content equality for all contents (UTF-8 conversion semantics of Go are trusted).",
		"obligation = one encoder form / length-reader form / payload read / chunk loop / loop exit",
		"[]rune(string) and string([]rune) are inverse on valid UTF-8")
}

// ---- C14 ----

func (w *World) decodeEntryPoints() []*ssa.Function {
	rd := w.fn("(*Decoder).ReadData")
	if rd == nil {
		return nil
	}
	up := w.canReach(map[*ssa.Function]bool{rd: true})
	var out []*ssa.Function
	for _, fn := range w.SrcFuncs() {
		if fn.Parent() != nil || !token.IsExported(fn.Name()) || !up[fn] {
			continue
		}
		if _, internal := internalExported[fnName(fn)]; internal {
			continue
		}
		out = append(out, fn)
	}
	return out
}

// intParamCtx: union over in-package call sites of the values passed for
// parameter index pi of fn.
func (w *World) intParamCtx(fn *ssa.Function, pi int, within map[*ssa.Function]bool) ISet {
	var ctx ISet
	sites := 0
	for _, caller := range w.SrcFuncs() {
		if within != nil && !within[caller] {
			continue // dead code does not contribute call-site context
		}
		for _, cs := range w.callSitesIn(caller) {
			if cs.call.Call.StaticCallee() != fn {
				continue
			}
			sites++
			f := w.flow(caller)
			arg := cs.call.Call.Args[pi]
			s, _ := f.ValueAt(arg, cs.call.Block())
			// an argument that is itself the caller's size parameter: look one level further up
			if p2, isP := arg.(*ssa.Parameter); isP && caller != fn {
				for qi, q := range caller.Params {
					if q == p2 {
						if up := w.intParamCtx(caller, qi, within); up != nil {
							s = up
						}
					}
				}
			}
			// an argument read out of a variable captured from the enclosing function, which
			// only that function writes (capturedctx.go): the values stored there
			if ld, isLd := arg.(*ssa.UnOp); isLd && ld.Op == token.MUL {
				if fv, isFv := ld.X.(*ssa.FreeVar); isFv {
					if up := w.capturedIntSet(caller, fv, within, 0); up != nil {
						if s != nil {
							up = up.Intersect(s)
						}
						s = up
					}
				}
			}
			if s == nil {
				return nil
			}
			ctx = ctx.Union(s)
		}
	}
	if sites == 0 {
		return nil
	}
	return ctx
}

const allocCap = 1 << 20

func rulesC14(w *World, r *Report) {
	eps := w.decodeEntryPoints()
	r.role("decode entry points", fnNames(eps))
	reach := w.reachPkg(eps...)
	for f := range reach {
		r.fnSeen(fnName(f))
	}
	w.ruleLocalIndexInRange(r, "C14.R8 element accesses of local containers are in range", 3)
	w.ruleRecursionReadsStream(r, "C14.R9 every recursion on the decode path reads the stream", 3)
	w.ruleLoopsProgress(r, "C14.R7 every loop on the decode path makes progress", 8, func(fn *ssa.Function) bool { return reach[fn] || reach[rootFn(fn)] })
	// R1
	w.ruleIndexGuardsPX(r, "C14.R1 table indices are guarded on both sides", nil)

	// R2 allocations
	nA := 0
	for _, fn := range w.SrcFuncs() {
		if !reach[fn] {
			continue
		}
		f := w.flow(fn)
		cnt := 0
		check := func(in ssa.Instruction, size ssa.Value, what string) {
			if _, isC := size.(*ssa.Const); isC {
				return
			}
			nA++
			cnt++
			key := fmt.Sprintf("%s · %s #%d", fnName(fn), what, cnt)
			t := f.term(size)
			inner := t
			for inner.K == TConv {
				inner = inner.A
			}
			if inner.K == TPure && (inner.Name == "len" || strings.HasSuffix(inner.Name, ".Len")) {
				r.add("C14.R2 allocation sizes are bounded", key, w.instrPos(in), true, "size is "+inner.Key()+": the length of a container already held in memory")
				return
			}
			env := f.At(in.Block())
			if p, isP := size.(*ssa.Parameter); isP {
				for i, q := range fn.Params {
					if q == p {
						if ctx := w.intParamCtx(fn, i, reach); ctx != nil {
							env = env.clone()
							env[t.Key()] = ctx
						}
					}
				}
			}
			S, _ := f.Eval(t, env)
			ok := S != nil && !S.Empty() && S.SubsetOf(mkSet(0, allocCap))
			if !ok {
				// the size may come back from a helper inside a struct: path-level look
				if okP, factP := w.pxAllocBound(fn, in, size); okP {
					r.add("C14.R2 allocation sizes are bounded", key, w.instrPos(in), true, factP)
					return
				}
			}
			r.add("C14.R2 allocation sizes are bounded", key, w.instrPos(in), ok,
				fmt.Sprintf("size %s ∈ %s (required ⊆ [0,%d]: an allocation driven by a length merely declared in the input is unbounded)", t.Key(), S, allocCap))
		}
		for _, b := range fn.Blocks {
			for _, in := range b.Instrs {
				switch x := in.(type) {
				case *ssa.MakeSlice:
					check(x, x.Cap, "make")
				case *ssa.Call:
					if sc := x.Call.StaticCallee(); sc != nil && qualifiedFnName(sc) == "reflect.MakeSlice" {
						check(x, x.Call.Args[2], "reflect.MakeSlice")
					}
					if sc := x.Call.StaticCallee(); sc != nil && qualifiedFnName(sc) == "reflect.MakeMapWithSize" {
						check(x, x.Call.Args[1], "reflect.MakeMapWithSize")
					}
				case *ssa.MakeMap:
					if x.Reserve != nil {
						check(x, x.Reserve, "make(map)")
					}
				}
			}
		}
	}
	r.floor("C14.R2 non-constant allocations on the decode path", nA, 5)

	// R3 stream loops
	w.ruleStreamLoops(r, "C14.R3 stream loops consume input or fail", reach)
	w.ruleLoopExits(r, "C14.R3 loop exit discipline", false)
	w.ruleTagReadErrors(r, "C14.R3 failed tag/header reads are errors")

	// R4 recover boundary
	memo := map[*ssa.Function]int{}
	for _, fn := range eps {
		ok, fact := w.protected(fn, memo)
		r.add("C14.R4 decode entry points recover", fnName(fn), w.pos(fn.Pos()), ok, fact)
	}
	r.floor("C14.R4 decode entry points", len(eps), 7)
	// R5 nothing blocks; locks survive a recovered panic
	w.ruleDecodeNeverBlocks(r, "C14.R5 the decode path never blocks", reach)
	w.ruleNoValueWalkingFormat(r, "C14.R6 decoded values are not walked by a formatter", reach)
	// census (role)
	var census []string
	counts := map[string]int{}
	for _, fn := range w.SrcFuncs() {
		if !reach[fn] {
			continue
		}
		for _, b := range fn.Blocks {
			for _, in := range b.Instrs {
				switch x := in.(type) {
				case *ssa.Panic:
					counts["explicit panic"]++
				case *ssa.TypeAssert:
					if !x.CommaOk {
						counts["single-value type assertion"]++
					}
				case *ssa.MapUpdate:
					if _, isI := x.Key.Type().Underlying().(*types.Interface); isI {
						counts["map insertion with interface key (unhashable key panics)"]++
					}
				case *ssa.Call:
					if sc := x.Call.StaticCallee(); sc != nil && sc.Signature.Recv() != nil && typeStr(sc.Signature.Recv().Type()) == "reflect.Value" && reflectSetters[sc.Name()] {
						counts["reflect setter"]++
					}
				}
			}
		}
	}
	for k, v := range counts {
		census = append(census, fmt.Sprintf("%s: %d", k, v))
	}
	sort.Strings(census)
	r.role("residual panic sites covered by the recover boundary", census)
}

// protected: fn has a deferred closure that calls recover and stores to fn's
// error result; or every call of fn that reaches the value dispatch goes to a
// protected function.
func (w *World) protected(fn *ssa.Function, memo map[*ssa.Function]int) (bool, string) {
	switch memo[fn] {
	case 1, 3:
		return false, "not protected"
	case 2:
		return true, "protected"
	}
	memo[fn] = 1
	// direct
	for _, b := range fn.Blocks {
		for _, in := range b.Instrs {
			df, ok := in.(*ssa.Defer)
			if !ok {
				continue
			}
			var cf *ssa.Function
			if mc, ok := df.Call.Value.(*ssa.MakeClosure); ok {
				cf = mc.Fn.(*ssa.Function)
			} else if sc := df.Call.StaticCallee(); sc != nil && w.inPkg(sc) && sc.Blocks != nil {
				cf = sc // defer recoverInto(&obj, &err)
			} else {
				continue
			}
			callsRecover, setsErr := false, false
			rePanics := false
			for _, cb := range cf.Blocks {
				for _, ci := range cb.Instrs {
					if _, isP := ci.(*ssa.Panic); isP {
						rePanics = true
					}
					if c, ok := ci.(*ssa.Call); ok {
						if bi, ok := c.Call.Value.(*ssa.Builtin); ok && bi.Name() == "recover" {
							callsRecover = true
						}
					}
					if st, ok := ci.(*ssa.Store); ok {
						if fv, ok := st.Addr.(*ssa.FreeVar); ok && isErrorType(fv.Type().Underlying().(*types.Pointer).Elem()) {
							if !isNilConst(st.Val) {
								setsErr = true
							}
						}
						// a named recovery function assigns through a *error parameter
						if prm, ok := st.Addr.(*ssa.Parameter); ok {
							if pt, ok := prm.Type().Underlying().(*types.Pointer); ok && isErrorType(pt.Elem()) && !isNilConst(st.Val) {
								setsErr = true
							}
						}
					}
				}
			}
			// every way through the handler that has recovered something assigns the error
			if callsRecover && setsErr {
				if pos := w.recoverLeavesErrUnset(cf); pos != "" {
					memo[fn] = 3
					return false, "the deferred recover at " + w.instrPos(df) + " has a path (" + pos + ") on which a panic was recovered and the error result is not assigned: the entry point returns success on input that panicked"
				}
			}
			// the defer must be registered before any work: in the entry block
			if callsRecover && setsErr && rePanics && b.Index == 0 {
				memo[fn] = 3
				return false, "the deferred recover at " + w.instrPos(df) + " re-panics for some recovered values: those panics still escape to the caller"
			}
			if callsRecover && setsErr && b.Index == 0 {
				memo[fn] = 2
				return true, "deferred recover at " + w.instrPos(df) + " assigns the error result"
			}
		}
	}
	rd := w.fn("(*Decoder).ReadData")
	up := w.canReach(map[*ssa.Function]bool{rd: true})
	n := 0
	for _, cs := range w.callSitesIn(fn) {
		for _, cal := range w.calleesOf(cs.call) {
			if !up[cal] || !w.inPkg(cal) {
				continue
			}
			n++
			if ok, _ := w.protected(cal, memo); !ok {
				memo[fn] = 3
				return false, fmt.Sprintf("reaches the value dispatch through %s at %s with no recover boundary on the way: a panic on malformed input escapes to the caller", fnName(cal), w.instrPos(cs.call))
			}
		}
	}
	if n == 0 {
		memo[fn] = 3
		return false, "no deferred recover"
	}
	memo[fn] = 2
	return true, "delegates to protected functions only"
}

// ruleStreamLoops: loops that read from the stream make progress or fail.
func (w *World) ruleStreamLoops(r *Report, rule string, reach map[*ssa.Function]bool) {
	tg := map[*ssa.Function]bool{}
	for _, n := range []string{"readTag", "getTag", "readBytes", "readRunes"} {
		if fn := w.fn(n); fn != nil {
			tg[fn] = true
		}
	}
	consumers := w.canReach(tg)
	isConsumer := func(c *ssa.Call) bool {
		if c.Call.IsInvoke() {
			switch c.Call.Method.Name() {
			case "ReadRune", "Read", "ReadByte":
				return true
			}
			return false
		}
		sc := c.Call.StaticCallee()
		if sc == nil {
			// an element source handed in as a function value (`p.read()`, `next()`):
			// a consuming read when every function it can denote consumes
			cs := w.calleesOf(c)
			for _, cal := range cs {
				if !consumers[cal] && !consumers[w.throughWrapper(cal)] {
					return false
				}
			}
			return len(cs) > 0
		}
		if qualifiedFnName(sc) == "io.ReadFull" {
			return true
		}
		return consumers[sc]
	}
	n := 0
	// floor: the functions whose stream loop was examined — the function holding
	// the loop and, for a loop shared through a helper, the container readers that
	// delegate to it
	served := map[*ssa.Function]bool{}
	delegates := map[*ssa.Function]map[*ssa.Function]bool{}
	if reg := w.decRegistrar(); reg != nil {
		for _, f := range w.SrcFuncs() {
			if f != reg && len(callsTo(f, reg)) > 0 {
				delegates[f] = w.readerDelegates(fnName(f))
			}
		}
	}
	for _, fn := range w.SrcFuncs() {
		if !reach[fn] {
			continue
		}
		for li, lp := range naturalLoops(fn) {
			var cons []*ssa.Call
			var blocks []*ssa.BasicBlock
			for b := range lp.body {
				blocks = append(blocks, b)
			}
			sort.Slice(blocks, func(i, j int) bool { return blocks[i].Index < blocks[j].Index })
			for _, b := range blocks {
				for _, in := range b.Instrs {
					if c, ok := in.(*ssa.Call); ok && isConsumer(c) {
						cons = append(cons, c)
					}
				}
			}
			if len(cons) == 0 {
				continue // not a stream loop (bounded by in-memory structure)
			}
			n++
			served[fn] = true
			for rdr, del := range delegates {
				if del[fn] {
					served[rdr] = true
				}
			}
			var latches []*ssa.BasicBlock
			for _, p := range lp.header.Preds {
				if lp.body[p] && lp.header.Dominates(p) {
					latches = append(latches, p)
				}
			}
			_ = latches
			// every path header → header passes a consuming read whose error is propagated
			good := map[*ssa.Call]bool{}
			for _, c := range cons {
				if g, _ := w.errConsumed(c, errOpts{allowEOFSentinel: true}); g {
					good[c] = true
				}
			}
			ok := true
			fact := fmt.Sprintf("every iteration path passes one of %d consuming read(s) whose error ends the loop", len(good))
			var bodyStarts []*ssa.BasicBlock
			for _, s2 := range lp.header.Succs {
				if lp.body[s2] {
					bodyStarts = append(bodyStarts, s2)
				}
			}
			hasGood := func(b *ssa.BasicBlock) bool {
				for _, in := range b.Instrs {
					if c, isC := in.(*ssa.Call); isC && good[c] {
						return true
					}
				}
				return false
			}
			seenP := map[*ssa.BasicBlock]bool{}
			var dfs func(b *ssa.BasicBlock) bool // true if the header is reachable from b without a good read
			dfs = func(b *ssa.BasicBlock) bool {
				if b == lp.header {
					return true
				}
				if !lp.body[b] || seenP[b] {
					return false
				}
				if hasGood(b) {
					return false
				}
				seenP[b] = true
				for _, s2 := range b.Succs {
					if dfs(s2) {
						return true
					}
				}
				return false
			}
			if hasGood(lp.header) {
				// the header itself reads
			} else {
				for _, bs := range bodyStarts {
					if dfs(bs) {
						ok = false
						fact = "an iteration path passes no consuming read with a propagated error: the loop can iterate without consuming input"
					}
				}
			}
			r.add(rule, fmt.Sprintf("%s · loop#%d", fnName(fn), li+1), w.pos(fn.Pos()), ok, fact)
		}
	}
	_ = n
	r.floor(rule, len(served), 8)
}

// ---- C16 ----

func rulesC16(w *World, r *Report) {
	{
		reach := w.reachPkg(w.extractionRoots()...)
		w.ruleCountedTraversals(r, "C16.R6 the walks visit every field and element", 1, func(fn *ssa.Function) bool { return reach[fn] || reach[rootFn(fn)] })
		w.ruleConfigTakesEffect(r, "C16.R8 the codec uses the maps it is given", 6)
		w.ruleLoopsProgress(r, "C16.R7 the loops of the walks make progress", 2, func(fn *ssa.Function) bool { return reach[fn] || reach[rootFn(fn)] })
	}
	// R1a: type walk (self-recursive functions over reflect.Type with a map accumulator)
	nR := 0
	for _, fn := range w.SrcFuncs() {
		if fn.Parent() != nil || fn.Signature.Recv() != nil {
			continue
		}
		if !isTypeWalker(fn) {
			continue
		}
		// recursive calls: to fn itself or to another walker (same signature
		// shape) from which fn is reached again — a struct case extracted into
		// a helper recurses through the dispatcher
		rec := w.typeWalkRecCalls(fn)
		if len(rec) == 0 {
			continue
		}
		r.fnSeen(fnName(fn))
		acc := fn.Params[1]
		// membership test and insertion on the accumulator
		var missBlocks []*ssa.BasicBlock
		var missKeys []string
		var inserts []*ssa.MapUpdate
		ff := w.flow(fn)
		for _, b := range fn.Blocks {
			for _, in := range b.Instrs {
				switch x := in.(type) {
				case *ssa.Lookup:
					if x.X == ssa.Value(acc) && x.CommaOk {
						for _, ref := range *x.Referrers() {
							if ex, ok := ref.(*ssa.Extract); ok && ex.Index == 1 {
								for _, r2 := range *ex.Referrers() {
									if iff, ok := r2.(*ssa.If); ok {
										missBlocks = append(missBlocks, iff.Block().Succs[1])
										missKeys = append(missKeys, ff.term(x.Index).Key())
									}
								}
							}
						}
					}
				case *ssa.MapUpdate:
					if x.Map == ssa.Value(acc) {
						inserts = append(inserts, x)
					}
				}
			}
		}
		cnt := 0
		for _, c := range rec {
			// only recursion through a struct field's type can close a cycle
			arg := c.Call.Args[0]
			viaField := false
			if fld, ok := arg.(*ssa.Field); ok {
				if typeStr(fld.X.Type()) == "reflect.StructField" {
					viaField = true
				}
			}
			if !viaField {
				continue
			}
			nR++
			cnt++
			guarded, inserted := false, false
			for mi, mb := range missBlocks {
				if !mb.Dominates(c.Block()) {
					continue
				}
				guarded = true
				// the key inserted must be the key tested
				for _, mu := range inserts {
					if mu.Block().Dominates(c.Block()) && ff.term(mu.Key).Key() == missKeys[mi] {
						inserted = true
					}
				}
			}
			r.add("C16.R1 recursion has a visited cut-off", fmt.Sprintf("%s · recursive call on a field type #%d", fnName(fn), cnt), w.instrPos(c), guarded && inserted,
				fmt.Sprintf("dominated by the miss edge of a membership test on the accumulator=%v, by the insertion of the SAME key=%v (otherwise a self-referential type recurses until the stack overflows)", guarded, inserted))
		}
	}
	// R1b: value walk with an extractor
	ev := w.fn("ExtractValue")
	var vw *valueWalk
	if ev == nil {
		r.undecided("C16.R1 recursion has a visited cut-off", "ExtractValue", "-", "anchor not found")
	} else {
		r.fnSeen(fnName(ev))
		var verdict *ssa.BasicBlock
		for _, b := range ev.Blocks {
			iff, ok := b.Instrs[len(b.Instrs)-1].(*ssa.If)
			if !ok {
				continue
			}
			c, ok := iff.Cond.(*ssa.Call)
			if ok && c.Call.StaticCallee() == nil && !c.Call.IsInvoke() {
				// the extractor parameter, also when it lives in a cell because
				// function literals capture it (rules_c16walk_fv.go paramBehind)
				if _, isParam := paramBehind(c.Call.Value); isParam {
					verdict = b.Succs[0]
				}
			}
		}
		// the walk: ExtractValue and the helpers on a call cycle through it.  A
		// call from a member to a member is a recursive call; every cycle passes
		// through ExtractValue, whose own recursive calls follow the verdict.
		vw = w.valueWalkOf(ev)
		for _, g := range vw.fns {
			cnt := 0
			for _, c := range vw.walkCalls(g) {
				nR++
				cnt++
				if g == ev {
					ok := verdict != nil && verdict.Dominates(c.Block())
					r.add("C16.R1 recursion has a visited cut-off", fmt.Sprintf("ExtractValue · recursive call #%d", cnt), w.instrPos(c), ok, "dominated by the true edge of the extractor's verdict")
				} else {
					r.fnSeen(fnName(g))
					r.add("C16.R1 recursion has a visited cut-off", fmt.Sprintf("%s · recursive call #%d", fnName(g), cnt), w.instrPos(c), vw.restA,
						fmt.Sprintf("a helper of the walk: every call cycle through it passes through ExtractValue (the helpers form no cycle among themselves)=%v, whose calls into the walk follow the verdict", vw.restA))
				}
			}
		}
		// extractors: function literals of the extractor signature, and whatever
		// is handed to the walk as its extractor (named function, method value)
		var extractors []*ssa.Function
		isExtr := map[*ssa.Function]bool{}
		for _, fn := range w.SrcFuncs() {
			if fn.Parent() != nil && isExtractorSig(fn) {
				extractors = append(extractors, fn)
				isExtr[fn] = true
			}
		}
		for _, fn := range vw.extractorsOf() {
			if !isExtr[fn] {
				extractors = append(extractors, fn)
				isExtr[fn] = true
			}
		}
		for _, fn := range extractors {
			nR++
			r.fnSeen(fnName(fn))
			f := w.flow(fn)
			members := w.memberIfs(fn)
			ok := true
			var facts []string
			for _, b := range fn.Blocks {
				ret, isRet := b.Instrs[len(b.Instrs)-1].(*ssa.Return)
				if !isRet {
					continue
				}
				k, isC := ret.Results[0].(*ssa.Const)
				if !isC || k.Value == nil || k.Value.ExactString() != "true" {
					if !isC {
						ok = false
						facts = append(facts, "non-constant verdict at "+w.instrPos(ret))
					}
					continue
				}
				// a `true` return: dominated by a miss edge of a membership test of
				// m[K] (a comma-ok lookup here or in a (value, ok) / bool accessor,
				// rules_c16member.go) and by MapUpdate m[K]
				good := false
				for _, mi := range members {
					if !mi.iff.Block().Succs[mi.miss].Dominates(b) {
						continue
					}
					for _, b3 := range fn.Blocks {
						for _, i3 := range b3.Instrs {
							if mu, isMU := i3.(*ssa.MapUpdate); isMU && b3.Dominates(b) && f.term(mu.Key).Key() == f.term(mi.mt.key).Key() && mi.mt.isMap(f, mu.Map) {
								good = true
							}
						}
					}
				}
				if !good {
					ok = false
					facts = append(facts, "the return true at "+w.instrPos(ret)+" is not preceded by 'key absent → insert key' on the visited map")
				}
			}
			// the mark must stay: an entry deleted from (or a clear of) a map the extractor
			// uses as its visited set lets the walk enter the same type again
			for _, bb := range fn.Blocks {
				for _, in := range bb.Instrs {
					c, isC := in.(*ssa.Call)
					if !isC {
						continue
					}
					bi, isB := c.Call.Value.(*ssa.Builtin)
					if !isB || (bi.Name() != "delete" && bi.Name() != "clear") || len(c.Call.Args) == 0 {
						continue
					}
					for _, b2 := range fn.Blocks {
						for _, i2 := range b2.Instrs {
							if lk, isL := i2.(*ssa.Lookup); isL && lk.CommaOk && (sameCell(c.Call.Args[0], lk.X) || f.term(c.Call.Args[0]).Key() == f.term(lk.X).Key()) {
								ok = false
								facts = append(facts, bi.Name()+" on the visited map at "+w.instrPos(c)+": the mark that ends the walk on a recursive type is removed again")
							}
						}
					}
					for _, mi := range members {
						if mi.mt.lk.Parent() != fn && mi.mt.isMap(f, c.Call.Args[0]) {
							ok = false
							facts = append(facts, bi.Name()+" on the visited map at "+w.instrPos(c)+": the mark that ends the walk on a recursive type is removed again")
						}
					}
				}
			}
			if len(facts) == 0 {
				facts = append(facts, "returns true only after inserting the key it found absent (visited-by-type-name cut-off)")
			}
			r.add("C16.R1 recursion has a visited cut-off", fnName(fn)+" · extractor inserts what it tests", w.pos(fn.Pos()), ok, uniqJoin(facts))
		}
	}
	r.floor("C16.R1 recursion obligations", nR, 6)
	if ev != nil {
		w.ruleWalkVisitsAll(r, "C16.R4 the value walk visits every element", vw)
	}

	// R2 absent containers are descended by type
	if ev != nil {
		kinds := map[string]bool{}
		for _, g := range vw.fns {
			// calls handing reflect.New(T) to the walk as its value: to the
			// entry itself, or through members (closures, helpers) that pass
			// their parameter on unchanged (rules_c16walk_fv.go)
			for _, c := range vw.zeroDescents(g) {
				// kinds under which the call is made (inside a helper: the kinds
				// under which the helper is entered)
				for _, k := range vw.kindsAt(c.Block()) {
					kinds[k] = true
				}
			}
		}
		w.ruleZeroDescentImmediate(r, "C16.R2c a descent by type goes to the immediate element type", vw)
		for _, k := range []string{"Slice", "Map"} {
			r.add("C16.R2 absent containers are descended by type", "ExtractValue · empty "+k, w.pos(ev.Pos()), kinds[k], fmt.Sprintf("an empty %s recurses on reflect.New(element type)=%v", k, kinds[k]))
		}
		// pointers: IsNil test whose true edge feeds reflect.New(v.Type().Elem()) into the value that is extracted
		ptrOK := false
		fns := append([]*ssa.Function{}, vw.fns...)
		for _, g := range vw.fns {
			for _, sc := range w.staticPkgCallees(g) {
				if !vw.in[sc] {
					fns = append(fns, sc)
				}
			}
		}
		for _, g := range fns {
			hasIsNil, hasNew := false, false
			for _, cs := range w.callSitesIn(g) {
				if cs.callee == "(reflect.Value).IsNil" {
					hasIsNil = true
				}
				if cs.callee == "reflect.New" {
					if ac, ok := cs.call.Call.Args[0].(*ssa.Call); ok && ac.Call.IsInvoke() && ac.Call.Method.Name() == "Elem" {
						// New(T.Elem()) — inside the pointer loop, and on the side where IsNil held
						for _, lp := range naturalLoops(g) {
							if lp.body[cs.call.Block()] && onIsNilSide(cs.call.Block()) {
								hasNew = true
							}
						}
					}
				}
			}
			if hasIsNil && hasNew {
				ptrOK = true
			}
		}
		r.add("C16.R2 absent containers are descended by type", "ExtractValue · nil pointer", w.pos(ev.Pos()), ptrOK,
			map[bool]string{true: "the pointer-unwrapping loop replaces a nil pointer by reflect.New(element type) before dereferencing", false: "a nil pointer is dereferenced to the invalid value and dropped: struct types behind nil pointers are missing from the maps (ExtractTypeNameMap(&T{}) idiom)"}[ptrOK])
	}

	// R3 paired map writes
	nP := 0
	// the construction of the two maps: the map builder, its function literals,
	// and the in-package functions it reaches (helpers, a collector's methods
	// handed over as method values)
	building := w.reachStaticPkg(w.fn("ExtractTypeNameMap"))
	for _, fn := range w.SrcFuncs() {
		if !building[fn] {
			continue
		}
		f := w.flow(fn)
		var nameUpd, typUpd []*ssa.MapUpdate
		for _, b := range fn.Blocks {
			for _, in := range b.Instrs {
				mu, ok := in.(*ssa.MapUpdate)
				if !ok {
					continue
				}
				switch typeStr(mu.Map.Type()) {
				case "map[string]string":
					nameUpd = append(nameUpd, mu)
				case "map[string]reflect.Type":
					typUpd = append(typUpd, mu)
				}
			}
		}
		for i, mu := range nameUpd {
			nP++
			wk := f.term(mu.Value).Key()
			ok := false
			for _, tu := range typUpd {
				if f.term(tu.Key).Key() == wk {
					ok = true
				}
			}
			r.add("C16.R3 name map and type map are written in pairs", fmt.Sprintf("%s · nameMap update #%d", fnName(fn), i+1), w.instrPos(mu), ok,
				fmt.Sprintf("wire name written = %s; a typMap entry with the same key term exists in this function=%v", wk, ok))
		}
	}
	r.floor("C16.R3 nameMap updates", nP, 3)
	w.ruleListNamesKeepWhole(r, "C16.R9 list wire names keep the whole Go name", building, 2)
	w.ruleNameKeysHaveTypes(r, "C16.R10 every name-map key has a type-map entry", building)
	// R3 converse: every type recorded under a wire name has that wire name in
	// the name map — a nameMap[_] = w with the same term w in the same function,
	// written on every path that writes typMap[w] (same block, or a block that
	// dominates it, or one that every path from it to a return passes).
	nQ := 0
	for _, fn := range w.SrcFuncs() {
		if !building[fn] {
			continue
		}
		f := w.flow(fn)
		var nameUpd, typUpd []*ssa.MapUpdate
		for _, b := range fn.Blocks {
			for _, in := range b.Instrs {
				if mu, ok := in.(*ssa.MapUpdate); ok {
					switch typeStr(mu.Map.Type()) {
					case "map[string]string":
						nameUpd = append(nameUpd, mu)
					case "map[string]reflect.Type":
						typUpd = append(typUpd, mu)
					}
				}
			}
		}
		if len(nameUpd) == 0 && len(typUpd) > 0 {
			// a function that records types only takes part when the maps are built
			// as a pair somewhere else in the construction: nothing to pair here
			// unless the name map is in its reach as a parameter / capture
			hasName := false
			for _, p := range fn.Params {
				if typeStr(p.Type()) == "map[string]string" {
					hasName = true
				}
			}
			for _, fv := range fn.FreeVars {
				if strings.Contains(typeStr(fv.Type()), "map[string]string") {
					hasName = true
				}
			}
			if !hasName {
				continue
			}
		}
		for i, tu := range typUpd {
			nQ++
			wk := f.term(tu.Key).Key()
			ok, how := false, "no nameMap entry with this wire name as its value is written in this function"
			for _, nu := range nameUpd {
				if f.term(nu.Value).Key() != wk {
					continue
				}
				a, b := tu.Block(), nu.Block()
				switch {
				case a == b || b.Dominates(a):
					ok = true
				case a.Dominates(b):
					// every path from a to a return passes b
					esc := false
					seen := map[*ssa.BasicBlock]bool{}
					var walk func(x *ssa.BasicBlock)
					walk = func(x *ssa.BasicBlock) {
						if esc || seen[x] || x == b {
							return
						}
						seen[x] = true
						if _, isRet := x.Instrs[len(x.Instrs)-1].(*ssa.Return); isRet {
							esc = true
							return
						}
						for _, s := range x.Succs {
							walk(s)
						}
					}
					for _, s := range a.Succs {
						walk(s)
					}
					if len(a.Succs) == 0 {
						esc = true
					}
					ok = !esc
					if esc {
						how = "the nameMap entry with this wire name is written on some of the paths only"
					}
				}
				if ok {
					break
				}
			}
			if ok {
				how = "a nameMap entry whose value is the same term is written on every path that records the type"
			}
			r.add("C16.R3 every recorded type has its wire name in the name map", fmt.Sprintf("%s · typMap update #%d", fnName(fn), i+1), w.instrPos(tu), ok,
				fmt.Sprintf("type recorded under %s: %s", wk, how))
		}
	}
	r.floor("C16.R3 typMap updates beside a name map", nQ, 2)
	w.ruleExtractionStateless(r, "C16.R5 extraction is a function of its argument")
	if ev != nil {
		w.ruleEmptyContainersDescended(r, "C16.R2 absent containers are descended by type", ev)
	}
	w.ruleTypeWalkDescends(r, "C16.R2 the type walk descends every container type")
	w.ruleTypeWalkComplete(r, "C16.R2 the type walk descends every part of a container type")
}

// ruleWalkVisitsAll: every loop of the value walk that recurses leaves only
// through its counter/range and makes the same number of recursive calls on
// every iteration path (1 per element or field, 2 per map entry).
func (w *World) ruleWalkVisitsAll(r *Report, rule string, vw *valueWalk) {
	n := 0
	for _, g := range vw.fns {
		for li, lp := range naturalLoops(g) {
			has := false
			for b := range lp.body {
				if len(vw.walkCallsIn(b)) > 0 {
					has = true
				}
			}
			if !has {
				continue
			}
			// a loop over the elements of a fixed-size local array literal
			// (`for _, t := range [...]T{key, elem} { walk(t) }`) is its body
			// written N times: no element of the walked value is enumerated
			// by it, so the per-element count does not apply — it must still
			// run to its end and invoke the walk alike on every path
			trips, literal := literalRangeLoop(lp)
			if !literal {
				n++
			}
			key := fmt.Sprintf("%s · loop#%d", fnName(g), li+1)
			// exits
			okExit := true
			factExit := "leaves only through its counter"
			for b := range lp.body {
				for _, s2 := range b.Succs {
					if lp.body[s2] {
						continue
					}
					iff, isIf := b.Instrs[len(b.Instrs)-1].(*ssa.If)
					if !isIf {
						continue
					}
					kind, detail := w.classifyExitCond(iff.Cond, map[*ssa.Call]bool{}, lp)
					if kind != "counter" {
						okExit = false
						factExit = "the loop is left on " + detail + " at " + w.instrPos(iff) + ": the remaining elements are not walked, so types reachable only through them are missing from the maps"
					}
				}
			}
			// invocations of the walk per completed iteration: a call of
			// ExtractValue counts 1, a call of a helper counts what the helper
			// invokes on every path through it
			counts := map[int]bool{}
			var dfs func(b *ssa.BasicBlock, k int, seen map[*ssa.BasicBlock]bool)
			dfs = func(b *ssa.BasicBlock, k int, seen map[*ssa.BasicBlock]bool) {
				if b == lp.header {
					counts[k] = true
					return
				}
				if !lp.body[b] || seen[b] || len(counts) > 16 {
					return
				}
				seen[b] = true
				defer delete(seen, b)
				ks := []int{k}
				for _, c := range vw.walkCallsIn(b) {
					var next []int
					for _, iv := range vw.invocations(w.walkCallee(c)) {
						for _, a := range ks {
							if iv < 0 || a < 0 {
								next = append(next, -1)
							} else {
								next = append(next, a+iv)
							}
						}
					}
					ks = uniqInts(next)
				}
				for _, k2 := range ks {
					if k2 < 0 {
						counts[-1] = true
						continue
					}
					for _, s2 := range b.Succs {
						dfs(s2, k2, seen)
					}
				}
			}
			// an iteration starts with the header: in a test-at-the-bottom loop
			// (`for { walk(v.Index(i)); i++; if i >= v.Len() { break } }`) the
			// header IS the body and holds the walk call
			headKs := []int{0}
			for _, c := range vw.walkCallsIn(lp.header) {
				var next []int
				for _, iv := range vw.invocations(w.walkCallee(c)) {
					for _, a := range headKs {
						if iv < 0 || a < 0 {
							next = append(next, -1)
						} else {
							next = append(next, a+iv)
						}
					}
				}
				headKs = uniqInts(next)
			}
			for _, k0 := range headKs {
				if k0 < 0 {
					counts[-1] = true
					continue
				}
				for _, s2 := range lp.header.Succs {
					if lp.body[s2] {
						dfs(s2, k0, map[*ssa.BasicBlock]bool{})
					}
				}
			}
			var got []int
			for k := range counts {
				got = append(got, k)
			}
			sort.Ints(got)
			kinds := vw.kindsAt(lp.header)
			want := 1
			for _, k := range kinds {
				if k == "Map" && len(kinds) == 1 {
					want = 2
				}
			}
			if literal {
				ok := okExit && len(got) == 1 && got[0] >= 1
				r.add(rule, key, w.pos(g.Pos()), ok, fmt.Sprintf("kinds %v: a loop over the %d elements of a local array literal (its body %d times in a row): %s; invocations of the walk per iteration %v (want one constant, at least 1)", kinds, trips, trips, factExit, got))
				continue
			}
			ok := okExit && len(got) == 1 && got[0] == want
			r.add(rule, key, w.pos(g.Pos()), ok, fmt.Sprintf("kinds %v: %s; invocations of the walk per completed iteration %v (want exactly %d)", kinds, factExit, got, want))
		}
	}
	r.floor(rule, n, 3)
}

// sameCell: two map values are the same variable (same free variable load /
// same register).
func sameCell(a, b ssa.Value) bool {
	if a == b {
		return true
	}
	ua, ok1 := a.(*ssa.UnOp)
	ub, ok2 := b.(*ssa.UnOp)
	return ok1 && ok2 && ua.Op == token.MUL && ub.Op == token.MUL && ua.X == ub.X
}

// ---- C09 ----

func rulesC09(w *World, r *Report) {
	// strings and byte slices take no reference ordinal: the decoder numbers
	// none for them, so a byte slice written after a registration shifts every
	// later reference and two equal slices become a reference (seeded C09m)
	includeIf(w, r, "C04", "strings and byte slices are written without taking a reference ordinal", 3, func(o *Obligation) bool {
		return strings.Contains(o.Key, "C04.R1")
	})
	w.ruleLenEncoder(r, "C09.R2 string forms, ranges, windows, chunk arithmetic", "string")
	w.ruleLenEncoder(r, "C09.R2 binary forms, ranges, windows, chunk arithmetic", "binary")
	w.ruleLenReader(r, "C09.R2 length readers", "string")
	w.ruleLenReader(r, "C09.R2 length readers", "binary")
	w.rulePayloadUnits(r, "C09.R1 payload read in the unit the length counts")
	w.ruleWrapperForwards(r, "C09.R1 read wrappers forward the decoder", "string")
	w.ruleWrapperForwards(r, "C09.R1 read wrappers forward the decoder", "binary")
	w.ruleChunkBuffers(r, "C09.R2 chunk buffers sized per chunk")
	w.ruleChunkContinuation(r, "C09.R2 only a non-final chunk is followed by another")
	w.ruleDecodedBytesFresh(r, "C09.R4 a decoded byte array owns its memory")
	// R3 is generated because the encoder has an N form for a present value
	c := w.codecs()["string"]
	hasN := false
	if c != nil && c.Enc != nil {
		ei := w.encForms(c.Enc)
		for _, fm := range ei.forms {
			if len(fm.Oct) == 1 && !fm.Open {
				if s, _ := ei.px.evalOver(fm, fm.Oct[0]); s != nil && s.Equal(single('N')) {
					hasN = true
				}
			}
		}
	}
	if hasN {
		r.note("the string encoder emits N for the empty string: a nil element or key is a value")
		w.ruleLoopExits(r, "C09.R3 null is a value, not a terminator", false)
		w.ruleEveryValueStored(r, "C09.R3 null is a value, not dropped")
		// the string decoder accepts N
		if c.Dec != nil {
			run := w.decTable(c.Dec).at('N')
			r.add("C09.R3 null is a value, not a terminator", fnName(c.Dec)+" · accepts N as the empty string", w.pos(c.Dec.Pos()), run.OK && run.Payload == 0 && !run.Unknown, "a nil-error return is reached for tag N without pulling payload")
		}
	} else {
		r.note("the string encoder has no N form: R3 generates no obligations")
	}
	r.note("spec table digest %s", specDigest())
}

// ruleDecodedBytesFresh: the []byte the binary decoder returns is allocated in
// that call (a slice it made, or the bytes of a buffer it created).  A result
// that aliases a pooled or retained buffer is overwritten by the next binary
// that is decoded — in the same message (two []byte fields) or a later one.
func (w *World) ruleDecodedBytesFresh(r *Report, rule string) {
	c := w.codecs()["binary"]
	if c == nil || c.Dec == nil {
		r.undecided(rule, "binary decoder", "-", "not found")
		return
	}
	n := 0
	fns := []*ssa.Function{c.Dec}
	if c.Wrap != nil {
		fns = append(fns, c.Wrap)
	}
	for _, fn := range fns {
		for _, b := range fn.Blocks {
			ret, ok := b.Instrs[len(b.Instrs)-1].(*ssa.Return)
			if !ok || len(ret.Results) == 0 || isNilConst(ret.Results[0]) || !isByteSlice(ret.Results[0].Type()) {
				continue
			}
			n++
			ok2, fact := w.freshBytes(ret.Results[0], fn, 0)
			r.add(rule, fmt.Sprintf("%s · returned bytes #%d", fnName(fn), n), w.instrPos(ret), ok2, fact)
		}
	}
	r.floor(rule, n, 1)
}

func uniqJoin(xs []string) string {
	seen := map[string]bool{}
	var out []string
	for _, x := range xs {
		if !seen[x] {
			seen[x] = true
			out = append(out, x)
		}
	}
	return strings.Join(out, "; ")
}

// recoverLeavesErrUnset: position of a return of the recover handler cf that is
// reachable from the "recovered value is not nil" edge without passing a store
// of a non-nil value into an error cell ("" if there is none).
func (w *World) recoverLeavesErrUnset(cf *ssa.Function) string {
	stores := map[*ssa.BasicBlock]bool{}
	for _, b := range cf.Blocks {
		for _, in := range b.Instrs {
			st, ok := in.(*ssa.Store)
			if !ok || isNilConst(st.Val) {
				continue
			}
			pt, ok := st.Addr.Type().Underlying().(*types.Pointer)
			if ok && isErrorType(pt.Elem()) {
				stores[b] = true
			}
		}
	}
	var start []*ssa.BasicBlock
	for _, b := range cf.Blocks {
		iff, ok := b.Instrs[len(b.Instrs)-1].(*ssa.If)
		if !ok {
			continue
		}
		bo, ok := iff.Cond.(*ssa.BinOp)
		if !ok || (bo.Op != token.NEQ && bo.Op != token.EQL) {
			continue
		}
		isRec := func(v ssa.Value) bool {
			c, ok := v.(*ssa.Call)
			if !ok {
				return false
			}
			bi, ok := c.Call.Value.(*ssa.Builtin)
			return ok && bi.Name() == "recover"
		}
		if !(isRec(bo.X) && isNilConst(bo.Y)) && !(isRec(bo.Y) && isNilConst(bo.X)) {
			continue
		}
		if bo.Op == token.NEQ {
			start = append(start, b.Succs[0])
		} else {
			start = append(start, b.Succs[1])
		}
	}
	seen := map[*ssa.BasicBlock]bool{}
	var bad string
	var walk func(b *ssa.BasicBlock)
	walk = func(b *ssa.BasicBlock) {
		if bad != "" || seen[b] || stores[b] {
			return
		}
		seen[b] = true
		if ret, ok := b.Instrs[len(b.Instrs)-1].(*ssa.Return); ok {
			bad = "return at " + w.instrPos(ret)
			return
		}
		for _, s := range b.Succs {
			walk(s)
		}
	}
	for _, b := range start {
		walk(b)
	}
	return bad
}

// onIsNilSide: b is (dominated by) the successor taken when an IsNil() test holds.
func onIsNilSide(b *ssa.BasicBlock) bool {
	for _, d := range b.Parent().Blocks {
		iff, ok := d.Instrs[len(d.Instrs)-1].(*ssa.If)
		if !ok {
			continue
		}
		cond, side := iff.Cond, 0
		if u, ok := cond.(*ssa.UnOp); ok && u.Op == token.NOT {
			cond, side = u.X, 1
		}
		c, ok := cond.(*ssa.Call)
		if !ok || calleeName(&c.Call) != "IsNil" {
			continue
		}
		t := d.Succs[side]
		if (t == b || t.Dominates(b)) && len(t.Preds) == 1 {
			return true
		}
	}
	return false
}
