package main

// C04.R5c — destinations are notified with the holder's final value.
//
// A list holder keeps the value being built and the destinations (fields,
// elements) that referred to the list while it was still being read.  The
// notifier hands the holder's current value to every destination.  Whoever
// installs the final (converted) value must do so BEFORE notifying: a store to
// the holder's value that can follow a notification of the same holder leaves
// the destinations with the stale, unconverted list.  Roles are found by
// effect: the holder is the package struct with a reflect.Value field and a
// []reflect.Value field; a setter is a method that stores into the former, a
// notifier a method that loads both.

import (
	"fmt"
	"go/types"

	"golang.org/x/tools/go/ssa"
)

func (w *World) holderRoles() (holder *types.Named, valueField int, setters, notifiers map[*ssa.Function]bool) {
	setters, notifiers = map[*ssa.Function]bool{}, map[*ssa.Function]bool{}
	valueField = -1
	destField := -1
	for _, name := range w.TPkg.Scope().Names() {
		tn, ok := w.TPkg.Scope().Lookup(name).(*types.TypeName)
		if !ok {
			continue
		}
		nt, ok := tn.Type().(*types.Named)
		if !ok {
			continue
		}
		st, ok := nt.Underlying().(*types.Struct)
		if !ok {
			continue
		}
		vf, df := -1, -1
		for i := 0; i < st.NumFields(); i++ {
			switch typeStr(st.Field(i).Type()) {
			case "reflect.Value":
				vf = i
			case "[]reflect.Value":
				df = i
			}
		}
		if vf >= 0 && df >= 0 {
			holder, valueField, destField = nt, vf, df
		}
	}
	if holder == nil {
		return
	}
	for _, fn := range w.SrcFuncs() {
		recv := fn.Signature.Recv()
		if recv == nil {
			continue
		}
		pt, ok := recv.Type().(*types.Pointer)
		if !ok || pt.Elem() != types.Type(holder) {
			continue
		}
		storesV, loadsV, loadsD := false, false, false
		for _, b := range fn.Blocks {
			for _, in := range b.Instrs {
				switch x := in.(type) {
				case *ssa.Store:
					if fa, ok := x.Addr.(*ssa.FieldAddr); ok && fa.X == ssa.Value(fn.Params[0]) && fa.Field == valueField {
						storesV = true
					}
				case *ssa.UnOp:
					if fa, ok := x.X.(*ssa.FieldAddr); ok && fa.X == ssa.Value(fn.Params[0]) {
						if fa.Field == valueField {
							loadsV = true
						}
						if fa.Field == destField {
							loadsD = true
						}
					}
				}
			}
		}
		if storesV {
			setters[fn] = true
		}
		if loadsV && loadsD && !storesV {
			notifiers[fn] = true
		}
	}
	return
}

func (w *World) ruleNotifyAfterFinalValue(r *Report, rule string) {
	holder, vf, setters, notifiers := w.holderRoles()
	if holder == nil || len(notifiers) == 0 || len(setters) == 0 {
		r.undecided(rule, "list holder", "-", "no struct with a reflect.Value and a []reflect.Value field, or no setter / notifier method on it")
		return
	}
	n := 0
	for _, fn := range w.SrcFuncs() {
		cnt := 0
		for _, b := range fn.Blocks {
			for i, in := range b.Instrs {
				c, ok := in.(*ssa.Call)
				if !ok || !notifiers[c.Call.StaticCallee()] || len(c.Call.Args) == 0 {
					continue
				}
				n++
				cnt++
				recv := c.Call.Args[0]
				// anything that writes the same holder's value and can execute after this call
				late := ""
				seen := map[*ssa.BasicBlock]bool{}
				var scan func(bb *ssa.BasicBlock, from int)
				scan = func(bb *ssa.BasicBlock, from int) {
					for _, in2 := range bb.Instrs[from:] {
						switch x := in2.(type) {
						case *ssa.Call:
							if setters[x.Call.StaticCallee()] && len(x.Call.Args) > 0 && x.Call.Args[0] == recv {
								late = fnName(x.Call.StaticCallee()) + " at " + w.instrPos(x)
							}
						case *ssa.Store:
							if fa, ok := x.Addr.(*ssa.FieldAddr); ok && fa.X == recv && fa.Field == vf {
								late = "a store to the value field at " + w.instrPos(x)
							}
						}
					}
					for _, s := range bb.Succs {
						if !seen[s] {
							seen[s] = true
							scan(s, 0)
						}
					}
				}
				scan(b, i+1)
				fact := "no store to the holder's value can follow this notification: the destinations receive the final value"
				if late != "" {
					fact = "the holder's value is set again after the destinations were notified (" + late + "): fields that referred to the list while it was being read keep the stale, unconverted value"
				}
				r.add(rule, fmt.Sprintf("%s · notification #%d", fnName(fn), cnt), w.instrPos(c), late == "", fact)
			}
		}
	}
	r.floor(rule+" (notifications)", n, 1)
}
