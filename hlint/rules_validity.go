package main

// C01.R6 — no reflect getter on a Value that may be the zero Value.
//
// The decoder uses the zero reflect.Value as "no value" (an empty list
// converts to it, a null stays it).  reflect's accessors panic on it.  A
// may-be-invalid analysis follows that sentinel: sources are package-level
// reflect.Value variables and zero reflect.Value constants; it flows through
// φ-nodes, through results of package functions (on returns whose error is
// not provably non-nil), into parameters at call sites and — field-based —
// through struct fields it is stored into (the list holder keeps the
// converted value).  A sink is a call of a reflect.Value method that panics on
// the zero Value whose receiver may be invalid and is not dominated by an
// IsValid() test of that same value.  On the decode path such a panic is
// recovered into an error: a legal message (an empty list referenced twice)
// then fails to decode.

import (
	"fmt"
	"go/token"
	"os"

	"golang.org/x/tools/go/ssa"
)

var zeroValuePanics = map[string]bool{
	"Type": true, "Interface": true, "Len": true, "Cap": true, "Index": true, "Elem": true, "Field": true, "NumField": true,
	"FieldByName": true, "MapKeys": true, "MapIndex": true, "MapRange": true, "Pointer": true, "UnsafePointer": true, "IsNil": true,
	"Int": true, "Uint": true, "Float": true, "Bool": true, "Bytes": true, "Slice": true, "Addr": true, "Convert": true,
	"Set": true, "SetInt": true, "SetUint": true, "SetFloat": true, "SetString": true, "SetBool": true, "SetMapIndex": true, "SetLen": true,
}

type validity struct {
	w      *World
	params map[*ssa.Parameter]bool
	fields map[string]bool
	rets   map[*ssa.Function]bool         // the function can return the sentinel whatever it is given
	retPar map[*ssa.Function]map[int]bool // … or hands back its i-th parameter
	assume map[*ssa.Parameter]bool        // when set: the only parameters taken as tainted (summary computation)
	// fromFields: second phase — only values that come out of a field which may hold
	// the zero Value are followed (the sentinel handed around locally is the
	// business of the code next to it; the one that was PERSISTED meets code that
	// does not expect it)
	fromFields bool
}

func isReflectValue(v ssa.Value) bool { return typeStr(v.Type()) == "reflect.Value" }

func (va *validity) may(v ssa.Value, seen map[ssa.Value]bool) bool {
	if v == nil || seen[v] || !isReflectValue(v) {
		return false
	}
	seen[v] = true
	switch x := v.(type) {
	case *ssa.Const:
		return !va.fromFields // reflect.Value{}
	case *ssa.UnOp:
		if x.Op != token.MUL {
			return false
		}
		switch a := x.X.(type) {
		case *ssa.Global:
			return !va.fromFields && a.Pkg == va.w.Pkg
		case *ssa.FieldAddr:
			return va.fields[fieldID(a)]
		case *ssa.Alloc:
			for _, ref := range *a.Referrers() {
				if st, ok := ref.(*ssa.Store); ok && st.Addr == ssa.Value(a) && va.may(st.Val, seen) {
					return true
				}
			}
		}
	case *ssa.Phi:
		for i, e := range x.Edges {
			// a value tested valid before it flows in stays valid
			if guardedValid(e, x.Block().Preds[i]) || validOnEdge(e, x.Block().Preds[i], x.Block()) {
				continue
			}
			if va.may(e, seen) {
				return true
			}
		}
	case *ssa.Parameter:
		if va.assume != nil {
			return va.assume[x]
		}
		return va.params[x]
	case *ssa.Call:
		return va.callMay(x, seen)
	case *ssa.Extract:
		if c, ok := x.Tuple.(*ssa.Call); ok && x.Index == 0 {
			return va.callMay(c, seen)
		}
	case *ssa.Field:
		return false
	}
	return false
}

func (va *validity) callMay(c *ssa.Call, seen map[ssa.Value]bool) bool {
	sc := c.Call.StaticCallee()
	if sc == nil || !va.w.inPkg(sc) {
		return false
	}
	if va.rets[sc] {
		return true
	}
	for i := range va.retPar[sc] {
		if i < len(c.Call.Args) && va.may(c.Call.Args[i], seen) && !guardedValid(c.Call.Args[i], c.Block()) {
			return true
		}
	}
	return false
}

// guarded: the use at block b of value v is dominated by the true edge of v.IsValid().
func guardedValid(v ssa.Value, b *ssa.BasicBlock) bool {
	if guardedValid1(v, b) {
		return true
	}
	// whatever the shape of the test (`if v.Kind() != Ptr { break }`, a switch
	// over the kind, a range test on it): the facts of the fixpoint at b exclude
	// Kind(v) == Invalid, and only a valid Value has another kind
	if kindFactValid(v, b) {
		return true
	}
	// a parameter that lives in a cell because a function literal captures it
	// (`next := func() … { … v.Len() … }`): the cell is written once, at entry, so
	// every load of it is the parameter; a test of one load speaks for all
	if ld, ok := v.(*ssa.UnOp); ok && ld.Op == token.MUL {
		if al, isAl := ld.X.(*ssa.Alloc); isAl && al.Referrers() != nil {
			if _, stable := paramBehind(ld); stable {
				for _, ref := range *al.Referrers() {
					if l2, ok := ref.(*ssa.UnOp); ok && l2 != ld && l2.Op == token.MUL && (guardedValid1(l2, b) || kindFactValid(l2, b)) {
						return true
					}
				}
			}
		}
	}
	// another load of the same field of the same object, tested before (h.value.CanAddr() && … h.value.Pointer())
	if ld, ok := v.(*ssa.UnOp); ok && ld.Op == token.MUL {
		if fa, ok := ld.X.(*ssa.FieldAddr); ok {
			for _, bb := range fa.Parent().Blocks {
				for _, in := range bb.Instrs {
					l2, ok := in.(*ssa.UnOp)
					if !ok || l2 == ld || l2.Op != token.MUL {
						continue
					}
					if f2, ok := l2.X.(*ssa.FieldAddr); ok && f2.X == fa.X && f2.Field == fa.Field && guardedValid1(l2, b) {
						return true
					}
				}
			}
		}
	}
	return false
}

func guardedValid1(v ssa.Value, b *ssa.BasicBlock) bool {
	refs := v.Referrers()
	if refs == nil {
		return false
	}
	for _, ref := range *refs {
		c, ok := ref.(*ssa.Call)
		if !ok || c.Call.StaticCallee() == nil || len(c.Call.Args) == 0 || c.Call.Args[0] != v {
			continue
		}
		switch qualifiedFnName(c.Call.StaticCallee()) {
		case "(reflect.Value).IsValid", "(reflect.Value).CanAddr", "(reflect.Value).CanSet", "(reflect.Value).CanInterface":
			// true only for a valid Value
		case "(reflect.Value).Kind":
			// Kind() == K for K other than Invalid
			for _, r2 := range *c.Referrers() {
				if bo, ok := r2.(*ssa.BinOp); ok && bo.Op == token.EQL {
					k, isC := bo.Y.(*ssa.Const)
					if !isC {
						k, isC = bo.X.(*ssa.Const)
					}
					if !isC || k.Value == nil || k.Int64() == 0 {
						continue
					}
					for _, r3 := range *bo.Referrers() {
						if iff, ok := r3.(*ssa.If); ok {
							if edgeHolds(iff.Block(), 0, b) {
								return true
							}
						}
					}
				}
			}
			continue
		default:
			continue
		}
		for _, r2 := range *c.Referrers() {
			switch y := r2.(type) {
			case *ssa.If:
				if edgeHolds(y.Block(), 0, b) {
					return true
				}
			case *ssa.UnOp:
				if y.Op == token.NOT {
					for _, r3 := range *y.Referrers() {
						if iff, ok := r3.(*ssa.If); ok {
							if edgeHolds(iff.Block(), 1, b) {
								return true
							}
						}
					}
				}
			}
		}
	}
	return false
}

// validityW: the world the validity analysis runs in (the guards are plain
// functions of SSA values; the kind facts come from the world's fixpoints).
var validityW *World

// kindFactValid: at the entry of b the interval facts say Kind(v) != Invalid.
func kindFactValid(v ssa.Value, b *ssa.BasicBlock) bool {
	w := validityW
	if w == nil || b == nil || b.Parent() == nil || b.Parent().Blocks == nil || !w.inPkg(b.Parent()) {
		return false
	}
	f := w.flow(b.Parent())
	env := f.At(b)
	if env == nil {
		return false
	}
	s, ok := env["pure:(reflect.Value).Kind("+f.term(v).Key()+")"]
	return ok && !s.Empty() && !s.Contains(0)
}

func (w *World) ruleNoGetterOnInvalid(r *Report, rule string) {
	validityW = w
	va := &validity{w: w, params: map[*ssa.Parameter]bool{}, fields: map[string]bool{}, rets: map[*ssa.Function]bool{}, retPar: map[*ssa.Function]map[int]bool{}}
	va.fixpoint(true)
	// second phase: follow only what comes out of the fields found above
	fields := va.fields
	va = &validity{w: w, params: map[*ssa.Parameter]bool{}, fields: fields, rets: map[*ssa.Function]bool{}, retPar: map[*ssa.Function]map[int]bool{}, fromFields: true}
	va.fixpoint(false)
	if os.Getenv("HLINT_DEBUG") != "" {
		for p := range va.params {
			fmt.Fprintf(os.Stderr, "validity param %s of %s\n", p.Name(), fnName(p.Parent()))
		}
		for f := range va.rets {
			fmt.Fprintf(os.Stderr, "validity ret %s\n", fnName(f))
		}
		fmt.Fprintf(os.Stderr, "validity fields %v\n", va.fields)
	}
	reach := w.reachPkg(w.decodeEntryPoints()...)
	n, bad := 0, 0
	for _, fn := range w.SrcFuncs() {
		if !reach[fn] && !reach[rootFn(fn)] {
			continue
		}
		cnt := 0
		for _, b := range fn.Blocks {
			for _, in := range b.Instrs {
				c, ok := in.(*ssa.Call)
				if !ok {
					continue
				}
				sc := c.Call.StaticCallee()
				if sc == nil || sc.Signature.Recv() == nil || typeStr(sc.Signature.Recv().Type()) != "reflect.Value" || !zeroValuePanics[sc.Name()] || len(c.Call.Args) == 0 {
					continue
				}
				recv := c.Call.Args[0]
				if !va.may(recv, map[ssa.Value]bool{}) {
					continue
				}
				n++
				if guardedValid(recv, b) {
					continue
				}
				// not by dominance in this function: path by path (the test may have been
				// made on a copy held in a local array of parts — rules_validity_px.go)
				if w.pxGuardedValid(fn, c) {
					continue
				}
				cnt++
				bad++
				r.add(rule, fmt.Sprintf("%s · (reflect.Value).%s #%d", fnName(fn), sc.Name(), cnt), w.instrPos(c), false,
					"the receiver can be the zero reflect.Value (the decoder's 'no value': an empty list converts to it and the list holder keeps it) and no IsValid() test of it dominates the call: reflect panics, the recover boundary turns it into a decode error for a legal message")
			}
		}
	}
	var flds []string
	for f := range va.fields {
		flds = append(flds, f)
	}
	if bad == 0 {
		r.add(rule, "census", "-", true, fmt.Sprintf("%d accessor calls on possibly-invalid Values on the decode path, each dominated by an IsValid() test of its receiver; fields that can hold the zero Value: %v", n, flds))
	}
	if len(va.rets) == 0 && len(va.fields) == 0 {
		r.undecided(rule, "sources", "-", "no function returns and no field holds the zero reflect.Value: the sentinel was not recognised (the rule would pass vacuously)")
	}
}

func (va *validity) fixpoint(growFields bool) {
	for round := 0; round < 8; round++ {
		changed := false
		for _, fn := range va.w.allPkgFuncs() {
			for _, b := range fn.Blocks {
				for _, in := range b.Instrs {
					switch x := in.(type) {
					case *ssa.Return:
						if len(x.Results) == 0 || va.rets[fn] || !isReflectValue(x.Results[0]) {
							continue
						}
						if idx := errIndex(fn.Signature); idx >= 0 && va.w.nonNilErr(x.Results[idx], nil, nil, 0) {
							continue // an error return: the caller does not use the value
						}
						// own: tainted with no parameter assumed tainted; per parameter otherwise
						va.assume = map[*ssa.Parameter]bool{}
						own := va.may(x.Results[0], map[ssa.Value]bool{})
						if own {
							va.rets[fn] = true
							changed = true
						} else {
							for i, p := range fn.Params {
								if va.retPar[fn][i] || !isReflectValue(p) {
									continue
								}
								va.assume = map[*ssa.Parameter]bool{p: true}
								if va.may(x.Results[0], map[ssa.Value]bool{}) {
									if va.retPar[fn] == nil {
										va.retPar[fn] = map[int]bool{}
									}
									va.retPar[fn][i] = true
									changed = true
								}
							}
						}
						va.assume = nil
					case *ssa.Store:
						if fa, ok := x.Addr.(*ssa.FieldAddr); ok && growFields && isReflectValue(x.Val) && !va.fields[fieldID(fa)] && va.may(x.Val, map[ssa.Value]bool{}) {
							va.fields[fieldID(fa)] = true
							changed = true
						}
					case *ssa.Call:
						sc := x.Call.StaticCallee()
						if sc == nil || !va.w.inPkg(sc) || sc.Blocks == nil {
							continue
						}
						for i, a := range x.Call.Args {
							if i < len(sc.Params) && isReflectValue(a) && !va.params[sc.Params[i]] && va.may(a, map[ssa.Value]bool{}) {
								// an argument passed under its own IsValid guard is valid at the callee
								if guardedValid(a, x.Block()) {
									continue
								}
								va.params[sc.Params[i]] = true
								changed = true
							}
						}
					}
				}
			}
		}
		if !changed {
			break
		}
	}
}

// edgeHolds: what is known on the edge from's i-th successor holds at block b:
// the successor dominates b and is entered only through that edge or through
// back edges from blocks it dominates itself (a loop header right after the test).
func edgeHolds(from *ssa.BasicBlock, i int, b *ssa.BasicBlock) bool {
	t := from.Succs[i]
	if from.Succs[1-i] == t {
		return false
	}
	if !(t == b || t.Dominates(b)) {
		return false
	}
	for _, p := range t.Preds {
		if p != from && !t.Dominates(p) {
			return false
		}
	}
	return true
}

// validOnEdge: block pred ends in a test of v's validity and the edge pred→to is its valid side.
func validOnEdge(v ssa.Value, pred, to *ssa.BasicBlock) bool {
	iff, ok := pred.Instrs[len(pred.Instrs)-1].(*ssa.If)
	if !ok || pred.Succs[0] == pred.Succs[1] {
		return false
	}
	cond := iff.Cond
	neg := false
	if u, ok := cond.(*ssa.UnOp); ok && u.Op == token.NOT {
		cond, neg = u.X, true
	}
	c, ok := cond.(*ssa.Call)
	if !ok || c.Call.StaticCallee() == nil || len(c.Call.Args) == 0 || c.Call.Args[0] != v {
		return false
	}
	switch qualifiedFnName(c.Call.StaticCallee()) {
	case "(reflect.Value).IsValid", "(reflect.Value).CanAddr", "(reflect.Value).CanSet", "(reflect.Value).CanInterface":
	default:
		return false
	}
	if neg {
		return pred.Succs[1] == to
	}
	return pred.Succs[0] == to
}
