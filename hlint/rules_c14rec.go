package main

// Every recursion on the decode path reads the stream (C14.R9).
//
// The readers recurse over the INPUT: each level of ReadData → readList →
// ReadData consumes at least a tag, so the depth is bounded by the size of the
// input.  A function that recurses over DECODED data — a helper walking a
// list it has just built — has no such bound: a Hessian list can contain
// itself through a back-reference (`x79 x51 x91`), the walk never ends and the
// stack overflow is fatal, not a recoverable panic (seeded C14n: a recursive
// `hashableKey` over list-valued map keys).  Obligation per package function
// the decode entry points reach that lies on a cycle of in-package calls
// (call graph: static calls and resolved function values): a read of the input stream is reachable from it (it belongs to the
// stream-read closure).  Necessary, not sufficient: it does not prove that
// every turn of the cycle consumes input (C14.R3 / R7 cover the loops).

import (
	"fmt"
	"go/types"
	"sort"

	"golang.org/x/tools/go/ssa"
)

func (w *World) ruleRecursionReadsStream(r *Report, rule string, min int) {
	reach := w.reachPkg(w.decodeEntryPoints()...)
	closure := w.canReach(w.streamConsumers())
	var fns []*ssa.Function
	for _, fn := range w.SrcFuncs() {
		if (reach[fn] || reach[rootFn(fn)]) && fn.Blocks != nil {
			fns = append(fns, fn)
		}
	}
	sort.Slice(fns, func(i, j int) bool { return fnName(fns[i]) < fnName(fns[j]) })
	in := map[*ssa.Function]bool{}
	for _, f := range fns {
		in[f] = true
	}
	// edges: the call-graph callees inside the package (static calls, and the
	// resolved targets of function values, method values and interface calls),
	// and the literals a function makes (they run on its behalf)
	edges := func(f *ssa.Function) []*ssa.Function {
		var out []*ssa.Function
		for _, c := range w.cgCallees(f) {
			if w.inPkg(c) {
				out = append(out, c)
			}
		}
		out = append(out, f.AnonFuncs...)
		return out
	}
	// onCycle(f): f reaches itself through in-package calls
	onCycle := func(f *ssa.Function) bool {
		seen := map[*ssa.Function]bool{}
		var stack []*ssa.Function
		stack = append(stack, edges(f)...)
		for len(stack) > 0 {
			g := stack[len(stack)-1]
			stack = stack[:len(stack)-1]
			if g == f {
				return true
			}
			if seen[g] || !in[g] {
				continue
			}
			seen[g] = true
			stack = append(stack, edges(g)...)
		}
		return false
	}
	// the stream-read closure over the same edges (a function that only makes
	// the literal that reads counts as reaching the read)
	for changed := true; changed; {
		changed = false
		for _, f := range w.SrcFuncs() {
			if closure[f] {
				continue
			}
			for _, c := range edges(f) {
				if closure[c] {
					closure[f] = true
					changed = true
					break
				}
			}
		}
	}
	n := 0
	for _, f := range fns {
		if !onCycle(f) {
			continue
		}
		// decoded data travels as interface{} / reflect.Value (or containers of
		// them); a recursion none of whose inputs has such a type — an error
		// chain's Error(), a walk over reflect.Type — does not descend decoded data
		carries := false
		for _, p := range f.Params {
			if carriesDecoded(p.Type(), 0) {
				carries = true
			}
		}
		for _, fv := range f.FreeVars {
			if carriesDecoded(fv.Type(), 0) {
				carries = true
			}
		}
		if !carries && !closure[f] {
			continue
		}
		n++
		ok := closure[f]
		r.add(rule, fmt.Sprintf("%s · recursive on the decode path", fnName(f)), w.pos(f.Pos()), ok, map[bool]string{
			true:  "a read of the input stream is reachable from the function: the recursion descends the input",
			false: "no read of the input stream is reachable from this recursive function: it recurses over decoded data, which can contain itself through a back-reference — unbounded recursion, fatal stack overflow"}[ok])
	}
	r.floor(rule+" (recursive functions on the decode path)", n, min)
}

func carriesDecoded(t types.Type, depth int) bool {
	if depth > 3 {
		return false
	}
	if typeStr(t) == "reflect.Value" {
		return true
	}
	switch u := t.Underlying().(type) {
	case *types.Interface:
		return u.NumMethods() == 0
	case *types.Slice:
		return carriesDecoded(u.Elem(), depth+1)
	case *types.Array:
		return carriesDecoded(u.Elem(), depth+1)
	case *types.Map:
		return carriesDecoded(u.Key(), depth+1) || carriesDecoded(u.Elem(), depth+1)
	case *types.Pointer:
		return carriesDecoded(u.Elem(), depth+1)
	}
	return false
}
