package main

// initvals — what the package-level variables hold once package
// initialisation is over.
//
// A dispatch written as a lookup table (`var kinds = tabulate(rules)`,
// `var leaf = [...]func(..){reflect.Bool: leafBool, …}`, tables filled by an
// `init()` with loops) is the same function of the tag / kind as the switch it
// replaces, but the function lives in DATA computed before main starts.  This
// file computes that data: a small concrete interpreter of the SSA of the
// package initialiser (the synthetic `init`: variable initialisers in
// dependency order, then the declared init functions), over integers,
// booleans, strings, function values (with their bindings), pointers, slices,
// structs and arrays.  Everything else (interfaces, maps, floats, results of
// library calls) is UNKNOWN; an unknown never becomes known again:
//
//   * a branch on an unknown, a panic, an unsupported instruction or an
//     exhausted budget ABORTS the frame: the call is then treated as a call to
//     unknown code — results unknown, every cell reachable from its arguments
//     and every package variable the callee (transitively) mentions is
//     poisoned for good;
//   * a value handed to code that is not interpreted (library call, interface
//     boxing, map, channel, unknown pointer) ESCAPES: the cells reachable from
//     it are poisoned for good; a function value that escapes may be called by
//     anyone, so the variables it mentions are poisoned too.
//
// A rule may read a cell only if it is FROZEN (frozen.go): not poisoned, and
// reachable only from package variables that the code running after
// initialisation provably only reads.

import (
	"go/constant"
	"go/token"
	"go/types"
	"math/big"

	"golang.org/x/tools/go/ssa"
)

type cvKind int

const (
	cvUnkKind cvKind = iota
	cvInt
	cvBool
	cvString
	cvNil
	cvFunc
	cvPtr
	cvSlice
	cvAgg // struct or array value, tuple
)

type cval struct {
	k      cvKind
	I      *big.Int
	B      bool
	S      string
	Fn     *ssa.Function
	Bind   []*cval
	Cell   *cell // cvPtr: the pointee; cvSlice: the backing array
	Lo, Hi int   // cvSlice: window of the backing array
	Cap    int   // cvSlice: end of the capacity window
	Elems  []*cval
	T      types.Type
}

var cvUnk = &cval{k: cvUnkKind}

// cell: a memory location; aggregates have one sub-cell per field / element.
type cell struct {
	v        *cval
	sub      []*cell
	t        types.Type
	id       int
	poisoned bool // unknown for good
	grown    bool // backing array made by a reallocating append: extends in place
}

type ceval struct {
	w        *World
	globals  map[*ssa.Global]*cell
	steps    int
	maxSteps int
	nextID   int
	dead     bool // budget exhausted or the initialiser itself aborted: nothing is known
	mentions map[*ssa.Function][]*ssa.Global
}

const maxAggLen = 1 << 16

func (ce *ceval) newCell(t types.Type) *cell {
	ce.nextID++
	c := &cell{t: t, id: ce.nextID}
	switch u := t.Underlying().(type) {
	case *types.Struct:
		c.sub = make([]*cell, u.NumFields())
		for i := range c.sub {
			c.sub[i] = ce.newCell(u.Field(i).Type())
		}
		if len(c.sub) == 0 {
			c.v = &cval{k: cvAgg, T: t}
		}
	case *types.Array:
		if u.Len() > maxAggLen {
			c.v = cvUnk
			c.poisoned = true
			return c
		}
		c.sub = make([]*cell, int(u.Len()))
		for i := range c.sub {
			c.sub[i] = ce.newCell(u.Elem())
		}
		if len(c.sub) == 0 {
			c.v = &cval{k: cvAgg, T: t}
		}
	default:
		c.v = ce.zero(t)
	}
	return c
}

func (ce *ceval) zero(t types.Type) *cval {
	switch u := t.Underlying().(type) {
	case *types.Basic:
		switch {
		case u.Info()&types.IsInteger != 0:
			return &cval{k: cvInt, I: new(big.Int), T: t}
		case u.Info()&types.IsBoolean != 0:
			return &cval{k: cvBool, T: t}
		case u.Info()&types.IsString != 0:
			return &cval{k: cvString, T: t}
		case u.Kind() == types.UnsafePointer:
			return &cval{k: cvNil, T: t}
		}
		return cvUnk
	case *types.Pointer, *types.Signature, *types.Slice, *types.Map, *types.Chan, *types.Interface:
		return &cval{k: cvNil, T: t}
	case *types.Struct:
		v := &cval{k: cvAgg, T: t}
		for i := 0; i < u.NumFields(); i++ {
			v.Elems = append(v.Elems, ce.zero(u.Field(i).Type()))
		}
		return v
	case *types.Array:
		if u.Len() > maxAggLen {
			return cvUnk
		}
		v := &cval{k: cvAgg, T: t}
		for i := 0; i < int(u.Len()); i++ {
			v.Elems = append(v.Elems, ce.zero(u.Elem()))
		}
		return v
	}
	return cvUnk
}

func (ce *ceval) load(c *cell) *cval {
	if c == nil || c.poisoned {
		return cvUnk
	}
	if c.sub != nil {
		v := &cval{k: cvAgg, T: c.t}
		for _, s := range c.sub {
			v.Elems = append(v.Elems, ce.load(s))
		}
		return v
	}
	if c.v == nil {
		return cvUnk
	}
	return c.v
}

func (ce *ceval) store(c *cell, v *cval) {
	if c == nil || c.poisoned {
		// the location is unknown for good: what is put there is out of sight
		ce.escape(v)
		return
	}
	if c.sub != nil {
		if v.k == cvAgg && len(v.Elems) == len(c.sub) {
			for i, s := range c.sub {
				ce.store(s, v.Elems[i])
			}
			return
		}
		ce.poison(c)
		return
	}
	c.v = v
}

// poison: the cell and everything reachable from it is unknown from now on.
func (ce *ceval) poison(c *cell) {
	if c == nil || c.poisoned {
		return
	}
	c.poisoned = true
	old := c.v
	c.v = cvUnk
	for _, s := range c.sub {
		ce.poison(s)
	}
	if old != nil {
		ce.escape(old)
	}
}

// escape: v leaves the interpreted world.
func (ce *ceval) escape(v *cval) {
	if v == nil {
		return
	}
	switch v.k {
	case cvPtr, cvSlice:
		ce.poison(v.Cell)
	case cvAgg:
		for _, e := range v.Elems {
			ce.escape(e)
		}
	case cvFunc:
		for _, b := range v.Bind {
			ce.escape(b)
		}
		ce.poisonMentioned(v.Fn)
	}
}

// poisonMentioned: every package variable fn or anything it reaches in the
// package mentions is unknown from now on (fn may run at an unknown time, or
// ran in a way that was not followed).
func (ce *ceval) poisonMentioned(fn *ssa.Function) {
	if fn == nil {
		return
	}
	if ce.mentions == nil {
		ce.mentions = map[*ssa.Function][]*ssa.Global{}
	}
	gs, ok := ce.mentions[fn]
	if !ok {
		seen := map[*ssa.Global]bool{}
		fs := map[*ssa.Function]bool{}
		var visit func(f *ssa.Function)
		visit = func(f *ssa.Function) {
			if f == nil || fs[f] || f.Blocks == nil {
				return
			}
			fs[f] = true
			for _, af := range f.AnonFuncs {
				visit(af)
			}
			for _, b := range f.Blocks {
				for _, in := range b.Instrs {
					for _, op := range in.Operands(nil) {
						switch x := (*op).(type) {
						case *ssa.Global:
							if x.Pkg == ce.w.Pkg && !seen[x] {
								seen[x] = true
								gs = append(gs, x)
							}
						case *ssa.Function:
							visit(x)
						}
					}
					if c, ok := in.(ssa.CallInstruction); ok {
						for _, cal := range ce.w.calleesOf(c) {
							if ce.w.inPkg(cal) || cal.Synthetic != "" {
								visit(cal)
							}
						}
					}
				}
			}
		}
		visit(fn)
		ce.mentions[fn] = gs
	}
	for _, g := range gs {
		ce.poison(ce.globals[g])
	}
}

func (ce *ceval) wrapInt(x *big.Int, t types.Type) *cval {
	bits, signed, ok := intTypeInfo(ce.w, t)
	if !ok {
		if b, isB := t.Underlying().(*types.Basic); isB && b.Info()&types.IsInteger != 0 && b.Info()&types.IsUntyped != 0 {
			return &cval{k: cvInt, I: x, T: t}
		}
		return cvUnk
	}
	s, _ := ISet{{x, x}}.wrap(bits, signed)
	return &cval{k: cvInt, I: s.Min(), T: t}
}

func (ce *ceval) constVal(c *ssa.Const) *cval {
	if c.Value == nil {
		return ce.zero(c.Type())
	}
	switch c.Value.Kind() {
	case constant.Bool:
		return &cval{k: cvBool, B: constant.BoolVal(c.Value), T: c.Type()}
	case constant.String:
		return &cval{k: cvString, S: constant.StringVal(c.Value), T: c.Type()}
	case constant.Int:
		if b, ok := c.Type().Underlying().(*types.Basic); ok && b.Info()&types.IsInteger != 0 {
			if x, ok := new(big.Int).SetString(c.Value.ExactString(), 10); ok {
				return &cval{k: cvInt, I: x, T: c.Type()}
			}
		}
	}
	return cvUnk
}

type cframe struct {
	fn   *ssa.Function
	regs map[ssa.Value]*cval
	args []*cval
	bind []*cval
}

func (ce *ceval) val(fr *cframe, v ssa.Value) *cval {
	switch x := v.(type) {
	case *ssa.Const:
		return ce.constVal(x)
	case *ssa.Global:
		if c := ce.globals[x]; c != nil {
			return &cval{k: cvPtr, Cell: c, T: x.Type()}
		}
		return cvUnk
	case *ssa.Function:
		return &cval{k: cvFunc, Fn: x, T: x.Type()}
	case *ssa.Parameter:
		for i, p := range fr.fn.Params {
			if p == x && i < len(fr.args) {
				return fr.args[i]
			}
		}
		return cvUnk
	case *ssa.FreeVar:
		for i, p := range fr.fn.FreeVars {
			if p == x && i < len(fr.bind) {
				return fr.bind[i]
			}
		}
		return cvUnk
	}
	if r, ok := fr.regs[v]; ok {
		return r
	}
	return cvUnk
}

// call interprets fn; ok=false: the frame aborted.
func (ce *ceval) call(fn *ssa.Function, args, bind []*cval, depth int) ([]*cval, bool) {
	if ce.dead || fn.Blocks == nil || depth > 40 {
		return nil, false
	}
	fr := &cframe{fn: fn, regs: map[ssa.Value]*cval{}, args: args, bind: bind}
	var pred *ssa.BasicBlock
	b := fn.Blocks[0]
	for {
		// φ-nodes: simultaneous
		if pred != nil {
			pi := -1
			for i, q := range b.Preds {
				if q == pred {
					pi = i
				}
			}
			var phis []*ssa.Phi
			var vals []*cval
			for _, in := range b.Instrs {
				phi, ok := in.(*ssa.Phi)
				if !ok {
					break
				}
				phis = append(phis, phi)
				if pi >= 0 {
					vals = append(vals, ce.val(fr, phi.Edges[pi]))
				} else {
					vals = append(vals, cvUnk)
				}
			}
			for i, phi := range phis {
				fr.regs[phi] = vals[i]
			}
		}
		var next *ssa.BasicBlock
		for _, in := range b.Instrs {
			ce.steps++
			if ce.steps > ce.maxSteps {
				ce.dead = true
				return nil, false
			}
			switch x := in.(type) {
			case *ssa.Phi, *ssa.DebugRef:
			case *ssa.Alloc:
				pt, _ := x.Type().Underlying().(*types.Pointer)
				if pt == nil {
					return nil, false
				}
				fr.regs[x] = &cval{k: cvPtr, Cell: ce.newCell(pt.Elem()), T: x.Type()}
			case *ssa.Store:
				a := ce.val(fr, x.Addr)
				v := ce.val(fr, x.Val)
				if a.k == cvPtr {
					ce.store(a.Cell, v)
				} else {
					ce.escape(v)
				}
			case *ssa.UnOp:
				fr.regs[x] = ce.unop(fr, x)
			case *ssa.BinOp:
				fr.regs[x] = ce.binop(x.Op, ce.val(fr, x.X), ce.val(fr, x.Y), x.Type())
			case *ssa.Convert:
				a := ce.val(fr, x.X)
				if a.k == cvInt {
					fr.regs[x] = ce.wrapInt(a.I, x.Type())
				} else {
					ce.escape(a)
					fr.regs[x] = cvUnk
				}
			case *ssa.ChangeType:
				a := ce.val(fr, x.X)
				if a.k != cvUnkKind {
					c := *a
					c.T = x.Type()
					fr.regs[x] = &c
				} else {
					fr.regs[x] = cvUnk
				}
			case *ssa.MakeClosure:
				f, _ := x.Fn.(*ssa.Function)
				v := &cval{k: cvFunc, Fn: f, T: x.Type()}
				for _, bv := range x.Bindings {
					v.Bind = append(v.Bind, ce.val(fr, bv))
				}
				fr.regs[x] = v
			case *ssa.MakeSlice:
				n, c := ce.val(fr, x.Len), ce.val(fr, x.Cap)
				st, _ := x.Type().Underlying().(*types.Slice)
				if st == nil || n.k != cvInt || c.k != cvInt || !c.I.IsInt64() || c.I.Int64() < 0 || c.I.Int64() > maxAggLen || n.I.Sign() < 0 || n.I.Cmp(c.I) > 0 {
					fr.regs[x] = cvUnk
					break
				}
				arr := ce.newCell(types.NewArray(st.Elem(), c.I.Int64()))
				fr.regs[x] = &cval{k: cvSlice, Cell: arr, Lo: 0, Hi: int(n.I.Int64()), Cap: int(c.I.Int64()), T: x.Type()}
			case *ssa.Slice:
				v, ok := ce.slice(fr, x)
				if !ok {
					return nil, false
				}
				fr.regs[x] = v
			case *ssa.IndexAddr:
				base, idx := ce.val(fr, x.X), ce.val(fr, x.Index)
				fr.regs[x] = cvUnk
				if idx.k != cvInt || !idx.I.IsInt64() {
					ce.escape(base)
					break
				}
				i := int(idx.I.Int64())
				switch base.k {
				case cvPtr:
					if base.Cell.poisoned {
						break
					}
					if i < 0 || i >= len(base.Cell.sub) {
						return nil, false // index out of range panics
					}
					fr.regs[x] = &cval{k: cvPtr, Cell: base.Cell.sub[i], T: x.Type()}
				case cvSlice:
					if base.Cell.poisoned {
						break
					}
					if i < 0 || base.Lo+i >= base.Hi || base.Lo+i >= len(base.Cell.sub) {
						return nil, false
					}
					fr.regs[x] = &cval{k: cvPtr, Cell: base.Cell.sub[base.Lo+i], T: x.Type()}
				case cvNil:
					return nil, false
				}
			case *ssa.Index:
				base, idx := ce.val(fr, x.X), ce.val(fr, x.Index)
				fr.regs[x] = cvUnk
				if idx.k == cvInt && idx.I.IsInt64() {
					i := int(idx.I.Int64())
					if base.k == cvAgg {
						if i < 0 || i >= len(base.Elems) {
							return nil, false
						}
						fr.regs[x] = base.Elems[i]
					} else if base.k == cvString {
						if i < 0 || i >= len(base.S) {
							return nil, false
						}
						fr.regs[x] = &cval{k: cvInt, I: big.NewInt(int64(base.S[i])), T: x.Type()}
					}
				}
			case *ssa.FieldAddr:
				base := ce.val(fr, x.X)
				fr.regs[x] = cvUnk
				if base.k == cvPtr && !base.Cell.poisoned && x.Field < len(base.Cell.sub) {
					fr.regs[x] = &cval{k: cvPtr, Cell: base.Cell.sub[x.Field], T: x.Type()}
				} else if base.k == cvNil {
					return nil, false
				}
			case *ssa.Field:
				base := ce.val(fr, x.X)
				fr.regs[x] = cvUnk
				if base.k == cvAgg && x.Field < len(base.Elems) {
					fr.regs[x] = base.Elems[x.Field]
				}
			case *ssa.Extract:
				t := ce.val(fr, x.Tuple)
				fr.regs[x] = cvUnk
				if t.k == cvAgg && x.Index < len(t.Elems) {
					fr.regs[x] = t.Elems[x.Index]
				}
			case *ssa.Call:
				res, ok := ce.doCall(fr, x, depth)
				if !ok {
					return nil, false
				}
				fr.regs[x] = res
			case *ssa.MakeInterface:
				ce.escape(ce.val(fr, x.X))
				fr.regs[x] = cvUnk
			case *ssa.MapUpdate:
				ce.escape(ce.val(fr, x.Key))
				ce.escape(ce.val(fr, x.Value))
			case *ssa.Send:
				ce.escape(ce.val(fr, x.X))
			case *ssa.MakeMap, *ssa.MakeChan, *ssa.Lookup, *ssa.TypeAssert, *ssa.ChangeInterface, *ssa.Range, *ssa.Next, *ssa.SliceToArrayPointer, *ssa.MultiConvert:
				for _, op := range in.Operands(nil) {
					if *op != nil {
						if _, isMap := (*op).Type().Underlying().(*types.Map); !isMap {
							ce.escape(ce.val(fr, *op))
						}
					}
				}
				if v, ok := in.(ssa.Value); ok {
					fr.regs[v] = cvUnk
				}
			case *ssa.RunDefers:
			case *ssa.If:
				c := ce.val(fr, x.Cond)
				if c.k != cvBool {
					return nil, false
				}
				if c.B {
					next = b.Succs[0]
				} else {
					next = b.Succs[1]
				}
			case *ssa.Jump:
				next = b.Succs[0]
			case *ssa.Return:
				var out []*cval
				for _, r := range x.Results {
					out = append(out, ce.val(fr, r))
				}
				return out, true
			default:
				// Panic, Go, Defer, Select, …: not followed
				return nil, false
			}
		}
		if next == nil {
			return nil, false
		}
		pred, b = b, next
	}
}

func (ce *ceval) unop(fr *cframe, x *ssa.UnOp) *cval {
	a := ce.val(fr, x.X)
	switch x.Op {
	case token.MUL:
		if a.k == cvPtr {
			return ce.load(a.Cell)
		}
		return cvUnk
	case token.NOT:
		if a.k == cvBool {
			return &cval{k: cvBool, B: !a.B, T: x.Type()}
		}
	case token.SUB:
		if a.k == cvInt {
			return ce.wrapInt(new(big.Int).Neg(a.I), x.Type())
		}
	case token.XOR:
		if a.k == cvInt {
			return ce.wrapInt(new(big.Int).Not(a.I), x.Type())
		}
	}
	ce.escape(a)
	return cvUnk
}

func (ce *ceval) binop(op token.Token, a, b *cval, t types.Type) *cval {
	boolV := func(v bool) *cval { return &cval{k: cvBool, B: v, T: t} }
	switch {
	case a.k == cvInt && b.k == cvInt:
		c := a.I.Cmp(b.I)
		switch op {
		case token.EQL:
			return boolV(c == 0)
		case token.NEQ:
			return boolV(c != 0)
		case token.LSS:
			return boolV(c < 0)
		case token.LEQ:
			return boolV(c <= 0)
		case token.GTR:
			return boolV(c > 0)
		case token.GEQ:
			return boolV(c >= 0)
		}
		r := new(big.Int)
		switch op {
		case token.ADD:
			r.Add(a.I, b.I)
		case token.SUB:
			r.Sub(a.I, b.I)
		case token.MUL:
			r.Mul(a.I, b.I)
		case token.QUO:
			if b.I.Sign() == 0 {
				return cvUnk
			}
			r.Quo(a.I, b.I)
		case token.REM:
			if b.I.Sign() == 0 {
				return cvUnk
			}
			r.Rem(a.I, b.I)
		case token.AND:
			r.And(a.I, b.I)
		case token.OR:
			r.Or(a.I, b.I)
		case token.XOR:
			r.Xor(a.I, b.I)
		case token.AND_NOT:
			r.AndNot(a.I, b.I)
		case token.SHL:
			if b.I.Sign() < 0 {
				return cvUnk
			}
			if !b.I.IsInt64() || b.I.Int64() > 128 {
				return ce.wrapInt(new(big.Int), t)
			}
			r.Lsh(a.I, uint(b.I.Int64()))
		case token.SHR:
			if b.I.Sign() < 0 {
				return cvUnk
			}
			if !b.I.IsInt64() || b.I.Int64() > 128 {
				if a.I.Sign() < 0 {
					return ce.wrapInt(big.NewInt(-1), t)
				}
				return ce.wrapInt(new(big.Int), t)
			}
			r.Rsh(a.I, uint(b.I.Int64()))
		default:
			return cvUnk
		}
		return ce.wrapInt(r, t)
	case a.k == cvBool && b.k == cvBool:
		switch op {
		case token.EQL:
			return boolV(a.B == b.B)
		case token.NEQ:
			return boolV(a.B != b.B)
		}
	case a.k == cvString && b.k == cvString:
		switch op {
		case token.EQL:
			return boolV(a.S == b.S)
		case token.NEQ:
			return boolV(a.S != b.S)
		case token.LSS:
			return boolV(a.S < b.S)
		case token.LEQ:
			return boolV(a.S <= b.S)
		case token.GTR:
			return boolV(a.S > b.S)
		case token.GEQ:
			return boolV(a.S >= b.S)
		case token.ADD:
			return &cval{k: cvString, S: a.S + b.S, T: t}
		}
	case op == token.EQL || op == token.NEQ:
		// comparisons with nil
		isNil := func(v *cval) (bool, bool) { // (nil?, known?)
			switch v.k {
			case cvNil:
				return true, true
			case cvFunc, cvPtr, cvSlice:
				return false, true
			}
			return false, false
		}
		an, ak := isNil(a)
		bn, bk := isNil(b)
		if ak && bk && (an || bn) {
			return boolV((an == bn) == (op == token.EQL))
		}
		if a.k == cvPtr && b.k == cvPtr {
			return boolV((a.Cell == b.Cell) == (op == token.EQL))
		}
	}
	ce.escape(a)
	ce.escape(b)
	return cvUnk
}

func (ce *ceval) slice(fr *cframe, x *ssa.Slice) (*cval, bool) {
	base := ce.val(fr, x.X)
	bound := func(v ssa.Value, def int) (int, bool) {
		if v == nil {
			return def, true
		}
		c := ce.val(fr, v)
		if c.k != cvInt || !c.I.IsInt64() {
			return 0, false
		}
		return int(c.I.Int64()), true
	}
	switch base.k {
	case cvPtr: // pointer to array
		if _, isArr := base.Cell.t.Underlying().(*types.Array); !isArr || base.Cell.poisoned {
			return cvUnk, true
		}
		n := len(base.Cell.sub)
		lo, ok1 := bound(x.Low, 0)
		hi, ok2 := bound(x.High, n)
		mx, ok3 := bound(x.Max, n)
		if !ok1 || !ok2 || !ok3 {
			ce.escape(base)
			return cvUnk, true
		}
		if lo < 0 || lo > hi || hi > mx || mx > n {
			return nil, false
		}
		return &cval{k: cvSlice, Cell: base.Cell, Lo: lo, Hi: hi, Cap: mx, T: x.Type()}, true
	case cvSlice:
		lo, ok1 := bound(x.Low, 0)
		hi, ok2 := bound(x.High, base.Hi-base.Lo)
		mx, ok3 := bound(x.Max, base.Cap-base.Lo)
		if !ok1 || !ok2 || !ok3 {
			ce.escape(base)
			return cvUnk, true
		}
		if lo < 0 || lo > hi || hi > mx || base.Lo+mx > base.Cap {
			return nil, false
		}
		return &cval{k: cvSlice, Cell: base.Cell, Lo: base.Lo + lo, Hi: base.Lo + hi, Cap: base.Lo + mx, T: x.Type()}, true
	case cvNil:
		lo, ok1 := bound(x.Low, 0)
		hi, ok2 := bound(x.High, 0)
		if ok1 && ok2 && lo == 0 && hi == 0 {
			return base, true
		}
		return nil, false
	}
	ce.escape(base)
	return cvUnk, true
}

func tupleOf(vs []*cval) *cval { return &cval{k: cvAgg, Elems: vs} }

func (ce *ceval) doCall(fr *cframe, x *ssa.Call, depth int) (*cval, bool) {
	c := x.Common()
	var args []*cval
	for _, a := range c.Args {
		args = append(args, ce.val(fr, a))
	}
	unknownCall := func() (*cval, bool) {
		for _, a := range args {
			ce.escape(a)
		}
		return cvUnk, true
	}
	if c.IsInvoke() {
		ce.escape(ce.val(fr, c.Value))
		return unknownCall()
	}
	if bi, ok := c.Value.(*ssa.Builtin); ok {
		return ce.builtin(bi.Name(), args, x)
	}
	var fn *ssa.Function
	var bind []*cval
	if sc := c.StaticCallee(); sc != nil {
		fn = sc
		if mc, ok := c.Value.(*ssa.MakeClosure); ok {
			bind = ce.val(fr, mc).Bind
		}
	} else {
		fv := ce.val(fr, c.Value)
		if fv.k == cvNil {
			return nil, false // nil function call panics
		}
		if fv.k != cvFunc || fv.Fn == nil {
			return unknownCall()
		}
		fn, bind = fv.Fn, fv.Bind
	}
	// the initialisers of other packages cannot touch this package's variables
	if fn.Pkg != nil && fn.Pkg != ce.w.Pkg && fn.Name() == "init" && len(args) == 0 && fn.Signature.Recv() == nil {
		return tupleOf(nil), true
	}
	if fn.Blocks == nil || !(ce.w.inPkg(fn) || fn.Synthetic != "") {
		return unknownCall()
	}
	res, ok := ce.call(fn, args, bind, depth+1)
	if !ok {
		if ce.dead {
			return nil, false
		}
		// the callee was not followed to its end: as a call to unknown code that
		// may touch whatever it mentions
		for _, b := range bind {
			ce.escape(b)
		}
		ce.poisonMentioned(fn)
		return unknownCall()
	}
	if len(res) == 1 {
		return res[0], true
	}
	return tupleOf(res), true
}

func (ce *ceval) builtin(name string, args []*cval, x *ssa.Call) (*cval, bool) {
	intV := func(n int) *cval { return &cval{k: cvInt, I: big.NewInt(int64(n)), T: x.Type()} }
	switch name {
	case "len", "cap":
		if len(args) == 1 {
			a := args[0]
			switch a.k {
			case cvSlice:
				if name == "len" {
					return intV(a.Hi - a.Lo), true
				}
				if a.Cell.grown {
					return cvUnk, true // the capacity after a reallocation is the runtime's choice
				}
				return intV(a.Cap - a.Lo), true
			case cvString:
				if name == "len" {
					return intV(len(a.S)), true
				}
			case cvNil:
				return intV(0), true
			case cvAgg:
				return intV(len(a.Elems)), true
			case cvPtr:
				if at, ok := a.Cell.t.Underlying().(*types.Array); ok {
					return intV(int(at.Len())), true
				}
			}
		}
		return cvUnk, true
	case "append":
		if len(args) != 2 {
			break
		}
		s, add := args[0], args[1]
		st, _ := x.Type().Underlying().(*types.Slice)
		if st == nil || (s.k != cvSlice && s.k != cvNil) || (add.k != cvSlice && add.k != cvNil) {
			break
		}
		if s.k == cvSlice && s.Cell.poisoned || add.k == cvSlice && add.Cell.poisoned {
			break
		}
		var addVals []*cval
		if add.k == cvSlice {
			for i := add.Lo; i < add.Hi; i++ {
				addVals = append(addVals, ce.load(add.Cell.sub[i]))
			}
		}
		if len(addVals) == 0 {
			return s, true
		}
		if s.k == cvSlice && (s.Hi+len(addVals) <= s.Cap || (s.Cell.grown && s.Hi == len(s.Cell.sub))) {
			// in place (a backing array made by an earlier reallocation is taken to
			// have room: what the runtime over-allocates is not modelled)
			for len(s.Cell.sub) < s.Hi+len(addVals) {
				s.Cell.sub = append(s.Cell.sub, ce.newCell(st.Elem()))
			}
			for i, v := range addVals {
				ce.store(s.Cell.sub[s.Hi+i], v)
			}
			nc := s.Cap
			if s.Hi+len(addVals) > nc {
				nc = s.Hi + len(addVals)
			}
			return &cval{k: cvSlice, Cell: s.Cell, Lo: s.Lo, Hi: s.Hi + len(addVals), Cap: nc, T: x.Type()}, true
		}
		n := len(addVals)
		if s.k == cvSlice {
			n += s.Hi - s.Lo
		}
		if n > maxAggLen {
			break
		}
		arr := ce.newCell(types.NewArray(st.Elem(), int64(n)))
		arr.grown = true
		k := 0
		if s.k == cvSlice {
			for i := s.Lo; i < s.Hi; i++ {
				ce.store(arr.sub[k], ce.load(s.Cell.sub[i]))
				k++
			}
		}
		for _, v := range addVals {
			ce.store(arr.sub[k], v)
			k++
		}
		return &cval{k: cvSlice, Cell: arr, Lo: 0, Hi: n, Cap: n, T: x.Type()}, true
	case "copy":
		if len(args) == 2 && args[0].k == cvSlice && args[1].k == cvSlice && !args[0].Cell.poisoned && !args[1].Cell.poisoned {
			d, s := args[0], args[1]
			n := d.Hi - d.Lo
			if s.Hi-s.Lo < n {
				n = s.Hi - s.Lo
			}
			vals := make([]*cval, n)
			for i := 0; i < n; i++ {
				vals[i] = ce.load(s.Cell.sub[s.Lo+i])
			}
			for i := 0; i < n; i++ {
				ce.store(d.Cell.sub[d.Lo+i], vals[i])
			}
			return intV(n), true
		}
	case "panic":
		return nil, false
	}
	for _, a := range args {
		ce.escape(a)
	}
	return cvUnk, true
}

// initMemory: the package variables as package initialisation leaves them
// (nil when nothing could be established).
func (w *World) initMemory() *ceval {
	if w.initMem != nil {
		return w.initMem
	}
	ce := &ceval{w: w, globals: map[*ssa.Global]*cell{}, maxSteps: 3000000}
	w.initMem = ce
	for _, m := range w.Pkg.Members {
		if g, ok := m.(*ssa.Global); ok {
			if pt, ok := g.Type().Underlying().(*types.Pointer); ok {
				ce.globals[g] = ce.newCell(pt.Elem())
			}
		}
	}
	ini := w.Pkg.Func("init")
	if ini == nil || ini.Blocks == nil {
		ce.dead = true
		return ce
	}
	if _, ok := ce.call(ini, nil, nil, 0); !ok {
		ce.dead = true
	}
	return ce
}
