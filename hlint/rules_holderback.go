package main

// C04.R5d — a list converted for its first destination is handed back to its
// holder.
//
// A decoded list is registered as a holder (pending references wait on it);
// when it is bound to a typed destination its []interface{} is converted and
// the holder must take the converted slice (change), so that a reference met
// later — after the list is complete — binds the very same slice.  Holder
// role: the package struct with a reflect.Value field and a []reflect.Value
// field; change role: its method storing a reflect.Value parameter into that
// field; completed flag: its bool field.  Obligation per call of a package
// function returning (reflect.Value, error) whose argument is a load of a
// holder's value field, outside the branch guarded by the holder's completed
// flag (there the holder already has the converted slice): every path from the
// call to a successful return passes change(result) on the same holder.
// Skipping it "when nobody waits" makes two fields sharing one list decode as
// two slices.

import (
	"fmt"
	"go/types"

	"golang.org/x/tools/go/ssa"
)

func (w *World) holderRole() (named *types.Named, valueIdx, doneIdx int) {
	valueIdx, doneIdx = -1, -1
	for _, m := range w.Pkg.Members {
		t, ok := m.(*ssa.Type)
		if !ok {
			continue
		}
		nt, ok := t.Type().(*types.Named)
		if !ok {
			continue
		}
		st, ok := nt.Underlying().(*types.Struct)
		if !ok {
			continue
		}
		vi, di, li := -1, -1, -1
		for i := 0; i < st.NumFields(); i++ {
			switch typeStr(st.Field(i).Type()) {
			case "reflect.Value":
				vi = i
			case "[]reflect.Value":
				li = i
			case "bool":
				di = i
			}
		}
		if vi >= 0 && li >= 0 {
			return nt, vi, di
		}
	}
	return nil, -1, -1
}

func (w *World) ruleHolderTakesConverted(r *Report, rule string) {
	hn, vi, di := w.holderRole()
	if hn == nil {
		r.undecided(rule, "holder type", "-", "no struct with a reflect.Value and a []reflect.Value field found")
		return
	}
	isHolderField := func(v ssa.Value, idx int) (ssa.Value, bool) {
		ld, ok := v.(*ssa.UnOp)
		if !ok {
			return nil, false
		}
		fa, ok := ld.X.(*ssa.FieldAddr)
		if !ok || fa.Field != idx {
			return nil, false
		}
		pt, ok := fa.X.Type().Underlying().(*types.Pointer)
		if !ok || !types.Identical(pt.Elem(), hn) {
			return nil, false
		}
		return fa.X, true
	}
	// change role
	changers := map[*ssa.Function]bool{}
	for _, fn := range w.SrcFuncs() {
		recv := fn.Signature.Recv()
		if recv == nil || len(fn.Params) != 2 || typeStr(fn.Params[1].Type()) != "reflect.Value" {
			continue
		}
		if pt, ok := recv.Type().(*types.Pointer); !ok || !types.Identical(pt.Elem(), hn) {
			continue
		}
		for _, b := range fn.Blocks {
			for _, in := range b.Instrs {
				if st, ok := in.(*ssa.Store); ok && st.Val == ssa.Value(fn.Params[1]) {
					if fa, ok := st.Addr.(*ssa.FieldAddr); ok && fa.Field == vi {
						changers[fn] = true
					}
				}
			}
		}
	}
	n := 0
	for _, fn := range w.SrcFuncs() {
		idx := errIndex(fn.Signature)
		for _, b := range fn.Blocks {
			for ci, in := range b.Instrs {
				c, ok := in.(*ssa.Call)
				if !ok {
					continue
				}
				sc := c.Call.StaticCallee()
				if sc == nil || !w.inPkg(sc) || sc.Signature.Results().Len() != 2 || typeStr(sc.Signature.Results().At(0).Type()) != "reflect.Value" || !isErrorType(sc.Signature.Results().At(1).Type()) {
					continue
				}
				var holder ssa.Value
				for _, a := range c.Call.Args {
					if h, ok := isHolderField(a, vi); ok {
						holder = h
					}
				}
				if holder == nil {
					continue
				}
				// under the completed flag?
				under := false
				if di >= 0 {
					for _, d := range fn.Blocks {
						iff, ok := d.Instrs[len(d.Instrs)-1].(*ssa.If)
						if !ok {
							continue
						}
						if h2, ok := isHolderField(iff.Cond, di); ok && h2 == holder {
							t := d.Succs[0]
							if (t == b || t.Dominates(b)) && len(t.Preds) == 1 {
								under = true
							}
						}
					}
				}
				n++
				key := fmt.Sprintf("%s · conversion of a holder's list at %s", fnName(fn), w.instrPos(c))
				if under {
					o := r.add(rule, key, w.instrPos(c), true, "under the holder's completed flag: the holder already has the converted slice")
					o.Trivial = true
					continue
				}
				var result ssa.Value
				for _, ref := range *c.Referrers() {
					if ex, ok := ref.(*ssa.Extract); ok && ex.Index == 0 {
						result = ex
					}
				}
				isChange := func(in2 ssa.Instruction) bool {
					c2, ok := in2.(*ssa.Call)
					if !ok {
						return false
					}
					s2 := c2.Call.StaticCallee()
					return s2 != nil && changers[s2] && len(c2.Call.Args) == 2 && c2.Call.Args[0] == holder && (result == nil || c2.Call.Args[1] == result)
				}
				bad := ""
				seen := map[*ssa.BasicBlock]bool{}
				var walk func(x *ssa.BasicBlock, from int)
				walk = func(x *ssa.BasicBlock, from int) {
					if bad != "" {
						return
					}
					if from == 0 {
						if seen[x] {
							return
						}
						seen[x] = true
					}
					for i := from; i < len(x.Instrs); i++ {
						if isChange(x.Instrs[i]) {
							return
						}
					}
					switch t := x.Instrs[len(x.Instrs)-1].(type) {
					case *ssa.Return:
						if idx >= 0 && !isNilConst(t.Results[idx]) {
							return // a failure
						}
						bad = w.instrPos(t)
					default:
						for _, s := range x.Succs {
							walk(s, 0)
						}
					}
				}
				walk(b, ci+1)
				r.add(rule, key, w.instrPos(c), bad == "", map[bool]string{
					true:  "every path to a successful return hands the converted slice back to the holder",
					false: "the successful return at " + bad + " is reached without the holder taking the converted slice: a later reference to the same list binds a different slice"}[bad == ""])
			}
		}
	}
	r.floor(rule+" (conversions of a holder's list)", n, 1)
}
