package main

// C04.R5d — a list converted for its first destination is handed back to its
// holder.
//
// A decoded list is registered as a holder (pending references wait on it);
// when it is bound to a typed destination its []interface{} is converted and
// the holder must take the converted slice (change), so that a reference met
// later — after the list is complete — binds the very same slice.  Holder
// role: the package struct with a reflect.Value field and a []reflect.Value
// field; change role: its method storing a reflect.Value parameter into that
// field; completed flag: its bool field.  Obligation per call of a package
// function returning (reflect.Value, error) whose argument is a load of a
// holder's value field, outside the branch guarded by the holder's completed
// flag (there the holder already has the converted slice): every path from the
// call to a successful return passes change(result) on the same holder.
// Skipping it "when nobody waits" makes two fields sharing one list decode as
// two slices.

import (
	"fmt"
	"go/token"
	"go/types"

	"golang.org/x/tools/go/ssa"
)

func (w *World) holderRole() (named *types.Named, valueIdx, doneIdx int) {
	valueIdx, doneIdx = -1, -1
	for _, m := range w.Pkg.Members {
		t, ok := m.(*ssa.Type)
		if !ok {
			continue
		}
		nt, ok := t.Type().(*types.Named)
		if !ok {
			continue
		}
		st, ok := nt.Underlying().(*types.Struct)
		if !ok {
			continue
		}
		vi, di, li := -1, -1, -1
		for i := 0; i < st.NumFields(); i++ {
			switch typeStr(st.Field(i).Type()) {
			case "reflect.Value":
				vi = i
			case "[]reflect.Value":
				li = i
			case "bool":
				di = i
			}
		}
		if vi >= 0 && li >= 0 {
			return nt, vi, di
		}
	}
	return nil, -1, -1
}

func (w *World) ruleHolderTakesConverted(r *Report, rule string) {
	hn, vi, di := w.holderRole()
	if hn == nil {
		r.undecided(rule, "holder type", "-", "no struct with a reflect.Value and a []reflect.Value field found")
		return
	}
	isHolderField := func(v ssa.Value, idx int) (ssa.Value, bool) {
		ld, ok := v.(*ssa.UnOp)
		if !ok {
			return nil, false
		}
		fa, ok := ld.X.(*ssa.FieldAddr)
		if !ok || fa.Field != idx {
			return nil, false
		}
		pt, ok := fa.X.Type().Underlying().(*types.Pointer)
		if !ok || !types.Identical(pt.Elem(), hn) {
			return nil, false
		}
		return fa.X, true
	}
	// change role
	changers := map[*ssa.Function]bool{}
	for _, fn := range w.SrcFuncs() {
		recv := fn.Signature.Recv()
		if recv == nil || len(fn.Params) != 2 || typeStr(fn.Params[1].Type()) != "reflect.Value" {
			continue
		}
		if pt, ok := recv.Type().(*types.Pointer); !ok || !types.Identical(pt.Elem(), hn) {
			continue
		}
		for _, b := range fn.Blocks {
			for _, in := range b.Instrs {
				if st, ok := in.(*ssa.Store); ok && st.Val == ssa.Value(fn.Params[1]) {
					if fa, ok := st.Addr.(*ssa.FieldAddr); ok && fa.Field == vi {
						changers[fn] = true
					}
				}
			}
		}
	}
	n := 0
	for _, fn := range w.SrcFuncs() {
		idx := errIndex(fn.Signature)
		for _, b := range fn.Blocks {
			for ci, in := range b.Instrs {
				c, ok := in.(*ssa.Call)
				if !ok {
					continue
				}
				sc := c.Call.StaticCallee()
				if sc == nil || !w.inPkg(sc) || sc.Signature.Results().Len() != 2 || typeStr(sc.Signature.Results().At(0).Type()) != "reflect.Value" || !isErrorType(sc.Signature.Results().At(1).Type()) {
					continue
				}
				var holder ssa.Value
				for _, a := range c.Call.Args {
					if h, ok := isHolderField(a, vi); ok {
						holder = h
					}
				}
				if holder == nil {
					continue
				}
				// under the completed flag?
				under := false
				if di >= 0 {
					for _, d := range fn.Blocks {
						iff, ok := d.Instrs[len(d.Instrs)-1].(*ssa.If)
						if !ok {
							continue
						}
						if h2, ok := isHolderField(iff.Cond, di); ok && h2 == holder {
							t := d.Succs[0]
							if (t == b || t.Dominates(b)) && len(t.Preds) == 1 {
								under = true
							}
						}
					}
				}
				n++
				key := fmt.Sprintf("%s · conversion of a holder's list at %s", fnName(fn), w.instrPos(c))
				if under {
					o := r.add(rule, key, w.instrPos(c), true, "under the holder's completed flag: the holder already has the converted slice")
					o.Trivial = true
					continue
				}
				var result ssa.Value
				for _, ref := range *c.Referrers() {
					if ex, ok := ref.(*ssa.Extract); ok && ex.Index == 0 {
						result = ex
					}
				}
				isChange := func(in2 ssa.Instruction) bool {
					c2, ok := in2.(*ssa.Call)
					if !ok {
						return false
					}
					s2 := c2.Call.StaticCallee()
					return s2 != nil && changers[s2] && len(c2.Call.Args) == 2 && c2.Call.Args[0] == holder && (result == nil || c2.Call.Args[1] == result)
				}
				bad := ""
				seen := map[*ssa.BasicBlock]bool{}
				var walk func(x *ssa.BasicBlock, from int)
				walk = func(x *ssa.BasicBlock, from int) {
					if bad != "" {
						return
					}
					if from == 0 {
						if seen[x] {
							return
						}
						seen[x] = true
					}
					for i := from; i < len(x.Instrs); i++ {
						if isChange(x.Instrs[i]) {
							return
						}
					}
					switch t := x.Instrs[len(x.Instrs)-1].(type) {
					case *ssa.Return:
						if idx >= 0 && !isNilConst(t.Results[idx]) {
							return // a failure
						}
						bad = w.instrPos(t)
					default:
						for _, s := range x.Succs {
							walk(s, 0)
						}
					}
				}
				walk(b, ci+1)
				r.add(rule, key, w.instrPos(c), bad == "", map[bool]string{
					true:  "every path to a successful return hands the converted slice back to the holder",
					false: "the successful return at " + bad + " is reached without the holder taking the converted slice: a later reference to the same list binds a different slice"}[bad == ""])
			}
		}
	}
	r.floor(rule+" (conversions of a holder's list)", n, 1)
}

// ruleHolderIsRegistered — C04.R5e: where a holder is made for a decoded list,
// it is the holder that takes the list's place in the reference table.  In a
// function that allocates a holder and appends to the decoder's
// []reflect.Value table: the value appended, on the way that passes the
// allocation, derives from the holder (reflect.ValueOf(holder)).  Registering
// the raw slice instead hands later references a slice value that
// reflect.Append and the conversion to the destination type have since
// replaced.
func (w *World) ruleHolderIsRegistered(r *Report, rule string) {
	hn, _, _ := w.holderRole()
	if hn == nil {
		r.undecided(rule, "holder type", "-", "not found")
		return
	}
	n := 0
	for _, fn := range w.SrcFuncs() {
		var holderAllocs []*ssa.Alloc
		for _, b := range fn.Blocks {
			for _, in := range b.Instrs {
				if al, ok := in.(*ssa.Alloc); ok && al.Heap {
					if pt, ok := al.Type().Underlying().(*types.Pointer); ok && types.Identical(pt.Elem(), hn) {
						holderAllocs = append(holderAllocs, al)
					}
				}
			}
		}
		if len(holderAllocs) == 0 {
			continue
		}
		// appends to a Decoder []reflect.Value field
		for _, b := range fn.Blocks {
			for _, in := range b.Instrs {
				c, ok := in.(*ssa.Call)
				if !ok {
					continue
				}
				bi, isB := c.Call.Value.(*ssa.Builtin)
				if !isB || bi.Name() != "append" || len(c.Call.Args) != 2 {
					continue
				}
				if owner, _, ok := w.fieldOfLoad(c.Call.Args[0]); !ok || owner != "Decoder" || typeStr(c.Call.Args[0].Type()) != "[]reflect.Value" {
					continue
				}
				// the appended element: store into the varargs array
				var elem ssa.Value
				if sl, ok := c.Call.Args[1].(*ssa.Slice); ok {
					if arr, ok := sl.X.(*ssa.Alloc); ok {
						for _, ref := range *arr.Referrers() {
							if ia, ok := ref.(*ssa.IndexAddr); ok {
								for _, r2 := range *ia.Referrers() {
									if st, ok := r2.(*ssa.Store); ok {
										elem = st.Val
									}
								}
							}
						}
					}
				}
				if elem == nil {
					continue
				}
				derives := func(v ssa.Value) bool {
					seen := map[ssa.Value]bool{}
					var walk func(v ssa.Value, d int) bool
					walk = func(v ssa.Value, d int) bool {
						if seen[v] || d > 8 {
							return false
						}
						seen[v] = true
						for _, al := range holderAllocs {
							if v == ssa.Value(al) {
								return true
							}
						}
						switch x := v.(type) {
						case *ssa.Call:
							for _, a := range x.Call.Args {
								if walk(a, d+1) {
									return true
								}
							}
						case *ssa.MakeInterface:
							return walk(x.X, d+1)
						case *ssa.ChangeType:
							return walk(x.X, d+1)
						}
						return false
					}
					return walk(v, 0)
				}
				reachFrom := func(from, to *ssa.BasicBlock) bool {
					seen := map[*ssa.BasicBlock]bool{}
					var walk func(x *ssa.BasicBlock) bool
					walk = func(x *ssa.BasicBlock) bool {
						if x == to {
							return true
						}
						if seen[x] {
							return false
						}
						seen[x] = true
						for _, s := range x.Succs {
							if walk(s) {
								return true
							}
						}
						return false
					}
					return walk(from)
				}
				ok2, fact := false, "the value appended to the reference table on the way that passes the holder's allocation does not derive from the holder: later references to the list get the raw slice, not its holder"
				relevant := false
				if phi, isPhi := elem.(*ssa.Phi); isPhi {
					for i, e := range phi.Edges {
						pred := phi.Block().Preds[i]
						for _, al := range holderAllocs {
							if reachFrom(al.Block(), pred) {
								relevant = true
								if derives(e) {
									ok2, fact = true, "on the way that passes the holder's allocation the appended value is made from the holder"
								}
							}
						}
					}
				} else {
					for _, al := range holderAllocs {
						if reachFrom(al.Block(), b) {
							relevant = true
						}
					}
					if relevant && derives(elem) {
						ok2, fact = true, "the appended value is made from the holder"
					}
				}
				if !relevant {
					continue // the append of the branch that makes no holder (objects, maps)
				}
				n++
				r.add(rule, fnName(fn)+" · the holder takes the list's place in the table", w.instrPos(c), ok2, fact)
			}
		}
	}
	// no floor: a registrar that gets its holder from a helper is not an instance
	if n == 0 {
		o := r.add(rule, "census", "-", true, "no function both makes a holder and appends to the reference table after it")
		o.Trivial = true
	}
}

// ruleChangeStores — C04.R4b: the holder's change method takes the new slice
// unless it already holds the same storage.  Per change-role method (it stores
// its reflect.Value parameter into the holder's value field): every path from
// the entry to a return passes that store, except through the side of a
// comparison `old.Pointer() == new.Pointer()` on which the two are equal.  With
// the comparison inverted the holder keeps the slice that reflect.Append has
// just replaced, and every later reference binds the stale one.
func (w *World) ruleChangeStores(r *Report, rule string) {
	hn, vi, _ := w.holderRole()
	if hn == nil {
		r.undecided(rule, "holder type", "-", "not found")
		return
	}
	n := 0
	for _, fn := range w.SrcFuncs() {
		recv := fn.Signature.Recv()
		if recv == nil || len(fn.Params) != 2 || typeStr(fn.Params[1].Type()) != "reflect.Value" || fn.Signature.Results().Len() != 0 {
			continue
		}
		if pt, ok := recv.Type().(*types.Pointer); !ok || !types.Identical(pt.Elem(), hn) {
			continue
		}
		stores := map[*ssa.BasicBlock]bool{}
		for _, b := range fn.Blocks {
			for _, in := range b.Instrs {
				if st, ok := in.(*ssa.Store); ok && st.Val == ssa.Value(fn.Params[1]) {
					if fa, ok := st.Addr.(*ssa.FieldAddr); ok && fa.Field == vi {
						stores[b] = true
					}
				}
			}
		}
		if len(stores) == 0 {
			continue
		}
		n++
		isPointerOf := func(v ssa.Value) bool {
			c, ok := v.(*ssa.Call)
			return ok && (calleeName(&c.Call) == "Pointer" || calleeName(&c.Call) == "UnsafePointer")
		}
		excused := map[[2]*ssa.BasicBlock]bool{}
		for _, b := range fn.Blocks {
			iff, ok := b.Instrs[len(b.Instrs)-1].(*ssa.If)
			if !ok {
				continue
			}
			cond, neg := iff.Cond, false
			if u, isU := cond.(*ssa.UnOp); isU && u.Op == token.NOT {
				cond, neg = u.X, true
			}
			// the comparison may live in a bool helper (`sameStorage(old, new)`): what it
			// returns is, apart from constant false / true short cuts, the comparison
			if c, isC := cond.(*ssa.Call); isC {
				if sc := c.Call.StaticCallee(); sc != nil && w.inPkg(sc) && sc.Signature.Results().Len() == 1 {
					switch pointerCompareResult(sc) {
					case token.EQL:
						if neg {
							excused[[2]*ssa.BasicBlock{b, b.Succs[1]}] = true
						} else {
							excused[[2]*ssa.BasicBlock{b, b.Succs[0]}] = true
						}
					case token.NEQ:
						if neg {
							excused[[2]*ssa.BasicBlock{b, b.Succs[0]}] = true
						} else {
							excused[[2]*ssa.BasicBlock{b, b.Succs[1]}] = true
						}
					}
				}
				continue
			}
			bo, ok := cond.(*ssa.BinOp)
			if !ok || !isPointerOf(bo.X) || !isPointerOf(bo.Y) {
				continue
			}
			op := bo.Op
			if neg {
				if op == token.EQL {
					op = token.NEQ
				} else if op == token.NEQ {
					op = token.EQL
				}
			}
			switch op {
			case token.EQL:
				excused[[2]*ssa.BasicBlock{b, b.Succs[0]}] = true
			case token.NEQ:
				excused[[2]*ssa.BasicBlock{b, b.Succs[1]}] = true
			}
		}
		bad := ""
		seen := map[*ssa.BasicBlock]bool{}
		var walk func(b *ssa.BasicBlock)
		walk = func(b *ssa.BasicBlock) {
			if bad != "" || seen[b] || stores[b] {
				return
			}
			seen[b] = true
			if ret, ok := b.Instrs[len(b.Instrs)-1].(*ssa.Return); ok {
				bad = w.instrPos(ret)
				return
			}
			for _, s := range b.Succs {
				if !excused[[2]*ssa.BasicBlock{b, s}] {
					walk(s)
				}
			}
		}
		walk(fn.Blocks[0])
		r.add(rule, fnName(fn)+" · takes the new value unless it is the same storage", w.pos(fn.Pos()), bad == "", map[bool]string{
			true:  "every path to a return stores the parameter, except the side on which the old and the new Pointer() are equal",
			false: "the return at " + bad + " is reached without storing the new value on a path that has not found it to be the same storage: the holder keeps a slice that has been replaced"}[bad == ""])
	}
	if n == 0 {
		o := r.add(rule, "census", "-", true, "no change-role method")
		o.Trivial = true
	}
}

// pointerCompareResult: EQL if the bool function returns (constants apart: the false of
// a short-circuit `&&`, the true of `||`) a comparison Pointer() == Pointer(), NEQ for
// `!=`, ILLEGAL otherwise.
func pointerCompareResult(fn *ssa.Function) token.Token {
	found := token.ILLEGAL
	isPtr := func(v ssa.Value) bool {
		c, ok := v.(*ssa.Call)
		return ok && (calleeName(&c.Call) == "Pointer" || calleeName(&c.Call) == "UnsafePointer")
	}
	var visit func(v ssa.Value, d int) bool
	visit = func(v ssa.Value, d int) bool {
		if d > 6 {
			return false
		}
		switch x := v.(type) {
		case *ssa.Const:
			return true
		case *ssa.BinOp:
			if (x.Op == token.EQL || x.Op == token.NEQ) && isPtr(x.X) && isPtr(x.Y) {
				if found != token.ILLEGAL && found != x.Op {
					return false
				}
				found = x.Op
				return true
			}
			return false
		case *ssa.Phi:
			for _, e := range x.Edges {
				if !visit(e, d+1) {
					return false
				}
			}
			return true
		}
		return false
	}
	for _, b := range fn.Blocks {
		if ret, ok := b.Instrs[len(b.Instrs)-1].(*ssa.Return); ok && len(ret.Results) == 1 {
			if !visit(ret.Results[0], 0) {
				return token.ILLEGAL
			}
		}
	}
	return found
}
