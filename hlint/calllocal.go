package main

import (
	"go/token"

	"golang.org/x/tools/go/ssa"
)

// callLocalPtr: does the pointer v, on every way it can be reached, point to
// an object that lives in a local variable of one activation and is only
// handed DOWN by address (a parameter struct shared by the steps of one
// writer)?  Such an object cannot carry state from one message to the next:
// its fields are not per-stream state (C11.R1), whichever helper assigns them.
//
//	v is an Alloc whose address does not leak, or
//	v is a parameter of a function that is entered only by static in-package
//	calls, each of which passes such a pointer.
//
// "Leaks": the address is stored, boxed, captured, returned, handed to a
// dynamic / library / go / defer call, or to a package function whose
// parameter leaks it.  Loads and stores THROUGH the address are not leaks.
func (w *World) callLocalPtr(v ssa.Value) bool {
	return w.callLocalPtrD(v, map[ssa.Value]bool{}, 0)
}

func (w *World) callLocalPtrD(v ssa.Value, onStack map[ssa.Value]bool, depth int) bool {
	if depth > 6 || onStack[v] {
		return false
	}
	onStack[v] = true
	defer delete(onStack, v)
	switch x := v.(type) {
	case *ssa.Alloc:
		return !w.addrLeaks(x, map[ssa.Value]bool{})
	case *ssa.IndexAddr:
		// a row of a local array that is only filled by its own function and read by
		// the helpers it is handed to as a slice (pxlocaltab.go): it dies with the call
		if al, ok := x.X.(*ssa.Alloc); ok {
			return w.localTable(al)
		}
		return false
	case *ssa.Phi:
		for _, e := range x.Edges {
			if !w.callLocalPtrD(e, onStack, depth+1) {
				return false
			}
		}
		return len(x.Edges) > 0
	case *ssa.Parameter:
		g := x.Parent()
		pi := -1
		for i, p := range g.Params {
			if p == x {
				pi = i
			}
		}
		if pi < 0 {
			return false
		}
		if _, ok := w.staticCallersOf(g); !ok {
			return false
		}
		n := 0
		for _, e := range w.CG.Nodes[g].In {
			c, ok := e.Site.(*ssa.Call)
			if !ok || pi >= len(c.Call.Args) {
				return false
			}
			if !w.callLocalPtrD(c.Call.Args[pi], onStack, depth+1) {
				return false
			}
			n++
		}
		return n > 0
	}
	return false
}

// addrLeaks: can the address v outlive / leave the activations it is handed to?
func (w *World) addrLeaks(v ssa.Value, seen map[ssa.Value]bool) bool {
	if seen[v] {
		return false // already being examined: a leak is reported where it happens
	}
	seen[v] = true
	refs := v.Referrers()
	if refs == nil {
		return true
	}
	for _, ref := range *refs {
		switch x := ref.(type) {
		case *ssa.DebugRef:
		case *ssa.UnOp:
			if x.Op != token.MUL {
				return true
			}
		case *ssa.Store:
			if x.Val == v {
				return true
			}
		case *ssa.FieldAddr:
			if w.partAddrLeaks(x, 0) {
				return true
			}
		case *ssa.Phi:
			if w.addrLeaks(x, seen) {
				return true
			}
		case *ssa.Call:
			if x.Call.IsInvoke() {
				return true
			}
			sc := x.Call.StaticCallee()
			if sc == nil || sc.Blocks == nil || !w.inPkg(sc) || x.Call.Value == v {
				return true
			}
			for ai, a := range x.Call.Args {
				if a != v {
					continue
				}
				if ai >= len(sc.Params) || w.addrLeaks(sc.Params[ai], seen) {
					return true
				}
			}
		default:
			return true
		}
	}
	return false
}

// partAddrLeaks: the address of a field (or of a field of a field) is only
// loaded from and stored to.
func (w *World) partAddrLeaks(a ssa.Value, depth int) bool {
	refs := a.Referrers()
	if refs == nil || depth > 3 {
		return true
	}
	for _, ref := range *refs {
		switch x := ref.(type) {
		case *ssa.DebugRef:
		case *ssa.UnOp:
			if x.Op != token.MUL {
				return true
			}
		case *ssa.Store:
			if x.Val == a {
				return true
			}
		case *ssa.FieldAddr:
			if w.partAddrLeaks(x, depth+1) {
				return true
			}
		default:
			return true
		}
	}
	return false
}
