package main

// C06.R4 (generalised) — a failed read on the decode path surfaces.
//
// The decode closure is every package function from which a read of the input
// stream is reachable.  For every call in it whose callee is in the closure
// (or is the stream read itself: a library function handed the stream, a
// Read* method of the stream interface) and returns an error, the error is
// consumed in the sense of the error-flow engine (E2): returned, or tested
// against nil with every path from the non-nil side ending in a return of a
// non-nil error — with the decoder's one sentinel: `err == io.EOF` may end a
// loop (the terminator protocol).  An inverted test (`if err == nil { return
// …, err }`), a dropped result or an error tested and then replaced by nil
// make a truncated or damaged message decode "successfully" into something
// else.

import (
	"fmt"
	"go/types"

	"golang.org/x/tools/go/ssa"
)

// streamConsumers: functions that read the input stream themselves.
func (w *World) streamConsumers() map[*ssa.Function]bool {
	out := map[*ssa.Function]bool{}
	for _, fn := range w.allPkgFuncs() {
		for _, b := range fn.Blocks {
			for _, in := range b.Instrs {
				c, ok := in.(*ssa.Call)
				if ok && w.isStreamRead(c) {
					out[fn] = true
				}
			}
		}
	}
	return out
}

// isStreamRead: a Read* method of a reader interface, or library code handed the stream.
func (w *World) isStreamRead(c *ssa.Call) bool {
	if c.Call.IsInvoke() {
		switch c.Call.Method.Name() {
		case "ReadByte", "ReadRune", "Read":
			return true
		}
		return false
	}
	sc := c.Call.StaticCallee()
	if sc == nil || w.inPkg(sc) {
		return false
	}
	for _, a := range c.Call.Args {
		if it, ok := a.Type().Underlying().(*types.Interface); ok {
			for i := 0; i < it.NumMethods(); i++ {
				if n := it.Method(i).Name(); n == "Read" || n == "ReadByte" {
					return true
				}
			}
		}
	}
	return false
}

func (w *World) ruleDecoderErrorsPropagate(r *Report, rule string) {
	closure := w.canReach(w.streamConsumers())
	reach := w.reachPkg(w.decodeEntryPoints()...)
	n := 0
	for _, fn := range w.SrcFuncs() {
		if !closure[fn] || (!reach[fn] && !reach[rootFn(fn)]) {
			continue
		}
		for _, cs := range w.callSitesIn(fn) {
			if errIndex(cs.call.Call.Signature()) < 0 {
				continue
			}
			relevant := w.isStreamRead(cs.call)
			if !relevant {
				for _, cal := range w.calleesOf(cs.call) {
					if w.inPkg(cal) && closure[cal] {
						relevant = true
					}
				}
			}
			if !relevant {
				continue
			}
			n++
			ok, fact := w.errConsumed(cs.call, errOpts{allowEOFSentinel: true})
			o := r.add(rule, fmt.Sprintf("%s · %s", fnName(fn), cs.key()), w.instrPos(cs.call), ok, fact)
			o.Trivial = ok && len(fact) > 9 && fact[:9] == "forwarded"
		}
	}
	r.floor(rule+" (calls on the decode path that can report a read failure)", n, 40)
}

// ruleInternalErrorsPropagate: the remaining error-returning calls of the
// package (neither a destination write — C15.R1 — nor on the stream-read
// closure — C06.R4): conversions and bindings on the decode side, lookups on
// the encode side.  Same obligation: the error is consumed.
func (w *World) ruleInternalErrorsPropagate(r *Report, rule string, min int) {
	closure := w.canReach(w.streamConsumers())
	n := 0
	for _, fn := range w.SrcFuncs() {
		for _, cs := range w.callSitesIn(fn) {
			if errIndex(cs.call.Call.Signature()) < 0 {
				continue
			}
			if w.isStreamRead(cs.call) {
				continue
			}
			inpkg, covered := false, false
			for _, cal := range w.calleesOf(cs.call) {
				if w.inPkg(cal) {
					inpkg = true
					if closure[cal] && closure[fn] {
						covered = true
					}
				}
			}
			if !inpkg || covered {
				continue
			}
			// idioms: (1) a callee none of whose returns carries an error (the
			// result exists for the signature only) may be ignored; (2) the field
			// lookup reports a miss through its error — the unknown-field case,
			// whose handling (the value is consumed, the loop continues) is C05's.
			never, lookup := true, false
			for _, cal := range w.calleesOf(cs.call) {
				if !w.inPkg(cal) || !(neverFails(cal) || neverFailsAt(cs.call, cal)) {
					never = false
				}
				if isFieldLookup(w, cal) >= 0 {
					lookup = true
				}
			}
			n++
			if never {
				o := r.add(rule, fmt.Sprintf("%s · %s", fnName(fn), cs.key()), w.instrPos(cs.call), true, "no return of the callee carries an error: nothing to consume")
				o.Trivial = true
				continue
			}
			if w.neverFailsHere(cs.call) {
				// `key, _ := EnsureInterface(rawKey, nil)`: the callee only hands its error
				// argument back, and this site passes nil (rules_decerr_site.go)
				o := r.add(rule, fmt.Sprintf("%s · %s", fnName(fn), cs.key()), w.instrPos(cs.call), true, "every return of the callee carries nil or the error it was handed, and this call hands it nil: nothing to consume")
				o.Trivial = true
				continue
			}
			if lookup {
				ok, fact := w.errTested(cs.call)
				r.add(rule, fmt.Sprintf("%s · %s", fnName(fn), cs.key()), w.instrPos(cs.call), ok, "field lookup: a miss is the unknown-field case (handled under C05); "+fact)
				continue
			}
			if wrappedIntoResult(cs.call) {
				r.add(rule, fmt.Sprintf("%s · %s", fnName(fn), cs.key()), w.instrPos(cs.call), true, "the error becomes the cause field of the value the function returns (wrapped, not dropped)")
				continue
			}
			ok, fact := w.errConsumed(cs.call, errOpts{allowEOFSentinel: true})
			o := r.add(rule, fmt.Sprintf("%s · %s", fnName(fn), cs.key()), w.instrPos(cs.call), ok, fact)
			o.Trivial = ok && len(fact) > 9 && fact[:9] == "forwarded"
		}
	}
	r.floor(rule+" (error-returning internal calls off the read and write paths)", n, min)
}

// neverFails: every return of fn has the nil constant as its error operand.
func neverFails(fn *ssa.Function) bool {
	idx := errIndex(fn.Signature)
	if idx < 0 || fn.Blocks == nil {
		return false
	}
	for _, b := range fn.Blocks {
		if ret, ok := b.Instrs[len(b.Instrs)-1].(*ssa.Return); ok {
			c, isC := ret.Results[idx].(*ssa.Const)
			if !isC || !c.IsNil() {
				return false
			}
		}
	}
	return true
}

// neverFailsAt: at THIS call the callee cannot report an error: every return of the
// callee carries, as its error operand, the nil constant or one of the callee's own
// error parameters handed on untouched (possibly through φ-nodes), and the call
// passes the nil constant for each such parameter (`it, _ := EnsureInterface(item,
// nil)` after the caller has tested the element read's error itself: the helper only
// forwards the error it is given).  Static calls only (the operands are matched
// with the parameters by position).
func neverFailsAt(c *ssa.Call, fn *ssa.Function) bool {
	idx := errIndex(fn.Signature)
	if idx < 0 || fn.Blocks == nil || c.Call.IsInvoke() || c.Call.StaticCallee() != fn || len(c.Call.Args) != len(fn.Params) {
		return false
	}
	nilArg := map[*ssa.Parameter]bool{}
	for i, p := range fn.Params {
		if k, isC := c.Call.Args[i].(*ssa.Const); isC && k.IsNil() && types.Identical(p.Type(), fn.Signature.Results().At(idx).Type()) {
			nilArg[p] = true
		}
	}
	if len(nilArg) == 0 {
		return false
	}
	seen := map[ssa.Value]bool{}
	var isNil func(v ssa.Value) bool
	isNil = func(v ssa.Value) bool {
		if seen[v] {
			return true
		}
		seen[v] = true
		switch x := v.(type) {
		case *ssa.Const:
			return x.IsNil()
		case *ssa.Parameter:
			return nilArg[x]
		case *ssa.Phi:
			for _, e := range x.Edges {
				if !isNil(e) {
					return false
				}
			}
			return true
		}
		return false
	}
	for _, b := range fn.Blocks {
		if ret, ok := b.Instrs[len(b.Instrs)-1].(*ssa.Return); ok {
			if !isNil(ret.Results[idx]) {
				return false
			}
		}
	}
	return true
}

// errTested: the error result of the call is compared with nil and the index
// result is used only on the nil side (the miss side must not use it).
func (w *World) errTested(c *ssa.Call) (bool, string) {
	idx := errIndex(c.Call.Signature())
	var errV, valV ssa.Value
	for _, ref := range *c.Referrers() {
		if ex, ok := ref.(*ssa.Extract); ok {
			if ex.Index == idx {
				errV = ex
			} else {
				valV = ex
			}
		}
	}
	if errV == nil {
		return false, "the error result is dropped"
	}
	var test *ssa.If
	nilSucc := 0
	for _, ref := range *errV.Referrers() {
		if bo, ok := ref.(*ssa.BinOp); ok {
			_, cx := bo.X.(*ssa.Const)
			_, cy := bo.Y.(*ssa.Const)
			if !cx && !cy {
				continue
			}
			for _, r2 := range *bo.Referrers() {
				if iff, ok := r2.(*ssa.If); ok {
					test = iff
					if bo.Op.String() == "!=" {
						nilSucc = 1
					}
				}
			}
		}
	}
	if test == nil {
		return false, "the error result is not tested against nil"
	}
	if valV == nil {
		return true, "tested against nil"
	}
	good := test.Block().Succs[nilSucc]
	for _, ref := range *valV.Referrers() {
		if ref.Block() == nil || !(ref.Block() == good || good.Dominates(ref.Block())) {
			return false, fmt.Sprintf("the looked-up index is used at %s outside the side on which the lookup succeeded", w.instrPos(ref))
		}
	}
	return true, "tested against nil; the index is used on the success side only"
}

// wrappedIntoResult: every use of the error result of c is a store into a
// field of a local composite whose value is returned by the function (the
// constructor of a wrapping error keeps its cause).
func wrappedIntoResult(c *ssa.Call) bool {
	idx := errIndex(c.Call.Signature())
	var errV ssa.Value
	if c.Call.Signature().Results().Len() == 1 {
		errV = c
	} else {
		for _, ref := range *c.Referrers() {
			if ex, ok := ref.(*ssa.Extract); ok && ex.Index == idx {
				errV = ex
			}
		}
	}
	if errV == nil || len(*errV.Referrers()) == 0 {
		return false
	}
	returned := func(al *ssa.Alloc) bool {
		for _, ref := range *al.Referrers() {
			ld, ok := ref.(*ssa.UnOp)
			if !ok {
				continue
			}
			for _, r2 := range *ld.Referrers() {
				switch t := r2.(type) {
				case *ssa.Return:
					return true
				case *ssa.MakeInterface:
					for _, r3 := range *t.Referrers() {
						if _, ok := r3.(*ssa.Return); ok {
							return true
						}
					}
				}
			}
		}
		return false
	}
	for _, ref := range *errV.Referrers() {
		if _, isDbg := ref.(*ssa.DebugRef); isDbg {
			continue
		}
		st, ok := ref.(*ssa.Store)
		if !ok || st.Val != errV {
			return false
		}
		fa, ok := st.Addr.(*ssa.FieldAddr)
		if !ok {
			return false
		}
		al, ok := fa.X.(*ssa.Alloc)
		if !ok || !returned(al) {
			return false
		}
	}
	return true
}
