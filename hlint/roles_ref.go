package main

// Roles of the reference / type code found by what the functions do.
//
// A handful of rules name the function that plays a role by its conventional
// display name ("(*Decoder).readType", "(*_refHolder).change" …): in look-ups
// (w.fn), in the callee→production table of the dispatch maps and in
// comparisons of call-site names.  When no function of that name exists, the
// role is looked for structurally; if exactly one function fits, it is given
// the conventional name as its display name (obligation keys and evidence stay
// the same whatever the function is called in the source).  Nothing fits, or
// more than one does: the role stays unresolved and the rules that need it say
// UNDECIDED as before.  A name that exists is never re-assigned.

import (
	"go/types"
	"sort"

	"golang.org/x/tools/go/ssa"
)

// roleAlias: display name of a function that plays a conventionally named role
// under another source name (consulted by fnName).
var roleAlias = map[*ssa.Function]string{}

type roleFinder struct {
	name string
	find func(w *World) []*ssa.Function
}

func (w *World) methodsOf(typeName string) []*ssa.Function {
	var out []*ssa.Function
	for _, fn := range w.SrcFuncs() {
		if fn.Parent() != nil || fn.Signature.Recv() == nil {
			continue
		}
		t := fn.Signature.Recv().Type()
		if p, ok := t.(*types.Pointer); ok {
			t = p.Elem()
		}
		if n, ok := t.(*types.Named); ok && n.Obj().Pkg() == w.TPkg && n.Obj().Name() == typeName {
			out = append(out, fn)
		}
	}
	return out
}

func sigIs(fn *ssa.Function, params, results []string) bool {
	sig := fn.Signature
	if sig.Params().Len() != len(params) || sig.Results().Len() != len(results) || sig.Variadic() {
		return false
	}
	for i, p := range params {
		if typeStr(sig.Params().At(i).Type()) != p {
			return false
		}
	}
	for i, r := range results {
		if typeStr(sig.Results().At(i).Type()) != r {
			return false
		}
	}
	return true
}

// storesField / loadsField / appendsField: what fn itself does with field idx
// of the named struct.
func (w *World) fieldUse(fn *ssa.Function, owner string, idx int) (loads, stores, appends bool) {
	for _, b := range fn.Blocks {
		for _, in := range b.Instrs {
			switch x := in.(type) {
			case *ssa.UnOp:
				if o, f, ok := w.fieldOfLoad(x); ok && o == owner && f == idx {
					loads = true
				}
			case *ssa.Store:
				fa, ok := x.Addr.(*ssa.FieldAddr)
				if !ok || fa.Field != idx {
					continue
				}
				pt, ok := fa.X.Type().Underlying().(*types.Pointer)
				if !ok {
					continue
				}
				n, ok := pt.Elem().(*types.Named)
				if !ok || n.Obj().Pkg() != w.TPkg || n.Obj().Name() != owner {
					continue
				}
				stores = true
				if c, ok := x.Val.(*ssa.Call); ok {
					if bi, ok := c.Call.Value.(*ssa.Builtin); ok && bi.Name() == "append" {
						appends = true
					}
				}
			}
		}
	}
	return
}

func (w *World) fieldsOfType(owner, typ string) []int {
	_, st := w.structOf(owner)
	var out []int
	for i := 0; st != nil && i < st.NumFields(); i++ {
		if typeStr(st.Field(i).Type()) == typ {
			out = append(out, i)
		}
	}
	return out
}

func (w *World) refRoleFinders() []roleFinder {
	return []roleFinder{
		// the back-reference writer: the Encoder method that is handed result #0 of the registrar
		{"(*Encoder).writeRef", func(w *World) []*ssa.Function {
			reg := w.encRegistrar()
			if reg == nil {
				return nil
			}
			set := map[*ssa.Function]bool{}
			for _, fn := range w.SrcFuncs() {
				for _, c := range callsTo(fn, reg) {
					if c.Referrers() == nil {
						continue
					}
					for _, ref := range *c.Referrers() {
						ex, ok := ref.(*ssa.Extract)
						if !ok || ex.Index != 0 || ex.Referrers() == nil {
							continue
						}
						for _, r2 := range *ex.Referrers() {
							if c2, ok := r2.(*ssa.Call); ok {
								if sc := c2.Call.StaticCallee(); sc != nil && w.inPkg(sc) && sigIs(sc, []string{"int"}, []string{"int", "error"}) {
									set[sc] = true
								}
							}
						}
					}
				}
			}
			return fnSetList(set)
		}},
		// the back-reference reader: Decoder method (octet) → (reflect.Value, error) that reads the ref list
		{"(*Decoder).readRef", func(w *World) []*ssa.Function {
			fi := w.decRefField()
			set := map[*ssa.Function]bool{}
			for _, fn := range w.methodsOf("Decoder") {
				if !sigIs(fn, []string{"byte"}, []string{"reflect.Value", "error"}) {
					continue
				}
				if ld, _, _ := w.fieldUse(fn, "Decoder", fi); ld && fi >= 0 {
					set[fn] = true
				}
			}
			return fnSetList(set)
		}},
		// the type reader: Decoder method () → (string, error) that numbers literal types
		// (appends to the per-stream []string list)
		{"(*Decoder).readType", func(w *World) []*ssa.Function {
			set := map[*ssa.Function]bool{}
			for _, fn := range w.methodsOf("Decoder") {
				if !sigIs(fn, nil, []string{"string", "error"}) {
					continue
				}
				for _, fi := range w.fieldsOfType("Decoder", "[]string") {
					if _, _, app := w.fieldUse(fn, "Decoder", fi); app {
						set[fn] = true
					}
				}
			}
			return fnSetList(set)
		}},
		// holder.change: the holder method that is handed a reflect.Value and stores it
		// into the holder's reflect.Value field
		{"(*_refHolder).change", func(w *World) []*ssa.Function {
			set := map[*ssa.Function]bool{}
			for _, fn := range w.methodsOf("_refHolder") {
				if !sigIs(fn, []string{"reflect.Value"}, nil) {
					continue
				}
				for _, fi := range w.fieldsOfType("_refHolder", "reflect.Value") {
					if _, st, _ := w.fieldUse(fn, "_refHolder", fi); st {
						set[fn] = true
					}
				}
			}
			return fnSetList(set)
		}},
		// holder.add: the holder method that queues a destination (appends to the
		// holder's []reflect.Value field)
		{"(*_refHolder).add", func(w *World) []*ssa.Function {
			set := map[*ssa.Function]bool{}
			for _, fn := range w.methodsOf("_refHolder") {
				if !sigIs(fn, []string{"reflect.Value"}, nil) {
					continue
				}
				for _, fi := range w.fieldsOfType("_refHolder", "[]reflect.Value") {
					if _, _, app := w.fieldUse(fn, "_refHolder", fi); app {
						set[fn] = true
					}
				}
			}
			return fnSetList(set)
		}},
		// holder.notify: the holder method without parameters that reads the queue
		{"(*_refHolder).notify", func(w *World) []*ssa.Function {
			set := map[*ssa.Function]bool{}
			for _, fn := range w.methodsOf("_refHolder") {
				if !sigIs(fn, nil, nil) {
					continue
				}
				for _, fi := range w.fieldsOfType("_refHolder", "[]reflect.Value") {
					if ld, _, _ := w.fieldUse(fn, "_refHolder", fi); ld {
						set[fn] = true
					}
				}
			}
			return fnSetList(set)
		}},
	}
}

func fnSetList(set map[*ssa.Function]bool) []*ssa.Function {
	var out []*ssa.Function
	for f := range set {
		out = append(out, f)
	}
	sort.Slice(out, func(i, j int) bool { return out[i].Pos() < out[j].Pos() })
	return out
}

// discoverRefRoles runs once per World, after the functions are indexed.
func (w *World) discoverRefRoles() {
	w.applyRoleFinders(w.refRoleFinders())
}

func (w *World) applyRoleFinders(finders []roleFinder) {
	for _, rf := range finders {
		if w.Funcs[rf.name] != nil {
			continue
		}
		cands := rf.find(w)
		if len(cands) != 1 {
			continue
		}
		fn := cands[0]
		if _, taken := roleAlias[fn]; taken {
			continue
		}
		for k, f := range w.Funcs {
			if f == fn {
				delete(w.Funcs, k) // indexed under its display name only
			}
		}
		roleAlias[fn] = rf.name
		w.Funcs[rf.name] = fn
	}
}
