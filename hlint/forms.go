package main

// E1 — wire forms of the scalar codecs, read off the SSA.

import (
	"fmt"
	"go/token"
	"go/types"
	"sort"

	"golang.org/x/tools/go/ssa"
)

type codec struct {
	Name string // int long double string binary bool date
	Enc  *ssa.Function
	Dec  *ssa.Function
	Wrap *ssa.Function // (*Decoder).readX wrapper tail-calling Dec
	EncW *ssa.Function // (*Encoder).writeX wrapper calling Enc
}

var codecByType = map[string]string{"int32": "int", "int64": "long", "float64": "double", "string": "string", "[]byte": "binary", "bool": "bool", "time.Time": "date"}

func typeStr(t types.Type) string {
	return types.TypeString(t, func(p *types.Package) string { return p.Name() })
}

// codecs discovers the scalar codec pairs structurally:
//
//	encoder: package-level func(T) []byte | ([]byte, error)
//	decoder: package-level func(ByteRuneReader, int32) (T, error)
func (w *World) codecs() map[string]*codec {
	out := map[string]*codec{}
	get := func(n string) *codec {
		if out[n] == nil {
			out[n] = &codec{Name: n}
		}
		return out[n]
	}
	for _, fn := range w.SrcFuncs() {
		if fn.Parent() != nil || fn.Signature.Recv() != nil {
			continue
		}
		sig := fn.Signature
		if sig.Params().Len() == 1 && sig.Results().Len() >= 1 && typeStr(sig.Results().At(0).Type()) == "[]byte" &&
			(sig.Results().Len() == 1 || (sig.Results().Len() == 2 && isErrorType(sig.Results().At(1).Type()))) {
			if n, ok := codecByType[typeStr(sig.Params().At(0).Type())]; ok {
				c := get(n)
				if c.Enc == nil || fnName(fn) < fnName(c.Enc) {
					c.Enc = fn
				}
			}
		}
		if sig.Params().Len() == 2 && sig.Results().Len() == 2 && isErrorType(sig.Results().At(1).Type()) &&
			typeStr(sig.Params().At(0).Type()) == "hessian.ByteRuneReader" && typeStr(sig.Params().At(1).Type()) == "int32" {
			if n, ok := codecByType[typeStr(sig.Results().At(0).Type())]; ok {
				get(n).Dec = fn
			}
		}
	}
	// wrappers
	for _, fn := range w.SrcFuncs() {
		recv := fn.Signature.Recv()
		if recv == nil || fn.Blocks == nil {
			continue
		}
		for _, c := range out {
			if namedIs(recv.Type(), hessianPath, "Decoder") && c.Dec != nil && callsStatic(fn, c.Dec) && fn.Signature.Params().Len() == 1 &&
				typeStr(fn.Signature.Params().At(0).Type()) == "int32" && typeStr(fn.Signature.Results().At(0).Type()) == typeStr(c.Dec.Signature.Results().At(0).Type()) {
				c.Wrap = fn
			}
			if namedIs(recv.Type(), hessianPath, "Encoder") && c.Enc != nil && len(fn.Blocks) <= 3 && callsStatic(fn, c.Enc) && fn.Signature.Params().Len() == 1 &&
				typeStr(fn.Signature.Params().At(0).Type()) == typeStr(c.Enc.Signature.Params().At(0).Type()) {
				c.EncW = fn
			}
		}
	}
	return out
}

func callsStatic(fn, callee *ssa.Function) bool {
	for _, b := range fn.Blocks {
		for _, in := range b.Instrs {
			if c, ok := in.(ssa.CallInstruction); ok && c.Common().StaticCallee() == callee {
				return true
			}
		}
	}
	return false
}

// EncForm is one way an encoder renders a value.
type EncForm struct {
	Fn      *ssa.Function
	Block   *ssa.BasicBlock
	Pos     string
	Octets  []ssa.Value // header octets
	IsErr   bool        // returns a non-nil error instead of bytes
	Kind    string      // lit | buf | bufchunk
	Payload ssa.Value   // variable payload written after the header (buf forms)
	Name    string      // assigned by rules (spec form name)
}

// litForms: returns of a []byte composite literal (or make+stores).
func (w *World) litForms(fn *ssa.Function) []*EncForm {
	var out []*EncForm
	for _, b := range fn.Blocks {
		ret, ok := b.Instrs[len(b.Instrs)-1].(*ssa.Return)
		if !ok || len(ret.Results) == 0 {
			continue
		}
		if isNilConst(ret.Results[0]) {
			if len(ret.Results) == 2 && !isNilConst(ret.Results[1]) {
				out = append(out, &EncForm{Fn: fn, Block: b, Pos: w.instrPos(ret), IsErr: true, Kind: "lit"})
			}
			continue
		}
		sl, ok := ret.Results[0].(*ssa.Slice)
		if !ok {
			continue
		}
		al, ok := sl.X.(*ssa.Alloc)
		if !ok {
			continue
		}
		arr, ok := al.Type().Underlying().(*types.Pointer).Elem().Underlying().(*types.Array)
		if !ok {
			continue
		}
		n := int(arr.Len())
		stores := make([][]*ssa.Store, n)
		refs := append([]ssa.Instruction{}, *al.Referrers()...)
		refs = append(refs, *sl.Referrers()...) // element stores through the slice (make + b[i] = x)
		for _, ref := range refs {
			ia, ok := ref.(*ssa.IndexAddr)
			if !ok {
				continue
			}
			c, ok := ia.Index.(*ssa.Const)
			if !ok {
				continue
			}
			i := int(c.Int64())
			for _, r2 := range *ia.Referrers() {
				if st, ok := r2.(*ssa.Store); ok && st.Addr == ia && i >= 0 && i < n {
					stores[i] = append(stores[i], st)
				}
			}
		}
		multi := false
		for _, s := range stores {
			if len(s) > 1 {
				multi = true
			}
		}
		if multi && n == 1 {
			for _, st := range stores[0] {
				out = append(out, &EncForm{Fn: fn, Block: st.Block(), Pos: w.instrPos(st), Octets: []ssa.Value{st.Val}, Kind: "lit"})
			}
			continue
		}
		f := &EncForm{Fn: fn, Block: b, Pos: w.instrPos(ret), Kind: "lit"}
		complete := true
		for _, s := range stores {
			if len(s) != 1 {
				complete = false
				break
			}
			f.Octets = append(f.Octets, s[0].Val)
		}
		if !complete {
			f.Octets = nil
		}
		out = append(out, f)
	}
	sort.Slice(out, func(i, j int) bool { return out[i].Block.Index < out[j].Block.Index })
	return out
}

// bufForms: for buffer-building encoders (string, binary): per basic block,
// the sequence of WriteByte arguments (header) followed by the payload Write.
func (w *World) bufForms(fn *ssa.Function) []*EncForm {
	var out []*EncForm
	for _, b := range fn.Blocks {
		f := &EncForm{Fn: fn, Block: b, Kind: "buf"}
		for _, in := range b.Instrs {
			c, ok := in.(*ssa.Call)
			if !ok {
				continue
			}
			sc := c.Call.StaticCallee()
			if sc == nil {
				continue
			}
			switch qualifiedFnName(sc) {
			case "(*bytes.Buffer).WriteByte":
				if f.Payload == nil {
					f.Octets = append(f.Octets, c.Call.Args[1])
					if f.Pos == "" {
						f.Pos = w.instrPos(c)
					}
				}
			case "(*bytes.Buffer).Write":
				arg := c.Call.Args[1]
				// a package-level []byte with constant contents is header material
				if u, ok := arg.(*ssa.UnOp); ok && u.Op == token.MUL {
					if g, ok := u.X.(*ssa.Global); ok && f.Payload == nil {
						if bs, ok := w.globalBytes(g); ok {
							for _, x := range bs {
								f.Octets = append(f.Octets, x)
							}
							continue
						}
					}
				}
				if f.Payload == nil {
					f.Payload = arg
				}
			}
		}
		if len(f.Octets) > 0 {
			if _, isRet := b.Instrs[len(b.Instrs)-1].(*ssa.Return); !isRet {
				f.Kind = "bufchunk"
			}
			out = append(out, f)
		}
	}
	return out
}

// globalBytes: the constant contents of a package-level []byte that is
// assigned exactly once, in init, from a composite literal.
func (w *World) globalBytes(g *ssa.Global) ([]ssa.Value, bool) {
	var store *ssa.Store
	for _, fn := range w.allPkgFuncs() {
		for _, b := range fn.Blocks {
			for _, in := range b.Instrs {
				if st, ok := in.(*ssa.Store); ok && st.Addr == g {
					if store != nil || fn.Name() != "init" {
						return nil, false
					}
					store = st
				}
			}
		}
	}
	if store == nil {
		return nil, false
	}
	sl, ok := store.Val.(*ssa.Slice)
	if !ok {
		return nil, false
	}
	al, ok := sl.X.(*ssa.Alloc)
	if !ok {
		return nil, false
	}
	arr, ok := al.Type().Underlying().(*types.Pointer).Elem().Underlying().(*types.Array)
	if !ok {
		return nil, false
	}
	vals := make([]ssa.Value, arr.Len())
	for _, ref := range *al.Referrers() {
		ia, ok := ref.(*ssa.IndexAddr)
		if !ok {
			continue
		}
		c, ok := ia.Index.(*ssa.Const)
		if !ok {
			return nil, false
		}
		for _, r2 := range *ia.Referrers() {
			if st, ok := r2.(*ssa.Store); ok {
				if vals[c.Int64()] != nil {
					return nil, false
				}
				vals[c.Int64()] = st.Val
			}
		}
	}
	for _, v := range vals {
		if v == nil {
			return nil, false
		}
	}
	return vals, true
}

// octetWindow decomposes an octet expression byte(base >> s) (possibly
// through further narrowing conversions ≥ 8 bits wide) into (base term, s).
func (f *Flow) octetWindow(v ssa.Value) (*Term, int, bool) {
	t := f.term(v)
	// strip conversions down to the shifted value
	for t.K == TConv {
		bits, _, ok := intTypeInfo(f.w, t.T)
		if !ok || bits < 8 {
			return nil, 0, false
		}
		if _, _, isInt := intTypeInfo(f.w, t.A.T); !isInt {
			break // conversion from a non-integer is the base symbol itself
		}
		t = t.A
	}
	if t.K == TBin && t.Op == token.SHR && t.B.K == TConst && t.B.C.IsInt64() {
		base := t.A
		sh := int(t.B.C.Int64())
		// byte(T(x) >> s) carries bits s..s+7 of x as long as the window lies
		// inside T: strip such conversions so that all octets name one base
		for base.K == TConv {
			bits, _, ok := intTypeInfo(f.w, base.T)
			if _, _, isInt := intTypeInfo(f.w, base.A.T); !ok || !isInt || uint(sh+8) > bits {
				break
			}
			base = base.A
		}
		return base, sh, true
	}
	return t, 0, true
}

// tagPlusHigh decomposes a first-octet expression byte(zero + (base >> s))
// (or zero + base) into (zero, base, s).
func (f *Flow) tagPlusHigh(v ssa.Value) (zero int64, base *Term, shift int, ok bool) {
	t := f.term(v)
	for t.K == TConv {
		t = t.A
	}
	if t.K != TBin || t.Op != token.ADD {
		return 0, nil, 0, false
	}
	c, x := t.A, t.B
	if c.K != TConst {
		c, x = t.B, t.A
	}
	// the constant may itself be wrapped in a conversion of a constant (folded by go/ssa)
	if c.K != TConst || !c.C.IsInt64() {
		return 0, nil, 0, false
	}
	for x.K == TConv {
		// conversions of the shifted value (e.g. byte(length>>8)) are transparent if value-preserving; checked by caller via intervals
		x = x.A
	}
	if x.K == TBin && x.Op == token.SHR && x.B.K == TConst {
		return c.C.Int64(), x.A, int(x.B.C.Int64()), true
	}
	return c.C.Int64(), x, 0, true
}

// DecForm is one successful decoding branch of a scalar decoder.
type DecForm struct {
	Fn      *ssa.Function
	Block   *ssa.BasicBlock
	Pos     string
	Tags    ISet
	Payload int  // octets pulled after the tag on the way to this return
	Unknown bool // a read of non-constant size dominates the return
	IsErr   bool
}

// readSize: the number of octets a call pulls from the stream, if it is one of
// the package's fixed-size read idioms.
func (w *World) readSize(c *ssa.Call) (int, bool, bool) {
	sc := c.Call.StaticCallee()
	if sc == nil {
		return 0, false, false
	}
	switch qualifiedFnName(sc) {
	case "readBytes":
		if k, ok := c.Call.Args[1].(*ssa.Const); ok {
			return int(k.Int64()), true, true
		}
		return 0, true, false
	case "readTag", "(*Decoder).readTag":
		return 1, true, true
	case "io.ReadFull":
		buf := c.Call.Args[1]
		if sl, ok := buf.(*ssa.Slice); ok {
			if al, ok := sl.X.(*ssa.Alloc); ok {
				if arr, ok := al.Type().Underlying().(*types.Pointer).Elem().Underlying().(*types.Array); ok {
					if sl.High == nil {
						return int(arr.Len()), true, true
					}
					if k, ok := sl.High.(*ssa.Const); ok {
						return int(k.Int64()), true, true
					}
				}
			}
		}
		if ms, ok := buf.(*ssa.MakeSlice); ok {
			if k, ok := ms.Len.(*ssa.Const); ok {
				return int(k.Int64()), true, true
			}
		}
		return 0, true, false
	}
	return 0, false, false
}

// tagValueOf finds the tag symbol of a decoder: result #0 of its getTag /
// readTag call (first one in block 0), or its byte parameter.
func (w *World) tagValueOf(fn *ssa.Function) ssa.Value {
	for _, p := range fn.Params {
		if b, ok := p.Type().Underlying().(*types.Basic); ok && b.Kind() == types.Uint8 {
			return p
		}
	}
	if len(fn.Blocks) == 0 {
		return nil
	}
	for _, in := range fn.Blocks[0].Instrs {
		c, ok := in.(*ssa.Call)
		if !ok {
			continue
		}
		sc := c.Call.StaticCallee()
		if sc == nil {
			continue
		}
		switch qualifiedFnName(sc) {
		case "getTag", "readTag", "(*Decoder).readTag":
			for _, ref := range *c.Referrers() {
				if ex, ok := ref.(*ssa.Extract); ok && ex.Index == 0 {
					return ex
				}
			}
		}
	}
	return nil
}

// decForms: per nil-error return of a loop-free scalar decoder, the tag set
// reaching it and the octets pulled by the dominating fixed-size reads.
func (w *World) decForms(fn *ssa.Function, f *Flow) ([]*DecForm, error) {
	tag := w.tagValueOf(fn)
	if tag == nil {
		return nil, fmt.Errorf("no tag symbol found in %s", fnName(fn))
	}
	tk := f.term(tag)
	idx := errIndex(fn.Signature)
	var out []*DecForm
	for _, b := range fn.Blocks {
		ret, ok := b.Instrs[len(b.Instrs)-1].(*ssa.Return)
		if !ok || !f.Reachable(b) {
			continue
		}
		if in, ok := tag.(ssa.Instruction); ok && !in.Block().Dominates(b) {
			continue
		}
		ts, _ := f.Eval(tk, f.At(b))
		df := &DecForm{Fn: fn, Block: b, Pos: w.instrPos(ret), Tags: ts}
		if idx >= 0 && !isNilConst(ret.Results[idx]) {
			// only "tag rejected" returns (a freshly built error) are forms;
			// returns forwarding a failed read are not
			switch e := ret.Results[idx].(type) {
			case *ssa.MakeInterface:
				df.IsErr = true
			case *ssa.Call:
				_ = e
				df.IsErr = true
			default:
				continue
			}
		}
		for _, d := range fn.Blocks {
			if !d.Dominates(b) {
				continue
			}
			for _, in := range d.Instrs {
				c, ok := in.(*ssa.Call)
				if !ok {
					continue
				}
				// the tag read itself is not payload
				if ex, ok := tag.(*ssa.Extract); ok && ex.Tuple == ssa.Value(c) {
					continue
				}
				n, isRead, known := w.readSize(c)
				if !isRead {
					continue
				}
				if !known {
					df.Unknown = true
				}
				df.Payload += n
			}
		}
		out = append(out, df)
	}
	return out, nil
}
