package main

// frozen — which cells of the memory computed by initvals.go may be read as
// constants of the program: those no code can change once package
// initialisation is over.
//
//   * initOnly: the package initialiser, the declared init functions and the
//     unexported functions all of whose callers (call graph, VTA) are initOnly.
//   * a package variable is READ-ONLY when it is unexported and every mention of it outside initOnly
//     functions is a load, or an element / field address that is only loaded
//     from, and every value so obtained that can still alias the variable's
//     memory (slices, pointers, structs holding them) is itself only indexed,
//     loaded, measured (len/cap), compared or re-sliced — never stored, passed,
//     returned, boxed or captured.  Scalars and function values read out of the
//     table may go anywhere.
//   * a cell is FROZEN when it is not poisoned, is reachable (through sub-cells,
//     pointers and slices) from read-only variables only, and is not reachable
//     from the bindings of a closure (the closure body may assign to them).

import (
	"fmt"
	"go/token"
	"go/types"
	"sort"

	"golang.org/x/tools/go/ssa"
)

func (w *World) initOnlyFuncs() map[*ssa.Function]bool {
	if w.initOnly != nil {
		return w.initOnly
	}
	out := map[*ssa.Function]bool{}
	w.initOnly = out
	ini := w.Pkg.Func("init")
	if ini == nil {
		return out
	}
	out[ini] = true
	for _, b := range ini.Blocks {
		for _, in := range b.Instrs {
			if c, ok := in.(*ssa.Call); ok {
				if sc := c.Call.StaticCallee(); sc != nil && sc.Pkg == w.Pkg && sc.Signature.Recv() == nil && sc.Signature.Params().Len() == 0 && len(sc.Name()) > 5 && sc.Name()[:5] == "init#" {
					out[sc] = true
				}
			}
		}
	}
	for changed := true; changed; {
		changed = false
		for _, fn := range w.allPkgFuncs() {
			if out[fn] || fn.Blocks == nil {
				continue
			}
			if fn.Parent() == nil && token.IsExported(fn.Name()) {
				continue
			}
			n := w.CG.Nodes[fn]
			if n == nil || len(n.In) == 0 {
				continue
			}
			all := true
			for _, e := range n.In {
				if !out[e.Caller.Func] {
					all = false
					break
				}
			}
			if all {
				out[fn] = true
				changed = true
			}
		}
	}
	return out
}

func pointerFree(t types.Type) bool {
	switch u := t.Underlying().(type) {
	case *types.Basic:
		return u.Kind() != types.UnsafePointer
	case *types.Signature:
		return true
	case *types.Struct:
		for i := 0; i < u.NumFields(); i++ {
			if !pointerFree(u.Field(i).Type()) {
				return false
			}
		}
		return true
	case *types.Array:
		return pointerFree(u.Elem())
	}
	return false
}

// roValue: v (obtained from a table) is only read.
func roValue(v ssa.Value, seen map[ssa.Value]bool) bool {
	if seen[v] {
		return true
	}
	seen[v] = true
	if pointerFree(v.Type()) {
		return true
	}
	refs := v.Referrers()
	if refs == nil {
		return false
	}
	for _, r := range *refs {
		switch x := r.(type) {
		case *ssa.DebugRef:
		case *ssa.IndexAddr:
			if x.X != v || !roAddr(x, seen) {
				return false
			}
		case *ssa.FieldAddr:
			if x.X != v || !roAddr(x, seen) {
				return false
			}
		case *ssa.Index:
			if x.X != v || !roValue(x, seen) {
				return false
			}
		case *ssa.Field:
			if !roValue(x, seen) {
				return false
			}
		case *ssa.UnOp:
			if x.Op != token.MUL || !roValue(x, seen) {
				return false
			}
		case *ssa.Slice:
			if x.X != v || !roValue(x, seen) {
				return false
			}
		case *ssa.Phi:
			if !roValue(x, seen) {
				return false
			}
		case *ssa.BinOp:
			if x.Op != token.EQL && x.Op != token.NEQ {
				return false
			}
		case *ssa.Call:
			b, ok := x.Call.Value.(*ssa.Builtin)
			if !ok || (b.Name() != "len" && b.Name() != "cap") {
				return false
			}
		default:
			return false
		}
	}
	return true
}

// roAddr: the address a (of table memory) is only loaded from.
func roAddr(a ssa.Value, seen map[ssa.Value]bool) bool {
	if seen[a] {
		return true
	}
	seen[a] = true
	refs := a.Referrers()
	if refs == nil {
		return false
	}
	for _, r := range *refs {
		switch x := r.(type) {
		case *ssa.DebugRef:
		case *ssa.UnOp:
			if x.Op != token.MUL || !roValue(x, seen) {
				return false
			}
		case *ssa.IndexAddr:
			if x.X != a || !roAddr(x, seen) {
				return false
			}
		case *ssa.FieldAddr:
			if x.X != a || !roAddr(x, seen) {
				return false
			}
		case *ssa.Slice:
			if x.X != a || !roValue(x, seen) {
				return false
			}
		default:
			return false // Store, call argument, boxing, …
		}
	}
	return true
}

// readOnlyGlobals: package variables only read after initialisation.
func (w *World) readOnlyGlobals() map[*ssa.Global]bool {
	if w.roGlobals != nil {
		return w.roGlobals
	}
	initOnly := w.initOnlyFuncs()
	bad := map[*ssa.Global]bool{}
	for _, fn := range w.allPkgFuncs() {
		if initOnly[fn] {
			continue
		}
		for _, b := range fn.Blocks {
			for _, in := range b.Instrs {
				for _, op := range in.Operands(nil) {
					g, ok := (*op).(*ssa.Global)
					if !ok || g.Pkg != w.Pkg || bad[g] {
						continue
					}
					okUse := false
					switch x := in.(type) {
					case *ssa.UnOp:
						okUse = x.Op == token.MUL && roValue(x, map[ssa.Value]bool{})
					case *ssa.IndexAddr:
						okUse = x.X == ssa.Value(g) && roAddr(x, map[ssa.Value]bool{})
					case *ssa.FieldAddr:
						okUse = x.X == ssa.Value(g) && roAddr(x, map[ssa.Value]bool{})
					case *ssa.Slice:
						okUse = x.X == ssa.Value(g) && roValue(x, map[ssa.Value]bool{})
					case *ssa.DebugRef:
						okUse = true
					}
					if !okUse {
						bad[g] = true
					}
				}
			}
		}
	}
	out := map[*ssa.Global]bool{}
	for _, m := range w.Pkg.Members {
		// an exported variable can be assigned by any importer: never read-only
		if g, ok := m.(*ssa.Global); ok && !bad[g] && !token.IsExported(g.Name()) {
			out[g] = true
		}
	}
	w.roGlobals = out
	return out
}

// frozenCells: see the file comment.
func (w *World) frozenCells() (*ceval, map[*cell]bool) {
	ce := w.initMemory()
	if w.frozen != nil {
		return ce, w.frozen
	}
	frozen := map[*cell]bool{}
	w.frozen = frozen
	if ce.dead {
		return ce, frozen
	}
	ro := w.readOnlyGlobals()
	good, bad := map[*cell]bool{}, map[*cell]bool{}
	var reach func(c *cell, into map[*cell]bool)
	var reachVal func(v *cval, into map[*cell]bool)
	reach = func(c *cell, into map[*cell]bool) {
		if c == nil || into[c] {
			return
		}
		into[c] = true
		for _, s := range c.sub {
			reach(s, into)
		}
		if c.v != nil {
			reachVal(c.v, into)
		}
	}
	reachVal = func(v *cval, into map[*cell]bool) {
		switch v.k {
		case cvPtr, cvSlice:
			reach(v.Cell, into)
		case cvAgg:
			for _, e := range v.Elems {
				reachVal(e, into)
			}
		case cvFunc:
			// what a closure captured can be assigned by its body at any time
			for _, b := range v.Bind {
				reachVal(b, bad)
			}
		}
	}
	for g, c := range ce.globals {
		if ro[g] {
			reach(c, good)
		} else {
			reach(c, bad)
		}
	}
	for c := range good {
		if !bad[c] && !c.poisoned {
			frozen[c] = true
		}
	}
	return ce, frozen
}

// frozenLoad: the value of cell c if all of it is frozen.
func (w *World) frozenLoad(c *cell) (*cval, bool) {
	ce, fz := w.frozenCells()
	if c == nil || ce.dead {
		return nil, false
	}
	var all func(c *cell) bool
	all = func(c *cell) bool {
		if !fz[c] {
			return false
		}
		for _, s := range c.sub {
			if !all(s) {
				return false
			}
		}
		return true
	}
	if !all(c) {
		return nil, false
	}
	v := ce.load(c)
	if v.k == cvUnkKind {
		return nil, false
	}
	return v, true
}

func (v *cval) String() string {
	switch v.k {
	case cvInt:
		return v.I.String()
	case cvBool:
		return fmt.Sprint(v.B)
	case cvString:
		return fmt.Sprintf("%q", v.S)
	case cvNil:
		return "nil"
	case cvFunc:
		s := fnName(v.Fn)
		if len(v.Bind) > 0 {
			s += "["
			for i, b := range v.Bind {
				if i > 0 {
					s += ","
				}
				s += b.String()
			}
			s += "]"
		}
		return s
	case cvPtr:
		return fmt.Sprintf("&cell%d", v.Cell.id)
	case cvSlice:
		return fmt.Sprintf("cell%d[%d:%d]", v.Cell.id, v.Lo, v.Hi)
	case cvAgg:
		s := "{"
		for i, e := range v.Elems {
			if i > 0 {
				s += " "
			}
			if i > 40 {
				s += "…"
				break
			}
			s += e.String()
		}
		return s + "}"
	}
	return "?"
}

func init() {
	extraDumps["initvals"] = func(w *World) {
		ce, fz := w.frozenCells()
		fmt.Printf("steps=%d dead=%v\n", ce.steps, ce.dead)
		ro := w.readOnlyGlobals()
		var gs []*ssa.Global
		for g := range ce.globals {
			gs = append(gs, g)
		}
		sort.Slice(gs, func(i, j int) bool { return gs[i].Name() < gs[j].Name() })
		for _, g := range gs {
			c := ce.globals[g]
			v := ce.load(c)
			s := v.String()
			if v.k == cvSlice {
				s += " = {"
				for i := v.Lo; i < v.Hi && i < v.Lo+40; i++ {
					s += " " + ce.load(v.Cell.sub[i]).String()
				}
				s += " }"
				_, okf := w.frozenLoad(v.Cell)
				s += fmt.Sprintf(" backing frozen=%v", okf)
			}
			_, okf := w.frozenLoad(c)
			fmt.Printf("%-28s ro=%-5v frozen=%-5v cellfrozen=%-5v %s\n", g.Name(), ro[g], okf, fz[c], s)
		}
	}
}
