package main

// Objects that live for one call only.
//
// A struct allocated by a function (a local `sink := headSink{enc: e}`) whose
// address is only used to reach its fields and to be handed to in-package
// functions that do the same is gone when its allocator returns: it is not
// per-stream state (C11.R1), and an error parked in one of its fields can only be
// picked up by the functions holding that pointer (C15.R1 sticky errors).

import (
	"go/token"
	"go/types"

	"golang.org/x/tools/go/ssa"
)

// ptrStaysLocal: every use of the pointer v reads or writes the object it
// points to, or hands the pointer to an in-package function that does the same;
// the pointer is never stored, returned, boxed, captured or sent.
func (w *World) ptrStaysLocal(v ssa.Value, seen map[ssa.Value]bool) bool {
	if seen[v] {
		return true
	}
	seen[v] = true
	refs := v.Referrers()
	if refs == nil {
		return false
	}
	for _, ref := range *refs {
		switch x := ref.(type) {
		case *ssa.DebugRef:
		case *ssa.UnOp:
			if x.Op != token.MUL {
				return false
			}
		case *ssa.FieldAddr:
			if x.X != v || !w.cellAddrLocal(x) {
				return false
			}
		case *ssa.Store:
			if x.Val == v {
				return false
			}
		case *ssa.Phi:
			if !w.ptrStaysLocal(x, seen) {
				return false
			}
		case *ssa.Call:
			sc := x.Call.StaticCallee()
			if sc == nil || x.Call.IsInvoke() || !w.inPkg(sc) || sc.Blocks == nil {
				return false
			}
			for i, a := range x.Call.Args {
				if a != v {
					continue
				}
				if i >= len(sc.Params) || !w.ptrStaysLocal(sc.Params[i], seen) {
					return false
				}
			}
		default:
			return false
		}
	}
	return true
}

// cellAddrLocal: the address of a field is only loaded from and stored to.
func (w *World) cellAddrLocal(fa *ssa.FieldAddr) bool {
	refs := fa.Referrers()
	if refs == nil {
		return true
	}
	for _, ref := range *refs {
		switch x := ref.(type) {
		case *ssa.DebugRef:
		case *ssa.UnOp:
			if x.Op != token.MUL {
				return false
			}
		case *ssa.Store:
			if x.Addr != ssa.Value(fa) || x.Val == ssa.Value(fa) {
				return false
			}
		case *ssa.FieldAddr:
			if !w.cellAddrLocal(x) {
				return false
			}
		default:
			return false
		}
	}
	return true
}

// externallyCallable: code outside the package can call fn with its own arguments.
func externallyCallable(fn *ssa.Function) bool {
	if fn.Parent() != nil || !token.IsExported(fn.Name()) {
		return false
	}
	if recv := fn.Signature.Recv(); recv != nil {
		t := recv.Type()
		if p, ok := t.(*types.Pointer); ok {
			t = p.Elem()
		}
		if n, ok := t.(*types.Named); ok && !n.Obj().Exported() {
			return false
		}
	}
	return true
}

// callLocalObjects: the objects the pointer v can point to, provided every one of
// them is allocated by a function on the current call stack (v is an allocation
// of its function, or a parameter that every caller — all of them static calls
// inside the package — feeds with such a pointer) and never escapes.
func (w *World) callLocalObjects(v ssa.Value, depth int) ([]*ssa.Alloc, bool) {
	if depth > 4 {
		return nil, false
	}
	switch x := v.(type) {
	case *ssa.Alloc:
		if w.ptrStaysLocal(x, map[ssa.Value]bool{}) {
			return []*ssa.Alloc{x}, true
		}
	case *ssa.Phi:
		var out []*ssa.Alloc
		for _, e := range x.Edges {
			if e == ssa.Value(x) {
				continue
			}
			r, ok := w.callLocalObjects(e, depth+1)
			if !ok {
				return nil, false
			}
			out = append(out, r...)
		}
		return out, len(out) > 0
	case *ssa.Parameter:
		fn := x.Parent()
		if fn == nil || externallyCallable(fn) {
			return nil, false
		}
		idx := -1
		for i, p := range fn.Params {
			if p == x {
				idx = i
			}
		}
		n := w.CG.Nodes[fn]
		if idx < 0 || n == nil || len(n.In) == 0 {
			return nil, false
		}
		var out []*ssa.Alloc
		for _, e := range n.In {
			c, ok := e.Site.(*ssa.Call)
			if !ok || c.Call.StaticCallee() != fn || idx >= len(c.Call.Args) {
				return nil, false
			}
			r, ok := w.callLocalObjects(c.Call.Args[idx], depth+1)
			if !ok {
				return nil, false
			}
			out = append(out, r...)
		}
		return out, len(out) > 0
	}
	return nil, false
}

// blockReaches: to is reachable from from (from == to counts only through a cycle
// when strict is set).
func blockReaches(from, to *ssa.BasicBlock, strict bool) bool {
	if from == to && !strict {
		return true
	}
	seen := map[*ssa.BasicBlock]bool{}
	stack := append([]*ssa.BasicBlock(nil), from.Succs...)
	for len(stack) > 0 {
		b := stack[len(stack)-1]
		stack = stack[:len(stack)-1]
		if b == to {
			return true
		}
		if seen[b] {
			continue
		}
		seen[b] = true
		stack = append(stack, b.Succs...)
	}
	return false
}

// cycleAvoiding: b lies on a cycle that does not pass through avoid.
func cycleAvoiding(b, avoid *ssa.BasicBlock) bool {
	if b == avoid {
		return false
	}
	seen := map[*ssa.BasicBlock]bool{avoid: true}
	stack := append([]*ssa.BasicBlock(nil), b.Succs...)
	for len(stack) > 0 {
		x := stack[len(stack)-1]
		stack = stack[:len(stack)-1]
		if x == b {
			return true
		}
		if seen[x] {
			continue
		}
		seen[x] = true
		stack = append(stack, x.Succs...)
	}
	return false
}
