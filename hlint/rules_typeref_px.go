package main

// C03.R4 on the path explorer.
//
// "Every literal type takes the next type ordinal": on every path of the type
// reader that (a) read a first octet that is a string tag and (b) returns
// without an error, the per-stream type list has been appended to.  The old
// form of the rule looked for `return x, nil` blocks of readType whose tag
// fact was ⊆ string tags and asked for a dominating append; a reader with one
// merged success return (`if err == nil { append }` … `if err != nil { return
// err }; return name, nil`) or with the literal branch in a helper has no such
// block.  Paths keep the correlation between the branch taken and the error
// that was tested later, and helpers are stepped into.

import (
	"fmt"
	"go/types"
	"sort"

	"golang.org/x/tools/go/ssa"
)

// pxErrOutcome: what the path knows about an error result: "nil", "err" or "?".
func pxErrOutcome(v ssa.Value, t *Term, st *pxState) string {
	if isNilConst(v) {
		return "nil"
	}
	if _, mk := v.(*ssa.MakeInterface); mk {
		return "err"
	}
	// library constructors that never return nil
	isCtor := func(x ssa.Value) bool {
		c, ok := x.(*ssa.Call)
		if !ok || c.Call.StaticCallee() == nil {
			return false
		}
		switch qualifiedFnName(c.Call.StaticCallee()) {
		case "errors.New", "fmt.Errorf":
			return true
		}
		return false
	}
	if isCtor(v) || (t != nil && t.K == TLeaf && t.V != nil && isCtor(t.V)) {
		return "err"
	}
	if t != nil {
		if t.K == TLeaf && t.key == "nil:error" {
			return "nil"
		}
		if s, has := st.env["("+t.key+" != nil:error)"]; has {
			if s.Equal(single(0)) {
				return "nil"
			}
			if s.Equal(single(1)) {
				return "err"
			}
		}
		if mk, ok := t.V.(*ssa.MakeInterface); ok && mk != nil && t.K == TLeaf {
			return "err"
		}
	}
	return "?"
}

func (w *World) ruleLiteralTypeNumberedPX(r *Report, rule string) {
	rt := w.fn("(*Decoder).readType")
	if rt == nil {
		r.undecided(rule, "(*Decoder).readType", "-", "anchor not found")
		return
	}
	named, st := w.structOf("Decoder")
	tl := -1
	for i := 0; st != nil && i < st.NumFields(); i++ {
		if typeStr(st.Field(i).Type()) == "[]string" {
			tl = i
		}
	}
	if tl < 0 {
		r.undecided(rule, "Decoder type list", "-", "no []string field in Decoder")
		return
	}
	fieldKey := fmt.Sprintf("%s.%d", types.TypeString(named, nil), tl)
	// the tag symbol: result #0 of the first tag read executed on the path, in whichever
	// frame it sits (`readTypeToken() (name, index, named, err)` reads the tag and the
	// literal / the index, readType appends or resolves); it is bound per path when the
	// Extract is executed, so a path that forks later shares it
	const tagCell = "c03r4:first-tag"
	isTagRead := func(c *ssa.Call) bool {
		sc := c.Call.StaticCallee()
		if sc == nil {
			return false
		}
		switch qualifiedFnName(sc) {
		case "getTag", "readTag", "(*Decoder).readTag":
			return true
		}
		return false
	}
	sawTag := false
	idx := errIndex(rt.Signature)
	strTags := specTags("string", "")
	type site struct {
		ret   *ssa.Return
		paths int
		bad   int
	}
	sites := map[*ssa.Return]*site{}
	// production readers (readString, readInt …) stand for the value they read;
	// everything else (extracted helpers) is stepped into
	stop := w.readerBoundaries()
	var px *PX
	px = w.newPX(pxHooks{
		inline: func(fr *pxFrame, callee *ssa.Function) bool {
			_, isReader := stop[callee]
			return !isReader
		},
		onInstr: func(fr *pxFrame, in ssa.Instruction, s *pxState) bool {
			if ex, ok := in.(*ssa.Extract); ok && ex.Index == 0 {
				if c, isC := ex.Tuple.(*ssa.Call); isC && isTagRead(c) {
					if _, has := s.vals[tagCell]; !has {
						s.vals[tagCell] = px.term(ex, fr, s)
						sawTag = true
					}
				}
			}
			return true
		},
		onReturn: func(fr *pxFrame, ret *ssa.Return, results []*Term, s *pxState) {
			if idx < 0 || pxErrOutcome(ret.Results[idx], results[idx], s) == "err" {
				return
			}
			tag, has := s.vals[tagCell]
			if !has {
				return
			}
			S, _ := px.evalTerm(tag, s)
			if S == nil || S.Empty() || !S.SubsetOf(strTags) {
				return
			}
			si := sites[ret]
			if si == nil {
				si = &site{ret: ret}
				sites[ret] = si
			}
			si.paths++
			appended := false
			for _, ev := range s.trace {
				if ev.Kind != "fieldstore" || len(ev.Args) != 1 {
					continue
				}
				if ev.Extra != fieldKey {
					continue
				}
				if a := ev.Args[0]; a.K == TPure && a.Name == "append" {
					appended = true
				}
			}
			if !appended {
				si.bad++
			}
		},
	})
	px.Run(rt, Env{})
	if px.Truncated {
		r.undecided(rule, "(*Decoder).readType · literal returns number the type", w.pos(rt.Pos()), "path exploration truncated")
		return
	}
	if !sawTag {
		r.undecided(rule, "(*Decoder).readType", "-", "no tag symbol: no path of the type reader reads a tag")
		return
	}
	var list []*site
	for _, s := range sites {
		list = append(list, s)
	}
	sort.Slice(list, func(i, j int) bool { return list[i].ret.Pos() < list[j].ret.Pos() })
	for i, s := range list {
		good := s.bad == 0
		r.add(rule, fmt.Sprintf("(*Decoder).readType · literal return #%d numbers the type", i+1), w.instrPos(s.ret), good,
			map[bool]string{true: fmt.Sprintf("the literal is appended to the type list on each of the %d successful string-tag paths to this return", s.paths),
				false: fmt.Sprintf("a literal type can be returned without being appended to the type list (%d of %d successful string-tag paths): every later type back-reference is shifted", s.bad, s.paths)}[good])
	}
	r.floor(rule+" (literal returns of readType)", len(list), 1)
}
