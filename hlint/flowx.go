package main

import (
	"go/token"
)

// cmpSets: the value of the comparison `a op b` when the operand sets decide it
// (every pair of values gives the same outcome), {0,1} otherwise.  A predicate
// written as arithmetic on the tag (`tag-min <= span`, `tag&^mask == base`)
// returns the comparison itself instead of branching on it, so the comparison
// has to be evaluated, not only refined.
func cmpSets(op token.Token, a, b ISet) ISet {
	both := mkSet(0, 1)
	if a == nil || b == nil || a.Empty() || b.Empty() {
		return both
	}
	yes, no := single(1), single(0)
	lt := a.Max().Cmp(b.Min()) < 0  // every a < every b
	le := a.Max().Cmp(b.Min()) <= 0 // every a <= every b
	gt := a.Min().Cmp(b.Max()) > 0
	ge := a.Min().Cmp(b.Max()) >= 0
	same := a.Min().Cmp(a.Max()) == 0 && b.Min().Cmp(b.Max()) == 0 && a.Min().Cmp(b.Min()) == 0
	disjoint := a.Intersect(b).Empty()
	switch op {
	case token.EQL:
		if same {
			return yes
		}
		if disjoint {
			return no
		}
	case token.NEQ:
		if same {
			return no
		}
		if disjoint {
			return yes
		}
	case token.LSS:
		if lt {
			return yes
		}
		if ge {
			return no
		}
	case token.LEQ:
		if le {
			return yes
		}
		if gt {
			return no
		}
	case token.GTR:
		if gt {
			return yes
		}
		if le {
			return no
		}
	case token.GEQ:
		if ge {
			return yes
		}
		if lt {
			return no
		}
	}
	return both
}
