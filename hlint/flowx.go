package main

import (
	"fmt"
	"go/token"
	"strings"

	"golang.org/x/tools/go/ssa"
)

// cmpSets: the value of the comparison `a op b` when the operand sets decide it
// (every pair of values gives the same outcome), {0,1} otherwise.  A predicate
// written as arithmetic on the tag (`tag-min <= span`, `tag&^mask == base`)
// returns the comparison itself instead of branching on it, so the comparison
// has to be evaluated, not only refined.
func cmpSets(op token.Token, a, b ISet) ISet {
	both := mkSet(0, 1)
	if a == nil || b == nil || a.Empty() || b.Empty() {
		return both
	}
	yes, no := single(1), single(0)
	lt := a.Max().Cmp(b.Min()) < 0  // every a < every b
	le := a.Max().Cmp(b.Min()) <= 0 // every a <= every b
	gt := a.Min().Cmp(b.Max()) > 0
	ge := a.Min().Cmp(b.Max()) >= 0
	same := a.Min().Cmp(a.Max()) == 0 && b.Min().Cmp(b.Max()) == 0 && a.Min().Cmp(b.Min()) == 0
	disjoint := a.Intersect(b).Empty()
	switch op {
	case token.EQL:
		if same {
			return yes
		}
		if disjoint {
			return no
		}
	case token.NEQ:
		if same {
			return no
		}
		if disjoint {
			return yes
		}
	case token.LSS:
		if lt {
			return yes
		}
		if ge {
			return no
		}
	case token.LEQ:
		if le {
			return yes
		}
		if gt {
			return no
		}
	case token.GTR:
		if gt {
			return yes
		}
		if le {
			return no
		}
	case token.GEQ:
		if ge {
			return yes
		}
		if lt {
			return no
		}
	}
	return both
}

// ---- call-site sensitive return ranges ----
//
// retRange/retRangeOK are context-insensitive: the range of an integer result
// over every return of the callee whatever the arguments.  A helper that merely
// clamps or forwards one of its parameters (`if n > max { return 0 }; return n`)
// has a result that depends on what the caller knows about the argument, so the
// summary is recomputed under the facts the call site has about the integer
// arguments (the callee's fixpoint is run with the parameters bound to those
// sets).  The result is intersected with the context-insensitive one.

type ctxRetState struct {
	cache map[string]ISet
	busy  map[*ssa.Function]bool
	depth int
}

var ctxRets = map[*World]*ctxRetState{}

func (w *World) ctxRetState() *ctxRetState {
	s := ctxRets[w]
	if s == nil {
		s = &ctxRetState{cache: map[string]ISet{}, busy: map[*ssa.Function]bool{}}
		ctxRets[w] = s
	}
	return s
}

// callCtx: the facts env holds about the integer/boolean arguments of call c,
// as an entry environment of callee sc (nil when it knows nothing beyond the
// parameter types).
func (f *Flow) callCtx(c *ssa.Call, sc *ssa.Function, env Env) (Env, string) {
	if f.termHook != nil || len(sc.Params) != len(c.Call.Args) {
		return nil, "" // the path explorer binds arguments itself
	}
	var ctx Env
	var keys []string
	for i, p := range sc.Params {
		top, ok := typeRange(f.w, p.Type())
		if !ok {
			continue
		}
		var dummy evalFlags
		s := f.eval(f.term(c.Call.Args[i]), env, &dummy)
		if s == nil || s.Empty() || s.Equal(top) {
			continue
		}
		if ctx == nil {
			ctx = Env{}
		}
		k := "<p:" + p.Name() + ">"
		ctx[k] = s
		keys = append(keys, k+"="+s.String())
	}
	return ctx, strings.Join(keys, ";")
}

// retRangeCall: the range of result idx of call c to sc under the caller's
// facts env (okOnly: over the returns whose error may be nil).  nil = no
// information from the context.
func (f *Flow) retRangeCall(c *ssa.Call, sc *ssa.Function, idx int, env Env, okOnly bool) ISet {
	w := f.w
	if sc.Blocks == nil || idx >= sc.Signature.Results().Len() {
		return nil
	}
	if _, _, ok := intTypeInfo(w, sc.Signature.Results().At(idx).Type()); !ok {
		return nil
	}
	st := w.ctxRetState()
	if st.busy[sc] || st.depth >= 3 {
		return nil
	}
	ctx, ck := f.callCtx(c, sc, env)
	if ctx == nil {
		return nil
	}
	key := fmt.Sprintf("%s#%d/%v|%s", fnName(sc), idx, okOnly, ck)
	if r, ok := st.cache[key]; ok {
		return r
	}
	st.busy[sc] = true
	st.depth++
	cf := w.flowCtx(sc, ctx)
	r := w.retRangeIn(cf, sc, idx, okOnly)
	st.depth--
	delete(st.busy, sc)
	st.cache[key] = r
	return r
}

// retRangeIn: union over the reachable returns of fn (analysed as cf) of result
// idx; with okOnly, returns whose error is provably non-nil are left out.
func (w *World) retRangeIn(cf *Flow, fn *ssa.Function, idx int, okOnly bool) ISet {
	ei := errIndex(fn.Signature)
	if okOnly && ei < 0 {
		return nil
	}
	var acc ISet
	for _, b := range fn.Blocks {
		ret, ok := b.Instrs[len(b.Instrs)-1].(*ssa.Return)
		if !ok || !cf.Reachable(b) {
			continue
		}
		if okOnly && !isNilConst(ret.Results[ei]) {
			if w.nonNilErr(ret.Results[ei], nil, nil, 0) {
				continue
			}
			if te := cf.At(b); te != nil {
				k := "(" + cf.term(ret.Results[ei]).key + " != nil:error)"
				if s, has := te[k]; has && s.Equal(single(1)) {
					continue
				}
			}
		}
		s, _ := cf.ValueAt(ret.Results[idx], b)
		if s == nil {
			return nil
		}
		acc = acc.Union(s)
	}
	return acc
}
