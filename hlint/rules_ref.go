package main

import (
	"fmt"
	"go/token"
	"go/types"
	"sort"
	"strings"

	"golang.org/x/tools/go/ssa"
)

func init() {
	register("C04", rulesC04,
		"Decides the numbering discipline that reference identity depends on (necessary conditions, not pointer identity in decoded graphs): "+
			"R1 registration pairing — for each container writer, on every path from the ref-table registration (on its not-found outcome) the first thing emitted is a production whose reader registers a reference on the decoder side (the set Reg is computed from the decoder: dispatcher arms whose callee registers on every value-returning path); null, dates, strings and binaries are never emitted after a registration; "+
			"R2 in the registrar every path that reports 'not found' passes the insertion, and the ordinal stored is len(table) read before the insertion; "+
			"R3 every container reader registers before the first call that can recurse into the value dispatch, exactly once (not inside a loop) on every value-returning path; on the encoder the registration dominates the recursive WriteData calls (termination on cycles); "+
			"R4 a registered slice that grows by reflect.Append is re-announced to its holder after each growth. "+
			"Does NOT decide that two access paths lead to the same object in the decoded graph.",
		"obligation = one (writer, first emission) pair / one not-found return of the registrar / one container reader / one Append; non-trivial = needs a path enumeration or dominance argument",
		"the ref table is the Encoder field of map type with a non-string key; the decoder registrar is the function appending to the Decoder's []reflect.Value field")
	register("C05", rulesC05,
		"Decides structural necessary conditions of 'fields bound by name; right class definition': "+
			"R1 in the loop over the wire definition's field names every path from one iteration to the next consumes exactly one wire value (a call from which a tag read is reachable), also for a name with no Go counterpart; "+
			"R2 the destination field index is the result of the name-lookup helper applied to the wire name of the current iteration (not the loop counter), and the helper compares with the Go name and its capitalised form; "+
			"R3 the compact instance tags x60..x6f reach the object reader in every dispatcher that can receive them and 'O' reaches the long-form reader; the encoder emits the compact form only with the true index in [0,15] (no truncating conversion in the guard) and the long form carries the index; both readers bounds-check the index two-sidedly; "+
			"R4 the instance is created by reflect.New of the mapped type and fields are written only through the per-field reader. "+
			"Does NOT decide field values over all permutations.",
		"obligation = one loop path / one field binding / one dispatcher×tag group / one header emission / one index use",
		"a 'value-consuming call' is a call to a package function from which readTag/getTag is reachable")
}

// ---- roles ----

// encRefField: index of the Encoder's ref-table field (map with non-string key).
func (w *World) encRefField() int {
	_, st := w.structOf("Encoder")
	if st == nil {
		return -1
	}
	for i := 0; i < st.NumFields(); i++ {
		if m, ok := st.Field(i).Type().Underlying().(*types.Map); ok {
			if b, isB := m.Key().Underlying().(*types.Basic); !isB || b.Kind() != types.String {
				return i
			}
		}
	}
	return -1
}

func (w *World) encRegistrar() *ssa.Function {
	fi := w.encRefField()
	if fi < 0 {
		return nil
	}
	for _, fn := range w.SrcFuncs() {
		for _, b := range fn.Blocks {
			for _, in := range b.Instrs {
				if mu, ok := in.(*ssa.MapUpdate); ok {
					if o, f, ok := w.fieldOfLoad(mu.Map); ok && o == "Encoder" && f == fi {
						return fn
					}
				}
			}
		}
	}
	return nil
}

func (w *World) decRefField() int {
	_, st := w.structOf("Decoder")
	if st == nil {
		return -1
	}
	for i := 0; i < st.NumFields(); i++ {
		if typeStr(st.Field(i).Type()) == "[]reflect.Value" {
			return i
		}
	}
	return -1
}

func (w *World) decRegistrar() *ssa.Function {
	fi := w.decRefField()
	if fi < 0 {
		return nil
	}
	for _, fn := range w.SrcFuncs() {
		for _, b := range fn.Blocks {
			for _, in := range b.Instrs {
				st, ok := in.(*ssa.Store)
				if !ok {
					continue
				}
				if fa, ok := st.Addr.(*ssa.FieldAddr); ok && w.fieldNameOfAddr(fa) == "Decoder."+w.fieldName("Decoder", fi) {
					if c, ok := st.Val.(*ssa.Call); ok {
						if bi, ok := c.Call.Value.(*ssa.Builtin); ok && bi.Name() == "append" {
							// the append may sit in a function literal of the registrar
							// (`remember := func(entry reflect.Value) { d.refList = append(…) }`):
							// the registrar is the declared function the readers call
							return rootFn(fn)
						}
					}
				}
			}
		}
	}
	return nil
}

func callsTo(fn, callee *ssa.Function) []*ssa.Call {
	var out []*ssa.Call
	for _, b := range fn.Blocks {
		for _, in := range b.Instrs {
			if c, ok := in.(*ssa.Call); ok && c.Call.StaticCallee() == callee {
				out = append(out, c)
			}
		}
	}
	return out
}

// registeringFuncs: the least set R of decoder functions such that every
// path from entry to a value-yielding return passes a call to the registrar
// or to a function of R (computed by iteration; no recursion).
func (w *World) registeringFuncs(reg *ssa.Function) map[*ssa.Function]bool {
	R := map[*ssa.Function]bool{}
	for changed := true; changed; {
		changed = false
		for _, fn := range w.SrcFuncs() {
			// methods, and function literals (an arm of a table of readers)
			if R[fn] || fn == reg || (fn.Signature.Recv() == nil && fn.Parent() == nil) {
				continue
			}
			regBlock := map[*ssa.BasicBlock]bool{}
			for _, b := range fn.Blocks {
				for _, in := range b.Instrs {
					if c, ok := in.(*ssa.Call); ok {
						if sc := c.Call.StaticCallee(); sc != nil {
							if sc == reg || R[sc] {
								regBlock[b] = true
							}
						} else if !c.Call.IsInvoke() {
							// a call through a function value (an entry of a table of readers):
							// every function it may denote (call graph; method-expression thunks
							// looked through) registers
							cs := w.calleesOf(c)
							all := len(cs) > 0
							for _, cal := range cs {
								t := w.throughWrapper(cal)
								if !(t == reg || R[t]) {
									all = false
								}
							}
							if all {
								regBlock[b] = true
							}
						}
					}
				}
			}
			if len(regBlock) == 0 {
				continue
			}
			ok := true
			idx := errIndex(fn.Signature)
			seen := map[*ssa.BasicBlock]bool{}
			var walk func(b *ssa.BasicBlock)
			walk = func(b *ssa.BasicBlock) {
				if seen[b] || regBlock[b] {
					return
				}
				seen[b] = true
				if ret, isRet := b.Instrs[len(b.Instrs)-1].(*ssa.Return); isRet {
					valueRet := len(ret.Results) > 0 && !isNilConst(ret.Results[0])
					if idx >= 0 && !isNilConst(ret.Results[idx]) && w.nonNilErr(ret.Results[idx], nil, nil, 0) {
						valueRet = false
					}
					if valueRet {
						ok = false
					}
					return
				}
				for _, s := range b.Succs {
					walk(s)
				}
			}
			walk(fn.Blocks[0])
			if ok {
				R[fn] = true
				changed = true
			}
		}
	}
	return R
}

// regTags: first octets whose reader registers a reference on the decoder side.
func (w *World) regTags() (ISet, []string, error) {
	reg := w.decRegistrar()
	rd := w.fn("(*Decoder).ReadData")
	rl := w.fn("(*Decoder).ReadList")
	if reg == nil || rd == nil {
		return nil, nil, fmt.Errorf("decoder registrar or ReadData not found")
	}
	d := w.dispatchOf(rd, nil)
	if d == nil {
		return nil, nil, fmt.Errorf("ReadData dispatcher not recognised")
	}
	R := w.registeringFuncs(reg)
	var set ISet
	var fns []string
	seenFn := map[string]bool{}
	var dl *dispatch
	if rl != nil {
		dl = w.dispatchOf(rl, specTags("list-typed", "").Union(specTags("list-untyped", "")))
	}
	for t := 0; t < 256; t++ {
		name := d.callee[t]
		if name == "" {
			continue
		}
		fn := w.fn(name)
		if fn == rl && dl != nil && dl.inCtx[t] {
			fn = w.fn(dl.callee[t])
		}
		if fn == nil {
			continue
		}
		if R[fn] {
			set = set.Union(single(int64(t)))
			if !seenFn[fnName(fn)] {
				seenFn[fnName(fn)] = true
				fns = append(fns, fnName(fn))
			}
		}
	}
	sort.Strings(fns)
	return set, fns, nil
}

func rulesC04(w *World, r *Report) {
	// the ordinals of the two sides agree only if both number from zero for every
	// message: a reference table that survives Reset (or a one-shot entry point
	// that does not reset first) makes a reused instance disagree with its peer
	includeIf(w, r, "C11", "the reference tables start empty for every message", 2, func(o *Obligation) bool {
		if strings.Contains(o.Key, "C11.R2") {
			return true
		}
		return strings.Contains(o.Key, "C11.R1") && (strings.Contains(o.Key, ".refMap") || strings.Contains(o.Key, ".refList"))
	})
	encReg, decReg := w.encRegistrar(), w.decRegistrar()
	if encReg == nil || decReg == nil {
		r.undecided("C04.anchor", "registrars", "-", "encoder ref-table registrar or decoder registrar not found")
		return
	}
	r.role("encoder registrar", []string{fnName(encReg)})
	r.role("decoder registrar", []string{fnName(decReg)})
	reg, regFns, err := w.regTags()
	if err != nil {
		r.undecided("C04.R1 registration pairing", "Reg", "-", err.Error())
		return
	}
	r.role("Reg: readers that register a reference on every value-returning path", regFns)
	r.note("Reg first octets = %s", reg.HexString())
	if reg.Empty() {
		r.undecided("C04.R1 registration pairing", "Reg", "-", "no registering reader found")
	}
	// container writers: the roots whose exploration meets the registrar
	var writers []*ssa.Function
	for _, n := range []string{"(*Encoder).writeList", "(*Encoder).writeMap", "(*Encoder).writeObject"} {
		if fn := w.role(n); fn != nil {
			writers = append(writers, fn)
		} else {
			r.undecided("C04.R1 registration pairing", n, "-", "container writer not found")
		}
	}
	r.role("container writers", fnNames(writers))
	ets := w.encoderTagSets()
	nW := 0
	for _, fn := range writers {
		r.fnSeen(fnName(fn))
		wi := w.writerPaths(fn)
		if wi.truncated {
			r.undecided("C04.R1 registration pairing", fnName(fn), w.pos(fn.Pos()), "path exploration exceeded its budget")
			continue
		}
		type agg struct {
			tags ISet
			pos  string
			bad  bool
		}
		first := map[string]*agg{}
		sawReg := false
		regBeforeValue := true
		for _, p := range wi.paths {
			ri := -1
			for i, e := range p.Trace {
				if e.Kind == "register" {
					ri = i
					break
				}
				if e.Kind == "value" {
					regBeforeValue = false
				}
			}
			if ri < 0 {
				continue
			}
			sawReg = true
			// the next emission after the registration on this path
			for _, e := range p.Trace[ri+1:] {
				var tags ISet
				desc := e.Kind
				switch {
				case e.Kind == "loophead" || e.Kind == "fieldstore" || e.Kind == "register" || e.Kind == "typetest" || strings.HasPrefix(e.Kind, "encode:"):
					continue // the class definition belongs to the object production
				case e.Kind == "ref":
					tags = nil // the found outcome: a back-reference, nothing registered
					desc = ""
				case e.Kind == "octets" || e.Kind == "bytes":
					if len(e.Args) > 0 && e.Args[0] != nil {
						tags, _ = w.evalEv(e.Args[0], e.Env)
					}
					desc = "octets " + tags.HexString()
				case strings.HasPrefix(e.Kind, "scalar:"):
					cn := strings.TrimPrefix(e.Kind, "scalar:")
					tags = ets[cn]
					if cn == "date" || cn == "string" {
						tags = tags.Union(single('N'))
					}
					desc = "a " + cn + " value (" + tags.HexString() + ")"
				case e.Kind == "value":
					tags = mkSet(0, 255)
					desc = "a nested value"
				default:
					tags = mkSet(0, 255)
				}
				if desc != "" {
					a := first[desc]
					if a == nil {
						a = &agg{pos: e.Pos}
						first[desc] = a
					}
					a.tags = a.tags.Union(tags)
				}
				break
			}
		}
		if !sawReg {
			r.undecided("C04.R1 registration pairing", fnName(fn)+" · registration", w.pos(fn.Pos()), "no path of the container writer passes the ref-table registration")
			continue
		}
		var descs []string
		for d := range first {
			descs = append(descs, d)
		}
		sort.Strings(descs)
		for _, d := range descs {
			a := first[d]
			nW++
			ok := a.tags != nil && !a.tags.Empty() && a.tags.SubsetOf(reg)
			r.add("C04.R1 registration pairing", fmt.Sprintf("%s · after registration first emits %s", fnName(fn), d), a.pos, ok,
				fmt.Sprintf("first octets %s; decoder registers on %s", a.tags.HexString(), reg.HexString()))
		}
		// R3 (encoder): on every path the registration precedes the first nested value
		r.add("C04.R3 register before recursing, once", fmt.Sprintf("%s · registration precedes every nested value", fnName(fn)), w.pos(fn.Pos()), regBeforeValue, "on every explored path the ref-table registration comes before the first recursive element write (termination on cycles)")
	}
	r.floor("C04.R1 (writer, first emission) pairs", nW, 4)

	// R2 registrar: read from its paths (rules_registrar_px.go) — every path that reports
	// 'not found' passes the insertion of len(table); the floor counts the returns such a
	// path reaches, whatever their operands look like
	nR := w.ruleRegistrarMiss(r, "C04.R2 a miss inserts and takes the next ordinal", encReg)
	r.floor("C04.R2 not-found returns of the registrar", nR, 1)
	w.ruleRefKeyPins(r, "C04.R2 a miss inserts and takes the next ordinal")
	w.ruleRefKeyIdentity(r, "C04.R6 the ref key identifies the container")
	w.ruleTablesAppendOnly(r, "C04.R7 ref tables are append-only within a stream", []string{"Encoder", "Decoder"})
	w.ruleTablesStartEmpty(r, "C04.R7 numbering tables start empty", []string{"Encoder", "Decoder"})
	w.ruleRefOrdinal(r, "C04.R8 a back-reference is x51 followed by the registrar's ordinal in the int codec")
	w.ruleHolderTakesConverted(r, "C04.R5 a list converted for its first destination is handed back to its holder")
	w.ruleHolderIsRegistered(r, "C04.R5 the holder of a list is what the reference table holds")
	w.ruleChangeStores(r, "C04.R4 the holder takes a changed slice")
	w.ruleNotifyAfterFinalValue(r, "C04.R5 references keep identity")

	// R3 decoder: container readers
	rd := w.fn("(*Decoder).ReadData")
	reachRD := w.canReach(map[*ssa.Function]bool{rd: true})
	nD := 0
	for _, fn := range w.SrcFuncs() {
		if fn == decReg {
			continue
		}
		regs := callsTo(fn, decReg)
		if len(regs) == 0 {
			continue
		}
		nD++
		r.fnSeen(fnName(fn))
		key := fnName(fn) + " · registers before recursing, once"
		ok := true
		var facts []string
		if len(regs) != 1 {
			ok = false
			facts = append(facts, fmt.Sprintf("%d registration calls", len(regs)))
		}
		rc := regs[0]
		for _, lp := range naturalLoops(fn) {
			if lp.body[rc.Block()] {
				ok = false
				facts = append(facts, "the registration is inside a loop")
			}
		}
		for _, cs := range w.callSitesIn(fn) {
			recurses := false
			for _, cal := range w.calleesOf(cs.call) {
				if reachRD[cal] && cal != decReg {
					recurses = true
				}
			}
			if !recurses {
				continue
			}
			// the header reads (type, length) precede registration legitimately: only calls that can
			// read an ELEMENT (reach ReadData) matter
			before := false
			if cs.call.Block() == rc.Block() {
				for _, in := range rc.Block().Instrs {
					if in == ssa.Instruction(rc) {
						before = true
						break
					}
					if in == ssa.Instruction(cs.call) {
						break
					}
				}
			} else {
				before = rc.Block().Dominates(cs.call.Block())
			}
			if !before {
				ok = false
				facts = append(facts, fmt.Sprintf("%s at %s can recurse into the value dispatch before the container is registered (a reference to it from inside resolves to the wrong ordinal)", cs.callee, w.instrPos(cs.call)))
			}
		}
		// value-returning returns are dominated by the registration
		idx := errIndex(fn.Signature)
		for _, b := range fn.Blocks {
			ret, isRet := b.Instrs[len(b.Instrs)-1].(*ssa.Return)
			if !isRet {
				continue
			}
			if idx >= 0 && !isNilConst(ret.Results[idx]) {
				continue
			}
			if idx == 0 || (len(ret.Results) > 0 && isNilConst(ret.Results[0]) && idx > 0) {
				// error-only function (readMap) or nil value: a nil-error return without value is the "no container" exit
				if idx > 0 {
					continue
				}
			}
			if !rc.Block().Dominates(b) {
				if idx == 0 {
					// readMap: returns on the null / ref arms before building a map are not containers
					continue
				}
				ok = false
				facts = append(facts, "a value-returning return at "+w.instrPos(ret)+" is not dominated by the registration")
			}
		}
		if len(facts) == 0 {
			facts = append(facts, "one registration, outside any loop, dominating every element read and every value-returning return")
		}
		r.add("C04.R3 register before recursing, once", key, w.instrPos(rc), ok, strings.Join(facts, "; "))
	}
	r.floor("C04.R3 container readers", nD, 6)

	// R4 late-bound slices
	nA := 0
	// the container readers, the function literals they write (the append may sit in
	// the store closure handed to a shared element loop) and the private helpers that
	// are only ever called — statically — from those (`growList(holder, list, elem)` =
	// Append + change): each mapped to the container readers it serves
	serves := map[*ssa.Function]map[*ssa.Function]bool{}
	for _, fn := range w.SrcFuncs() {
		for f := fn; f != nil; f = f.Parent() {
			if len(callsTo(f, decReg)) > 0 {
				if serves[fn] == nil {
					serves[fn] = map[*ssa.Function]bool{}
				}
				serves[fn][f] = true
			}
		}
	}
	for changed := true; changed; {
		changed = false
		for _, fn := range w.SrcFuncs() {
			if fn.Parent() != nil || fn.Signature.Recv() != nil || token.IsExported(fn.Name()) || fn == decReg {
				continue
			}
			n := w.CG.Nodes[fn]
			if n == nil || len(n.In) == 0 {
				continue
			}
			all := true
			for _, e := range n.In {
				c, isC := e.Site.(*ssa.Call)
				if !isC || c.Call.StaticCallee() != fn || e.Caller.Func == nil || serves[e.Caller.Func] == nil {
					all = false
				}
			}
			if !all {
				continue
			}
			for _, e := range n.In {
				for o := range serves[e.Caller.Func] {
					if serves[fn] == nil {
						serves[fn] = map[*ssa.Function]bool{}
					}
					if !serves[fn][o] {
						serves[fn][o] = true
						changed = true
					}
				}
			}
		}
	}
	appendReaders := map[*ssa.Function]bool{}
	for _, fn := range w.SrcFuncs() {
		if serves[fn] == nil {
			continue
		}
		for _, cs := range w.callSitesIn(fn) {
			if cs.callee != "reflect.Append" {
				continue
			}
			nA++
			for o := range serves[fn] {
				appendReaders[o] = true
			}
			ok := false
			isChange := func(c2 *ssa.Call) bool {
				return c2.Call.StaticCallee() != nil && fnName(c2.Call.StaticCallee()) == "(*_refHolder).change" && c2.Block() == cs.call.Block()
			}
			for _, ref := range *cs.call.Referrers() {
				if c2, isC := ref.(*ssa.Call); isC && isChange(c2) {
					ok = true
				}
				// `v = reflect.Append(v, x); holder.change(v)` with v a captured variable:
				// the appended slice is stored into the variable's cell and read back for
				// the call, nothing writing the cell in between
				st, isSt := ref.(*ssa.Store)
				if !isSt || st.Val != ssa.Value(cs.call) || st.Block() != cs.call.Block() {
					continue
				}
				after := false
				for _, in := range st.Block().Instrs {
					if in == ssa.Instruction(st) {
						after = true
						continue
					}
					if !after {
						continue
					}
					if s2, isS2 := in.(*ssa.Store); isS2 && s2.Addr == st.Addr {
						break
					}
					if c2, isC := in.(*ssa.Call); isC && isChange(c2) {
						for _, a := range c2.Call.Args {
							if ld, isLd := a.(*ssa.UnOp); isLd && ld.Op == token.MUL && ld.X == st.Addr {
								ok = true
							}
						}
					}
				}
			}
			r.add("C04.R4 grown slices are re-announced to their holder", fmt.Sprintf("%s · %s", fnName(fn), cs.key()), w.instrPos(cs.call), ok,
				map[bool]string{true: "the appended slice is passed to holder.change in the same block", false: "after reflect.Append the holder still refers to the old backing array"}[ok])
		}
	}
	// floor over the container readers whose growth was examined (typed list, untyped
	// list), not over Append sites: two readers may grow their slice through one helper
	_ = nA
	r.floor("C04.R4 container readers whose Append sites were examined", len(appendReaders), 2)
	w.ruleHolderChangePX(r, "C04.R4 grown slices are re-announced to their holder")
	w.ruleRefBinding(r, "C04.R5 references keep identity")
}

func stripHex(s string) string { return s }

// ruleRefBinding (C04.R5): identity of referenced containers.
//
//	(a) ConvertSliceValueType unpacks a pointer element only when the
//	    destination element kind is not a pointer (otherwise SetValue re-packs a
//	    COPY and the element loses its identity);
//	(b) SetSlice queues a reference on a holder only while the list is still
//	    being read; both list readers mark the holder completed before returning it.
func (w *World) ruleRefBinding(r *Report, rule string) {
	cs := w.fn("ConvertSliceValueType")
	if cs == nil {
		r.undecided(rule, "ConvertSliceValueType", "-", "anchor not found")
	} else {
		f := w.flow(cs)
		n := 0
		for _, site := range w.callSitesIn(cs) {
			switch site.callee {
			case "UnpackPtrValue", "UnpackPtr", "RawValue":
			default:
				continue
			}
			n++
			// the facts at the call must exclude "destination element kind == Ptr"
			env := f.At(site.call.Block())
			okG := false
			// the destination element kind is Kind(Elem(destTyp)) for the reflect.Type parameter
			elemKind := ""
			for _, p := range cs.Params {
				if typeStr(p.Type()) == "reflect.Type" {
					elemKind = "pure:(reflect.Type).Kind(pure:(reflect.Type).Elem(<p:" + p.Name() + ">))"
				}
			}
			for k, v := range env {
				if k == "("+elemKind+" == 22)" && v.Equal(single(0)) {
					okG = true
				}
				if k == elemKind && !v.Contains(22) {
					okG = true
				}
			}
			r.add(rule, fmt.Sprintf("ConvertSliceValueType · %s", site.key()), w.instrPos(site.call), okG,
				map[bool]string{true: "pointer elements are unpacked only when the destination element kind is not Ptr", false: "a pointer element is unpacked also for a []*T destination: SetValue re-packs a copy, so the element is no longer the object other references lead to"}[okG])
		}
		if n == 0 {
			r.add(rule, "ConvertSliceValueType · pointer elements", w.pos(cs.Pos()), true, "no pointer unpacking in the element conversion")
		}
	}
	ss := w.fn("SetSlice")
	if ss == nil {
		r.undecided(rule, "SetSlice", "-", "anchor not found")
		return
	}
	// (b) the add() call in SetSlice is on the not-completed edge
	n := 0
	for _, site := range w.callSitesIn(ss) {
		if site.callee != "(*_refHolder).add" {
			continue
		}
		n++
		okC := false
		for _, b := range ss.Blocks {
			iff, isIf := b.Instrs[len(b.Instrs)-1].(*ssa.If)
			if !isIf {
				continue
			}
			if ld, isLd := iff.Cond.(*ssa.UnOp); isLd && ld.Op == token.MUL {
				if fa, isFA := ld.X.(*ssa.FieldAddr); isFA && typeStr(ld.Type()) == "bool" && strings.HasSuffix(typeStr(fa.X.Type()), "_refHolder") {
					if b.Succs[1].Dominates(site.call.Block()) {
						okC = true
					}
				}
			}
		}
		r.add(rule, "SetSlice · a reference is queued only on an unfinished list", w.instrPos(site.call), okC,
			map[bool]string{true: "holder.add is reached only when the holder is not yet completed; a completed list is bound at once", false: "a reference to a list that was already read completely is queued on a holder nobody will notify: the destination stays empty (the same slice in two sibling fields)"}[okC])
	}
	r.floor(rule+" (queued references in SetSlice)", n, 1)
	for _, name := range []string{"(*Decoder).readTypedList", "(*Decoder).readUntypedList"} {
		fn := w.fn(name)
		if fn == nil {
			r.undecided(rule, name, "-", "anchor not found")
			continue
		}
		// every return of the holder is dominated by a store of true into its bool field
		var marks []*ssa.BasicBlock
		for _, b := range fn.Blocks {
			for _, in := range b.Instrs {
				if st, ok := in.(*ssa.Store); ok {
					if fa, ok := st.Addr.(*ssa.FieldAddr); ok && strings.HasSuffix(typeStr(fa.X.Type()), "_refHolder") {
						if k, isC := st.Val.(*ssa.Const); isC && k.Value != nil && k.Value.ExactString() == "true" {
							marks = append(marks, b)
						}
					}
				}
			}
		}
		okM := true
		idx := errIndex(fn.Signature)
		for _, b := range fn.Blocks {
			ret, isRet := b.Instrs[len(b.Instrs)-1].(*ssa.Return)
			if !isRet || isNilConst(ret.Results[0]) || !isNilConst(ret.Results[idx]) {
				continue
			}
			dom := false
			for _, m := range marks {
				if m.Dominates(b) {
					dom = true
				}
			}
			if !dom {
				okM = false
			}
		}
		r.add(rule, name+" · marks the holder completed before returning it", w.pos(fn.Pos()), okM && len(marks) > 0, fmt.Sprintf("%d completion mark(s) dominating every holder-returning return=%v", len(marks), okM))
	}
}

// ruleRefKeyPins: the ref-table key holds addresses as pointers.
func (w *World) ruleRefKeyPins(r *Report, rule string) {
	// the table must keep the addresses it is keyed on alive: an address stored as an
	// integer does not pin the temporary copy made for a by-value struct, and the
	// collector may hand the same address to a later value
	fi := w.encRefField()
	if _, st := w.structOf("Encoder"); st != nil && fi >= 0 {
		if mt, ok := st.Field(fi).Type().Underlying().(*types.Map); ok {
			bad := ""
			var scan func(t types.Type)
			scan = func(t types.Type) {
				switch u := t.Underlying().(type) {
				case *types.Basic:
					if u.Kind() == types.Uintptr {
						bad = "uintptr"
					}
				case *types.Struct:
					for i := 0; i < u.NumFields(); i++ {
						scan(u.Field(i).Type())
					}
				}
			}
			scan(mt.Key())
			r.add(rule, "ref table key retains the address as a pointer", "-", bad == "",
				map[bool]string{true: "key type " + typeStr(mt.Key()) + " holds the address as a pointer: the keyed object cannot be collected and its address reused while the table lives", false: "key type " + typeStr(mt.Key()) + " stores the address as uintptr: the temporary copy of a by-value struct can be collected and its address reused by a later value, which is then written as a back-reference to the earlier one"}[bad == ""])
		}
	}

}

// ---- C05 ----

func rulesC05(w *World, r *Report) {
	w.ruleSizeTables(r, "C05.R8 a size-by-first-octet table agrees with the grammar")
	w.ruleCountedTraversals(r, "C05.R6 every field of a class is named, written, looked up and read", 3, nil)
	ro := w.fn("(*Decoder).readObject")
	if ro == nil {
		r.undecided("C05.anchor", "(*Decoder).readObject", "-", "anchor not found")
		return
	}
	r.fnSeen(fnName(ro))
	f := w.flow(ro)
	// consumers: package functions from which a tag read is reachable
	tg := map[*ssa.Function]bool{}
	for _, n := range []string{"readTag", "getTag"} {
		if fn := w.fn(n); fn != nil {
			tg[fn] = true
		}
	}
	consumers := w.canReach(tg)
	// the field loop: bound is len(cls.FieldName) — a loop whose header compares a φ with len(field of the ClassDef parameter)
	// (in the reader itself or in a function extracted from it, rules_c05loop.go)
	helpers := w.privateHelpers(ro)
	lf, loop, counter := w.fieldLoopOf(ro, helpers) // counter indexes the current iteration's definition name: the counter φ, or counter+1 in a range loop
	if lf != nil {
		f = w.flow(lf)
	}
	if loop == nil {
		r.undecided("C05.R1 one wire value per definition field", "(*Decoder).readObject · field loop", w.pos(ro.Pos()), "no loop bounded by len(definition field names) found")
		return
	}
	// the loop is left only when the definition is exhausted, or with an error: a
	// second condition ("all Go fields filled", "enough read") leaves the remaining
	// wire values of the instance on the stream
	{
		idx := errIndex(lf.Signature)
		nExit, badExit := 0, ""
		for b := range loop.body {
			iff, ok := b.Instrs[len(b.Instrs)-1].(*ssa.If)
			if !ok {
				continue
			}
			for _, sx := range b.Succs {
				if loop.body[sx] {
					continue
				}
				nExit++
				if ix, _ := fieldLoopTest(iff.Cond, loop.header); ix != nil {
					continue // the definition counter
				}
				// the failing side of an error test
				if bo, isBo := iff.Cond.(*ssa.BinOp); isBo && (bo.Op == token.NEQ || bo.Op == token.EQL) && (isNilConst(bo.X) || isNilConst(bo.Y)) {
					other := bo.X
					if isNilConst(other) {
						other = bo.Y
					}
					nonNilSide := b.Succs[0]
					if bo.Op == token.EQL {
						nonNilSide = b.Succs[1]
					}
					if isErrorType(other.Type()) && sx == nonNilSide {
						continue
					}
				}
				t := sx
				for k := 0; k < 3; k++ {
					if j, isJ := t.Instrs[len(t.Instrs)-1].(*ssa.Jump); isJ {
						_ = j
						t = t.Succs[0]
					}
				}
				if ret, isR := t.Instrs[len(t.Instrs)-1].(*ssa.Return); isR && idx >= 0 && w.nonNilErr(ret.Results[idx], nil, nil, 0) {
					continue // a failure
				}
				if badExit == "" {
					badExit = w.instrPos(iff)
				}
			}
		}
		r.add("C05.R1 the field loop ends with the definition or with an error", "(*Decoder).readObject · field loop exits", w.pos(ro.Pos()), badExit == "",
			map[bool]string{true: fmt.Sprintf("%d exits: the definition counter and error returns only", nExit),
				false: "the test at " + badExit + " leaves the field loop before the definition is exhausted without an error: the wire values of the remaining definition fields stay on the stream and are taken for the next value"}[badExit == ""])
	}
	// enumerate paths header → header inside the body
	type pathRes struct {
		n    int
		desc []string
	}
	var results []pathRes
	var bodyStart *ssa.BasicBlock
	for _, s := range loop.header.Succs {
		if loop.body[s] {
			bodyStart = s
		}
	}
	vc := w.newValueCounter(consumers)
	var dfs func(b *ssa.BasicBlock, n int, desc []string, seen map[*ssa.BasicBlock]bool)
	dfs = func(b *ssa.BasicBlock, n int, desc []string, seen map[*ssa.BasicBlock]bool) {
		if b == loop.header {
			results = append(results, pathRes{n, append([]string{}, desc...)})
			return
		}
		if !loop.body[b] || seen[b] {
			return // leaves the loop (error return) or inner cycle
		}
		seen[b] = true
		defer delete(seen, b)
		for _, in := range b.Instrs {
			c, ok := in.(*ssa.Call)
			if !ok {
				continue
			}
			for _, cal := range w.calleesOf(c) {
				if consumers[cal] && w.inPkg(cal) {
					// a value reader stands for one value; a helper composed of
					// value readers for the total of its own paths
					k := vc.ofCall(c)
					switch {
					case len(k) == 1 && n >= 0:
						n += k[0]
						desc = append(desc, fmt.Sprintf("%s@%s=%d", fnName(cal), w.instrPos(c), k[0]))
					default:
						n = -1
						desc = append(desc, fmt.Sprintf("%s@%s consumes %v values depending on its path", fnName(cal), w.instrPos(c), k))
					}
					break
				}
			}
		}
		for _, s := range b.Succs {
			dfs(s, n, desc, seen)
		}
	}
	if bodyStart != nil {
		dfs(bodyStart, 0, nil, map[*ssa.BasicBlock]bool{})
	}
	for i, p := range results {
		r.add("C05.R1 one wire value per definition field", fmt.Sprintf("(*Decoder).readObject · iteration path #%d", i+1), w.pos(ro.Pos()), p.n == 1,
			fmt.Sprintf("value-consuming calls on this path: %d %v (want exactly 1: otherwise every later field is read from the wrong bytes)", p.n, p.desc))
	}
	// floor over the alternative value reads examined (bind the field / skip an
	// unknown one), wherever they sit: in the loop body or in a helper called from it
	r.floor("C05.R1 iteration paths of the field loop", len(results), 1)
	r.floor("C05.R1 alternative value reads of one iteration", len(vc.leaves), 2)

	// R2 binding by name
	nB := 0
	var lookupFn *ssa.Function
	// the object reader and the helpers extracted from it; a value that is a
	// helper's parameter stands for the arguments at the helper's call sites
	var scopeFns []*ssa.Function
	for fn := range helpers {
		scopeFns = append(scopeFns, fn)
	}
	sort.Slice(scopeFns, func(i, j int) bool { return fnName(scopeFns[i]) < fnName(scopeFns[j]) })
	for _, hf := range scopeFns {
		for _, cs := range w.callSitesIn(hf) {
			if cs.callee != "(reflect.Value).Field" {
				continue
			}
			nB++
			ok := false
			fact := "field index is " + cs.call.Call.Args[1].String()
			idxs, known := throughParams(cs.call.Call.Args[1], hf, helpers, 0)
			if !known {
				idxs = nil
				fact = "field index is a parameter with unknown callers"
			}
			allOK := len(idxs) > 0
			for _, idx := range idxs {
				one := false
				if ex, isEx := idx.(*ssa.Extract); isEx && ex.Index == 0 {
					if c, isC := ex.Tuple.(*ssa.Call); isC && isFieldLookup(w, c.Call.StaticCallee()) >= 0 {
						// the lookup function is found by what it is: (wire name, struct type) -> (index, error)
						lookupFn = c.Call.StaticCallee()
						// its name argument is FieldName[index of the current iteration]
						names, kn := throughParams(c.Call.Args[isFieldLookup(w, lookupFn)], c.Parent(), helpers, 0)
						one = kn && len(names) > 0
						for _, nameArg := range names {
							good := false
							// (`fldName = names[i]` kept in a variable that a closure captures: the cell's value)
							nameArg = cellValueAt(nameArg)
							if ld, isLd := nameArg.(*ssa.UnOp); isLd && ld.Op == token.MUL {
								if ia, isIA := ld.X.(*ssa.IndexAddr); isIA && ia.Index == counter {
									good = true
								}
							}
							if !good {
								one = false
							}
						}
						if one {
							fact = "index = " + fnName(lookupFn) + "(definition name of the current iteration, type)"
						} else {
							fact = fnName(lookupFn) + " is not applied to the wire name of the current iteration"
						}
					}
				}
				if idx == counter {
					fact = "the destination field is selected by the loop counter: fields are bound by position, not by name"
				}
				if !one {
					allOK = false
				}
			}
			ok = allOK
			r.add("C05.R2 fields are bound by looked-up name", fmt.Sprintf("%s · %s", fnName(hf), cs.key()), w.instrPos(cs.call), ok, fact)
		}
	}
	r.floor("C05.R2 destination field selections", nB, 1)
	if lookupFn == nil {
		lookupFn = w.fn("findField")
	}
	if lookupFn != nil {
		w.ruleFindFieldPX(r, "C05.R2 fields are bound by looked-up name", lookupFn)
	} else {
		r.undecided("C05.R2 fields are bound by looked-up name", "findField", "-", "no function (wire name, struct type) -> (field index, error) feeds the destination field selection")
	}

	// R3 class index forms
	w.ruleObjectIndexForms(r, "C05.R3 class index forms")
	w.ruleTablesAppendOnly(r, "C05.R5 reading or skipping a field leaves the numbering tables intact", []string{"Decoder"})

	// R4 creation
	nNew := 0
	for _, cs := range w.callSitesIn(ro) {
		if cs.callee == "reflect.New" {
			nNew++
			ok := f.term(cs.call.Call.Args[0]).Key() == "<p:typ>"
			r.add("C05.R4 instance is a fresh zero value of the mapped type", "(*Decoder).readObject · reflect.New", w.instrPos(cs.call), ok, "created by reflect.New(typ): Go fields absent from the wire keep their zero value")
		}
	}
	r.floor("C05.R4 instance creation", nNew, 1)
}

// ruleCaseHelper: the helper maps first octet [lo,hi] by a constant offset
// and returns other names unchanged.
func (w *World) ruleCaseHelper(r *Report, rule, name string, lo, hi int64, off int64) {
	fn := w.fn(name)
	if fn == nil {
		r.undecided(rule, name, "-", "anchor not found")
		return
	}
	w.ruleCaseHelperFn(r, rule, fn, lo, hi, off)
}

// ruleObjectIndexForms: dispatchers and encoder header for object instances.
func (w *World) ruleObjectIndexForms(r *Report, rule string) {
	for _, dn := range []string{"(*Decoder).ReadData", "(*Decoder).readStruct", "(*Decoder).readObjectDef"} {
		fn := w.fn(dn)
		if fn == nil {
			r.undecided(rule, dn, "-", "anchor not found")
			continue
		}
		d := w.dispatchOf(fn, nil)
		if d == nil {
			r.undecided(rule, dn, "-", "dispatcher not recognised")
			continue
		}
		var bad []string
		for t := 0x60; t <= 0x6f; t++ {
			if d.arm[t] != "object-short" {
				bad = append(bad, fmt.Sprintf("x%02x→%s", t, d.arm[t]))
			}
		}
		r.add(rule, dn+" · tags x60-x6f", d.pos[0x60], len(bad) == 0, fmt.Sprintf("all sixteen compact instance tags reach the object reader %v", bad))
		r.add(rule, dn+" · tag 'O'", d.pos[0x4f], d.arm[0x4f] == "object-long", fmt.Sprintf("'O' resolves to %q", d.arm[0x4f]))
	}
	// encoder: compact header carries the true index
	wo := w.fn("(*Encoder).writeObject")
	if wo == nil {
		r.undecided(rule, "(*Encoder).writeObject", "-", "anchor not found")
		return
	}
	w.ruleCompactHeaders(r, rule, wo, 0x60, 0x6f)
	// readers bounds-check the index
	w.ruleIndexGuardsPX(r, rule, []string{"(*Decoder).ReadLenTagObject", "(*Decoder).readTagObject"})
}

// isFieldLookup: fn is an in-package function taking one string (the wire
// name) and one reflect.Type (the struct) and returning (int, error); the
// result is the position of the string parameter, or -1.
func isFieldLookup(w *World, fn *ssa.Function) int {
	if fn == nil || !w.inPkg(fn) || fn.Blocks == nil || fn.Signature.Recv() != nil {
		return -1
	}
	sig := fn.Signature
	if sig.Params().Len() != 2 || sig.Results().Len() != 2 || typeStr(sig.Results().At(0).Type()) != "int" || !isErrorType(sig.Results().At(1).Type()) {
		return -1
	}
	si, ti := -1, -1
	for i := 0; i < 2; i++ {
		switch typeStr(sig.Params().At(i).Type()) {
		case "string":
			si = i
		case "reflect.Type":
			ti = i
		}
	}
	if si < 0 || ti < 0 {
		return -1
	}
	return si
}
