package main

// Views: with PX.views set, a slice expression s[lo:hi] over a slice, string or
// array is the term view(root, lo', hi') where root is the value that was
// first cut and lo', hi' are offsets into root (slices of slices compose), and
// len(view) is hi'-lo'.  A φ-node carries the view of the edge taken, so the
// idioms  `x[begin:begin+K]; begin += K`  and  `rest[:K]; rest = rest[K:]`
// produce the same terms.

import (
	"go/token"
	"go/types"
	"math/big"

	"golang.org/x/tools/go/ssa"
)

var tInt = types.Typ[types.Int]

func constT(c int64, t types.Type) *Term {
	b := big.NewInt(c)
	return &Term{K: TConst, C: b, T: t, key: b.String()}
}

func isZeroT(t *Term) bool { return t != nil && t.K == TConst && t.C.Sign() == 0 }

// addT builds a+b, folding constants ((x+c1)+c2 = x+(c1+c2), 0+x = x).
func addT(a, b *Term, t types.Type) *Term {
	if a.K == TConst && b.K != TConst {
		a, b = b, a
	}
	if isZeroT(b) {
		return a
	}
	if a.K == TConst && b.K == TConst {
		s := new(big.Int).Add(a.C, b.C)
		return &Term{K: TConst, C: s, T: t, key: s.String()}
	}
	if b.K == TConst && a.K == TBin && a.B.K == TConst && (a.Op == token.ADD || a.Op == token.SUB) {
		c := new(big.Int).Set(a.B.C)
		if a.Op == token.SUB {
			c.Neg(c)
		}
		c.Add(c, b.C)
		return addT(a.A, &Term{K: TConst, C: c, T: t, key: c.String()}, t)
	}
	if b.K == TConst && b.C.Sign() < 0 {
		n := new(big.Int).Neg(b.C)
		nb := &Term{K: TConst, C: n, T: t, key: n.String()}
		return &Term{K: TBin, Op: token.SUB, A: a, B: nb, T: t, key: "(" + a.key + " - " + nb.key + ")"}
	}
	return &Term{K: TBin, Op: token.ADD, A: a, B: b, T: t, key: "(" + a.key + " + " + b.key + ")"}
}

// subT builds a-b with the same folding.
func subT(a, b *Term, t types.Type) *Term {
	if isZeroT(b) {
		return a
	}
	if a.key == b.key {
		return constT(0, t)
	}
	if b.K == TConst {
		n := new(big.Int).Neg(b.C)
		return addT(a, &Term{K: TConst, C: n, T: t, key: n.String()}, t)
	}
	// (x + c) - x = c
	if a.K == TBin && a.Op == token.ADD && a.B.K == TConst && a.A.key == b.key {
		return &Term{K: TConst, C: a.B.C, T: t, key: a.B.C.String()}
	}
	// (x + c1) - (x + c2) = c1 - c2
	if a.K == TBin && b.K == TBin && a.Op == token.ADD && b.Op == token.ADD && a.B.K == TConst && b.B.K == TConst && a.A.key == b.A.key {
		d := new(big.Int).Sub(a.B.C, b.B.C)
		return &Term{K: TConst, C: d, T: t, key: d.String()}
	}
	return &Term{K: TBin, Op: token.SUB, A: a, B: b, T: t, key: "(" + a.key + " - " + b.key + ")"}
}

// viewParts: (root, lo, hi) of a term standing for a sliceable value.
func (p *PX) viewParts(t *Term) (root, lo, hi *Term) {
	if t.K == TPure && t.Name == "view" && len(t.Args) == 3 {
		return t.Args[0], t.Args[1], t.Args[2]
	}
	return t, constT(0, tInt), p.fullLen(t)
}

// fullLen: the length of a root value (constant for arrays).
func (p *PX) fullLen(t *Term) *Term {
	if t.T != nil {
		if pt, ok := t.T.Underlying().(*types.Pointer); ok {
			if at, ok := pt.Elem().Underlying().(*types.Array); ok {
				return constT(at.Len(), tInt)
			}
		}
	}
	return p.lenTerm(t, tInt)
}

func (p *PX) mkView(root, lo, hi *Term, typ types.Type) *Term {
	if isZeroT(lo) && hi.key == p.fullLen(root).key && types.Identical(root.T, typ) {
		return root // the full view is the value itself
	}
	return &Term{K: TPure, Name: "view", Args: []*Term{root, lo, hi}, T: typ, key: "view(" + root.key + "," + lo.key + "," + hi.key + ")"}
}

// sliceView: the term of x.X[x.Low:x.High].
func (p *PX) sliceView(x *ssa.Slice, fr *pxFrame, st *pxState) *Term {
	base := p.term(x.X, fr, st)
	root, lo0, hi0 := p.viewParts(base)
	lo, hi := lo0, hi0
	if x.Low != nil {
		lo = addT(lo0, p.term(x.Low, fr, st), tInt)
	}
	if x.High != nil {
		hi = addT(lo0, p.term(x.High, fr, st), tInt)
	}
	return p.mkView(root, lo, hi, x.Type())
}
