package main

// C16 — the value walk seen as a set of functions.
//
// The walk over a value is ExtractValue together with every in-package function
// that lies on a call cycle through it (a helper extracted for the list items,
// the map entries, the zero value of an element type …).  The rules of C16 that
// speak about "recursive calls of the walk" are evaluated over that set: a call
// from a member to a member is a recursive call, the kind facts that hold where
// a helper is called hold inside the helper, and a helper that invokes the walk
// the same number of times on every path counts for that many recursive calls.

import (
	"fmt"
	"go/token"
	"go/types"
	"sort"
	"strings"

	"golang.org/x/tools/go/ssa"
)

type valueWalk struct {
	w     *World
	ev    *ssa.Function
	in    map[*ssa.Function]bool // members, ev included
	fns   []*ssa.Function        // members, ev first, then by name
	restA bool                   // the members other than ev form no cycle among themselves
	kmemo map[*ssa.Function][]string
	kbusy map[*ssa.Function]bool
	cmemo map[*ssa.Function][]int
}

// staticPkgCallees: in-package functions called statically from fn.
func (w *World) staticPkgCallees(fn *ssa.Function) []*ssa.Function {
	var out []*ssa.Function
	seen := map[*ssa.Function]bool{}
	for _, b := range fn.Blocks {
		for _, in := range b.Instrs {
			c, ok := in.(*ssa.Call)
			if !ok {
				continue
			}
			if sc := c.Call.StaticCallee(); sc != nil && sc.Blocks != nil && w.inPkg(sc) && !seen[sc] {
				seen[sc] = true
				out = append(out, sc)
			}
		}
	}
	return out
}

func (w *World) valueWalkOf(ev *ssa.Function) *valueWalk {
	fwd := map[*ssa.Function]bool{ev: true}
	stack := []*ssa.Function{ev}
	for len(stack) > 0 {
		f := stack[len(stack)-1]
		stack = stack[:len(stack)-1]
		for _, c := range w.walkPkgCallees(f) {
			if !fwd[c] {
				fwd[c] = true
				stack = append(stack, c)
			}
		}
	}
	// members: reachable from ev and reaching ev
	in := map[*ssa.Function]bool{ev: true}
	for changed := true; changed; {
		changed = false
		for f := range fwd {
			if in[f] {
				continue
			}
			for _, c := range w.walkPkgCallees(f) {
				if in[c] {
					in[f] = true
					changed = true
					break
				}
			}
		}
	}
	vw := &valueWalk{w: w, ev: ev, in: in, kmemo: map[*ssa.Function][]string{}, kbusy: map[*ssa.Function]bool{}, cmemo: map[*ssa.Function][]int{}}
	for f := range in {
		if f != ev {
			vw.fns = append(vw.fns, f)
		}
	}
	sort.Slice(vw.fns, func(i, j int) bool { return fnName(vw.fns[i]) < fnName(vw.fns[j]) })
	vw.fns = append([]*ssa.Function{ev}, vw.fns...)
	// every cycle of the walk passes through ev: the rest is acyclic
	vw.restA = true
	state := map[*ssa.Function]int{}
	var visit func(f *ssa.Function)
	visit = func(f *ssa.Function) {
		state[f] = 1
		for _, c := range w.walkPkgCallees(f) {
			if c == ev || !in[c] {
				continue
			}
			switch state[c] {
			case 0:
				visit(c)
			case 1:
				vw.restA = false
			}
		}
		state[f] = 2
	}
	for _, f := range vw.fns[1:] {
		if state[f] == 0 {
			visit(f)
		}
	}
	return vw
}

// walkCalls: the calls of fn whose callee is a member of the walk.
func (vw *valueWalk) walkCalls(fn *ssa.Function) []*ssa.Call {
	var out []*ssa.Call
	for _, b := range fn.Blocks {
		out = append(out, vw.walkCallsIn(b)...)
	}
	return out
}

func (vw *valueWalk) walkCallsIn(b *ssa.BasicBlock) []*ssa.Call {
	var out []*ssa.Call
	for _, in := range b.Instrs {
		if c, ok := in.(*ssa.Call); ok {
			if sc := vw.w.walkCallee(c); sc != nil && vw.in[sc] {
				out = append(out, c)
			}
		}
	}
	return out
}

// kindsAt: the reflect kinds possible at block b of a member.  The member's own
// Kind() facts if it has any at b; otherwise the kinds under which the member is
// entered (union over the call sites of the walk, computed the same way).
func (vw *valueWalk) kindsAt(b *ssa.BasicBlock) []string {
	fn := b.Parent()
	if ks := vw.w.flow(fn).kindsAt(b); ks != nil {
		return ks
	}
	return vw.entryKinds(fn)
}

func (vw *valueWalk) entryKinds(fn *ssa.Function) []string {
	if fn == vw.ev {
		return nil // entered from outside with any value
	}
	if ks, ok := vw.kmemo[fn]; ok {
		return ks
	}
	if vw.kbusy[fn] {
		return nil
	}
	vw.kbusy[fn] = true
	defer delete(vw.kbusy, fn)
	set := map[string]bool{}
	known := true
	sites := 0
	for _, g := range vw.fns {
		for _, c := range vw.walkCalls(g) {
			if vw.w.walkCallee(c) != fn {
				continue
			}
			sites++
			ks := vw.kindsAt(c.Block())
			if ks == nil {
				known = false
			}
			for _, k := range ks {
				set[k] = true
			}
		}
	}
	var out []string
	if known && sites > 0 {
		for k := range set {
			out = append(out, k)
		}
		sort.Strings(out)
	}
	vw.kmemo[fn] = out
	return out
}

// invocations: how many times one call of the member fn invokes the walk's
// entry, as the set of counts over the acyclic paths through fn (ev itself: 1).
// A member that invokes the walk inside a loop of its own yields -1 (not a
// constant).
func (vw *valueWalk) invocations(fn *ssa.Function) []int {
	if fn == vw.ev {
		return []int{1}
	}
	if c, ok := vw.cmemo[fn]; ok {
		return c
	}
	vw.cmemo[fn] = []int{-1} // a cycle among helpers is not a constant
	counts := map[int]bool{}
	for _, lp := range naturalLoops(fn) {
		for b := range lp.body {
			if len(vw.walkCallsIn(b)) > 0 {
				counts[-1] = true
			}
		}
	}
	weight := func(b *ssa.BasicBlock) []int {
		acc := []int{0}
		for _, c := range vw.walkCallsIn(b) {
			var next []int
			for _, k := range vw.invocations(vw.w.walkCallee(c)) {
				for _, a := range acc {
					if k < 0 || a < 0 {
						next = append(next, -1)
					} else {
						next = append(next, a+k)
					}
				}
			}
			acc = uniqInts(next)
		}
		return acc
	}
	var dfs func(b *ssa.BasicBlock, k int, seen map[*ssa.BasicBlock]bool)
	dfs = func(b *ssa.BasicBlock, k int, seen map[*ssa.BasicBlock]bool) {
		if seen[b] || len(counts) > 16 {
			return
		}
		seen[b] = true
		defer delete(seen, b)
		for _, wgt := range weight(b) {
			k2 := k + wgt
			if wgt < 0 {
				counts[-1] = true
				continue
			}
			if _, isRet := b.Instrs[len(b.Instrs)-1].(*ssa.Return); isRet {
				counts[k2] = true
			}
			for _, s := range b.Succs {
				dfs(s, k2, seen)
			}
		}
	}
	if len(fn.Blocks) > 0 {
		dfs(fn.Blocks[0], 0, map[*ssa.BasicBlock]bool{})
	}
	var out []int
	for k := range counts {
		out = append(out, k)
	}
	sort.Ints(out)
	vw.cmemo[fn] = out
	return out
}

func uniqInts(xs []int) []int {
	m := map[int]bool{}
	var out []int
	for _, x := range xs {
		if !m[x] {
			m[x] = true
			out = append(out, x)
		}
	}
	sort.Ints(out)
	return out
}

// extractorsOf: the functions handed to the walk as its extractor from outside
// the walk — a function literal, a named function, or a method value (the
// bound-method wrapper is looked through to the method).
func (vw *valueWalk) extractorsOf() []*ssa.Function {
	w := vw.w
	seen := map[*ssa.Function]bool{}
	var out []*ssa.Function
	add := func(f *ssa.Function) {
		if f != nil && f.Blocks != nil && w.inPkg(f) && !seen[f] {
			seen[f] = true
			out = append(out, f)
		}
	}
	for _, fn := range w.SrcFuncs() {
		if vw.in[fn] {
			continue
		}
		for _, b := range fn.Blocks {
			for _, in := range b.Instrs {
				c, ok := in.(*ssa.Call)
				if !ok || c.Call.StaticCallee() == nil || !vw.in[c.Call.StaticCallee()] {
					continue
				}
				for _, a := range c.Call.Args {
					if f := w.funcValueOf(a); f != nil && isExtractorSig(f) {
						add(f)
					}
				}
			}
		}
	}
	return out
}

func isExtractorSig(fn *ssa.Function) bool {
	sig := fn.Signature
	return sig.Params().Len() == 1 && typeStr(sig.Params().At(0).Type()) == "reflect.Value" &&
		sig.Results().Len() == 1 && typeStr(sig.Results().At(0).Type()) == "bool"
}

// funcValueOf: the source function a function-typed operand denotes, if it is
// statically known: a function, a closure, a method value, possibly converted
// to a named function type.
func (w *World) funcValueOf(v ssa.Value) *ssa.Function {
	for i := 0; i < 4; i++ {
		switch x := v.(type) {
		case *ssa.ChangeType:
			v = x.X
			continue
		case *ssa.MakeInterface:
			v = x.X
			continue
		case *ssa.Function:
			return w.throughWrapper(x)
		case *ssa.MakeClosure:
			if f, ok := x.Fn.(*ssa.Function); ok {
				return w.throughWrapper(f)
			}
		}
		break
	}
	return nil
}

// throughWrapper: the declared method behind a synthetic bound-method wrapper
// or thunk; fn itself otherwise.
func (w *World) throughWrapper(fn *ssa.Function) *ssa.Function {
	if fn.Synthetic == "" {
		return fn
	}
	if obj, ok := fn.Object().(*types.Func); ok && obj != nil {
		if m := w.Prog.FuncValue(obj); m != nil && m.Synthetic == "" {
			return m
		}
	}
	return fn
}

// reachStaticPkg: the in-package functions reachable from root through static
// calls, function literals and function values (method values are looked
// through their wrapper).
func (w *World) reachStaticPkg(root *ssa.Function) map[*ssa.Function]bool {
	seen := map[*ssa.Function]bool{}
	if root == nil {
		return seen
	}
	stack := []*ssa.Function{root}
	seen[root] = true
	push := func(f *ssa.Function) {
		if f != nil && f.Blocks != nil && w.inPkg(f) && !seen[f] {
			seen[f] = true
			stack = append(stack, f)
		}
	}
	for len(stack) > 0 {
		f := stack[len(stack)-1]
		stack = stack[:len(stack)-1]
		for _, af := range f.AnonFuncs {
			push(af)
		}
		for _, b := range f.Blocks {
			for _, in := range b.Instrs {
				if c, ok := in.(ssa.CallInstruction); ok {
					if sc := c.Common().StaticCallee(); sc != nil {
						push(w.throughWrapper(sc))
					}
				}
				for _, op := range in.Operands(nil) {
					if *op == nil {
						continue
					}
					if fv := w.funcValueOf(*op); fv != nil {
						push(fv)
					}
				}
			}
		}
	}
	return seen
}

// isTypeWalker: a package-level function over (reflect.Type, map accumulator).
func isTypeWalker(fn *ssa.Function) bool {
	if fn.Parent() != nil || fn.Signature.Recv() != nil || fn.Blocks == nil {
		return false
	}
	sig := fn.Signature
	if sig.Params().Len() != 2 || typeStr(sig.Params().At(0).Type()) != "reflect.Type" {
		return false
	}
	_, isMap := sig.Params().At(1).Type().Underlying().(*types.Map)
	return isMap
}

// typeWalkRecCalls: the calls of the type walker fn that can lead back to fn
// through type walkers handing on the same accumulator: direct self-calls and
// calls to a sibling walker on a call cycle with fn.
func (w *World) typeWalkRecCalls(fn *ssa.Function) []*ssa.Call {
	walkerCalls := func(g *ssa.Function) []*ssa.Call {
		var out []*ssa.Call
		for _, b := range g.Blocks {
			for _, in := range b.Instrs {
				c, ok := in.(*ssa.Call)
				if !ok {
					continue
				}
				sc := c.Call.StaticCallee()
				if sc == nil || !w.inPkg(sc) || !isTypeWalker(sc) || len(c.Call.Args) != 2 || c.Call.Args[1] != ssa.Value(g.Params[1]) {
					continue
				}
				out = append(out, c)
			}
		}
		return out
	}
	reaches := func(from *ssa.Function) bool {
		seen := map[*ssa.Function]bool{from: true}
		stack := []*ssa.Function{from}
		for len(stack) > 0 {
			g := stack[len(stack)-1]
			stack = stack[:len(stack)-1]
			if g == fn {
				return true
			}
			for _, c := range walkerCalls(g) {
				if sc := c.Call.StaticCallee(); !seen[sc] {
					seen[sc] = true
					stack = append(stack, sc)
				}
			}
		}
		return false
	}
	var out []*ssa.Call
	for _, c := range walkerCalls(fn) {
		if reaches(c.Call.StaticCallee()) {
			out = append(out, c)
		}
	}
	return out
}

// ---- C16.R5: extraction is a function of its argument ----

// extractionRoots: the exported package-level functions that build name/type
// maps: they return one, or fill one they are given, or are the value walk.
func (w *World) extractionRoots() []*ssa.Function {
	isMapT := func(t types.Type) bool {
		ts := typeStr(t)
		return ts == "map[string]string" || ts == "map[string]reflect.Type"
	}
	var out []*ssa.Function
	for _, fn := range w.SrcFuncs() {
		if fn.Parent() != nil || fn.Signature.Recv() != nil || !token.IsExported(fn.Name()) {
			continue
		}
		is := false
		res := fn.Signature.Results()
		for i := 0; i < res.Len(); i++ {
			if isMapT(res.At(i).Type()) {
				is = true
			}
		}
		if !is {
			// fills a map parameter (directly or in what it reaches statically)
			for _, p := range fn.Params {
				if !isMapT(p.Type()) {
					continue
				}
				for g := range w.reachStaticPkg(fn) {
					for _, b := range g.Blocks {
						for _, in := range b.Instrs {
							if mu, ok := in.(*ssa.MapUpdate); ok {
								if _, isP := mu.Map.(*ssa.Parameter); isP && isMapT(mu.Map.Type()) {
									is = true
								}
							}
						}
					}
				}
			}
		}
		if !is && isTypeWalker(fn) {
			is = true
		}
		if is {
			out = append(out, fn)
		}
	}
	if ev := w.fn("ExtractValue"); ev != nil {
		out = append(out, ev)
	}
	return out
}

// ruleExtractionStateless: no function the extraction reaches touches
// package-level state that is written after initialisation.  A memo kept in a
// package variable (also a synchronised one: the race is not the point) makes
// the maps returned for one argument depend on which arguments were extracted
// before — the maps are no longer a function of the value they are taken from.
func (w *World) ruleExtractionStateless(r *Report, rule string) {
	roots := w.extractionRoots()
	if len(roots) == 0 {
		r.undecided(rule, "extraction entry points", "-", "no exported function building a name/type map found")
		return
	}
	r.role("extraction entry points", fnNames(roots))
	reach := w.reachPkg(roots...)
	writes, _ := w.globalWrites()
	n := 0
	var gs []*ssa.Global
	for g := range writes {
		gs = append(gs, g)
	}
	sort.Slice(gs, func(i, j int) bool { return gs[i].Name() < gs[j].Name() })
	for _, g := range gs {
		var sites []string
		for _, gw := range writes[g] {
			if reach[gw.fn] || reach[rootFn(gw.fn)] {
				sites = append(sites, fmt.Sprintf("%s (%s at %s)", fnName(gw.fn), gw.what, gw.pos))
			}
		}
		if len(sites) == 0 {
			continue
		}
		n++
		sort.Strings(sites)
		r.add(rule, "package variable "+g.Name(), w.pos(g.Pos()), false, "mutable package-level state on the extraction path: "+strings.Join(uniq(sites), "; ")+" — what an extraction returns depends on the extractions made before it")
	}
	if n == 0 {
		o := r.add(rule, "census", "-", true, fmt.Sprintf("%d functions reachable from %d extraction entry points: none writes to (or hands to a mutating callee) memory reachable from a package-level variable", len(reach), len(roots)))
		o.Trivial = len(reach) == 0
	}
	r.floor(rule+" (entry points)", len(roots), 4)
}
