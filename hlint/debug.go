package main

import (
	"fmt"
	"os"
	"sort"
	"strings"

	"golang.org/x/tools/go/ssa"
)

func debugDump(w *World, what string) {
	switch {
	case what == "preds":
		for _, fn := range w.SrcFuncs() {
			if w.isTagPredicate(fn) {
				s := w.predSummary(fn)
				if s == nil {
					fmt.Printf("%-28s UNDECIDED\n", fnName(fn))
				} else {
					fmt.Printf("%-28s %s\n", fnName(fn), s.HexString())
				}
			}
		}
	case strings.HasPrefix(what, "flow:"):
		fn := w.fn(strings.TrimPrefix(what, "flow:"))
		if fn == nil {
			fmt.Println("no such function")
			return
		}
		f := w.flow(fn)
		fn.WriteTo(stdoutWriter{})
		for _, b := range fn.Blocks {
			env := f.At(b)
			if env == nil {
				fmt.Printf("block %d: unreachable\n", b.Index)
				continue
			}
			var keys []string
			for k := range env {
				if !strings.HasSuffix(k, "#phi") {
					keys = append(keys, k)
				}
			}
			sort.Strings(keys)
			fmt.Printf("block %d:\n", b.Index)
			for _, k := range keys {
				fmt.Printf("    %s ∈ %s\n", k, env[k])
			}
		}
		fmt.Println("iterations:", f.iters)
	case what == "funcs":
		for _, fn := range w.SrcFuncs() {
			fmt.Println(fnName(fn))
		}
	default:
		if d, ok := extraDumps[what]; ok {
			d(w)
			return
		}
		for pre, d := range extraDumpsPrefix {
			if strings.HasPrefix(what, pre) {
				d(w, strings.TrimPrefix(what, pre))
				return
			}
		}
		fmt.Println("unknown dump")
	}
}

var extraDumps = map[string]func(w *World){}
var extraDumpsPrefix = map[string]func(w *World, arg string){}

type stdoutWriter struct{}

func (stdoutWriter) Write(p []byte) (int, error) { fmt.Print(string(p)); return len(p), nil }

func init() {
	extraDumps["decres"] = func(w *World) {
		for _, cn := range []string{"int", "long", "double", "date"} {
			c := w.codecs()[cn]
			if c == nil || c.Dec == nil {
				continue
			}
			for t := 0; t < 256; t++ {
				run := w.decTable(c.Dec).at(t)
				if !run.OK {
					continue
				}
				k := "-"
				if run.Result != nil {
					k = run.Result.key
				}
				if run.Origin != nil {
					k += "  ORIGIN " + run.Origin.key
				}
				fmt.Printf("%s x%02x payload=%d  %s\n", cn, t, run.Payload, k)
			}
		}
	}
	extraDumps["writers"] = func(w *World) {
		for _, n := range []string{"(*Encoder).writeList", "(*Encoder).writeMap", "(*Encoder).writeObject", "(*Encoder).writeRef"} {
			fn := w.role(n)
			if fn == nil {
				continue
			}
			wi := w.writerPaths(fn)
			fmt.Printf("== %s: %d paths truncated=%v\n", n, len(wi.paths), wi.truncated)
			for i, p := range wi.paths {
				if i > 40 && os.Getenv("HLINT_ALLPATHS") == "" {
					break
				}
				var parts []string
				for _, e := range p.Trace {
					s := e.Kind
					if e.Kind == "octets" || e.Kind == "bytes" {
						for _, a := range e.Args {
							if a == nil {
								s += " ?"
								continue
							}
							v, _ := w.evalEv(a, e.Env)
							s += " " + v.HexString()
						}
					}
					if e.Kind == "loophead" {
						s = "L"
					}
					if e.Kind == "fieldstore" {
						s += " " + e.Extra + "=" + e.Args[0].key
					}
					if strings.HasPrefix(e.Kind, "scalar:") {
						for _, a := range e.Args {
							s += " " + a.key
						}
					}
					parts = append(parts, s)
				}
				fmt.Printf("   errNil=%v %s\n", p.ErrNil, strings.Join(parts, " ; "))
			}
		}
	}
}

func debugIdxSites(w *World) {
	reach := w.reachPkg(w.decodeEntryPoints()...)
	for _, fn := range w.SrcFuncs() {
		if !reach[fn] && !reach[rootFn(fn)] {
			continue
		}
		for _, b := range fn.Blocks {
			for _, in := range b.Instrs {
				switch x := in.(type) {
				case *ssa.IndexAddr:
					if _, isC := x.Index.(*ssa.Const); isC {
						continue
					}
					fmt.Printf("%s %s: %s[%s] (%s)\n", w.instrPos(x), fnName(fn), x.X.Name(), x.Index.Name(), typeStr(x.X.Type()))
				case *ssa.Index:
					if _, isC := x.Index.(*ssa.Const); isC {
						continue
					}
					fmt.Printf("%s %s: %s[%s] (%s) value\n", w.instrPos(x), fnName(fn), x.X.Name(), x.Index.Name(), typeStr(x.X.Type()))
				case *ssa.Slice:
					fmt.Printf("%s %s: slice %s (%s)\n", w.instrPos(x), fnName(fn), x.X.Name(), typeStr(x.X.Type()))
				}
			}
		}
	}
}

func init() { extraDumps["idxsites"] = debugIdxSites }

func init() {
	extraDumps["idxproof"] = func(w *World) {
		for _, name := range []string{"(*Decoder).readUntypedList", "(*_refHolder).notify", "readRunes", "(*Decoder).readObject"} {
			fn := w.fn(name)
			if fn == nil {
				continue
			}
			sites := map[*ssa.IndexAddr]bool{}
			for _, b := range fn.Blocks {
				for _, in := range b.Instrs {
					if ia, ok := in.(*ssa.IndexAddr); ok {
						if _, isC := ia.Index.(*ssa.Const); !isC {
							sites[ia] = true
						}
					}
				}
			}
			res, complete := w.pxIndexRun(fn, sites, nil)
			for ia, sr := range res {
				fmt.Printf("%s %s complete=%v met=%d bad=%d lower=%v upper=%v %s\n", name, w.instrPos(ia), complete, sr.met, sr.bad, sr.lower, sr.upper, sr.fact)
			}
		}
	}
}
