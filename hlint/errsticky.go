package main

// Sticky errors (C15.R1 / C13.R1).
//
// `_, s.err = s.enc.writeBT(tag)` parks the error of a write in a field of a
// small sink object instead of returning it; the owner of the sink asks for it
// once, after the last piece (`if err = head.err; err != nil { return 0, err }`).
// The error of such a call is consumed iff
//
//  1. the cell is sticky: every store into that field, anywhere in the package,
//     either initialises a fresh object or is dominated by the nil edge of a test
//     of the same cell with nothing in between that can change it — so a recorded
//     failure is never overwritten (a later, successful write would erase it);
//  2. the objects holding the cell are local to the call stack and never escape
//     (locals.go), so only the functions handed the pointer can touch the cell;
//  3. in the function that allocates the object, after every call that is handed
//     the object (and after every direct store into the cell) every path to a
//     return passes a load of the cell that is itself consumed in the ordinary
//     sense (tested against nil, the non-nil edge returning a non-nil error), or
//     ends in a return whose error is provably non-nil.
//
// By induction this is the same guarantee as forwarding the error by return.

import (
	"fmt"
	"go/token"

	"golang.org/x/tools/go/ssa"
)

func (w *World) stickyStoreConsumed(st *ssa.Store, opts errOpts) (bool, string) {
	fa, ok := st.Addr.(*ssa.FieldAddr)
	if !ok || !isErrorType(st.Val.Type()) {
		return false, "stored somewhere that is not an error cell"
	}
	fid := fieldID(fa)
	// 1. discipline of every store into the cell
	for _, fn := range w.SrcFuncs() {
		for _, b := range fn.Blocks {
			for _, in := range b.Instrs {
				s2, ok := in.(*ssa.Store)
				if !ok {
					continue
				}
				fa2, ok := s2.Addr.(*ssa.FieldAddr)
				if !ok || fieldID(fa2) != fid {
					continue
				}
				if ok, why := w.stickyStoreGuarded(s2, fa2, fid); !ok {
					return false, "parked in the error cell " + fid + ", which is not sticky: " + why
				}
			}
		}
	}
	// 2. the holders are call-local
	owners, ok := w.callLocalObjects(fa.X, 0)
	if !ok {
		return false, "parked in the error cell " + fid + " of an object that is not local to the call (it may be stored, returned, captured or handed to code outside the package): who asks for the error cannot be enumerated"
	}
	// 3. every owner asks for it
	for _, al := range owners {
		if ok, why := w.stickyOwnerConsumes(al, fa.Field, fid, opts); !ok {
			return false, "parked in the error cell " + fid + "; its owner " + fnName(al.Parent()) + " does not pick it up: " + why
		}
	}
	return true, fmt.Sprintf("parked in the sticky error cell %s (every store into it is guarded by a nil test of the cell); %d owner(s) test the cell after the last use of the object and return the error", fid, len(owners))
}

// stickyStoreGuarded: the store overwrites nothing but nil.
func (w *World) stickyStoreGuarded(st *ssa.Store, fa *ssa.FieldAddr, fid string) (bool, string) {
	base := fa.X
	fn := st.Parent()
	touches := func(in ssa.Instruction) bool {
		if in == ssa.Instruction(st) {
			return false
		}
		switch x := in.(type) {
		case *ssa.Store:
			if f2, ok := x.Addr.(*ssa.FieldAddr); ok && fieldID(f2) == fid {
				return true
			}
		case ssa.CallInstruction:
			for _, a := range x.Common().Args {
				if a == base || (a.Type() != nil && base.Type() != nil && a.Type().String() == base.Type().String()) {
					return true
				}
			}
		}
		return false
	}
	// initialisation of a fresh object: nothing that was handed the object runs before the store
	if _, ok := base.(*ssa.Alloc); ok {
		init := true
		for _, b := range fn.Blocks {
			for i, in := range b.Instrs {
				if !touches(in) {
					continue
				}
				if _, isCall := in.(ssa.CallInstruction); !isCall {
					continue
				}
				if b == st.Block() {
					for _, in2 := range b.Instrs[i:] {
						if in2 == ssa.Instruction(st) {
							init = false
						}
					}
					if blockReaches(b, b, true) {
						init = false
					}
				} else if blockReaches(b, st.Block(), false) {
					init = false
				}
			}
		}
		if init {
			return true, ""
		}
	}
	// a nil test of the same cell dominates the store
	refs := base.Referrers()
	if refs == nil {
		return false, "store at " + w.instrPos(st) + " has no nil test of the cell before it"
	}
	for _, ref := range *refs {
		f3, ok := ref.(*ssa.FieldAddr)
		if !ok || f3.Field != fa.Field || f3.Referrers() == nil {
			continue
		}
		for _, r2 := range *f3.Referrers() {
			ld, ok := r2.(*ssa.UnOp)
			if !ok || ld.Op != token.MUL || ld.Referrers() == nil {
				continue
			}
			for _, r3 := range *ld.Referrers() {
				bo, ok := r3.(*ssa.BinOp)
				if !ok || (bo.Op != token.EQL && bo.Op != token.NEQ) || bo.Referrers() == nil {
					continue
				}
				other := bo.Y
				if other == ssa.Value(ld) {
					other = bo.X
				}
				if !isNilConst(other) {
					continue
				}
				for _, r4 := range *bo.Referrers() {
					iff, ok := r4.(*ssa.If)
					if !ok {
						continue
					}
					nilEdge := iff.Block().Succs[1]
					if bo.Op == token.EQL {
						nilEdge = iff.Block().Succs[0]
					}
					if len(nilEdge.Preds) != 1 || !nilEdge.Dominates(st.Block()) {
						continue
					}
					// nothing between the test and the store can change the cell; the load
					// itself must not be followed by a change before the test either
					clean := true
					afterLoad := false
					for _, in := range ld.Block().Instrs {
						if in == ssa.Instruction(ld) {
							afterLoad = true
							continue
						}
						if afterLoad && touches(in) {
							clean = false
						}
					}
					if ld.Block() != iff.Block() {
						clean = false
					}
					for _, b := range fn.Blocks {
						if !clean {
							break
						}
						if !nilEdge.Dominates(b) || !blockReaches(b, st.Block(), false) {
							continue
						}
						for _, in := range b.Instrs {
							if b == st.Block() && in == ssa.Instruction(st) {
								break
							}
							if touches(in) {
								clean = false
							}
						}
					}
					// the store must not be repeated without a new test (a loop below the test)
					if clean && cycleAvoiding(st.Block(), iff.Block()) {
						clean = false
					}
					if clean {
						return true, ""
					}
				}
			}
		}
	}
	return false, "the store at " + w.instrPos(st) + " is not dominated by the nil edge of a test of the cell (with nothing in between that can change it): a recorded failure can be overwritten"
}

// stickyOwnerConsumes: in the allocating function every use of the object is
// followed, on every path, by a consumed load of the cell.
func (w *World) stickyOwnerConsumes(al *ssa.Alloc, field int, fid string, opts errOpts) (bool, string) {
	g := al.Parent()
	isCellLoad := func(in ssa.Instruction) (*ssa.UnOp, bool) {
		ld, ok := in.(*ssa.UnOp)
		if !ok || ld.Op != token.MUL {
			return nil, false
		}
		f2, ok := ld.X.(*ssa.FieldAddr)
		if !ok || f2.X != ssa.Value(al) || f2.Field != field {
			return nil, false
		}
		return ld, true
	}
	consumedLoads := map[*ssa.UnOp]bool{}
	loadOK := func(ld *ssa.UnOp) bool {
		if v, ok := consumedLoads[ld]; ok {
			return v
		}
		ok, _ := w.errValueConsumed(ld, ld, opts, map[ssa.Value]bool{})
		consumedLoads[ld] = ok
		return ok
	}
	// a call that hands the object to a function returning the cell's content
	// (`return head.result()`) asks for the error as a load does
	yieldsCell := func(c *ssa.Call) bool {
		sc := c.Call.StaticCallee()
		if sc == nil || !w.inPkg(sc) || sc.Blocks == nil || errIndex(sc.Signature) < 0 {
			return false
		}
		pi := -1
		for i, a := range c.Call.Args {
			if a == ssa.Value(al) {
				pi = i
			}
		}
		if pi < 0 || pi >= len(sc.Params) {
			return false
		}
		idx := errIndex(sc.Signature)
		n := 0
		for _, b := range sc.Blocks {
			ret, ok := b.Instrs[len(b.Instrs)-1].(*ssa.Return)
			if !ok {
				continue
			}
			n++
			ld, ok := ret.Results[idx].(*ssa.UnOp)
			if !ok || ld.Op != token.MUL {
				return false
			}
			f2, ok := ld.X.(*ssa.FieldAddr)
			if !ok || f2.X != ssa.Value(sc.Params[pi]) || f2.Field != field {
				return false
			}
			// nothing between the load and the return changes the cell
			after := false
			for _, in := range b.Instrs {
				if in == ssa.Instruction(ld) {
					after = true
					continue
				}
				if after {
					switch in.(type) {
					case *ssa.Store, ssa.CallInstruction:
						return false
					}
				}
			}
			if ld.Block() != b {
				return false
			}
		}
		if n == 0 {
			return false
		}
		ok, _ := w.errConsumed(c, opts)
		return ok
	}
	var fail string
	var walk func(b *ssa.BasicBlock, from int, seen map[*ssa.BasicBlock]bool) bool
	walk = func(b *ssa.BasicBlock, from int, seen map[*ssa.BasicBlock]bool) bool {
		for i := from; i < len(b.Instrs); i++ {
			switch x := b.Instrs[i].(type) {
			case *ssa.UnOp:
				if ld, ok := isCellLoad(x); ok && loadOK(ld) {
					return true
				}
			case *ssa.Call:
				if yieldsCell(x) {
					return true
				}
			case *ssa.Return:
				idx := errIndex(g.Signature)
				if idx >= 0 && w.nonNilErr(x.Results[idx], nil, nil, 0) {
					return true
				}
				fail = "a path reaches the return at " + w.instrPos(x) + " without the cell having been tested"
				return false
			case *ssa.Panic:
				fail = "a path ends in panic at " + w.instrPos(x) + " without the cell having been tested"
				return false
			}
		}
		for _, s := range b.Succs {
			if seen[s] {
				continue
			}
			seen[s] = true
			if !walk(s, 0, seen) {
				return false
			}
		}
		return true
	}
	starts := 0
	for _, b := range g.Blocks {
		for i, in := range b.Instrs {
			start := false
			switch x := in.(type) {
			case ssa.CallInstruction:
				for _, a := range x.Common().Args {
					if a == ssa.Value(al) {
						start = true
					}
				}
				if c, ok := in.(*ssa.Call); ok && start && yieldsCell(c) {
					start = false
				}
			case *ssa.Store:
				if f2, ok := x.Addr.(*ssa.FieldAddr); ok && f2.X == ssa.Value(al) && f2.Field == field && !isNilConst(x.Val) {
					start = true
				}
			}
			if !start {
				continue
			}
			starts++
			if !walk(b, i+1, map[*ssa.BasicBlock]bool{}) {
				return false, "after " + w.instrPos(in) + " " + fail
			}
		}
	}
	if starts == 0 {
		return false, "the object is never used in its allocating function"
	}
	return true, ""
}
