package main

// Abstract interpretation of one SSA function over the ISet domain.
//
// Facts are attached to *expressions* (canonical terms over parameters, call
// results and φ-nodes), not to registers: go/ssa performs no CSE, so two
// occurrences of `vv.Len()` or `date.UnixNano()` are distinct registers but
// one term.  A fact is an ISet; absence means ⊤ (the type's range).
// Branch conditions refine facts on the outgoing edges; block entry facts are
// the join (union per key) of the incoming reachable edges.

import (
	"fmt"
	"go/constant"
	"go/token"
	"go/types"
	"math/big"
	"sort"
	"strings"

	"golang.org/x/tools/go/ssa"
)

type TermKind int

const (
	TConst TermKind = iota
	TLeaf           // parameter, φ, opaque register
	TBin
	TConv
	TPure // pure call / len
	TNot
	TBoolConst
)

type Term struct {
	K    TermKind
	Op   token.Token
	A, B *Term
	Args []*Term
	C    *big.Int
	Bool bool
	T    types.Type
	V    ssa.Value
	Name string // pure-call name
	CV   *cval  // pxconc.go: the concrete value (function value, table) the term denotes, if known
	key  string
}

func (t *Term) Key() string { return t.key }

type Env map[string]ISet

func (e Env) clone() Env {
	c := make(Env, len(e))
	for k, v := range e {
		c[k] = v
	}
	return c
}

func envEqual(a, b Env) bool {
	if len(a) != len(b) {
		return false
	}
	for k, v := range a {
		w, ok := b[k]
		if !ok || !v.Equal(w) {
			return false
		}
	}
	return true
}

// joinEnv: keys present on both sides are united, others dropped (⊤).
func joinEnv(a, b Env) Env {
	out := Env{}
	for k, v := range a {
		if w, ok := b[k]; ok {
			out[k] = v.Union(w)
		}
	}
	return out
}

type edgeKey struct{ from, to int }

type Flow struct {
	w     *World
	fn    *ssa.Function
	in    map[int]Env // nil entry = unreachable
	edges map[edgeKey]Env
	terms map[ssa.Value]*Term
	ctx   Env
	iters int
	// termHook, when set, replaces term construction (the path explorer binds
	// φ-nodes, parameters and inlined call results per path)
	termHook func(ssa.Value) *Term
}

var pureMethods = map[string]bool{
	"(time.Time).Unix": true, "(time.Time).UnixNano": true, "(time.Time).UnixMilli": true, "(time.Time).IsZero": true,
	"(time.Time).Nanosecond": true, "(time.Time).UnixMicro": true,
	"(reflect.Value).Len": true, "(reflect.Value).NumField": true, "(reflect.Value).Kind": true,
	"(reflect.Value).Int": true, "(reflect.Value).Uint": true, "(reflect.Value).Type": true, "(reflect.Value).Index": true, "(reflect.Type).Elem": true,
	"(reflect.Type).NumField": true, "(reflect.Type).Field": true, "(reflect.Type).Kind": true, "(reflect.Type).Name": true, "(hessian.CodecNamable).HessianCodecName": true,
}

func typeRange(w *World, t types.Type) (ISet, bool) {
	b, ok := t.Underlying().(*types.Basic)
	if !ok {
		return nil, false
	}
	if b.Info()&types.IsInteger == 0 {
		if b.Info()&types.IsBoolean != 0 {
			return mkSet(0, 1), true
		}
		return nil, false
	}
	bits := uint(w.Sizes.Sizeof(b) * 8)
	if b.Kind() == types.UntypedInt || b.Kind() == types.UntypedRune {
		bits = 64
	}
	if b.Info()&types.IsUnsigned != 0 {
		hi := new(big.Int).Lsh(one, bits)
		hi.Sub(hi, one)
		return ISet{{new(big.Int), hi}}, true
	}
	lo := new(big.Int).Neg(new(big.Int).Lsh(one, bits-1))
	hi := new(big.Int).Lsh(one, bits-1)
	hi.Sub(hi, one)
	return ISet{{lo, hi}}, true
}

func intTypeInfo(w *World, t types.Type) (bits uint, signed bool, ok bool) {
	b, isB := t.Underlying().(*types.Basic)
	if !isB || b.Info()&types.IsInteger == 0 {
		return 0, false, false
	}
	bits = uint(w.Sizes.Sizeof(b) * 8)
	return bits, b.Info()&types.IsUnsigned == 0, true
}

func (f *Flow) term(v ssa.Value) *Term {
	if f.termHook != nil {
		return f.termHook(v)
	}
	if t, ok := f.terms[v]; ok {
		return t
	}
	t := f.mkTerm(v)
	f.terms[v] = t
	return t
}

func regName(v ssa.Value) string {
	switch x := v.(type) {
	case *ssa.Parameter:
		return "p:" + x.Name()
	case *ssa.FreeVar:
		return "fv:" + x.Name()
	case *ssa.Global:
		return "g:" + x.Name()
	case *ssa.Function:
		return "fn:" + x.Name()
	}
	return v.Name()
}

func (f *Flow) mkTerm(v ssa.Value) *Term {
	switch x := v.(type) {
	case *ssa.Const:
		if x.Value == nil {
			return &Term{K: TLeaf, V: v, T: v.Type(), key: "nil:" + v.Type().String()}
		}
		switch x.Value.Kind() {
		case constant.Bool:
			b := constant.BoolVal(x.Value)
			return &Term{K: TBoolConst, Bool: b, T: v.Type(), key: fmt.Sprintf("%v", b)}
		case constant.Int:
			bv, _ := new(big.Int).SetString(x.Value.ExactString(), 10)
			if bv == nil {
				break
			}
			return &Term{K: TConst, C: bv, T: v.Type(), key: bv.String()}
		}
		return &Term{K: TLeaf, V: v, T: v.Type(), key: "const:" + x.Value.ExactString()}
	case *ssa.BinOp:
		a, b := f.term(x.X), f.term(x.Y)
		return &Term{K: TBin, Op: x.Op, A: a, B: b, T: v.Type(), key: "(" + a.key + " " + x.Op.String() + " " + b.key + ")"}
	case *ssa.UnOp:
		switch x.Op {
		case token.NOT:
			a := f.term(x.X)
			return &Term{K: TNot, A: a, T: v.Type(), key: "!" + a.key}
		case token.SUB:
			a := f.term(x.X)
			z := &Term{K: TConst, C: new(big.Int), T: v.Type(), key: "0"}
			return &Term{K: TBin, Op: token.SUB, A: z, B: a, T: v.Type(), key: "(0 - " + a.key + ")"}
		case token.MUL:
			// a read out of a constant table (consttab.go)
			if t := f.w.ctabTermOf(v, f.term); t != nil {
				return t
			}
			// load of a field of the receiver / a pointer parameter: one symbol per
			// field (the codec functions do not reassign a table between a guard
			// on it and the guarded use)
			if fa, ok := x.X.(*ssa.FieldAddr); ok {
				if p, ok := fa.X.(*ssa.Parameter); ok {
					return &Term{K: TLeaf, V: v, T: v.Type(), key: fmt.Sprintf("<fld:%s.%d>", p.Name(), fa.Field)}
				}
				// field of a by-value struct parameter read through its
				// never-rewritten frame copy (value receiver)
				if p, ok := spilledParam(fa.X); ok {
					return &Term{K: TLeaf, V: v, T: v.Type(), key: fmt.Sprintf("<fld:%s.%d>", p.Name(), fa.Field)}
				}
			}
			if g, ok := x.X.(*ssa.Global); ok {
				if c, ok := f.w.globalInit(g); ok {
					return f.mkTermFromInit(c, v.Type())
				}
				return &Term{K: TLeaf, V: v, T: v.Type(), key: "<" + v.Name() + ">"}
			}
		}
	case *ssa.Convert:
		a := f.term(x.X)
		return &Term{K: TConv, A: a, T: v.Type(), key: "conv:" + types.TypeString(v.Type(), nil) + "(" + a.key + ")"}
	case *ssa.ChangeType:
		a := f.term(x.X)
		if _, _, ok := intTypeInfo(f.w, v.Type()); ok {
			return &Term{K: TConv, A: a, T: v.Type(), key: "conv:" + types.TypeString(v.Type(), nil) + "(" + a.key + ")"}
		}
		return a
	case *ssa.Call:
		c := x.Common()
		if b, ok := c.Value.(*ssa.Builtin); ok && b.Name() == "len" && len(c.Args) == 1 {
			a := f.term(c.Args[0])
			return &Term{K: TPure, Name: "len", Args: []*Term{a}, T: v.Type(), key: "len(" + a.key + ")"}
		}
		name := ""
		if c.IsInvoke() {
			name = "(" + types.TypeString(c.Value.Type(), func(p *types.Package) string { return p.Name() }) + ")." + c.Method.Name()
		} else if sc := c.StaticCallee(); sc != nil {
			name = qualifiedFnName(sc)
		}
		if pureMethods[name] {
			var args []*Term
			var keys []string
			if c.IsInvoke() {
				a := f.term(c.Value)
				args = append(args, a)
				keys = append(keys, a.key)
			}
			for _, a := range c.Args {
				ta := f.term(a)
				args = append(args, ta)
				keys = append(keys, ta.key)
			}
			return &Term{K: TPure, Name: name, Args: args, T: v.Type(), key: "pure:" + name + "(" + strings.Join(keys, ",") + ")"}
		}
		// table-driven classifier over a small domain (finfn.go): a function of its argument
		if sc := c.StaticCallee(); sc != nil && !c.IsInvoke() && len(c.Args) == 1 && f.w.inPkg(sc) && f.w.finiteFn(sc) != nil {
			a := f.term(c.Args[0])
			return &Term{K: TPure, Name: "fin:" + name, Args: []*Term{a}, V: v, T: v.Type(), key: "fin:" + name + "(" + a.key + ")"}
		}
	case *ssa.Index:
		if b, ok := x.X.Type().Underlying().(*types.Basic); ok && b.Info()&types.IsString != 0 {
			a, i := f.term(x.X), f.term(x.Index)
			return &Term{K: TPure, Name: "strindex", Args: []*Term{a, i}, T: v.Type(), key: "idx(" + a.key + "," + i.key + ")"}
		}
		if t := f.w.ctabTermOf(v, f.term); t != nil {
			return t
		}
	case *ssa.Field:
		if t := f.w.ctabTermOf(v, f.term); t != nil {
			return t
		}
	case *ssa.Lookup:
		// indexing an (immutable) string: one symbol per (string, index)
		if b, ok := x.X.Type().Underlying().(*types.Basic); ok && b.Info()&types.IsString != 0 && !x.CommaOk {
			a, i := f.term(x.X), f.term(x.Index)
			return &Term{K: TPure, Name: "strindex", Args: []*Term{a, i}, T: v.Type(), key: "idx(" + a.key + "," + i.key + ")"}
		}
	case *ssa.Extract:
		// tag handed on: result #0 of getTag(reader, flag) is byte(flag) unless
		// flag is the "fresh tag" constant (the protocol is verified by rule
		// C03.R0 on getTag's own body)
		if call, ok := x.Tuple.(*ssa.Call); ok && x.Index == 0 {
			if sc := call.Common().StaticCallee(); sc != nil && f.w.inPkg(sc) && sc.Name() == "getTag" && len(call.Common().Args) == 2 {
				fl := f.term(call.Common().Args[1])
				return &Term{K: TPure, Name: "getTag", Args: []*Term{fl}, T: v.Type(), V: v, key: "<getTag:" + call.Name() + ">"}
			}
		}
		a := f.term(x.Tuple)
		return &Term{K: TLeaf, V: v, T: v.Type(), key: fmt.Sprintf("<x#%d%s>", x.Index, a.key)}
	}
	return &Term{K: TLeaf, V: v, T: v.Type(), key: "<" + regName(v) + ">"}
}

// qualifiedFnName: "(time.Time).Unix", "(reflect.Value).Len", "io.ReadFull", "encodeInt".
func qualifiedFnName(fn *ssa.Function) string {
	if fn == nil {
		return ""
	}
	q := func(p *types.Package) string { return p.Name() }
	if fn.Pkg != nil && fn.Pkg.Pkg.Path() == hessianPath {
		return fnName(fn)
	}
	if recv := fn.Signature.Recv(); recv != nil {
		return "(" + types.TypeString(recv.Type(), q) + ")." + fn.Name()
	}
	if fn.Pkg != nil && fn.Pkg.Pkg.Path() != hessianPath {
		return fn.Pkg.Pkg.Name() + "." + fn.Name()
	}
	return fn.Name()
}

func (f *Flow) mkTermFromInit(c *big.Int, t types.Type) *Term {
	return &Term{K: TConst, C: c, T: t, key: c.String()}
}

// globalInit: the constant integer a package-level variable is initialised
// with, provided its only store in the whole package is that one (in init).
func (w *World) globalInit(g *ssa.Global) (*big.Int, bool) {
	if g.Pkg != w.Pkg {
		return nil, false
	}
	var val *big.Int
	stores := 0
	for _, fn := range w.allPkgFuncs() {
		for _, b := range fn.Blocks {
			for _, in := range b.Instrs {
				switch x := in.(type) {
				case *ssa.Store:
					if x.Addr == g {
						stores++
						if c, ok := x.Val.(*ssa.Const); ok && c.Value != nil && c.Value.Kind() == constant.Int && fn.Name() == "init" {
							val, _ = new(big.Int).SetString(c.Value.ExactString(), 10)
						} else {
							return nil, false
						}
					}
				default:
					// address escaping (anything but a load) disables the fact
					for _, op := range in.Operands(nil) {
						if *op == ssa.Value(g) {
							if u, ok := in.(*ssa.UnOp); ok && u.Op == token.MUL {
								continue
							}
							return nil, false
						}
					}
				}
			}
		}
	}
	if stores == 1 && val != nil {
		return val, true
	}
	return nil, false
}

func (w *World) allPkgFuncs() []*ssa.Function {
	var out []*ssa.Function
	for _, f := range w.Funcs {
		if f.Blocks != nil {
			out = append(out, f)
		}
	}
	sort.Slice(out, func(i, j int) bool { return fnName(out[i]) < fnName(out[j]) })
	return out
}

// ---- evaluation ----

type evalFlags struct {
	Lossy    bool // a narrowing / sign-changing conversion altered some value
	Overflow bool // an arithmetic result left its type's range
}

func (f *Flow) top(t types.Type) ISet {
	r, ok := typeRange(f.w, t)
	if !ok {
		return nil
	}
	return r
}

// Eval returns the set of possible values of t under env (nil set = not an
// integer / unknown type, treated as "no information").
func (f *Flow) Eval(t *Term, env Env) (ISet, evalFlags) {
	var fl evalFlags
	s := f.eval(t, env, &fl)
	return s, fl
}

func (f *Flow) eval(t *Term, env Env, fl *evalFlags) ISet {
	s := f.evalStruct(t, env, fl)
	if r, ok := env[t.key]; ok {
		if s == nil {
			return r
		}
		return s.Intersect(r)
	}
	return s
}

func (f *Flow) fit(s ISet, t types.Type, fl *evalFlags) ISet {
	bits, signed, ok := intTypeInfo(f.w, t)
	if !ok || s == nil {
		return s
	}
	r, changed := s.wrap(bits, signed)
	if changed {
		fl.Overflow = true
	}
	return r
}

func (f *Flow) evalStruct(t *Term, env Env, fl *evalFlags) ISet {
	switch t.K {
	case TConst:
		return ISet{{t.C, t.C}}
	case TBoolConst:
		if t.Bool {
			return single(1)
		}
		return single(0)
	case TLeaf:
		if ex, ok := t.V.(*ssa.Extract); ok {
			if c, ok := ex.Tuple.(*ssa.Call); ok {
				if sc := c.Call.StaticCallee(); sc != nil && f.w.inPkg(sc) {
					// where the call's error is known to be nil, only the
					// value-returning returns of the callee count
					if ei := errIndex(sc.Signature); ei >= 0 && ei != ex.Index {
						ek := fmt.Sprintf("(<x#%d%s> != nil:error)", ei, f.term(c).key)
						if s, has := env[ek]; has && s.Equal(single(0)) {
							if r := f.w.retRangeOK(sc, ex.Index); r != nil {
								// under what the call site knows about the arguments
								if rc := f.retRangeCall(c, sc, ex.Index, env, true); rc != nil {
									return r.Intersect(rc)
								}
								return r
							}
						}
					}
					if r := f.w.retRange(sc, ex.Index); r != nil {
						if rc := f.retRangeCall(c, sc, ex.Index, env, false); rc != nil {
							return r.Intersect(rc)
						}
						return r
					}
				}
			}
		}
		if c, ok := t.V.(*ssa.Call); ok {
			if sc := c.Call.StaticCallee(); sc != nil && f.w.inPkg(sc) && sc.Signature.Results().Len() == 1 {
				if r := f.w.retRange(sc, 0); r != nil {
					if rc := f.retRangeCall(c, sc, 0, env, false); rc != nil {
						return r.Intersect(rc)
					}
					return r
				}
			}
		}
		// a field of an unexported package struct: the values ever stored into that
		// field anywhere in the package (roinit.go fieldValueSet)
		switch ld := t.V.(type) {
		case *ssa.UnOp:
			if fa, ok := ld.X.(*ssa.FieldAddr); ok && ld.Op == token.MUL {
				if pt, ok := fa.X.Type().Underlying().(*types.Pointer); ok {
					if s := f.w.fieldValueSet(pt.Elem(), fa.Field); s != nil {
						return s
					}
				}
			}
		case *ssa.Field:
			if s := f.w.fieldValueSet(ld.X.Type(), ld.Field); s != nil {
				return s
			}
		}
		return f.top(t.T)
	case TPure:
		top := f.top(t.T)
		switch {
		case t.Name == "len", strings.HasSuffix(t.Name, ".Len"), strings.HasSuffix(t.Name, ".NumField"):
			if top != nil {
				return top.Intersect(ISet{{new(big.Int), top.Max()}})
			}
		case strings.HasSuffix(t.Name, ".Nanosecond"):
			return mkSet(0, 999999999)
		case strings.HasPrefix(t.Name, "consttable:") && len(t.Args) == 1:
			// a package-level lookup table that is constant after initialisation: the image of the index set
			if img := constTableImage(strings.TrimPrefix(t.Name, "consttable:"), f.eval(t.Args[0], env, fl)); img != nil {
				return img
			}
		case strings.HasPrefix(t.Name, "fin:"):
			if sum := f.finCallee(t); sum != nil {
				if r, ok := sum.image(f.finArgSet(t.Args[0], env)); ok && top != nil {
					return r.Intersect(top)
				}
			}
		case t.Name == "ctab":
			// an entry of a constant table: the union over the possible indices
			if r := f.w.ctabEval(t, f.eval(t.Args[0], env, fl)); r != nil {
				return r
			}
			return top
		case t.Name == "getTag":
			fs := f.eval(t.Args[0], env, fl)
			if fs == nil || fs.Contains(-1) {
				return top
			}
			r, _ := fs.wrap(8, false)
			return r
		case t.Name == "(reflect.Value).Int" || t.Name == "(reflect.Value).Uint":
			// reflect semantics: Int()/Uint() return the value of an integer of
			// the receiver's Kind, so the Kind facts bound the result
			kk := "pure:(reflect.Value).Kind(" + t.Args[0].key + ")"
			ks, ok := env[kk]
			if !ok && t.Args[0].K == TPure && t.Args[0].Name == "(reflect.Value).Index" {
				// reflect semantics: the kind of an element is the kind of the container type's element type
				alt := "pure:(reflect.Type).Kind(pure:(reflect.Type).Elem(pure:(reflect.Value).Type(" + t.Args[0].Args[0].key + ")))"
				ks, ok = env[alt]
			}
			if !ok {
				return top
			}
			kinds, small := ks.Elems(32)
			if !small {
				return top
			}
			var r ISet
			for _, k := range kinds {
				kr, ok := f.kindRange(k)
				if !ok {
					return top
				}
				r = r.Union(kr)
			}
			return r.Intersect(top)
		}
		return top
	case TConv:
		a := f.eval(t.A, env, fl)
		bits, signed, ok := intTypeInfo(f.w, t.T)
		if !ok {
			return f.top(t.T)
		}
		if a == nil { // from float etc.
			return f.top(t.T)
		}
		r, changed := a.wrap(bits, signed)
		if changed {
			fl.Lossy = true
		}
		return r
	case TBin:
		a := f.eval(t.A, env, fl)
		b := f.eval(t.B, env, fl)
		switch t.Op {
		case token.EQL, token.NEQ, token.LSS, token.LEQ, token.GTR, token.GEQ:
			return cmpSets(t.Op, a, b)
		}
		if a == nil || b == nil || a.Empty() || b.Empty() {
			return f.top(t.T)
		}
		var r ISet
		switch t.Op {
		case token.ADD:
			for _, x := range a {
				for _, y := range b {
					r = append(r, IV{new(big.Int).Add(x.Lo, y.Lo), new(big.Int).Add(x.Hi, y.Hi)})
				}
			}
		case token.SUB:
			for _, x := range a {
				for _, y := range b {
					r = append(r, IV{new(big.Int).Sub(x.Lo, y.Hi), new(big.Int).Sub(x.Hi, y.Lo)})
				}
			}
		case token.MUL:
			for _, x := range a {
				for _, y := range b {
					ps := []*big.Int{new(big.Int).Mul(x.Lo, y.Lo), new(big.Int).Mul(x.Lo, y.Hi), new(big.Int).Mul(x.Hi, y.Lo), new(big.Int).Mul(x.Hi, y.Hi)}
					lo, hi := ps[0], ps[0]
					for _, p := range ps {
						if p.Cmp(lo) < 0 {
							lo = p
						}
						if p.Cmp(hi) > 0 {
							hi = p
						}
					}
					r = append(r, IV{lo, hi})
				}
			}
		case token.QUO:
			if len(b) == 1 && b[0].Lo.Cmp(b[0].Hi) == 0 && b[0].Lo.Sign() > 0 {
				c := b[0].Lo
				r = a.mapMono(func(x *big.Int) *big.Int { return new(big.Int).Quo(x, c) })
			} else {
				return f.top(t.T)
			}
		case token.REM:
			if len(b) == 1 && b[0].Lo.Cmp(b[0].Hi) == 0 && b[0].Lo.Sign() > 0 {
				c := b[0].Lo
				cm1 := new(big.Int).Sub(c, one)
				neg := new(big.Int).Neg(cm1)
				zero := new(big.Int)
				for _, x := range a {
					lo, hi := new(big.Int).Set(neg), new(big.Int).Set(cm1)
					if x.Lo.Sign() >= 0 {
						lo = zero
						if x.Hi.Cmp(c) < 0 {
							lo, hi = x.Lo, x.Hi
						}
					} else if x.Hi.Sign() <= 0 {
						hi = zero
						if x.Lo.Cmp(neg) >= 0 {
							lo, hi = x.Lo, x.Hi
						}
					}
					r = append(r, IV{lo, hi})
				}
			} else {
				return f.top(t.T)
			}
		case token.SHR:
			if len(b) == 1 && b[0].Lo.Cmp(b[0].Hi) == 0 && b[0].Lo.Sign() >= 0 && b[0].Lo.IsInt64() {
				k := uint(b[0].Lo.Int64())
				r = a.mapMono(func(x *big.Int) *big.Int { return new(big.Int).Rsh(x, k) })
			} else {
				return f.top(t.T)
			}
		case token.SHL:
			if len(b) == 1 && b[0].Lo.Cmp(b[0].Hi) == 0 && b[0].Lo.Sign() >= 0 && b[0].Lo.IsInt64() && b[0].Lo.Int64() < 128 {
				k := uint(b[0].Lo.Int64())
				r = a.mapMono(func(x *big.Int) *big.Int { return new(big.Int).Lsh(x, k) })
			} else {
				return f.top(t.T)
			}
		case token.AND, token.OR, token.XOR, token.AND_NOT:
			// exact on small operand sets (tag octets, kinds, header forms)
			if ea, ok := a.Elems(256); ok {
				if eb, ok := b.Elems(256); ok {
					var rs ISet
					for _, x := range ea {
						for _, y := range eb {
							var z int64
							switch t.Op {
							case token.AND:
								z = x & y
							case token.OR:
								z = x | y
							case token.XOR:
								z = x ^ y
							default:
								z = x &^ y
							}
							rs = append(rs, IV{bi(z), bi(z)})
						}
					}
					return f.fit(rs.norm(), t.T, fl)
				}
			}
			if t.Op == token.OR {
				// c | y with y inside the zero low bits of c is c + y
				cst, o := a, b
				if !(len(cst) == 1 && cst[0].Lo.Cmp(cst[0].Hi) == 0) {
					cst, o = b, a
				}
				if len(cst) == 1 && cst[0].Lo.Cmp(cst[0].Hi) == 0 && cst[0].Lo.Sign() >= 0 && cst[0].Lo.IsInt64() && o.Min().Sign() >= 0 && o.Max().IsInt64() {
					c := cst[0].Lo.Int64()
					tz := int64(1)
					for tz <= o.Max().Int64() {
						tz <<= 1
					}
					if c&(tz-1) == 0 {
						return f.fit(o.mapMono(func(x *big.Int) *big.Int { return new(big.Int).Add(x, cst[0].Lo) }), t.T, fl)
					}
				}
			}
			if (t.Op == token.OR || t.Op == token.XOR) && a.Min().Sign() >= 0 && b.Min().Sign() >= 0 {
				// non-negative operands: the result has no bit above the highest bit of
				// either operand, and x|y is at least each operand
				m := a.Max()
				if b.Max().Cmp(m) > 0 {
					m = b.Max()
				}
				hi := new(big.Int).Sub(new(big.Int).Lsh(one, uint(m.BitLen())), one)
				lo := new(big.Int)
				if t.Op == token.OR {
					lo = a.Min()
					if b.Min().Cmp(lo) > 0 {
						lo = b.Min()
					}
				}
				return f.fit(ISet{{lo, hi}}, t.T, fl)
			}
			if t.Op != token.AND {
				return f.top(t.T)
			}
			// x & mask with a non-negative constant mask
			m, o := b, a
			if !(len(m) == 1 && m[0].Lo.Cmp(m[0].Hi) == 0) {
				m, o = a, b
			}
			if len(m) == 1 && m[0].Lo.Cmp(m[0].Hi) == 0 && m[0].Lo.Sign() >= 0 {
				hi := m[0].Lo
				if o.Min().Sign() >= 0 && o.Max().Cmp(hi) < 0 {
					hi = o.Max()
				}
				r = ISet{{new(big.Int), hi}}
			} else {
				return f.top(t.T)
			}
		default:
			return f.top(t.T)
		}
		return f.fit(r.norm(), t.T, fl)
	}
	return f.top(t.T)
}

// kindRange: value range of an integer reflect.Kind under the analysed
// configuration's word size.
func (f *Flow) kindRange(k int64) (ISet, bool) {
	word := uint(f.w.Sizes.Sizeof(types.Typ[types.Int]) * 8)
	sr := func(bits uint) ISet {
		lo := new(big.Int).Neg(new(big.Int).Lsh(one, bits-1))
		hi := new(big.Int).Sub(new(big.Int).Lsh(one, bits-1), one)
		return ISet{{lo, hi}}
	}
	ur := func(bits uint) ISet {
		return ISet{{new(big.Int), new(big.Int).Sub(new(big.Int).Lsh(one, bits), one)}}
	}
	switch k {
	case 2: // Int
		return sr(word), true
	case 3:
		return sr(8), true
	case 4:
		return sr(16), true
	case 5:
		return sr(32), true
	case 6:
		return sr(64), true
	case 7: // Uint
		return ur(word), true
	case 8:
		return ur(8), true
	case 9:
		return ur(16), true
	case 10:
		return ur(32), true
	case 11:
		return ur(64), true
	case 12: // Uintptr
		return ur(word), true
	}
	return nil, false
}

// ---- refinement ----

func negOp(op token.Token) token.Token {
	switch op {
	case token.EQL:
		return token.NEQ
	case token.NEQ:
		return token.EQL
	case token.LSS:
		return token.GEQ
	case token.LEQ:
		return token.GTR
	case token.GTR:
		return token.LEQ
	case token.GEQ:
		return token.LSS
	}
	return op
}

var (
	negInf = new(big.Int).Neg(new(big.Int).Lsh(one, 200))
	posInf = new(big.Int).Lsh(one, 200)
)

// counterStep: phi is φ(init…, φ+k…) with one constant non-zero step k on
// every edge that depends on phi (a loop counter).
func counterStep(phi *ssa.Phi) (int64, bool) {
	var step int64
	found := false
	for _, e := range phi.Edges {
		bo, ok := e.(*ssa.BinOp)
		if !ok || bo.X != ssa.Value(phi) {
			if e == ssa.Value(phi) {
				continue
			}
			// an edge that does not depend on phi is an initial value
			if ok && bo.Y == ssa.Value(phi) {
				return 0, false
			}
			continue
		}
		c, isC := bo.Y.(*ssa.Const)
		if !isC || c.Value == nil || (bo.Op != token.ADD && bo.Op != token.SUB) {
			return 0, false
		}
		if _, _, isInt := intTypeInfoNoWorld(c.Type()); !isInt {
			return 0, false
		}
		k := c.Int64()
		if bo.Op == token.SUB {
			k = -k
		}
		if k == 0 || (found && k != step) {
			return 0, false
		}
		step, found = k, true
	}
	return step, found
}

func intTypeInfoNoWorld(t types.Type) (uint, bool, bool) {
	b, ok := t.Underlying().(*types.Basic)
	if !ok || b.Info()&types.IsInteger == 0 {
		return 0, false, false
	}
	return 0, b.Info()&types.IsUnsigned == 0, true
}

// refine returns env refined by "cond == truth", and false if the edge is
// infeasible.
func (f *Flow) refine(env Env, cond *Term, truth bool) (Env, bool) {
	switch cond.K {
	case TBoolConst:
		return env, cond.Bool == truth
	case TNot:
		return f.refine(env, cond.A, !truth)
	case TLeaf:
		// reflect semantics: !v.IsValid() ⇔ v.Kind() == Invalid
		if call, ok := cond.V.(*ssa.Call); ok {
			if sc := call.Common().StaticCallee(); sc != nil && qualifiedFnName(sc) == "(reflect.Value).IsValid" && len(call.Common().Args) == 1 {
				kk := "pure:(reflect.Value).Kind(" + f.term(call.Common().Args[0]).key + ")"
				out := env.clone()
				cur, has := out[kk]
				if !has {
					cur = mkSet(0, 26)
				}
				if truth {
					cur = cur.Minus(single(0))
				} else {
					cur = cur.Intersect(single(0))
				}
				if cur.Empty() {
					return env, false
				}
				out[kk] = cur
				return out, true
			}
		}
		// a call to a tag predicate?
		if call, ok := cond.V.(*ssa.Call); ok {
			if sc := call.Common().StaticCallee(); sc != nil && f.w.isTagPredicate(sc) && len(call.Common().Args) == 1 {
				sum := f.w.predSummary(sc)
				if sum == nil {
					return env, true
				}
				arg := f.term(call.Common().Args[0])
				cur, _ := f.Eval(arg, env)
				if cur == nil {
					return env, true
				}
				var nw ISet
				if truth {
					nw = cur.Intersect(*sum)
				} else {
					nw = cur.Minus(*sum)
				}
				if nw.Empty() {
					return env, false
				}
				out := env.clone()
				f.assign(out, arg, nw)
				return out, true
			}
		}
		// a predicate with constant extra operands (`set.has(kind)`): flow_enum.go
		if call, ok := cond.V.(*ssa.Call); ok {
			if o, feasible, applied := f.refinePredCtx(env, call.Common(), truth); applied {
				return o, feasible
			}
		}
		// an opaque boolean: remember its outcome under its own key
		out := env.clone()
		if truth {
			out[cond.key] = single(1)
		} else {
			out[cond.key] = single(0)
		}
		return out, true
	case TPure:
		out := env.clone()
		want := single(0)
		if truth {
			want = single(1)
		}
		if cond.Name == "ctab" {
			// `if table[i]` on a constant table of booleans: the outcome is a fact about
			// the index (the entries holding that value), as for `table[i] == c`
			if cur, _ := f.Eval(cond, env); cur != nil && cur.Intersect(want).Empty() {
				return env, false
			}
			f.assign(out, cond, want)
			if ix, has := out[cond.Args[0].key]; has && ix.Empty() {
				return env, false
			}
			return out, true
		}
		out[cond.key] = want
		return out, true
	case TBin:
		op := cond.Op
		switch op {
		case token.EQL, token.NEQ, token.LSS, token.LEQ, token.GTR, token.GEQ:
		default:
			return env, true
		}
		// a bit set tested by a variable shift (`set>>k&1 != 0`): flow_enum.go
		if hasVarShift(cond, 0) {
			if o, feasible, applied := f.refineEnum(env, cond, truth); applied {
				return o, feasible
			}
		}
		if !truth {
			op = negOp(op)
		}
		// x OP x is decided whatever x is
		if cond.A.key == cond.B.key {
			switch op {
			case token.EQL, token.LEQ, token.GEQ:
				return env, true
			default:
				return env, false
			}
		}
		// round-trip test: T(S(x)) == x holds exactly when x is representable in S
		if op == token.EQL || op == token.NEQ {
			for _, pr := range [][2]*Term{{cond.A, cond.B}, {cond.B, cond.A}} {
				outer, x := pr[0], pr[1]
				if outer.K != TConv || outer.A.K != TConv || outer.A.A.key != x.key || !types.Identical(outer.T, x.T) {
					continue
				}
				// sound only when range(S) ⊂ range(T): S narrower, and not signed-into-unsigned
				sb, ssig, ok1 := intTypeInfo(f.w, outer.A.T)
				tb, tsig, ok2 := intTypeInfo(f.w, outer.T)
				if !ok1 || !ok2 || sb >= tb || (ssig && !tsig) {
					continue
				}
				rng, ok := typeRange(f.w, outer.A.T)
				cur, _ := f.Eval(x, env)
				if !ok || cur == nil {
					continue
				}
				nw := cur.Intersect(rng)
				if op == token.NEQ {
					nw = cur.Minus(rng)
				}
				if nw.Empty() {
					return env, false
				}
				out := env.clone()
				f.assign(out, x, nw)
				if truth {
					out[cond.key] = single(1)
				} else {
					out[cond.key] = single(0)
				}
				return out, true
			}
		}
		a, _ := f.Eval(cond.A, env)
		b, _ := f.Eval(cond.B, env)
		if a == nil || b == nil {
			// comparison of non-integers (floats, interfaces, strings): remember
			// boolean outcome under the condition's own key so that the same
			// comparison later folds.
			out := env.clone()
			if truth {
				out[cond.key] = single(1)
			} else {
				out[cond.key] = single(0)
			}
			// the same comparison written the other way round, or negated, is decided too
			if cond.Op == token.EQL || cond.Op == token.NEQ {
				eq := (cond.Op == token.EQL) == truth
				for _, pr := range [][2]*Term{{cond.A, cond.B}, {cond.B, cond.A}} {
					ke := "(" + pr[0].key + " == " + pr[1].key + ")"
					kn := "(" + pr[0].key + " != " + pr[1].key + ")"
					if eq {
						out[ke], out[kn] = single(1), single(0)
					} else {
						out[ke], out[kn] = single(0), single(1)
					}
				}
			}
			return out, true
		}
		if a.Empty() || b.Empty() {
			return env, false
		}
		var na, nb ISet
		switch op {
		case token.EQL:
			na = a.Intersect(b)
			nb = na
		case token.NEQ:
			na, nb = a, b
			if len(b) == 1 && b[0].Lo.Cmp(b[0].Hi) == 0 {
				na = a.Minus(b)
			}
			if len(a) == 1 && a[0].Lo.Cmp(a[0].Hi) == 0 {
				nb = b.Minus(a)
			}
		case token.LSS:
			na = a.Intersect(ISet{{negInf, new(big.Int).Sub(b.Max(), one)}})
			nb = b.Intersect(ISet{{new(big.Int).Add(a.Min(), one), posInf}})
		case token.LEQ:
			na = a.Intersect(ISet{{negInf, b.Max()}})
			nb = b.Intersect(ISet{{a.Min(), posInf}})
		case token.GTR:
			na = a.Intersect(ISet{{new(big.Int).Add(b.Min(), one), posInf}})
			nb = b.Intersect(ISet{{negInf, new(big.Int).Sub(a.Max(), one)}})
		case token.GEQ:
			na = a.Intersect(ISet{{b.Min(), posInf}})
			nb = b.Intersect(ISet{{negInf, a.Max()}})
		}
		if na.Empty() || nb.Empty() {
			return env, false
		}
		out := env.clone()
		f.assign(out, cond.A, na)
		f.assign(out, cond.B, nb)
		// relational fact: the comparison's own outcome (used by the index-guard rule)
		if truth {
			out[cond.key] = single(1)
		} else {
			out[cond.key] = single(0)
		}
		return out, true
	}
	return env, true
}

// assign records t ∈ s and propagates the fact backwards through invertible
// structure (x+c, x-c, value-preserving conversions, x>>k).
func (f *Flow) assign(env Env, t *Term, s ISet) {
	if t.K == TConst || t.K == TBoolConst {
		return
	}
	if old, ok := env[t.key]; ok {
		s = s.Intersect(old)
	}
	env[t.key] = s
	if s.Empty() {
		return
	}
	switch t.K {
	case TPure:
		// a fact about a classifier's result is a fact about its argument: the pre-image
		if strings.HasPrefix(t.Name, "fin:") {
			if sum := f.finCallee(t); sum != nil {
				if cur := f.finArgSet(t.Args[0], env); cur != nil {
					f.assign(env, t.Args[0], sum.preimage(cur, s))
				}
			}
		}
		// ctab(i) ∈ s narrows i to the indices whose entry is in s
		if t.Name == "ctab" {
			if cur, _ := f.Eval(t.Args[0], env); cur != nil {
				if nw, ok := f.w.ctabNarrow(t, cur, s); ok {
					f.assign(env, t.Args[0], nw)
				}
			}
		}
	case TConv:
		// value-preserving on the operand's current set?
		a, _ := f.Eval(t.A, env)
		bits, signed, ok := intTypeInfo(f.w, t.T)
		if a != nil && ok {
			if _, changed := a.wrap(bits, signed); !changed {
				f.assign(env, t.A, s)
			} else if sb, ss, okS := intTypeInfo(f.w, t.A.T); okS && sb == bits {
				// a same-width conversion (int(kind) of an unsigned kind) is a bijection
				// modulo 2^n: the operand lies in the pre-image of s, which is s re-read in
				// the operand's type (`int(kind) < len(table)` failing bounds kind itself)
				nw, _ := s.wrap(sb, ss)
				f.assign(env, t.A, nw)
			}
		}
	case TBin:
		cst := func(x *Term) (*big.Int, bool) {
			if x.K == TConst {
				return x.C, true
			}
			return nil, false
		}
		var fl evalFlags
		switch t.Op {
		case token.ADD:
			if c, ok := cst(t.B); ok {
				f.evalStruct(t, env, &fl)
				if !fl.Overflow {
					f.assign(env, t.A, s.mapMono(func(x *big.Int) *big.Int { return new(big.Int).Sub(x, c) }))
				} else if bits, signed, ok := intTypeInfo(f.w, t.T); ok {
					// modular arithmetic is a bijection: (x + c) mod 2^n ∈ s ⇔ x ∈ (s - c) mod 2^n
					nw, _ := s.mapMono(func(x *big.Int) *big.Int { return new(big.Int).Sub(x, c) }).wrap(bits, signed)
					f.assign(env, t.A, nw)
				}
			} else if c, ok := cst(t.A); ok {
				f.evalStruct(t, env, &fl)
				if !fl.Overflow {
					f.assign(env, t.B, s.mapMono(func(x *big.Int) *big.Int { return new(big.Int).Sub(x, c) }))
				} else if bits, signed, ok := intTypeInfo(f.w, t.T); ok {
					nw, _ := s.mapMono(func(x *big.Int) *big.Int { return new(big.Int).Sub(x, c) }).wrap(bits, signed)
					f.assign(env, t.B, nw)
				}
			}
		case token.SUB:
			if c, ok := cst(t.B); ok {
				f.evalStruct(t, env, &fl)
				if !fl.Overflow {
					f.assign(env, t.A, s.mapMono(func(x *big.Int) *big.Int { return new(big.Int).Add(x, c) }))
				} else if bits, signed, ok := intTypeInfo(f.w, t.T); ok {
					// modular arithmetic is a bijection: (x - c) mod 2^n ∈ s ⇔ x ∈ (s + c) mod 2^n
					// (the one-comparison range test `tag-lo <= hi-lo` on an unsigned type)
					nw, _ := s.mapMono(func(x *big.Int) *big.Int { return new(big.Int).Add(x, c) }).wrap(bits, signed)
					f.assign(env, t.A, nw)
				}
			}
		case token.SHR:
			if c, ok := cst(t.B); ok && c.IsInt64() && c.Int64() < 128 {
				k := uint(c.Int64())
				var r ISet
				for _, iv := range s {
					lo := new(big.Int).Lsh(iv.Lo, k)
					hi := new(big.Int).Lsh(iv.Hi, k)
					hi.Add(hi, new(big.Int).Sub(new(big.Int).Lsh(one, k), one))
					r = append(r, IV{lo, hi})
				}
				f.assign(env, t.A, r.norm())
			}
		}
	}
}

// ---- fixpoint ----

func (w *World) flow(fn *ssa.Function) *Flow {
	if fl, ok := w.flows[fn]; ok {
		return fl
	}
	fl := w.flowCtx(fn, nil)
	w.flows[fn] = fl
	return fl
}

func (w *World) flowCtx(fn *ssa.Function, ctx Env) *Flow {
	f := &Flow{w: w, fn: fn, in: map[int]Env{}, edges: map[edgeKey]Env{}, terms: map[ssa.Value]*Term{}, ctx: ctx}
	if fn.Blocks == nil {
		return f
	}
	f.run()
	return f
}

func (f *Flow) run() {
	fn := f.fn
	entry := Env{}
	for k, v := range f.ctx {
		entry[k] = v
	}
	f.in[0] = entry
	phiUpdates := map[string]int{}
	work := []int{0}
	inWork := map[int]bool{0: true}
	for len(work) > 0 && f.iters < 4000 {
		f.iters++
		// pick lowest index (approximates reverse post-order)
		sort.Ints(work)
		bi := work[0]
		work = work[1:]
		inWork[bi] = false
		b := fn.Blocks[bi]
		env := f.in[bi]
		if env == nil {
			continue
		}
		env = env.clone()
		// facts about registers (re)defined in this block are stale on entry
		// (they describe the previous iteration's value)
		for _, in := range b.Instrs {
			if v, ok := in.(ssa.Value); ok {
				tag := "<" + v.Name() + ">"
				for k := range env {
					if strings.Contains(k, tag) && !strings.HasSuffix(k, "#phi") {
						delete(env, k)
					}
				}
			}
		}
		// φ-nodes
		for _, in := range b.Instrs {
			phi, ok := in.(*ssa.Phi)
			if !ok {
				break
			}
			if _, _, isInt := intTypeInfo(f.w, phi.Type()); !isInt {
				continue
			}
			var s ISet
			known := true
			for i, p := range b.Preds {
				ee, ok := f.edges[edgeKey{p.Index, bi}]
				if !ok || ee == nil {
					continue
				}
				v, _ := f.Eval(f.term(phi.Edges[i]), ee)
				if v == nil {
					known = false
					break
				}
				s = s.Union(v)
			}
			key := f.term(phi).key
			if !known {
				delete(env, key)
				continue
			}
			if old, ok := f.in[bi][key+"#phi"]; ok && !old.Equal(s) {
				phiUpdates[key]++
				if phiUpdates[key] > 6 {
					// widening: jump to the type's range on the moving side
					top := f.top(phi.Type())
					lo, hi := s.Min(), s.Max()
					if s.Min().Cmp(old.Min()) < 0 {
						lo = top.Min()
					}
					if s.Max().Cmp(old.Max()) > 0 {
						hi = top.Max()
					}
					s = ISet{{lo, hi}}
				}
			}
			// a counter φ(init, φ±k) is assumed not to wrap around: its range stops
			// one step before the end of its type
			if k, isCounter := counterStep(phi); isCounter {
				if top, ok := typeRange(f.w, phi.Type()); ok {
					lo, hi := top.Min(), top.Max()
					if k > 0 {
						hi = new(big.Int).Sub(hi, big.NewInt(k))
					} else {
						lo = new(big.Int).Sub(lo, big.NewInt(k))
					}
					if c := s.Intersect(ISet{{lo, hi}}); !c.Empty() {
						s = c
					}
				}
			}
			env[key] = s
			env[key+"#phi"] = s
		}
		f.in[bi] = env
		// terminator
		var outs []Env
		switch t := b.Instrs[len(b.Instrs)-1].(type) {
		case *ssa.If:
			c := f.term(t.Cond)
			// a condition already decided on this path?
			te, tok := f.refine(env, c, true)
			fe, fok := f.refine(env, c, false)
			// `a || b` / `a && b` used as a value (switch case lists, assigned
			// booleans) is a φ of booleans in this block: refine per incoming edge
			if phi, isPhi := t.Cond.(*ssa.Phi); isPhi && phi.Block() == b {
				te, tok = f.refinePhiCond(b, phi, env, true)
				fe, fok = f.refinePhiCond(b, phi, env, false)
			}
			if v, ok := env[c.key]; ok && len(v) == 1 && v[0].Lo.Cmp(v[0].Hi) == 0 {
				if v[0].Lo.Sign() == 0 {
					tok = false
				} else {
					fok = false
				}
			}
			if !tok {
				te = nil
			}
			if !fok {
				fe = nil
			}
			outs = []Env{te, fe}
		case *ssa.Jump:
			outs = []Env{env}
		default:
			outs = nil
		}
		for i, s := range b.Succs {
			if i >= len(outs) {
				break
			}
			k := edgeKey{bi, s.Index}
			// a block may have two edges to the same successor (if c goto X else X)
			if i > 0 && b.Succs[0] == s && outs[0] != nil {
				if outs[i] != nil {
					outs[i] = joinEnv(outs[0], outs[i])
				} else {
					outs[i] = outs[0]
				}
			}
			old, had := f.edges[k]
			if had && ((old == nil && outs[i] == nil) || (old != nil && outs[i] != nil && envEqual(old, outs[i]))) {
				continue
			}
			f.edges[k] = outs[i]
			// recompute successor's entry env
			var ne Env
			for _, p := range s.Preds {
				ee, ok := f.edges[edgeKey{p.Index, s.Index}]
				if !ok || ee == nil {
					continue
				}
				if ne == nil {
					ne = ee.clone()
				} else {
					ne = joinEnv(ne, ee)
				}
			}
			if ne != nil {
				// keep φ bookkeeping keys from the previous round
				if prev := f.in[s.Index]; prev != nil {
					for kk, vv := range prev {
						if strings.HasSuffix(kk, "#phi") {
							ne[kk] = vv
						}
					}
				}
			}
			f.in[s.Index] = ne
			if !inWork[s.Index] {
				inWork[s.Index] = true
				work = append(work, s.Index)
			}
		}
	}
}

// refinePhiCond: the environment on the edge where the boolean φ (defined in
// block b) has the given truth value: the join over incoming edges of that
// edge's environment refined by "operand == truth".
func (f *Flow) refinePhiCond(b *ssa.BasicBlock, phi *ssa.Phi, env Env, truth bool) (Env, bool) {
	var res Env
	for i, p := range b.Preds {
		ee := f.edges[edgeKey{p.Index, b.Index}]
		if ee == nil {
			continue
		}
		re, ok := f.refine(ee, f.term(phi.Edges[i]), truth)
		if !ok {
			continue
		}
		if res == nil {
			res = re.clone()
		} else {
			res = joinEnv(res, re)
		}
	}
	if res == nil {
		return env, false
	}
	// keep this block's own φ assignments
	for _, in := range b.Instrs {
		p2, ok := in.(*ssa.Phi)
		if !ok {
			break
		}
		k := f.term(p2).key
		if v, ok := env[k]; ok {
			res[k] = v
			res[k+"#phi"] = v
		}
	}
	return res, true
}

// retRange: the union over the returns of fn of the interval of result idx
// (context-insensitive; nil when not an integer or recursive).
func (w *World) retRange(fn *ssa.Function, idx int) ISet {
	key := retKey{fn, idx}
	if r, ok := w.rets[key]; ok {
		return r
	}
	if w.rets == nil {
		w.rets = map[retKey]ISet{}
	}
	w.rets[key] = nil // recursion guard
	if fn.Blocks == nil || idx >= fn.Signature.Results().Len() {
		return nil
	}
	if _, _, ok := intTypeInfo(w, fn.Signature.Results().At(idx).Type()); !ok {
		return nil
	}
	f := w.flow(fn)
	var acc ISet
	for _, b := range fn.Blocks {
		ret, ok := b.Instrs[len(b.Instrs)-1].(*ssa.Return)
		if !ok || !f.Reachable(b) {
			continue
		}
		s, _ := f.ValueAt(ret.Results[idx], b)
		if s == nil {
			return nil
		}
		acc = acc.Union(s)
	}
	w.rets[key] = acc
	return acc
}

// retRangeOK: like retRange but only over returns whose error result is nil.
func (w *World) retRangeOK(fn *ssa.Function, idx int) ISet {
	key := retKey{fn, idx + 1000}
	if r, ok := w.rets[key]; ok {
		return r
	}
	if w.rets == nil {
		w.rets = map[retKey]ISet{}
	}
	w.rets[key] = nil
	ei := errIndex(fn.Signature)
	if fn.Blocks == nil || ei < 0 {
		return nil
	}
	if _, _, ok := intTypeInfo(w, fn.Signature.Results().At(idx).Type()); !ok {
		return nil
	}
	f := w.flow(fn)
	var acc ISet
	for _, b := range fn.Blocks {
		ret, ok := b.Instrs[len(b.Instrs)-1].(*ssa.Return)
		if !ok || !f.Reachable(b) {
			continue
		}
		if !isNilConst(ret.Results[ei]) {
			// a forwarded callee error may be nil: only provably non-nil errors are excluded
			if w.nonNilErr(ret.Results[ei], nil, nil, 0) {
				continue
			}
			// "return v, err" right after "if err != nil": the error operand is the tested value
			if te := f.At(b); te != nil {
				k := "(" + f.term(ret.Results[ei]).key + " != nil:error)"
				if s, has := te[k]; has && s.Equal(single(1)) {
					continue
				}
			}
		}
		s, _ := f.ValueAt(ret.Results[idx], b)
		if s == nil {
			return nil
		}
		acc = acc.Union(s)
	}
	// the join-based fixpoint loses a value computed in a loop whose trip count
	// is fixed per path (length = length<<8 + b over a buffer of 1 or 2 octets):
	// when its answer says nothing, ask the path explorer
	if wide := new(big.Int).Lsh(one, 32); acc == nil || acc.Empty() || new(big.Int).Sub(acc.Max(), acc.Min()).Cmp(wide) > 0 {
		if s := w.pxRetRangeOK(fn, idx); s != nil && (acc == nil || acc.Empty() || s.SubsetOf(acc.Hull())) {
			acc = s
		}
	}
	w.rets[key] = acc
	return acc
}

type retKey struct {
	fn  *ssa.Function
	idx int
}

// Reachable reports whether the block is reachable under the analysed facts.
func (f *Flow) Reachable(b *ssa.BasicBlock) bool { return f.in[b.Index] != nil }

func (f *Flow) EdgeEnv(from, to *ssa.BasicBlock) Env { return f.edges[edgeKey{from.Index, to.Index}] }

// At returns the facts at entry of (and throughout) block b.
func (f *Flow) At(b *ssa.BasicBlock) Env { return f.in[b.Index] }

// ValueAt evaluates v in block b.
func (f *Flow) ValueAt(v ssa.Value, b *ssa.BasicBlock) (ISet, evalFlags) {
	env := f.in[b.Index]
	if env == nil {
		return nil, evalFlags{}
	}
	return f.Eval(f.term(v), env)
}

// ---- tag predicates ----

// isTagPredicate: package-level function of the hessian package with
// signature func(byte) bool.
func (w *World) isTagPredicate(fn *ssa.Function) bool {
	_, ok := w.predDomain(fn)
	return ok
}

// predDomain: fn is a pure single-parameter predicate over a small integer
// domain (a tag octet, a reflect.Kind); returns the domain's upper bound.
func (w *World) predDomain(fn *ssa.Function) (int, bool) {
	if fn == nil || fn.Pkg != w.Pkg || fn.Signature.Recv() != nil || fn.Parent() != nil {
		return 0, false
	}
	sig := fn.Signature
	if sig.Params().Len() != 1 || sig.Results().Len() != 1 {
		return 0, false
	}
	r, ok := sig.Results().At(0).Type().Underlying().(*types.Basic)
	if !ok || r.Kind() != types.Bool {
		return 0, false
	}
	if typeStr(sig.Params().At(0).Type()) == "reflect.Kind" {
		return 26, true
	}
	p, ok := sig.Params().At(0).Type().Underlying().(*types.Basic)
	if !ok || p.Kind() != types.Uint8 {
		return 0, false
	}
	return 255, true
}

// predSummary computes exactly the set of octets a tag predicate accepts.
// The predicate's control flow depends on its parameter only, so every octet
// follows one path and the edge facts partition [0,255]: the union over
// return sites of {values reaching the site} ∩ {values making the returned
// expression true} is the accepted set, with no approximation.  Returns nil
// when the function has a shape the domain cannot decide.
func (w *World) predSummary(fn *ssa.Function) *ISet {
	if s, ok := w.preds[fn]; ok {
		return s
	}
	w.preds[fn] = nil // recursion guard
	// primary: enumerate the (small) domain with the path explorer — exact
	// whatever the predicate's arithmetic or helper structure
	if hi, ok := w.predDomain(fn); ok {
		if s, ok := w.pxPredicate(fn, hi); ok {
			w.preds[fn] = &s
			return &s
		}
	}
	f := w.flow(fn)
	if len(fn.Params) != 1 {
		return nil
	}
	pk := f.term(fn.Params[0])
	acc := ISet{}
	okAll := true
	for _, b := range fn.Blocks {
		ret, ok := b.Instrs[len(b.Instrs)-1].(*ssa.Return)
		if !ok {
			continue
		}
		env := f.in[b.Index]
		if env == nil {
			continue
		}
		s, ok := f.truthSet(ret.Results[0], b, env, pk, 0)
		if !ok {
			okAll = false
			break
		}
		acc = acc.Union(s)
	}
	if !okAll {
		return nil
	}
	w.preds[fn] = &acc
	return &acc
}

// truthSet: the values of symbol pk (under env) for which boolean v is true.
func (f *Flow) truthSet(v ssa.Value, at *ssa.BasicBlock, env Env, pk *Term, depth int) (ISet, bool) {
	if depth > 20 {
		return nil, false
	}
	if phi, ok := v.(*ssa.Phi); ok {
		var acc ISet
		pb := phi.Block()
		for i, p := range pb.Preds {
			ee := f.edges[edgeKey{p.Index, pb.Index}]
			if ee == nil {
				continue
			}
			s, ok := f.truthSet(phi.Edges[i], p, ee, pk, depth+1)
			if !ok {
				return nil, false
			}
			acc = acc.Union(s)
		}
		cur, _ := f.Eval(pk, env)
		return acc.Intersect(cur), true
	}
	t := f.term(v)
	switch t.K {
	case TBoolConst, TNot, TBin:
	case TLeaf:
		call, ok := v.(*ssa.Call)
		if !ok {
			return nil, false
		}
		sc := call.Common().StaticCallee()
		if sc == nil || !f.w.isTagPredicate(sc) || f.w.predSummary(sc) == nil {
			return nil, false
		}
	default:
		return nil, false
	}
	if !f.dependsOnlyOn(t, pk) {
		return nil, false
	}
	te, ok := f.refine(env, t, true)
	if !ok {
		return ISet{}, true
	}
	s, _ := f.Eval(pk, te)
	// the refinement is exact only if the two outcomes split the values of pk:
	// arithmetic that wraps around (tag-lo <= hi-lo) does not propagate back to pk
	if fe, fok := f.refine(env, t, false); fok {
		if sf, _ := f.Eval(pk, fe); sf == nil || s == nil || !s.Intersect(sf).Empty() {
			return nil, false
		}
	}
	return s, true
}

// dependsOnlyOn: every leaf of t is pk or a constant (so refinement on pk is
// exact).
func (f *Flow) dependsOnlyOn(t *Term, pk *Term) bool {
	switch t.K {
	case TConst, TBoolConst:
		return true
	case TLeaf:
		if t.key == pk.key {
			return true
		}
		if call, ok := t.V.(*ssa.Call); ok {
			for _, a := range call.Common().Args {
				if !f.dependsOnlyOn(f.term(a), pk) {
					return false
				}
			}
			return call.Common().StaticCallee() != nil && f.w.isTagPredicate(call.Common().StaticCallee())
		}
		return false
	case TNot, TConv:
		return f.dependsOnlyOn(t.A, pk)
	case TBin:
		return f.dependsOnlyOn(t.A, pk) && f.dependsOnlyOn(t.B, pk)
	}
	return false
}
