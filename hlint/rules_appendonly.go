package main

// Numbering tables are append-only within a stream.
//
// The ordinals of references, class definitions and type names are positions
// in per-stream tables that both sides grow in the same order.  Outside Reset
// (and constructors, which fill a fresh object) a slice-typed field of the
// Encoder / Decoder may therefore only be assigned append(<the same field>, …)
// and a map-typed field may only be updated, never re-assigned, deleted from
// or cleared: a truncation ("forget the skipped value's entries"), a re-make
// ("free the table between top-level objects") or a delete shifts every later
// ordinal against the peer's.

import (
	"fmt"
	"go/types"

	"golang.org/x/tools/go/ssa"
)

func (w *World) ruleTablesAppendOnly(r *Report, rule string, owners []string) {
	resetFns := map[*ssa.Function]bool{}
	for _, n := range []string{"(*Encoder).Reset", "(*Decoder).Reset"} {
		if f := w.fn(n); f != nil {
			resetFns[f] = true
		}
	}
	want := map[string]bool{}
	for _, o := range owners {
		want[o] = true
	}
	n, bad := 0, 0
	for _, fn := range w.SrcFuncs() {
		if resetFns[fn] {
			continue
		}
		cnt := 0
		for _, b := range fn.Blocks {
			for _, in := range b.Instrs {
				switch x := in.(type) {
				case *ssa.Store:
					fa, ok := x.Addr.(*ssa.FieldAddr)
					if !ok {
						continue
					}
					if _, fresh := fa.X.(*ssa.Alloc); fresh {
						continue
					}
					name := w.fieldNameOfAddr(fa)
					owner := ownerOf(name)
					if !want[owner] {
						continue
					}
					switch x.Val.Type().Underlying().(type) {
					case *types.Slice, *types.Map:
					default:
						continue
					}
					if w.isCallerSuppliedMapField(fa) {
						continue // nameMap / typMap: configuration, not a numbering table
					}
					n++
					ok2 := false
					if c, isC := x.Val.(*ssa.Call); isC {
						if bi, isB := c.Call.Value.(*ssa.Builtin); isB && bi.Name() == "append" && len(c.Call.Args) > 0 {
							if o2, f2, okL := w.fieldOfLoad(c.Call.Args[0]); okL && o2+"."+w.fieldName(o2, f2) == name {
								ok2 = true
							}
						}
					}
					if !ok2 {
						cnt++
						bad++
						r.add(rule, fmt.Sprintf("%s · assignment #%d of %s", fnName(fn), cnt, name), w.instrPos(x), false,
							"a per-stream numbering table is assigned something other than append(itself, …) outside Reset: entries already numbered are dropped or replaced, every later ordinal is shifted against the peer's table")
					}
				case *ssa.Call:
					bi, isB := x.Call.Value.(*ssa.Builtin)
					if !isB || (bi.Name() != "delete" && bi.Name() != "clear") || len(x.Call.Args) == 0 {
						continue
					}
					if o2, f2, okL := w.fieldOfLoad(x.Call.Args[0]); okL && want[o2] {
						n++
						cnt++
						bad++
						r.add(rule, fmt.Sprintf("%s · %s #%d on %s.%s", fnName(fn), bi.Name(), cnt, o2, w.fieldName(o2, f2)), w.instrPos(x), false,
							"entries of a per-stream numbering table are removed outside Reset: later ordinals no longer agree with the peer's table")
					}
				}
			}
		}
	}
	if bad == 0 {
		o := r.add(rule, "census", "-", true, fmt.Sprintf("%d assignments of slice/map fields of %v outside Reset: each is append(the same field, …)", n, owners))
		o.Trivial = n == 0
	}
	r.floor(rule+" (table assignments outside Reset)", n, 1)
}

func ownerOf(fieldName string) string {
	for i := 0; i < len(fieldName); i++ {
		if fieldName[i] == '.' {
			return fieldName[:i]
		}
	}
	return fieldName
}

// isCallerSuppliedMapField: the field holds a name/type map handed in by the caller.
func (w *World) isCallerSuppliedMapField(fa *ssa.FieldAddr) bool {
	pt, ok := fa.X.Type().Underlying().(*types.Pointer)
	if !ok {
		return false
	}
	st, ok := pt.Elem().Underlying().(*types.Struct)
	if !ok {
		return false
	}
	ts := typeStr(st.Field(fa.Field).Type())
	return ts == "map[string]string" || ts == "map[string]reflect.Type"
}

// ruleTablesStartEmpty: every fresh slice assigned to a numbering table of the
// Encoder / Decoder (in Reset, in constructors, anywhere) has length 0: the
// first name / definition / object of a stream gets ordinal 0 on both sides.
// `make([]string, 1, 11)` leaves a phantom entry 0 and shifts every ordinal.
func (w *World) ruleTablesStartEmpty(r *Report, rule string, owners []string) {
	want := map[string]bool{}
	for _, o := range owners {
		want[o] = true
	}
	n := 0
	for _, fn := range w.SrcFuncs() {
		cnt := 0
		for _, b := range fn.Blocks {
			for _, in := range b.Instrs {
				st, ok := in.(*ssa.Store)
				if !ok {
					continue
				}
				fa, ok := st.Addr.(*ssa.FieldAddr)
				if !ok {
					continue
				}
				if _, isSl := st.Val.Type().Underlying().(*types.Slice); !isSl {
					continue
				}
				name := w.fieldNameOfAddr(fa)
				if !want[ownerOf(name)] {
					continue
				}
				length, fresh := int64(-1), false
				switch v := st.Val.(type) {
				case *ssa.MakeSlice:
					fresh = true
					if c, ok := v.Len.(*ssa.Const); ok && c.Value != nil {
						length = c.Int64()
					}
				case *ssa.Const:
					if v.IsNil() {
						fresh, length = true, 0
					}
				case *ssa.Slice:
					// table = table[:0] empties it in place
					if _, _, isFld := w.fieldOfLoad(v.X); isFld && v.High != nil {
						if c, ok := v.High.(*ssa.Const); ok && c.Value != nil && c.Int64() == 0 {
							fresh, length = true, 0
						}
					}
					if al, ok := v.X.(*ssa.Alloc); ok && al.Heap {
						if pt, ok := al.Type().Underlying().(*types.Pointer); ok {
							if at, ok := pt.Elem().Underlying().(*types.Array); ok {
								fresh = true
								length = at.Len()
								lo := int64(0)
								if v.Low != nil {
									if c, ok := v.Low.(*ssa.Const); ok && c.Value != nil {
										lo = c.Int64()
									} else {
										length = -1
									}
								}
								if v.High != nil {
									if c, ok := v.High.(*ssa.Const); ok && c.Value != nil {
										length = c.Int64()
									} else {
										length = -1
									}
								}
								if length >= 0 {
									length -= lo
								}
							}
						}
					}
				}
				if !fresh {
					continue
				}
				n++
				cnt++
				ok2 := length == 0
				fact := "the table is made with length 0: the first entry gets ordinal 0"
				if !ok2 {
					fact = fmt.Sprintf("the table is made with length %d (-1: not a constant): phantom entries in front shift every ordinal against the peer's numbering", length)
				}
				r.add(rule, fmt.Sprintf("%s · fresh table #%d for %s", fnName(fn), cnt, name), w.instrPos(st), ok2, fact)
			}
		}
	}
	r.floor(rule+" (fresh tables)", n, 2)
}
