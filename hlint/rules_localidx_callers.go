package main

// C03.R8 / C14.R8 — the dominating access that proves a container non-empty may
// sit in the CALLERS of the helper that makes the copy.
//
//	func withFirstByte(name string, first byte) string {
//		bs := make([]byte, len(name)); bs[0] = first; …
//	}
//	first := name[0]; … withFirstByte(name, first+gap)
//
// `bs[0]` is in range because len(bs) = len(name) and `name[0]` has been
// evaluated on every way to the call: had name been empty, control would not
// have reached it.  The inlined form had that access in the same function
// (rules_localidx.go, "dominating access"); here it is required of EVERY static
// call site of the helper (a helper that can be entered otherwise does not
// resolve): the argument bound to the parameter is the very SSA value indexed
// with a constant >= c by an instruction that dominates the call.

import (
	"golang.org/x/tools/go/ssa"
)

// callersAccessFirst: on every way into fn the value bound to parameter p has
// been indexed with a constant >= c.  Returns the position of one such access.
func (w *World) callersAccessFirst(fn *ssa.Function, p *ssa.Parameter, c int64) (string, bool) {
	pi := -1
	for i, q := range fn.Params {
		if q == p {
			pi = i
		}
	}
	if pi < 0 {
		return "", false
	}
	if _, ok := w.staticCallersOf(fn); !ok {
		return "", false
	}
	node := w.CG.Nodes[fn]
	if node == nil || len(node.In) == 0 {
		return "", false
	}
	pos := ""
	for _, e := range node.In {
		call, ok := e.Site.(*ssa.Call)
		if !ok || pi >= len(call.Call.Args) {
			return "", false
		}
		arg := call.Call.Args[pi]
		g := call.Parent()
		found := false
		for _, b2 := range g.Blocks {
			for _, in2 := range b2.Instrs {
				var x2, i2 ssa.Value
				switch y := in2.(type) {
				case *ssa.Index:
					x2, i2 = y.X, y.Index
				case *ssa.IndexAddr:
					x2, i2 = y.X, y.Index
				}
				if x2 == nil || x2 != arg {
					continue
				}
				c2, ok := i2.(*ssa.Const)
				if !ok || c2.Value == nil || c2.Int64() < c {
					continue
				}
				dom := b2 != call.Block() && b2.Dominates(call.Block())
				if b2 == call.Block() {
					for _, q := range b2.Instrs {
						if q == in2 {
							dom = true
							break
						}
						if q == ssa.Instruction(call) {
							break
						}
					}
				}
				if dom {
					found = true
					pos = w.instrPos(in2)
				}
			}
		}
		if !found {
			return "", false
		}
	}
	return pos, true
}
