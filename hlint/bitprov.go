package main

// Bit-provenance domain: an abstract value is a vector of 64 bit expressions,
// each 0, 1, "bit i of symbol S", or unknown.  It is exact on the vocabulary
// the scalar codecs are written in — constants, shifts by constants, masks,
// |, ^, integer conversions (truncation, sign and zero extension, same-width
// reinterpretation), big-endian composition of octets, and sums of terms with
// disjoint bit support — and gives "unknown" for everything else.  No solver:
// two values are equal if their vectors are syntactically equal after the
// symbols' bits have been canonicalised with the interval facts of the path
// (bits above a symbol's proven range repeat its sign bit or are constant).
//
// It is what lets the checker decide "the decoder rebuilds the integer the
// encoder was given, bit for bit": the decoder's result term, with every
// stream octet <in@k> replaced by the term the encoder wrote at position k, is
// evaluated to a vector over the bits of the encoder's input and compared with
// the input's own vector.

import (
	"fmt"
	"go/token"
	"go/types"
	"math/big"
	"strings"
)

type bitX struct {
	k   byte // 0 zero, 1 one, 2 symbol bit, 3 unknown
	sym string
	i   int
}

func (b bitX) String() string {
	switch b.k {
	case 0:
		return "0"
	case 1:
		return "1"
	case 2:
		return fmt.Sprintf("%s[%d]", b.sym, b.i)
	}
	return "?"
}

type bitVec [64]bitX

type bitProv struct {
	w      *World
	subst  map[string]*Term // leaf key -> term standing for it
	env    Env              // singleton facts turn leaves into constants
	ranges map[string]ISet  // symbol key -> proven value set (for canonicalisation)
	why    string           // first construct that could not be expressed
}

func (bp *bitProv) fail(format string, a ...interface{}) (bitVec, bool) {
	if bp.why == "" {
		bp.why = fmt.Sprintf(format, a...)
	}
	var v bitVec
	for i := range v {
		v[i] = bitX{k: 3}
	}
	return v, false
}

func constVec(c *big.Int) bitVec {
	var v bitVec
	// two's complement, 64 bits
	m := new(big.Int).Set(c)
	if m.Sign() < 0 {
		m.Add(m, new(big.Int).Lsh(one, 64))
	}
	for i := 0; i < 64; i++ {
		if m.Bit(i) == 1 {
			v[i] = bitX{k: 1}
		}
	}
	return v
}

func (v bitVec) constant() (*big.Int, bool) {
	r := new(big.Int)
	for i := 0; i < 64; i++ {
		switch v[i].k {
		case 1:
			r.SetBit(r, i, 1)
		case 0:
		default:
			return nil, false
		}
	}
	if v[63].k == 1 {
		r.Sub(r, new(big.Int).Lsh(one, 64))
	}
	return r, true
}

// fit: the value as a T (low width bits, extended to 64 by T's signedness).
func (bp *bitProv) fit(v bitVec, t types.Type) bitVec {
	bits, signed, ok := intTypeInfo(bp.w, t)
	if !ok || bits >= 64 {
		return v
	}
	for i := int(bits); i < 64; i++ {
		if signed {
			v[i] = v[bits-1]
		} else {
			v[i] = bitX{}
		}
	}
	return v
}

func (bp *bitProv) symbol(key string, t types.Type) bitVec {
	var v bitVec
	bits, _, ok := intTypeInfo(bp.w, t)
	if !ok {
		bits = 64
	}
	for i := 0; i < 64; i++ {
		if i < int(bits) {
			v[i] = bitX{k: 2, sym: key, i: i}
		}
	}
	if ok {
		v = bp.fit(v, t)
	}
	return bp.canon(v)
}

// canon rewrites symbol bits with what the symbol's proven range implies:
// the common binary prefix of the bounds is constant, and above the highest
// bit that can differ the bits repeat the sign.
func (bp *bitProv) canon(v bitVec) bitVec {
	for i := range v {
		if v[i].k != 2 {
			continue
		}
		rs, ok := bp.ranges[v[i].sym]
		if !ok || rs.Empty() {
			continue
		}
		lo, hi := rs.Min(), rs.Max()
		if lo.BitLen() > 62 || hi.BitLen() > 62 {
			continue
		}
		lv, hv := constVec(lo), constVec(hi)
		// highest bit where the bounds differ
		d := -1
		for j := 63; j >= 0; j-- {
			if lv[j].k != hv[j].k {
				d = j
				break
			}
		}
		switch {
		case v[i].i > d:
			v[i] = lv[v[i].i] // common prefix (d == -1: a single value)
		case lo.Sign() < 0 && hi.Sign() >= 0:
			// the bounds differ from the sign bit down: every bit from the width of the
			// range upwards repeats the sign
			k := hi.BitLen()
			if n := new(big.Int).Not(lo).BitLen(); n > k {
				k = n
			}
			if v[i].i > k {
				v[i].i = k
			}
		}
	}
	return v
}

func (bp *bitProv) bits(t *Term) (bitVec, bool) {
	if t == nil {
		return bp.fail("nil term")
	}
	switch t.K {
	case TConst:
		return bp.fit(constVec(t.C), t.T), true
	case TLeaf, TPure:
		if s, ok := bp.subst[t.key]; ok {
			v, ok2 := bp.bits(s)
			if !ok2 {
				return v, false
			}
			if t.T != nil {
				v = bp.fit(v, t.T)
			}
			return v, true
		}
		if s, ok := bp.env[t.key]; ok && s.Card().Cmp(one) == 0 {
			v := constVec(s.Min())
			if t.T != nil {
				v = bp.fit(v, t.T)
			}
			return v, true
		}
		if strings.HasPrefix(t.key, "<in@") || strings.HasPrefix(t.key, "<in:") {
			return bp.fail("stream octet %s has no counterpart in the encoder's form", t.key)
		}
		return bp.symbol(t.key, t.T), true
	case TConv:
		if _, _, isInt := intTypeInfo(bp.w, t.T); !isInt {
			return bp.fail("conversion to %s", types.TypeString(t.T, nil))
		}
		if _, _, fromInt := intTypeInfo(bp.w, t.A.T); !fromInt {
			// float -> integer: an opaque symbol named by the conversion
			return bp.symbol(t.key, t.T), true
		}
		a, ok := bp.bits(t.A)
		if !ok {
			return a, false
		}
		return bp.fit(a, t.T), true
	case TBin:
		a, ok := bp.bits(t.A)
		if !ok {
			return a, false
		}
		b, ok := bp.bits(t.B)
		if !ok {
			return b, false
		}
		var r bitVec
		switch t.Op {
		case token.SHR, token.SHL:
			kc, isC := b.constant()
			if !isC || kc.Sign() < 0 || kc.Cmp(big.NewInt(64)) > 0 {
				return bp.fail("shift by a non-constant amount in %s", t.key)
			}
			k := int(kc.Int64())
			for i := 0; i < 64; i++ {
				if t.Op == token.SHR {
					if i+k < 64 {
						r[i] = a[i+k]
					} else {
						r[i] = a[63]
					}
				} else if i-k >= 0 {
					r[i] = a[i-k]
				}
			}
		case token.AND, token.OR, token.XOR, token.AND_NOT:
			for i := 0; i < 64; i++ {
				x, y := a[i], b[i]
				if t.Op == token.AND_NOT {
					switch y.k {
					case 0:
						y = bitX{k: 1}
					case 1:
						y = bitX{}
					default:
						y = bitX{k: 3}
					}
				}
				switch t.Op {
				case token.AND, token.AND_NOT:
					switch {
					case x.k == 0 || y.k == 0:
						r[i] = bitX{}
					case x.k == 1:
						r[i] = y
					case y.k == 1:
						r[i] = x
					case x == y:
						r[i] = x
					default:
						r[i] = bitX{k: 3}
					}
				case token.OR:
					switch {
					case x.k == 1 || y.k == 1:
						r[i] = bitX{k: 1}
					case x.k == 0:
						r[i] = y
					case y.k == 0:
						r[i] = x
					case x == y:
						r[i] = x
					default:
						r[i] = bitX{k: 3}
					}
				case token.XOR:
					switch {
					case x.k == 0:
						r[i] = y
					case y.k == 0:
						r[i] = x
					case x == y && x.k != 3:
						r[i] = bitX{}
					default:
						r[i] = bitX{k: 3}
					}
				}
			}
		case token.ADD, token.SUB, token.MUL:
			ca, okA := a.constant()
			cb, okB := b.constant()
			switch {
			case okA && okB:
				var c *big.Int
				switch t.Op {
				case token.ADD:
					c = new(big.Int).Add(ca, cb)
				case token.SUB:
					c = new(big.Int).Sub(ca, cb)
				default:
					c = new(big.Int).Mul(ca, cb)
				}
				c.Mod(c, new(big.Int).Lsh(one, 64))
				r = constVec(c)
			case t.Op == token.ADD:
				// disjoint support: no carries, the sum is the union of the bits
				for i := 0; i < 64; i++ {
					switch {
					case a[i].k == 0:
						r[i] = b[i]
					case b[i].k == 0:
						r[i] = a[i]
					default:
						return bp.fail("sum of terms with overlapping bits in %s", t.key)
					}
				}
			case t.Op == token.MUL && (okA || okB):
				c, x := ca, b
				if okB {
					c, x = cb, a
				}
				if c.Sign() <= 0 || new(big.Int).And(c, new(big.Int).Sub(c, one)).Sign() != 0 {
					return bp.fail("product by a constant that is not a power of two in %s", t.key)
				}
				k := c.BitLen() - 1
				for i := 0; i < 64; i++ {
					if i-k >= 0 {
						r[i] = x[i-k]
					}
				}
			default:
				return bp.fail("arithmetic on non-constant bits in %s", t.key)
			}
		default:
			return bp.fail("operator %s", t.Op)
		}
		if t.T != nil {
			if _, _, isInt := intTypeInfo(bp.w, t.T); isInt {
				r = bp.fit(r, t.T)
			}
		}
		return r, true
	}
	return bp.fail("term %s", t.key)
}

// diff describes the first positions where two vectors differ ("" if equal).
func (v bitVec) diff(o bitVec) string {
	var d []string
	for i := 63; i >= 0; i-- {
		if v[i] != o[i] {
			d = append(d, fmt.Sprintf("bit %d is %s, expected %s", i, v[i], o[i]))
			if len(d) == 3 {
				break
			}
		}
	}
	return strings.Join(d, "; ")
}

// summary: how the vector is made up (for evidence).
func (v bitVec) summary() string {
	c, s, u := 0, 0, 0
	for i := range v {
		switch v[i].k {
		case 0, 1:
			c++
		case 2:
			s++
		default:
			u++
		}
	}
	return fmt.Sprintf("%d bits traced to bits of the encoder's input, %d constant, %d unknown", s, c, u)
}
