package main

// Local arrays of structs on the path explorer ("a local array of parts").
//
//	header := [...]struct{ present bool; emit func() (int, error) }{ {true, f}, {typed, g}, {!compact, h} }
//	for _, part := range header { if part.present { part.emit() } }
//
// The composite literal is built by stores through &header[i].field, the range
// statement copies the whole array (`t = *header`), reads `t[i]` and copies the
// element into the loop variable.  A local array whose address never leaves the
// function — every use is a constant-index element address used only for field
// stores / loads, or a load of the whole array — is a set of cells the path
// knows exactly: the whole-array load is the aggregate of what was stored
// (zero values elsewhere), `t[i]` its i-th element (pxro.go componentOf), and
// the copy into the loop variable splits into the field cells (px.go
// splitStruct).  Per path the loop is the sequence of its parts, as the
// if/else chain it replaced.

import (
	"fmt"
	"go/types"
	"strings"

	"golang.org/x/tools/go/ssa"
)

var localStructArrayCache = map[*ssa.Alloc]int{}

// localStructArray: al is a local array only accessed through constant-index
// element addresses and whole loads: its length and, for an array of structs
// (accessed through field stores and loads of its elements), the element struct
// type; for any other element type (function values, slices, …: elements stored
// and loaded as a whole) the struct type is nil.
func localStructArray(al *ssa.Alloc) (int64, *types.Struct, bool) {
	pt, ok := al.Type().Underlying().(*types.Pointer)
	if !ok {
		return 0, nil, false
	}
	at, ok := pt.Elem().Underlying().(*types.Array)
	if !ok || at.Len() <= 0 || at.Len() > 16 {
		return 0, nil, false
	}
	stt, isStruct := at.Elem().Underlying().(*types.Struct)
	if isStruct && (stt.NumFields() == 0 || stt.NumFields() > 8) {
		return 0, nil, false
	}
	if !isStruct {
		stt = nil
		if b, isB := at.Elem().Underlying().(*types.Basic); isB && b.Info()&types.IsInteger != 0 {
			return 0, nil, false // arrays of octets are symbolic byte sequences (pxbytes.go)
		}
	}
	if v, known := localStructArrayCache[al]; known {
		return at.Len(), stt, v == 1
	}
	simple := al.Referrers() != nil
	if simple {
	refs:
		for _, ref := range *al.Referrers() {
			switch x := ref.(type) {
			case *ssa.DebugRef:
			case *ssa.UnOp: // whole-array load
			case *ssa.IndexAddr:
				if _, isC := x.Index.(*ssa.Const); !isC || x.X != ssa.Value(al) || x.Referrers() == nil {
					simple = false
					break refs
				}
				for _, r2 := range *x.Referrers() {
					if _, isDbg := r2.(*ssa.DebugRef); isDbg {
						continue
					}
					if stt == nil {
						// the element as a whole: stored or loaded
						switch y := r2.(type) {
						case *ssa.UnOp:
						case *ssa.Store:
							if y.Addr != ssa.Value(x) {
								simple = false
								break refs
							}
						default:
							simple = false
							break refs
						}
						continue
					}
					fa, ok := r2.(*ssa.FieldAddr)
					if !ok || fa.Referrers() == nil {
						simple = false
						break refs
					}
					for _, r3 := range *fa.Referrers() {
						switch y := r3.(type) {
						case *ssa.DebugRef:
						case *ssa.UnOp:
						case *ssa.Store:
							if y.Addr != ssa.Value(fa) {
								simple = false
								break refs
							}
						default:
							simple = false
							break refs
						}
					}
				}
			default:
				simple = false
				break refs
			}
		}
	}
	localStructArrayCache[al] = 0
	if simple {
		localStructArrayCache[al] = 1
	}
	return at.Len(), stt, simple
}

func localArrayCellKey(reg string, i int64, f int) string {
	return fmt.Sprintf("larr:%s/%d.%d", reg, i, f)
}

// localArrayElemField: addr is &al[i].f of such an array: the cell key.
func (p *PX) localArrayElemField(addr ssa.Value, fr *pxFrame) (string, bool) {
	fa, ok := addr.(*ssa.FieldAddr)
	if !ok {
		return "", false
	}
	ia, ok := fa.X.(*ssa.IndexAddr)
	if !ok {
		return "", false
	}
	al, ok := ia.X.(*ssa.Alloc)
	if !ok {
		return "", false
	}
	if _, stt, simple := localStructArray(al); !simple || stt == nil {
		return "", false
	}
	c, ok := ia.Index.(*ssa.Const)
	if !ok {
		return "", false
	}
	return localArrayCellKey(p.reg(fr, al), c.Int64(), fa.Field), true
}

// localArrayStore records a store through &al[i].f.
func (p *PX) localArrayStore(x *ssa.Store, fr *pxFrame, st *pxState) {
	if k, ok := p.localArrayElemField(x.Addr, fr); ok {
		st.vals[k] = p.term(x.Val, fr, st)
	}
}

// localArrayReset: the Alloc is executed (again): a new, zeroed variable.
func (p *PX) localArrayReset(al *ssa.Alloc, fr *pxFrame, st *pxState) {
	if _, _, simple := localStructArray(al); !simple {
		return
	}
	pre := "larr:" + p.reg(fr, al) + "/"
	for k := range st.vals {
		if strings.HasPrefix(k, pre) {
			delete(st.vals, k)
		}
	}
}

// localArrayValue: the value of the whole array now, as an aggregate of
// element aggregates (nil when al is not such an array or a field of
// unmodelled type was never stored).
func (p *PX) localArrayValue(al *ssa.Alloc, fr *pxFrame, st *pxState) *Term {
	n, stt, simple := localStructArray(al)
	if !simple {
		return nil
	}
	pt := al.Type().Underlying().(*types.Pointer)
	at := pt.Elem().Underlying().(*types.Array)
	reg := p.reg(fr, al)
	var elems []*Term
	var ekeys []string
	for i := int64(0); i < n; i++ {
		if stt == nil {
			// an element stored as a whole: the cell the Store case of px.go keeps under the
			// element's address term; never stored = the zero value of the element type
			e, ok := st.vals[fmt.Sprintf("mem:idx(%s,%d)", p.term(al, fr, st).key, i)]
			if !ok {
				e = zeroOf(at.Elem())
				if e == nil {
					e = &Term{K: TLeaf, T: at.Elem(), key: "zero:" + types.TypeString(at.Elem(), nil)}
				}
			}
			elems = append(elems, e)
			ekeys = append(ekeys, e.key)
			continue
		}
		var args []*Term
		var keys []string
		for f := 0; f < stt.NumFields(); f++ {
			ft, ok := st.vals[localArrayCellKey(reg, i, f)]
			if !ok {
				ft = zeroOf(stt.Field(f).Type())
				if ft == nil {
					ft = &Term{K: TLeaf, T: stt.Field(f).Type(), key: "zero:" + types.TypeString(stt.Field(f).Type(), nil)}
				}
			}
			args = append(args, ft)
			keys = append(keys, ft.key)
		}
		e := &Term{K: TPure, Name: "struct", Args: args, T: at.Elem(), key: "struct{" + strings.Join(keys, ",") + "}"}
		elems = append(elems, e)
		ekeys = append(ekeys, e.key)
	}
	return &Term{K: TPure, Name: "array", Args: elems, T: pt.Elem(), key: "array[" + strings.Join(ekeys, ";") + "]"}
}

// localArrayFieldLoad: a load through &al[i].f.
func (p *PX) localArrayFieldLoad(addr ssa.Value, fr *pxFrame, st *pxState) *Term {
	k, ok := p.localArrayElemField(addr, fr)
	if !ok {
		return nil
	}
	if t, ok := st.vals[k]; ok {
		return t
	}
	fa := addr.(*ssa.FieldAddr)
	return zeroOf(fa.Type().Underlying().(*types.Pointer).Elem())
}

// literalLoopHead: the "loophead" event e is the header of a loop that runs
// over a frame-local array of a constant number of parts (loops_e.go
// literalRangeLoop): its body N times, not an iteration over the elements of
// the value being written.
func (w *World) literalLoopHead(e pxEvent) bool {
	if e.Kind != "loophead" || e.Frame == nil || e.Frame.fn == nil || !strings.HasPrefix(e.Extra, e.Frame.id) {
		return false
	}
	idx := -1
	if _, err := fmt.Sscanf(e.Extra[len(e.Frame.id):], "%d", &idx); err != nil {
		return false
	}
	for _, lp := range naturalLoops(e.Frame.fn) {
		if lp.header.Index == idx {
			_, ok := literalRangeLoop(lp)
			return ok
		}
	}
	return false
}

// prefixOfLocalArray: x is `arr[:k]` of a local array that is not an octet
// buffer (`for _, part := range head[:parts]`): the same cells as the array,
// k of them.  Its term is prefix(array, k): element addresses are those of the
// array (px.go IndexAddr), its length is k (px.go len).
func prefixOfLocalArray(x *ssa.Slice) (*ssa.Alloc, bool) {
	if x.Low != nil || x.Max != nil || x.High == nil {
		return nil, false
	}
	al, ok := x.X.(*ssa.Alloc)
	if !ok {
		return nil, false
	}
	if _, isBytes := isByteArrayPtr(al.Type()); isBytes {
		return nil, false
	}
	if _, ok := localArrayLen(al); !ok {
		return nil, false
	}
	return al, true
}

func (p *PX) prefixTerm(x *ssa.Slice, al *ssa.Alloc, fr *pxFrame, st *pxState) *Term {
	a, k := p.term(al, fr, st), p.term(x.High, fr, st)
	return &Term{K: TPure, Name: "prefix", Args: []*Term{a, k}, V: x, T: x.Type(), key: "prefix(" + a.key + "," + k.key + ")"}
}

func isPrefixTerm(a *Term) bool {
	return a != nil && a.K == TPure && a.Name == "prefix" && len(a.Args) == 2
}
