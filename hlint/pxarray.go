package main

// Local arrays of parts as VALUES.
//
// `routes := [...]struct{ accepts func(byte) bool; read func(*Decoder, byte) … }{…}`
// followed by `for _, route := range routes` is compiled as: the rows are built
// in local structs and stored into the cells of a local array, the whole array
// is loaded once (`t40 = *t14`), and the loop indexes that VALUE (`t40[i]`),
// copying each row into the loop variable.  The explorer already keeps the
// cells of a local array ("mem:idx(<array>,i)", see Store); this file gives the
// whole-array load a term whose components are those cells at the time of the
// load, so that `t40[i]` with i decided on the path is the row stored there and
// the function values in it are the ones the composite literal named — the same
// dispatch as the if/switch chain the table replaces.

import (
	"fmt"
	"go/token"
	"go/types"
	"strings"

	"golang.org/x/tools/go/ssa"
)

const pxLocalArrayMax = 32

// localArrayValueD (the second of two readers of whole local arrays; the first is in
// pxlocalarray.go): the value of a load of the whole local array al, as
// array{c0,…,cn-1}; a cell nothing was stored into on this path is a "zero:"
// placeholder (componentOf answers nothing for it).  nil when no cell is known.
func (p *PX) localArrayValueD(al *ssa.Alloc, fr *pxFrame, st *pxState) *Term {
	n, ok := localArrayLen(al)
	if !ok || n <= 0 || n > pxLocalArrayMax {
		return nil
	}
	if _, isBytes := isByteArrayPtr(al.Type()); isBytes {
		return nil
	}
	at := al.Type().Underlying().(*types.Pointer).Elem().Underlying().(*types.Array)
	base := p.term(al, fr, st)
	args := make([]*Term, n)
	keys := make([]string, n)
	any := false
	est, _ := at.Elem().Underlying().(*types.Struct)
	for i := int64(0); i < n; i++ {
		if t, has := st.vals[fmt.Sprintf("mem:idx(%s,%d)", base.key, i)]; has && t != nil {
			args[i] = t
			any = true
		} else if row := p.localRowValue(base, i, at.Elem(), est, st); row != nil {
			args[i] = row
			any = true
		} else {
			args[i] = &Term{K: TLeaf, T: at.Elem(), key: "zero:" + types.TypeString(at.Elem(), nil)}
		}
		keys[i] = args[i].key
	}
	if !any {
		return nil
	}
	return &Term{K: TPure, Name: "array", Args: args, T: at, key: "array{" + strings.Join(keys, ",") + "}"}
}

// arrayComponent: element i of an array{…} value.
func arrayComponent(whole *Term, i int) *Term {
	if whole == nil || whole.K != TPure || whole.Name != "array" || i < 0 || i >= len(whole.Args) {
		return nil
	}
	if strings.HasPrefix(whole.Args[i].key, "zero:") {
		return nil
	}
	return whole.Args[i]
}

// privateLocalArray: the local array is only ever indexed, loaded as a whole,
// and its rows only accessed field by field or as a whole: no pointer into it is
// kept, handed on or captured, so the cells recorded below cannot be written
// behind the explorer's back.
func privateLocalArray(al *ssa.Alloc) bool {
	if al.Referrers() == nil {
		return false
	}
	addrOnly := func(addr ssa.Value, refs []ssa.Instruction, fields bool) bool {
		for _, r := range refs {
			switch x := r.(type) {
			case *ssa.DebugRef:
			case *ssa.UnOp:
				if x.Op != token.MUL {
					return false
				}
			case *ssa.Store:
				if x.Addr != addr {
					return false // the address itself is stored somewhere
				}
			case *ssa.FieldAddr:
				if !fields || x.Referrers() == nil {
					return false
				}
				for _, r2 := range *x.Referrers() {
					switch y := r2.(type) {
					case *ssa.DebugRef:
					case *ssa.UnOp:
						if y.Op != token.MUL {
							return false
						}
					case *ssa.Store:
						if y.Addr != ssa.Value(x) {
							return false
						}
					default:
						return false
					}
				}
			default:
				return false
			}
		}
		return true
	}
	for _, r := range *al.Referrers() {
		switch x := r.(type) {
		case *ssa.DebugRef:
		case *ssa.UnOp:
			if x.Op != token.MUL {
				return false
			}
		case *ssa.IndexAddr:
			if x.X != ssa.Value(al) || x.Referrers() == nil || !addrOnly(x, *x.Referrers(), true) {
				return false
			}
		default:
			return false
		}
	}
	return true
}

func rowFieldKey(base string, i int64, field int) string {
	return fmt.Sprintf("arr:%s,%d.%d", base, i, field)
}

// localRowStore (called for every Store): a composite literal of rows is built
// in place, field by field (`&routes[0].accepts = binaryTag`).  For a private
// local array (see above) the field of row i is a cell of its own; a store to the
// whole row replaces the row's field cells, a field store after a whole-row store
// makes the whole-row cell unknown.
func (p *PX) localRowStore(x *ssa.Store, fr *pxFrame, st *pxState) {
	switch a := x.Addr.(type) {
	case *ssa.FieldAddr:
		ia, ok := a.X.(*ssa.IndexAddr)
		if !ok {
			return
		}
		al, ok := ia.X.(*ssa.Alloc)
		if !ok || !privateLocalArray(al) {
			return
		}
		it := p.term(ia.Index, fr, st)
		base := p.term(al, fr, st)
		if it.K != TConst || !it.C.IsInt64() {
			// a row that is not known: every row's cell of this field is unknown now
			if n, ok := localArrayLen(al); ok && n <= pxLocalArrayMax {
				for i := int64(0); i < n; i++ {
					delete(st.vals, rowFieldKey(base.key, i, a.Field))
					delete(st.vals, fmt.Sprintf("mem:idx(%s,%d)", base.key, i))
				}
			}
			return
		}
		i := it.C.Int64()
		st.vals[rowFieldKey(base.key, i, a.Field)] = p.term(x.Val, fr, st)
		delete(st.vals, fmt.Sprintf("mem:idx(%s,%d)", base.key, i))
	case *ssa.IndexAddr:
		al, ok := a.X.(*ssa.Alloc)
		if !ok {
			return
		}
		n, ok := localArrayLen(al)
		if !ok || n > pxLocalArrayMax {
			return
		}
		est, ok := al.Type().Underlying().(*types.Pointer).Elem().Underlying().(*types.Array).Elem().Underlying().(*types.Struct)
		if !ok {
			return
		}
		base := p.term(al, fr, st)
		it := p.term(a.Index, fr, st)
		for i := int64(0); i < n; i++ {
			if it.K == TConst && it.C.IsInt64() && it.C.Int64() != i {
				continue
			}
			for f := 0; f < est.NumFields(); f++ {
				delete(st.vals, rowFieldKey(base.key, i, f))
			}
		}
	}
}

// localRowValue: row i of a private local array of structs built field by field.
func (p *PX) localRowValue(base *Term, i int64, et types.Type, est *types.Struct, st *pxState) *Term {
	if est == nil || est.NumFields() == 0 || est.NumFields() > 8 {
		return nil
	}
	al, ok := base.V.(*ssa.Alloc)
	if !ok || !privateLocalArray(al) {
		return nil
	}
	var args []*Term
	var keys []string
	any := false
	for f := 0; f < est.NumFields(); f++ {
		ft, has := st.vals[rowFieldKey(base.key, i, f)]
		if has && ft != nil {
			any = true
		} else {
			ft = &Term{K: TLeaf, T: est.Field(f).Type(), key: "zero:" + types.TypeString(est.Field(f).Type(), nil)}
		}
		args = append(args, ft)
		keys = append(keys, ft.key)
	}
	if !any {
		return nil
	}
	return &Term{K: TPure, Name: "struct", Args: args, T: et, key: "struct{" + strings.Join(keys, ",") + "}"}
}
