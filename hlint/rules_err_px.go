package main

import (
	"golang.org/x/tools/go/ssa"
)

// alwaysWritesPX is the path-level form of "a value writer cannot succeed
// without writing" (C13.R5): the writer is explored path by path with its
// helpers stepped into (writerPaths), and every path whose error result can be
// nil must carry at least one emission event — a call of a boundary function
// (leaf writer, scalar writer, value dispatch, container writer) that itself
// always writes (aw, the fixpoint's current state).  Used where the
// block-level walk of one function fails: a production chosen by one helper and
// written by another (`form := headFormOf(v); writeHead(form, …)`) has a
// `switch form` whose no-case exit is infeasible only across the two frames.
func (w *World) alwaysWritesPX(fn *ssa.Function, aw map[*ssa.Function]bool) (bool, string) {
	wi := w.writerPaths(fn)
	if wi.truncated {
		return false, "path exploration exceeded its budget"
	}
	if len(wi.paths) == 0 {
		return false, "no returning path was explored"
	}
	for _, p := range wi.paths {
		if !p.ErrNil {
			continue
		}
		wrote := false
		for _, e := range p.Trace {
			if e.Call == nil {
				continue
			}
			if sc := e.Call.Call.StaticCallee(); sc != nil && aw[sc] {
				wrote = true
				break
			}
		}
		if !wrote {
			return false, "a return at " + p.Pos + " can report success on a path that wrote nothing"
		}
	}
	return true, ""
}
