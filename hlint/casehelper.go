package main

// Case helpers (capitalizeName / lowerName) summarised by enumeration.
//
// The helper func(name string) string (or (string, error)) is explored once per
// value v of the first octet name[0] (0..255, the fact idx(name,0) = v is given
// to the path explorer), and the first octet of the text it returns is
// evaluated on every path.  The obligation: v in [lo,hi] is mapped to v+off,
// every other v comes back unchanged.  How the text is built does not matter:
// make+store+copy, []byte(name) patched in place, string concatenation,
// strings.ToUpper / ToLower of a one-octet prefix, arithmetic or bit tricks on
// the octet.

import (
	"fmt"
	"go/token"
	"go/types"
	"strings"

	"golang.org/x/tools/go/ssa"
)

// asciiCase: strings.ToUpper / ToLower / unicode.ToUpper / ToLower on an ASCII octet.
func asciiCase(name string, v int64) (int64, bool) {
	if v < 0 || v >= 0x80 {
		return 0, false
	}
	switch name {
	case "strings.ToUpper", "unicode.ToUpper", "bytes.ToUpper":
		if v >= 'a' && v <= 'z' {
			return v - 32, true
		}
		return v, true
	case "strings.ToLower", "unicode.ToLower", "bytes.ToLower":
		if v >= 'A' && v <= 'Z' {
			return v + 32, true
		}
		return v, true
	}
	return 0, false
}

// firstOctet: the value of the first octet of text t on the path (ok=false: not
// decided).  param is the helper's string parameter, v the value of param[0].
func (p *PX) firstOctet(t *Term, st *pxState, param *Term, v int64, depth int) (int64, bool) {
	if t == nil || depth > 8 {
		return 0, false
	}
	if t.key == param.key {
		return v, true
	}
	switch t.K {
	case TPure:
		if t.Name == "view" && len(t.Args) == 3 {
			if !isZeroT(t.Args[1]) {
				return 0, false
			}
			if n, _ := p.evalTerm(subT(t.Args[2], t.Args[1], tInt), st); n == nil || n.Min().Sign() <= 0 {
				return 0, false
			}
			return p.firstOctet(t.Args[0], st, param, v, depth+1)
		}
		if t.Name == "strindex" && len(t.Args) == 2 && isZeroT(t.Args[1]) {
			return p.firstOctet(t.Args[0], st, param, v, depth+1)
		}
	case TConv:
		if t.A == nil || t.A.T == nil {
			return 0, false
		}
		from, to := t.A.T, t.T
		switch {
		case isStringType(to) && isByteSlice(from), isByteSlice(to) && isStringType(from):
			// a slice patched in place on this path
			if f, ok := st.vals["first:"+t.A.key]; ok {
				return p.octetValue(f, st, param, v, depth+1)
			}
			if f, ok := st.vals["first:"+t.key]; ok {
				return p.octetValue(f, st, param, v, depth+1)
			}
			return p.firstOctet(t.A, st, param, v, depth+1)
		case isStringType(to):
			// string(byte) / string(rune) of an ASCII octet
			if _, _, isInt := intTypeInfo(p.w, from); isInt {
				if x, ok := p.octetValue(t.A, st, param, v, depth+1); ok && x < 0x80 {
					return x, true
				}
			}
		}
	case TBin:
		if t.Op == token.ADD && isStringType(t.T) {
			// concatenation: the first octet of the left part, if that is not empty
			return p.firstOctet(t.A, st, param, v, depth+1)
		}
	case TLeaf:
		if f, ok := st.vals["first:"+t.key]; ok {
			return p.octetValue(f, st, param, v, depth+1)
		}
		// the text accumulated in a strings.Builder / bytes.Buffer: its first octet is
		// the first octet written
		if c, ok := t.V.(*ssa.Call); ok && c.Call.StaticCallee() != nil {
			switch qualifiedFnName(c.Call.StaticCallee()) {
			case "(*strings.Builder).String", "(*bytes.Buffer).String":
				if bs := st.bseq[strings.Trim(t.key, "<>")]; bs != nil && len(bs.Oct) > 0 && bs.Oct[0] != nil {
					return p.octetValue(bs.Oct[0], st, param, v, depth+1)
				}
				return 0, false
			}
		}
		if o := st.originOf(t); o != nil && len(o.Args) == 1 {
			if x, ok := p.firstOctet(o.Args[0], st, param, v, depth+1); ok {
				return asciiCase(o.Name, x)
			}
		}
	}
	return 0, false
}

// octetValue: the value of an octet-valued term (arithmetic on param[0], or a
// library case mapping of it).
func (p *PX) octetValue(t *Term, st *pxState, param *Term, v int64, depth int) (int64, bool) {
	if s, _ := p.evalTerm(t, st); s != nil && s.Card().Cmp(one) == 0 {
		return s.Min().Int64(), true
	}
	inner := t
	for inner.K == TConv && inner.A != nil {
		inner = inner.A
	}
	if inner.K == TLeaf {
		if o := st.originOf(inner); o != nil && len(o.Args) == 1 {
			if x, ok := p.octetValue(o.Args[0], st, param, v, depth+1); ok {
				return asciiCase(o.Name, x)
			}
		}
	}
	return 0, false
}

func (w *World) ruleCaseHelperFn(r *Report, rule string, fn *ssa.Function, lo, hi int64, off int64) {
	name := fnName(fn)
	key := name + " · case mapping of the first octet"
	var prm *ssa.Parameter
	for _, p := range fn.Params {
		if isStringType(p.Type()) {
			prm = p
		}
	}
	if prm == nil || fn.Blocks == nil || fn.Signature.Results().Len() == 0 || !isStringType(fn.Signature.Results().At(0).Type()) {
		r.undecided(rule, key, w.pos(fn.Pos()), "not a func(string) string helper")
		return
	}
	pt := &Term{K: TLeaf, V: prm, T: prm.Type(), key: "<p:" + prm.Name() + ">"}
	k0 := "idx(" + pt.key + ",0)"
	var mapped, same ISet
	bad := ""
	for v := int64(0); v <= 255 && bad == ""; v++ {
		var px *PX
		var outs []int64
		undec := ""
		px = w.newPX(pxHooks{
			onInstr: func(fr *pxFrame, in ssa.Instruction, st *pxState) bool {
				// remember what is stored into element 0 of a slice on this path
				if s, ok := in.(*ssa.Store); ok {
					if ia, isIA := s.Addr.(*ssa.IndexAddr); isIA {
						if it := px.term(ia.Index, fr, st); isZeroT(it) {
							st.vals["first:"+px.term(ia.X, fr, st).key] = px.term(s.Val, fr, st)
						}
					}
				}
				return true
			},
			onReturn: func(fr *pxFrame, ret *ssa.Return, results []*Term, st *pxState) {
				if ei := errIndex(fn.Signature); ei >= 0 && !isNilConst(ret.Results[ei]) && !errKnownNil(results[ei], st.env) {
					undec = "an error is returned at " + w.instrPos(ret)
					return
				}
				x, ok := px.firstOctet(results[0], st, pt, v, 0)
				if !ok {
					undec = fmt.Sprintf("the first octet of the text returned at %s (%s) is not decided for a first octet x%02x", w.instrPos(ret), results[0].key, v)
					return
				}
				outs = append(outs, x)
			},
		})
		px.views = true
		px.Run(fn, Env{k0: single(v), "len(" + pt.key + ")": ISet{{big1, posInf}}})
		switch {
		case px.Truncated:
			bad = "path exploration exceeded its budget"
		case undec != "":
			bad = undec
		case len(outs) == 0:
			bad = fmt.Sprintf("no return reached for a first octet x%02x", v)
		}
		for _, x := range outs {
			switch {
			case x == v:
				same = same.Union(single(v))
			case x == v+off:
				mapped = mapped.Union(single(v))
			default:
				bad = fmt.Sprintf("first octet x%02x comes back as x%02x", v, x)
			}
		}
	}
	if bad != "" {
		r.add(rule, key, w.pos(fn.Pos()), false, bad)
		return
	}
	want := mkSet(lo, hi)
	ok := mapped.Equal(want) && same.Equal(mkSet(0, 255).Minus(want))
	fact := fmt.Sprintf("first octet ∈ %s is mapped by %+d, everything else is returned unchanged", mapped, off)
	if !ok {
		fact = fmt.Sprintf("first octet ∈ %s is mapped by %+d, %s is returned unchanged (want %s by %+d)", mapped, off, same, want, off)
	}
	r.add(rule, key, w.pos(fn.Pos()), ok, fact)
}

var big1 = bi(1)

var _ = types.Typ
