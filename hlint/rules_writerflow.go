package main

import (
	"go/token"

	"golang.org/x/tools/go/ssa"
)

// C15.R3 — the destination writer handed DOWN to an in-package function.
//
// The obligation is "every write to the destination is one of the checked
// Write calls (C15.R2 short count, C15.R1 error consumed)".  A load of the
// writer field that is passed as an argument to a statically resolved package
// function (`writeFull(e.writer, p)`) keeps that discipline iff, inside the
// callee, the parameter is again used only as the receiver of a checked Write
// or handed down the same way.  The callee's Write is a leaf write like any
// other (leafWrites enumerates every io.Writer.Write of the package, R2 checks
// its count, R1 the consumption of its error and of every call into the write
// closure), so nothing is lost by following the value.  Any other use of the
// parameter (stored, boxed, captured, wrapped by library code, compared …)
// is an escape as before.

// writerUseChecked reports whether the instruction `ref`, a referrer of the
// writer value `v`, keeps the writer inside the checked-Write discipline.
func (w *World) writerUseChecked(v ssa.Value, ref ssa.Instruction, leafSet map[*ssa.Call]bool, seen map[*ssa.Parameter]bool) bool {
	c, isCall := ref.(*ssa.Call)
	if !isCall {
		return false
	}
	if c.Call.IsInvoke() {
		return c.Call.Value == v && c.Call.Method.Name() == "Write" && leafSet[c]
	}
	sc := c.Call.StaticCallee()
	if sc == nil || !w.inPkg(sc) || sc.Blocks == nil {
		return false
	}
	if c.Call.Value == v {
		return false // the writer itself is not a function
	}
	hit := false
	for i, a := range c.Call.Args {
		if a != v {
			continue
		}
		if i >= len(sc.Params) {
			return false
		}
		hit = true
		if !w.writerParamChecked(sc.Params[i], leafSet, seen) {
			return false
		}
	}
	return hit
}

// writerParamChecked: every use of the parameter is a checked use.
func (w *World) writerParamChecked(p *ssa.Parameter, leafSet map[*ssa.Call]bool, seen map[*ssa.Parameter]bool) bool {
	if seen[p] {
		return true // on a cycle: decided by the other uses
	}
	seen[p] = true
	refs := p.Referrers()
	if refs == nil {
		return false
	}
	for _, ref := range *refs {
		if _, isDbg := ref.(*ssa.DebugRef); isDbg {
			continue
		}
		if !w.writerUseChecked(p, ref, leafSet, seen) {
			return false
		}
	}
	return true
}

// C07.R4 — a conversion of the encoded integer that is only a GUARD.
//
// `uint64(i64)+(1<<31) > math.MaxUint32` reinterprets the value to test its
// range with one unsigned comparison; the reinterpreted number is never data.
// convOnlyCompared: every transitive use of the conversion's result through
// integer arithmetic ends in a comparison (and there is one) — no call, store,
// return, φ or further conversion ever receives it, so no altered value can
// reach the wire through this conversion.  What the guard lets through is
// judged at the conversions of the value that DO reach the wire (operand range
// under the refined facts, refusesRepresentable).
func convOnlyCompared(cv *ssa.Convert) bool {
	seen := map[ssa.Value]bool{}
	compared := false
	var walk func(v ssa.Value) bool
	walk = func(v ssa.Value) bool {
		if seen[v] {
			return true
		}
		seen[v] = true
		refs := v.Referrers()
		if refs == nil {
			return false
		}
		for _, ref := range *refs {
			switch x := ref.(type) {
			case *ssa.DebugRef:
			case *ssa.BinOp:
				switch x.Op {
				case token.EQL, token.NEQ, token.LSS, token.LEQ, token.GTR, token.GEQ:
					compared = true
				case token.ADD, token.SUB, token.AND, token.OR, token.XOR, token.AND_NOT, token.SHL, token.SHR:
					if !walk(x) {
						return false
					}
				default:
					return false
				}
			default:
				return false
			}
		}
		return true
	}
	return walk(cv) && compared
}
