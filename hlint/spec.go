package main

// The frozen oracle: Hessian 2.0 bytecode map and per-form value ranges,
// transcribed from the specification text (hessian-serialization, "Bytecode
// map" and the grammar), NOT derived from the code under analysis.  It is part
// of the trusted base; its digest is printed in every evidence file that
// uses it.

import (
	"crypto/sha256"
	"fmt"
)

type specForm struct {
	Prod    string // production: int long double string binary date bool null end classdef object ref list-typed list-untyped map-typed map-untyped reserved
	Form    string // form name within the production
	Lo, Hi  int    // first-octet interval
	Payload int    // fixed octets following the first octet that belong to the form's header/value (-1: structural, not a fixed count)
	Comment string // grammar line
}

var specForms = []specForm{
	{"string", "short", 0x00, 0x1f, 0, "[x00-x1f] <utf8-data>         # string of length 0-31"},
	{"binary", "short", 0x20, 0x2f, 0, "[x20-x2f] <binary-data>       # binary data of length 0-15"},
	{"string", "medium", 0x30, 0x33, 1, "[x30-x33] b0 <utf8-data>      # string of length 0-1023"},
	{"binary", "medium", 0x34, 0x37, 1, "[x34-x37] b0 <binary-data>    # binary data of length 0-1023"},
	{"long", "long3", 0x38, 0x3f, 2, "[x38-x3f] b1 b0               # three-octet compact long (-x40000 to x3ffff)"},
	{"reserved", "", 0x40, 0x40, -1, "x40                           # reserved (expansion/escape)"},
	{"binary", "chunk", 0x41, 0x41, 2, "x41 b1 b0 <binary-data> binary # 8-bit binary data non-final chunk ('A')"},
	{"binary", "final", 0x42, 0x42, 2, "'B' b1 b0 <binary-data>       # 8-bit binary data final chunk"},
	{"classdef", "", 0x43, 0x43, -1, "'C' string int string*        # object type definition"},
	{"double", "double9", 0x44, 0x44, 8, "'D' b7 b6 b5 b4 b3 b2 b1 b0   # 64-bit IEEE encoded double"},
	{"reserved", "", 0x45, 0x45, -1, "x45                           # reserved"},
	{"bool", "false", 0x46, 0x46, 0, "'F'                           # boolean false"},
	{"reserved", "", 0x47, 0x47, -1, "x47                           # reserved"},
	{"map-untyped", "", 0x48, 0x48, -1, "'H' (value value)* 'Z'        # untyped key, value map"},
	{"int", "int5", 0x49, 0x49, 4, "'I' b3 b2 b1 b0               # 32-bit signed integer"},
	{"date", "millis", 0x4a, 0x4a, 8, "x4a b7 b6 b5 b4 b3 b2 b1 b0   # 64-bit UTC millisecond date"},
	{"date", "minutes", 0x4b, 0x4b, 4, "x4b b3 b2 b1 b0               # 32-bit UTC minute date"},
	{"long", "long9", 0x4c, 0x4c, 8, "'L' b7 b6 b5 b4 b3 b2 b1 b0   # 64-bit signed long integer"},
	{"map-typed", "", 0x4d, 0x4d, -1, "'M' type (value value)* 'Z'   # key, value map"},
	{"null", "", 0x4e, 0x4e, 0, "'N'                           # null"},
	{"object", "long", 0x4f, 0x4f, -1, "'O' int value*                # object instance"},
	{"reserved", "", 0x50, 0x50, -1, "x50                           # reserved"},
	{"ref", "", 0x51, 0x51, -1, "x51 int                       # reference to nth map/list/object in stream"},
	{"string", "chunk", 0x52, 0x52, 2, "x52 b1 b0 <utf8-data> string  # utf-8 string non-final chunk ('R')"},
	{"string", "final", 0x53, 0x53, 2, "'S' b1 b0 <utf8-data>         # utf-8 string final chunk"},
	{"bool", "true", 0x54, 0x54, 0, "'T'                           # boolean true"},
	{"list-typed", "variable", 0x55, 0x55, -1, "x55 type value* 'Z'           # variable-length list/vector"},
	{"list-typed", "fixed", 0x56, 0x56, -1, "'V' type int value*           # fixed-length list/vector"},
	{"list-untyped", "variable", 0x57, 0x57, -1, "x57 value* 'Z'                # variable-length untyped list/vector"},
	{"list-untyped", "fixed", 0x58, 0x58, -1, "x58 int value*                # fixed-length untyped list/vector"},
	{"long", "long5", 0x59, 0x59, 4, "x59 b3 b2 b1 b0               # long encoded as 32-bit int"},
	{"end", "", 0x5a, 0x5a, 0, "'Z'                           # list/map terminator"},
	{"double", "zero", 0x5b, 0x5b, 0, "x5b                           # double 0.0"},
	{"double", "one", 0x5c, 0x5c, 0, "x5c                           # double 1.0"},
	{"double", "double2", 0x5d, 0x5d, 1, "x5d b0                        # double represented as byte (-128.0 to 127.0)"},
	{"double", "double3", 0x5e, 0x5e, 2, "x5e b1 b0                     # double represented as short (-32768.0 to 32767.0)"},
	{"double", "double5", 0x5f, 0x5f, 4, "x5f b3 b2 b1 b0               # double represented as float"},
	{"object", "short", 0x60, 0x6f, -1, "[x60-x6f] value*              # object with direct type (class #0-15)"},
	{"list-typed", "short", 0x70, 0x77, -1, "[x70-x77] type value*         # fixed list with direct length 0-7"},
	{"list-untyped", "short", 0x78, 0x7f, -1, "[x78-x7f] value*              # fixed untyped list with direct length 0-7"},
	{"int", "int1", 0x80, 0xbf, 0, "[x80-xbf]                     # one-octet compact int (-x10 to x2f, x90 is 0)"},
	{"int", "int2", 0xc0, 0xcf, 1, "[xc0-xcf] b0                  # two-octet compact int (-x800 to x7ff)"},
	{"int", "int3", 0xd0, 0xd7, 2, "[xd0-xd7] b1 b0               # three-octet compact int (-x40000 to x3ffff)"},
	{"long", "long1", 0xd8, 0xef, 0, "[xd8-xef]                     # one-octet compact long (-x8 to xf, xe0 is 0)"},
	{"long", "long2", 0xf0, 0xff, 1, "[xf0-xff] b0                  # two-octet compact long (-x800 to x7ff, xf8 is 0)"},
}

// per-form value ranges and zero points of the numeric productions.
type specNum struct {
	Form   string
	Octets int   // total octets including the tag
	Lo, Hi int64 // value range representable in the form
	Zero   int   // zero point of the compact forms (tag of value 0 with high bits 0), -1 for full-width forms
}

var specInt = []specNum{
	{"int1", 1, -16, 47, 0x90},
	{"int2", 2, -2048, 2047, 0xc8},
	{"int3", 3, -262144, 262143, 0xd4},
	{"int5", 5, -1 << 31, 1<<31 - 1, -1},
}

var specLong = []specNum{
	{"long1", 1, -8, 15, 0xe0},
	{"long2", 2, -2048, 2047, 0xf8},
	{"long3", 3, -262144, 262143, 0x3c},
	{"long5", 5, -1 << 31, 1<<31 - 1, -1},
	{"long9", 9, -1 << 63, 1<<63 - 1, -1},
}

// integral double forms (value must be a whole number in the range)
var specDoubleIntegral = []specNum{
	{"zero", 1, 0, 0, -1},
	{"one", 1, 1, 1, -1},
	{"double2", 2, -128, 127, -1},
	{"double3", 3, -32768, 32767, -1},
}

// length forms of string / binary: the length range each first octet carries
type specLen struct {
	Prod, Form string
	Lo, Hi     int64 // length range of the form
	HdrOctets  int   // octets of the length header after the tag
}

var specLens = []specLen{
	{"string", "short", 0, 31, 0},
	{"string", "medium", 0, 1023, 1},
	{"string", "final", 0, 65535, 2},
	{"string", "chunk", 0, 65535, 2},
	{"binary", "short", 0, 15, 0},
	{"binary", "medium", 0, 1023, 1},
	{"binary", "final", 0, 65535, 2},
	{"binary", "chunk", 0, 65535, 2},
}

var specByTag [256]*specForm

func init() {
	n := 0
	for i := range specForms {
		f := &specForms[i]
		for t := f.Lo; t <= f.Hi; t++ {
			if specByTag[t] != nil {
				panic(fmt.Sprintf("spec table: tag %#x defined twice", t))
			}
			specByTag[t] = f
			n++
		}
	}
	if n != 256 {
		panic(fmt.Sprintf("spec table covers %d of 256 tags", n))
	}
}

func specTags(prod, form string) ISet {
	var s ISet
	for _, f := range specForms {
		if f.Prod == prod && (form == "" || f.Form == form) {
			s = s.Union(mkSet(int64(f.Lo), int64(f.Hi)))
		}
	}
	return s
}

func specDigest() string {
	h := sha256.New()
	for _, f := range specForms {
		fmt.Fprintf(h, "%s|%s|%d|%d|%d\n", f.Prod, f.Form, f.Lo, f.Hi, f.Payload)
	}
	for _, l := range [][]specNum{specInt, specLong, specDoubleIntegral} {
		for _, f := range l {
			fmt.Fprintf(h, "%s|%d|%d|%d|%d\n", f.Form, f.Octets, f.Lo, f.Hi, f.Zero)
		}
	}
	for _, f := range specLens {
		fmt.Fprintf(h, "%s|%s|%d|%d|%d\n", f.Prod, f.Form, f.Lo, f.Hi, f.HdrOctets)
	}
	return fmt.Sprintf("%x", h.Sum(nil))[:16]
}

func specTableText() []string {
	var out []string
	for _, f := range specForms {
		out = append(out, fmt.Sprintf("x%02x-x%02x %s/%s payload=%d  %s", f.Lo, f.Hi, f.Prod, f.Form, f.Payload, f.Comment))
	}
	return out
}
