package main

// Configuration takes effect (C16.R8 / C05.R7).
//
// The maps extracted from a value are handed to the codec through its
// constructors and its Register… / Set… methods; "the maps suffice to encode
// and decode" presupposes that the codec uses what it was given.  Obligation
// per exported method without results on a pointer receiver of a package type
// (the mutators of the API) and per exported constructor returning a package
// codec type: every parameter is used — stored, passed on, or read.  A
// parameter without any use means the call has no effect on that input
// (RegisterNameMap that forgets to keep the map: the encoder goes on writing
// Go type names).

import (
	"fmt"
	"go/token"
	"go/types"

	"golang.org/x/tools/go/ssa"
)

func (w *World) ruleConfigTakesEffect(r *Report, rule string, min int) {
	n := 0
	for _, fn := range w.SrcFuncs() {
		if fn.Parent() != nil || !token.IsExported(fn.Name()) || fn.Blocks == nil {
			continue
		}
		recv := fn.Signature.Recv()
		isMut := recv != nil && fn.Signature.Results().Len() == 0
		if isMut {
			if _, ok := recv.Type().(*types.Pointer); !ok {
				continue
			}
		}
		isCtor := recv == nil && fn.Signature.Results().Len() >= 1 && w.isPkgNamedPtr(fn.Signature.Results().At(0).Type())
		if !isMut && !isCtor {
			continue
		}
		params := fn.Params
		if recv != nil {
			params = params[1:]
		}
		if len(params) == 0 {
			continue
		}
		for _, p := range params {
			if p.Name() == "_" {
				continue
			}
			n++
			used := false
			for _, ref := range *p.Referrers() {
				if _, dbg := ref.(*ssa.DebugRef); !dbg {
					used = true
				}
			}
			r.add(rule, fmt.Sprintf("%s · parameter %s", fnName(fn), p.Name()), w.pos(p.Pos()), used, map[bool]string{
				true:  "the parameter is stored, passed on or read",
				false: "the parameter has no use in the body: the call has no effect on what it was given"}[used])
		}
	}
	r.floor(rule+" (parameters of mutators and constructors)", n, min)
}

func (w *World) isPkgNamedPtr(t types.Type) bool {
	if p, ok := t.(*types.Pointer); ok {
		t = p.Elem()
	}
	nt, ok := t.(*types.Named)
	return ok && nt.Obj().Pkg() != nil && nt.Obj().Pkg() == w.Pkg.Pkg
}
