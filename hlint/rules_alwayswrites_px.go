package main

import (
	"golang.org/x/tools/go/ssa"
)

// pxAlwaysWrites decides "fn cannot report success without writing" path by
// path: helpers that are not themselves known to always write are stepped into,
// so a flag they hand back (`handled, n, err := e.writeDateOrRef(v); if handled
// { return n, err }`) stays correlated with what they did.  A path has written
// when it passed a leaf write (in any frame) or a call of a function of aw.
// Paths are a subset of the CFG walks the block-level form of the rule takes,
// so this can only accept more; an exploration that exceeds its budget accepts
// nothing.  Loops are entered 0, 1 and 2 times: the path with the fewest writes
// (none) is among them.
func (w *World) pxAlwaysWrites(fn *ssa.Function, aw map[*ssa.Function]bool, leaf map[*ssa.Call]bool) (bool, string) {
	idx := errIndex(fn.Signature)
	if idx < 0 || fn.Blocks == nil {
		return false, ""
	}
	ok := true
	why := ""
	var px *PX
	px = w.newPX(pxHooks{
		onInstr: func(fr *pxFrame, in ssa.Instruction, st *pxState) bool {
			c, isCall := in.(*ssa.Call)
			if !isCall {
				return true
			}
			if leaf[c] {
				st.trace = append(st.trace, pxEvent{Kind: "write", Call: c, Frame: fr})
				return true
			}
			if sc := c.Call.StaticCallee(); sc != nil && aw[sc] {
				st.trace = append(st.trace, pxEvent{Kind: "write", Call: c, Frame: fr})
				return false
			}
			return true
		},
		prune: func(fr *pxFrame, b *ssa.BasicBlock, st *pxState) bool {
			// a path that has written is fine however it goes on
			for _, e := range st.trace {
				if e.Kind == "write" {
					return true
				}
			}
			return false
		},
		onReturn: func(fr *pxFrame, ret *ssa.Return, results []*Term, st *pxState) {
			if !ok {
				return
			}
			for _, e := range st.trace {
				if e.Kind == "write" {
					return
				}
			}
			if pxErrOutcome(ret.Results[idx], results[idx], st) == "err" || w.nonNilErr(ret.Results[idx], nil, nil, 0) {
				return
			}
			if results[idx].K == TLeaf && results[idx].V != nil && w.nonNilErr(results[idx].V, nil, nil, 0) {
				return
			}
			ok = false
			why = "a return at " + w.instrPos(ret) + " can report success on a path that wrote nothing"
		},
	})
	px.maxPaths = 6000
	px.Run(fn, nil)
	if px.Truncated {
		return false, "path exploration exceeded its budget"
	}
	return ok, why
}
