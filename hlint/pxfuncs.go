package main

// Function values on the path explorer.
//
// `emit := func(i int) error {…}` chosen before a loop, `next`/`put` handed to a
// shared element loop, `pairs := mapPairs{read: d.ReadData, store: func…}`, an
// entry of a constant table of functions: on one path the value called is one
// known function.  The explorer remembers every closure it sees made (by the key
// of its term), so a call through a φ, a parameter, a field of a struct value or
// a table entry that evaluates to such a term is stepped into like a static
// call: free variables captured by reference read and write the creating
// frame's cells, a method value (`d.ReadData`) calls the method with the
// receiver it was bound to.  A value that is not known on the path is left
// alone (the call is opaque, as before); a closure that runs out of sight
// (handed to code that is not followed, or not stepped into) makes the cells it
// captured unknown.

import (
	"strings"

	"golang.org/x/tools/go/ssa"
)

// cellKeyOf: the cell a binding of a closure stands for (a local of the frame,
// or a free variable of the frame that itself stands for a cell further out).
func (p *PX) cellKeyOf(v ssa.Value, fr *pxFrame) string {
	switch x := v.(type) {
	case *ssa.Alloc:
		return p.reg(fr, x)
	case *ssa.FreeVar:
		return fr.fvCell[x]
	}
	return ""
}

func (p *PX) recordClosure(mc *ssa.MakeClosure, fr *pxFrame, st *pxState) {
	fn, ok := mc.Fn.(*ssa.Function)
	if !ok {
		return
	}
	c := &pxClosure{fn: fn, mc: mc, maker: fr}
	for _, b := range mc.Bindings {
		c.binds = append(c.binds, p.term(b, fr, st))
		c.cells = append(c.cells, p.cellKeyOf(b, fr))
	}
	if p.closures == nil {
		p.closures = map[string]*pxClosure{}
	}
	p.closures[p.term(mc, fr, st).key] = c
}

// cellOf: the variable cell an address designates: a local Alloc of fr, or —
// inside a function literal — the captured variable of the frame that made it.
func (p *PX) cellOf(addr ssa.Value, fr *pxFrame) (string, bool) {
	if c := p.cellKeyOf(addr, fr); c != "" {
		return c + "*", true
	}
	return "", false
}

// boundValue: the (value, frame) a free variable stands for, following chains
// of nested function literals.
func (p *PX) boundValue(v ssa.Value, fr *pxFrame) (ssa.Value, *pxFrame) {
	for depth := 0; depth < 8; depth++ {
		fv, ok := v.(*ssa.FreeVar)
		if !ok || fr.clo == nil {
			return v, fr
		}
		i := 0
		for i < len(fr.fn.FreeVars) && fr.fn.FreeVars[i] != fv {
			i++
		}
		if i >= len(fr.clo.mc.Bindings) || i >= len(fr.fn.FreeVars) {
			return v, fr
		}
		v, fr = fr.clo.mc.Bindings[i], fr.clo.maker
	}
	return v, fr
}

// killCaptured forgets what the path knows about the variables a closure has
// captured by reference (the closure runs out of sight).
func (p *PX) killCaptured(c *pxClosure, st *pxState) {
	if c == nil {
		return
	}
	for _, cell := range c.cells {
		if cell != "" {
			delete(st.vals, cell+"*")
			delete(st.bseq, cell+"*")
		}
	}
}

// funcValueCallee resolves a dynamic call whose function value is known on the
// path: the function to step into, its closure record (free variables), and for
// a method value the receiver term.
func (p *PX) funcValueCallee(x *ssa.Call, fr *pxFrame, st *pxState) (*ssa.Function, *pxClosure, *Term) {
	if x.Call.IsInvoke() {
		return nil, nil, nil
	}
	if _, isB := x.Call.Value.(*ssa.Builtin); isB {
		return nil, nil, nil
	}
	ft := p.term(x.Call.Value, fr, st)
	if ft == nil || ft.K != TLeaf {
		return nil, nil, nil
	}
	switch v := ft.V.(type) {
	case *ssa.Function:
		// (a library function is not stepped into; the call is recorded under its name);
		// a method expression kept as a value (`table[k] = (*T).M`) is a thunk with M's
		// own operands: the call is the call of M
		if len(v.FreeVars) == 0 {
			return p.w.unthunk(v), nil, nil
		}
	case *ssa.MakeClosure:
		c := p.closures[ft.key]
		if c == nil || c.fn.Blocks == nil {
			return nil, nil, nil
		}
		// a method value: the synthetic wrapper calls the method on its one binding
		if c.fn.Synthetic != "" && strings.HasSuffix(c.fn.Name(), "$bound") {
			if m := p.w.throughWrapper(c.fn); m != c.fn && m.Blocks != nil && len(c.binds) == 1 {
				return m, c, c.binds[0]
			}
			return nil, nil, nil
		}
		return c.fn, c, nil
	}
	return nil, nil, nil
}

// isBoxed: the term is a concrete value converted to an interface.
func isBoxed(t *Term) bool {
	if t == nil || t.K != TLeaf {
		return false
	}
	_, ok := t.V.(*ssa.MakeInterface)
	return ok
}

// valueBinding: the function values (closures, method values) the event's frame
// was reached through, outermost first — what distinguishes two uses of one
// shared loop.
func valueBinding(e pxEvent) string {
	s := ""
	for f := e.Frame; f != nil; f = f.parent {
		if f.viaValue && f.fn != nil {
			s = fnName(f.fn) + "/" + s
		}
	}
	return s
}
