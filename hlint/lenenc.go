package main

// Length-prefixed encoders (string, binary) as productions over the path
// explorer.
//
// The encoder is explored path by path (helpers inlined, loops with an undecided
// guard run 0, 1 and 2 times).  Along a path the output buffer is modelled as a sequence of header
// octets (terms) and payload segments; a payload segment is a view [lo:hi] of
// the unit array of the input (the []byte parameter for binary, []rune(param)
// for strings) with bounds affine in its length N.  A path's output must parse
// as
//
//	( chunk-tag hi lo payload[K] )*  ( short | medium | final header ) payload
//
// with every header length equal to the length of the segment that follows it
// (as linear forms in N), the segments abutting from 0 to N, and the lengths in
// the range the form can carry for every N that reaches the path.  Nothing
// depends on which function writes the octets, on the names or number of loop
// variables, or on the buffer idiom.

import (
	"fmt"
	"go/token"
	"go/types"
	"math/big"
	"sort"
	"strings"

	"golang.org/x/tools/go/ssa"
)

type lenSeg struct {
	root   *Term
	lo, hi *Term
	enc    bool   // []rune rendered as UTF-8 text
	bad    string // why the payload is not a view
}

type lenItem struct {
	oct *Term
	seg *lenSeg
	unk string
	pos string
}

type lenPath struct {
	items []lenItem
	st    *pxState
	pos   string // position of the return
	unk   string // the returned slice could not be modelled
}

type lenEncInfo struct {
	fn        *ssa.Function
	px        *PX
	paths     []*lenPath
	truncated bool
}

func isStringType(t types.Type) bool {
	b, ok := t.Underlying().(*types.Basic)
	return ok && b.Info()&types.IsString != 0
}

func isRuneSlice(t types.Type) bool {
	s, ok := t.Underlying().(*types.Slice)
	if !ok {
		return false
	}
	b, ok := s.Elem().Underlying().(*types.Basic)
	return ok && b.Kind() == types.Int32
}

func isBytesBufferPtr(t types.Type) bool {
	pt, ok := t.Underlying().(*types.Pointer)
	return ok && typeStr(pt.Elem()) == "bytes.Buffer"
}

// lenEncModel explores a buffer-building encoder once (cached).
func (w *World) lenEncModel(fn *ssa.Function) *lenEncInfo {
	if w.lenEncCache == nil {
		w.lenEncCache = map[*ssa.Function]*lenEncInfo{}
	}
	if m, ok := w.lenEncCache[fn]; ok {
		return m
	}
	info := &lenEncInfo{fn: fn}
	w.lenEncCache[fn] = info
	var px *PX
	bufArg := func(v ssa.Value, fr *pxFrame, st *pxState) *Term {
		if mi, ok := v.(*ssa.MakeInterface); ok {
			v = mi.X
		}
		if !isBytesBufferPtr(v.Type()) {
			return nil
		}
		return px.term(v, fr, st)
	}
	px = w.newPX(pxHooks{
		onInstr: func(fr *pxFrame, in ssa.Instruction, st *pxState) bool {
			c, ok := in.(*ssa.Call)
			if !ok {
				return true
			}
			sc := c.Call.StaticCallee()
			pos := w.instrPos(c)
			ev := func(kind string, args ...*Term) {
				st.trace = append(st.trace, pxEvent{Kind: kind, Call: c, Frame: fr, Args: args, Pos: pos})
			}
			name := ""
			if sc != nil {
				name = qualifiedFnName(sc)
			}
			if strings.HasPrefix(name, "(*bytes.Buffer).") && len(c.Call.Args) >= 1 {
				recv := px.term(c.Call.Args[0], fr, st)
				switch strings.TrimPrefix(name, "(*bytes.Buffer).") {
				case "WriteByte":
					ev("oct", recv, px.term(c.Call.Args[1], fr, st))
				case "Write", "WriteString":
					if bs := px.byteSeqOf(c.Call.Args[1], fr, st); bs != nil && !bs.Open {
						for _, o := range bs.Oct {
							if o == nil {
								ev("unk", recv)
							} else {
								ev("oct", recv, o)
							}
						}
					} else {
						ev("seg", recv, px.term(c.Call.Args[1], fr, st))
					}
				case "Bytes", "String":
					res := px.term(c, fr, st)
					ev("bytes", recv, res)
				case "Len", "Cap", "Grow", "Available":
				default:
					ev("unk", recv)
				}
				return true
			}
			// the buffer handed to code that is not stepped into: contents unknown
			inl := sc != nil && px.defaultInline(fr, sc)
			if !inl {
				for _, a := range c.Call.Args {
					if t := bufArg(a, fr, st); t != nil {
						ev("unk", t)
					}
				}
			}
			return true
		},
		onReturn: func(fr *pxFrame, ret *ssa.Return, results []*Term, st *pxState) {
			lp := &lenPath{st: st, pos: w.instrPos(ret)}
			info.paths = append(info.paths, lp)
			if len(ret.Results) == 0 || len(results) == 0 {
				lp.unk = "no result"
				return
			}
			if len(ret.Results) == 2 && !isNilConst(ret.Results[1]) {
				lp.unk = "error return"
				return
			}
			// the result is the content of a buffer?
			res := results[0]
			for res.K == TConv && (isByteSlice(res.T) || isStringType(res.T)) && (isByteSlice(res.A.T) || isStringType(res.A.T)) {
				res = res.A
			}
			var buf *Term
			cut := -1
			for i, e := range st.trace {
				if e.Kind == "bytes" && e.Args[1].key == res.key {
					buf, cut = e.Args[0], i
				}
			}
			if buf != nil {
				for i, e := range st.trace {
					if len(e.Args) == 0 || e.Args[0].key != buf.key {
						continue
					}
					switch e.Kind {
					case "oct":
						if i < cut {
							lp.items = append(lp.items, lenItem{oct: e.Args[1], pos: e.Pos})
						}
					case "seg":
						if i < cut {
							lp.items = append(lp.items, lenItem{seg: px.resolveSeg(e.Args[1]), pos: e.Pos})
						}
					case "unk":
						lp.items = append(lp.items, lenItem{unk: "the buffer is written by code that is not modelled", pos: e.Pos})
					}
				}
				return
			}
			if bs := px.byteSeqOf(ret.Results[0], fr, st); bs != nil && !bs.Open {
				for _, o := range bs.Oct {
					if o == nil {
						lp.items = append(lp.items, lenItem{unk: "octet stored at an unknown index", pos: lp.pos})
					} else {
						lp.items = append(lp.items, lenItem{oct: o, pos: lp.pos})
					}
				}
				return
			}
			// a slice built by append: header octets and payloads in the order they were appended
			if bs := px.byteSeqOf(ret.Results[0], fr, st); bs != nil && bs.Open {
				if parts, ok := bs.partsOf(lp.pos); ok {
					for _, pt := range parts {
						switch {
						case pt.seg != nil:
							lp.items = append(lp.items, lenItem{seg: px.resolveSeg(pt.seg), pos: pt.pos})
						case pt.oct == nil:
							lp.items = append(lp.items, lenItem{unk: "octet stored at an unknown index", pos: pt.pos})
						default:
							lp.items = append(lp.items, lenItem{oct: pt.oct, pos: pt.pos})
						}
					}
					return
				}
			}
			lp.unk = "the returned slice is neither a literal nor the content of a bytes.Buffer"
		},
	})
	px.views = true
	info.px = px
	px.Run(fn, nil)
	info.truncated = px.Truncated
	return info
}

// resolveSeg: a payload value as a view of a root, through the content-
// preserving conversions []rune→string (UTF-8 text), string↔[]byte.
func (p *PX) resolveSeg(t *Term) *lenSeg {
	s := &lenSeg{}
	for t.K == TConv && t.A != nil && t.A.T != nil && t.T != nil {
		from, to := t.A.T, t.T
		switch {
		case isStringType(to) && isRuneSlice(from):
			if s.enc {
				s.bad = "converted twice"
			}
			s.enc = true
		case (isByteSlice(to) && isStringType(from)) || (isStringType(to) && isByteSlice(from)):
		case isStringType(from) && isRuneSlice(to):
			// []rune(text): a unit array, the root of the view
			s.root, s.lo, s.hi = p.viewParts(t)
			return s
		default:
			s.bad = "payload passes through the conversion " + typeStr(from) + " → " + typeStr(to)
		}
		if s.bad != "" {
			return s
		}
		t = t.A
	}
	s.root, s.lo, s.hi = p.viewParts(t)
	return s
}

// ---- linear forms over term atoms ----

type linForm struct {
	c  *big.Int
	co map[string]*big.Int
	at map[string]*Term
}

func (l *linForm) addScaled(m *linForm, k *big.Int) {
	l.c.Add(l.c, new(big.Int).Mul(m.c, k))
	for key, c := range m.co {
		if l.co[key] == nil {
			l.co[key] = new(big.Int)
			l.at[key] = m.at[key]
		}
		l.co[key].Add(l.co[key], new(big.Int).Mul(c, k))
		if l.co[key].Sign() == 0 {
			delete(l.co, key)
			delete(l.at, key)
		}
	}
}

func newLin() *linForm {
	return &linForm{c: new(big.Int), co: map[string]*big.Int{}, at: map[string]*Term{}}
}

// lin: t as c0 + Σ ci·atom; integer conversions are transparent where they
// preserve the value on this path.
func (p *PX) lin(t *Term, st *pxState) *linForm {
	l := newLin()
	switch t.K {
	case TConst:
		l.c.Set(t.C)
		return l
	case TBin:
		switch t.Op {
		case token.ADD:
			l.addScaled(p.lin(t.A, st), one)
			l.addScaled(p.lin(t.B, st), one)
			return l
		case token.SUB:
			l.addScaled(p.lin(t.A, st), one)
			l.addScaled(p.lin(t.B, st), big.NewInt(-1))
			return l
		case token.MUL:
			if t.B.K == TConst {
				l.addScaled(p.lin(t.A, st), t.B.C)
				return l
			}
			if t.A.K == TConst {
				l.addScaled(p.lin(t.B, st), t.A.C)
				return l
			}
		}
	case TConv:
		if bits, signed, ok := intTypeInfo(p.w, t.T); ok && t.A != nil {
			if _, _, isInt := intTypeInfo(p.w, t.A.T); isInt {
				if s, _ := p.evalTerm(t.A, st); s != nil && !s.Empty() {
					if _, changed := s.wrap(bits, signed); !changed {
						return p.lin(t.A, st)
					}
				}
			}
		}
	}
	l.co[t.key] = big.NewInt(1)
	l.at[t.key] = t
	return l
}

func (l *linForm) isZero() bool { return l.c.Sign() == 0 && len(l.co) == 0 }

func linDiff(a, b *linForm) *linForm {
	d := newLin()
	d.addScaled(a, one)
	d.addScaled(b, big.NewInt(-1))
	return d
}

func (l *linForm) String() string {
	var keys []string
	for k := range l.co {
		keys = append(keys, k)
	}
	sort.Strings(keys)
	var parts []string
	for _, k := range keys {
		c := l.co[k]
		switch {
		case c.Cmp(one) == 0:
			parts = append(parts, k)
		default:
			parts = append(parts, c.String()+"·"+k)
		}
	}
	out := strings.Join(parts, " + ")
	switch {
	case len(parts) == 0:
		return l.c.String()
	case l.c.Sign() > 0:
		out += " + " + l.c.String()
	case l.c.Sign() < 0:
		out += " - " + new(big.Int).Neg(l.c).String()
	}
	return out
}

// linRange: the values of l on the path (exact for a single atom).
func (p *PX) linRange(l *linForm, st *pxState) ISet {
	acc := ISet{{l.c, l.c}}
	for k, c := range l.co {
		s, _ := p.evalTerm(l.at[k], st)
		if s == nil || s.Empty() {
			return nil
		}
		var sc ISet
		for _, iv := range s {
			a, b := new(big.Int).Mul(iv.Lo, c), new(big.Int).Mul(iv.Hi, c)
			if a.Cmp(b) > 0 {
				a, b = b, a
			}
			sc = append(sc, IV{a, b})
		}
		var sum ISet
		for _, x := range acc {
			for _, y := range sc {
				sum = append(sum, IV{new(big.Int).Add(x.Lo, y.Lo), new(big.Int).Add(x.Hi, y.Hi)})
			}
		}
		acc = sum.norm()
	}
	return acc
}

// ---- the rule ----

type lenFormAgg struct {
	form  string
	ok    bool
	fact  string
	pos   string
	count int
}

// ruleLenEncoder checks the buffer-building encoders: per form the tag set,
// the length range, the header windows, and the chunk arithmetic.
func (w *World) ruleLenEncoder(r *Report, rule, cname string) {
	c := w.codecs()[cname]
	if c == nil || c.Enc == nil {
		r.undecided(rule, cname+" encoder", "-", "not found")
		return
	}
	fn := c.Enc
	r.fnSeen(fnName(fn))
	m := w.lenEncModel(fn)
	if m.truncated {
		r.undecided(rule, fnName(fn), w.pos(fn.Pos()), "path exploration exceeded its budget")
		return
	}
	px := m.px
	param := fn.Params[0]
	pt := &Term{K: TLeaf, V: param, T: param.Type(), key: "<p:" + param.Name() + ">"}
	// the unit array and its length
	unitRoot := pt
	unit := "byte"
	if cname == "string" {
		unit = "rune"
		rt := types.NewSlice(types.Universe.Lookup("rune").Type())
		unitRoot = &Term{K: TConv, A: pt, T: rt, key: "conv:" + types.TypeString(rt, nil) + "(" + pt.key + ")"}
	}
	N := px.lenTerm(unitRoot, tInt)

	aggs := map[string]*lenFormAgg{}
	var order []string
	note := func(form string, ok bool, fact, pos string) {
		a := aggs[form]
		if a == nil {
			a = &lenFormAgg{form: form, ok: true, pos: pos}
			aggs[form] = a
			order = append(order, form)
		}
		a.count++
		if !ok && a.ok {
			a.ok, a.fact, a.pos = false, fact, pos
		} else if a.fact == "" {
			a.fact = fact
		}
	}
	arithOK, arithFact, arithPaths, maxChunks := true, "", 0, 0

	for _, lp := range m.paths {
		if lp.unk != "" {
			r.undecided(rule, fnName(fn)+" · return at "+lp.pos, lp.pos, lp.unk)
			continue
		}
		st := lp.st
		// group: header octets followed by one segment
		type group struct {
			hdr []lenItem
			seg *lenSeg
			pos string
		}
		var groups []group
		var cur group
		bad := ""
		for _, it := range lp.items {
			switch {
			case it.unk != "":
				bad = it.unk + " (at " + it.pos + ")"
			case it.oct != nil:
				if len(cur.hdr) == 0 {
					cur.pos = it.pos
				}
				cur.hdr = append(cur.hdr, it)
			case it.seg != nil:
				if len(cur.hdr) == 0 {
					cur.pos = it.pos
				}
				cur.seg = it.seg
				groups = append(groups, cur)
				cur = group{}
			}
		}
		if bad != "" {
			r.undecided(rule, fnName(fn)+" · return at "+lp.pos, lp.pos, bad)
			continue
		}
		if len(groups) == 0 {
			// a production without payload: the empty value
			want, what := single('N'), "null"
			if cname == "binary" {
				want, what = single(0x20), "zero-length binary"
			}
			var ts ISet
			if len(cur.hdr) == 1 {
				ts, _ = px.evalTerm(cur.hdr[0].oct, st)
			}
			ok := len(cur.hdr) == 1 && ts != nil && ts.Equal(want)
			fact := fmt.Sprintf("emits %s, expected %s (%s)", ts.HexString(), want.HexString(), what)
			if len(cur.hdr) != 1 {
				fact = fmt.Sprintf("a production of %d octets without payload", len(cur.hdr))
			}
			// emitted only for the empty value
			if ok {
				if why := w.lenEmptyOnly(px, st, pt, N); why != "" {
					ok = false
					fact += "; " + why
				}
			}
			note("empty-value", ok, fact, lp.pos)
			continue
		}
		if len(cur.hdr) > 0 {
			note("trailer", false, fmt.Sprintf("%d octet(s) written after the last payload", len(cur.hdr)), cur.hdr[0].pos)
		}
		arithPaths++
		if len(groups)-1 > maxChunks {
			maxChunks = len(groups) - 1
		}
		// ---- per group: the form ----
		var prevHi *linForm
		for gi, g := range groups {
			last := gi == len(groups)-1
			h := len(g.hdr)
			form := map[int]string{1: "short", 2: "medium", 3: "final"}[h]
			if !last {
				form = "chunk"
			}
			if form == "" || (!last && h != 3) {
				note(fmt.Sprintf("form with %d header octets", h), false, "no spec form has this header size", g.pos)
				continue
			}
			var sl *specLen
			for i := range specLens {
				if specLens[i].Prod == cname && specLens[i].Form == form {
					sl = &specLens[i]
				}
			}
			wantTags := specTags(cname, form)
			ts, _ := px.evalTerm(g.hdr[0].oct, st)
			ok := ts != nil && !ts.Empty() && ts.SubsetOf(wantTags)
			fact := fmt.Sprintf("first octet %s ⊆ spec %s", ts.HexString(), wantTags.HexString())
			if !ok {
				fact = fmt.Sprintf("first octet %s ⊄ spec %s for the %s %s form", ts.HexString(), wantTags.HexString(), cname, form)
			}
			// the segment
			seg := g.seg
			var segLen *linForm
			full := false
			if seg.bad != "" || seg.root == nil {
				ok = false
				fact += "; payload is not a slice of the input: " + seg.bad
			} else {
				// the whole string written at once is all of []rune(x) as UTF-8 text
				full = seg.root.key == pt.key && cname == "string" && isZeroT(seg.lo) && seg.hi.key == px.fullLen(pt).key
				segLen = linDiff(px.lin(seg.hi, st), px.lin(seg.lo, st))
				if full {
					segLen = px.lin(N, st)
				}
			}
			// the length the header declares
			var L *linForm
			switch form {
			case "short", "medium":
				wantShift := 0
				if form == "medium" {
					wantShift = 8
				}
				zero, base, sh, tok := w.termTagPlus(g.hdr[0].oct)
				if !tok && wantTags.Min().Sign() == 0 {
					// zero point 0: the octet may be the length itself
					if b, s, wok := w.termWindow(g.hdr[0].oct); wok {
						zero, base, sh, tok = 0, b, s, true
					}
				}
				if !tok || zero != wantTags.Min().Int64() || sh != wantShift {
					ok = false
					fact += fmt.Sprintf("; first octet is not %#x + (length >> %d)", wantTags.Min().Int64(), wantShift)
					break
				}
				L = px.lin(stripConv(w, base), st)
				if form == "medium" {
					b2, s2, wok := w.termWindow(g.hdr[1].oct)
					if !wok || s2 != 0 || !linDiff(px.lin(stripConv(w, b2), st), L).isZero() {
						ok = false
						fact += "; second octet is not byte(length)"
					}
				}
			case "final", "chunk":
				o1, o2 := g.hdr[1].oct, g.hdr[2].oct
				v1, _ := px.evalTerm(o1, st)
				v2, _ := px.evalTerm(o2, st)
				if v1 != nil && v2 != nil && v1.Card().Cmp(one) == 0 && v2.Card().Cmp(one) == 0 && mkSet(0, 255).Contains(v1.Min().Int64()) && mkSet(0, 255).Contains(v2.Min().Int64()) {
					L = newLin()
					L.c.SetInt64(v1.Min().Int64()<<8 | v2.Min().Int64())
					break
				}
				b1, s1, ok1 := w.termWindow(o1)
				b2, s2, ok2 := w.termWindow(o2)
				if !ok1 || !ok2 || s1 != 8 || s2 != 0 {
					ok = false
					fact += "; header is not byte(length>>8), byte(length)"
					break
				}
				L = px.lin(stripConv(w, b1), st)
				if !linDiff(px.lin(stripConv(w, b2), st), L).isZero() {
					ok = false
					L = nil
					fact += "; the two header octets are windows of different values"
				}
			}
			if L != nil {
				R := px.linRange(L, st)
				if R == nil || !R.SubsetOf(mkSet(sl.Lo, sl.Hi)) {
					ok = false
				}
				fact += fmt.Sprintf("; length %s ∈ %s (form carries %d..%d)", L, R, sl.Lo, sl.Hi)
				if segLen != nil {
					if linDiff(L, segLen).isZero() {
						fact += " = length of the payload"
					} else {
						ok = false
						fact += fmt.Sprintf("; the payload that follows has length %s, not the length written", segLen)
					}
				}
			}
			// unit
			if seg.bad == "" && seg.root != nil {
				switch {
				case full:
					fact += "; the whole text, lengths count runes"
				case seg.root.key != unitRoot.key:
					ok = false
					fact += fmt.Sprintf("; payload is a slice of %s (%s), lengths must count %ss of the input", seg.root.key, typeStr(seg.root.T), unit)
				case cname == "string" && !seg.enc:
					ok = false
					fact += "; the rune slice is not rendered as UTF-8 text"
				default:
					fact += "; lengths count " + unit + "s"
				}
				// ---- arithmetic: abutting segments ----
				lo, hi := px.lin(seg.lo, st), px.lin(seg.hi, st)
				if full {
					lo, hi = newLin(), px.lin(N, st)
				}
				start := newLin()
				if prevHi != nil {
					start = prevHi
				}
				if !linDiff(lo, start).isZero() {
					arithOK = false
					arithFact = fmt.Sprintf("payload #%d at %s starts at %s, the previous one ended at %s: input is skipped or repeated", gi+1, g.pos, lo, start)
				}
				if last && !linDiff(hi, px.lin(N, st)).isZero() {
					arithOK = false
					arithFact = fmt.Sprintf("the last payload at %s ends at %s, not at the end of the input (%s)", g.pos, hi, N.key)
				}
				if R := px.linRange(linDiff(hi, lo), st); R == nil || R.Min().Sign() < 0 {
					arithOK = false
					arithFact = fmt.Sprintf("payload #%d at %s may have negative length %s", gi+1, g.pos, R)
				}
				if R := px.linRange(linDiff(px.lin(N, st), hi), st); R == nil || R.Min().Sign() < 0 {
					arithOK = false
					arithFact = fmt.Sprintf("payload #%d at %s may end beyond the input (%s)", gi+1, g.pos, R)
				}
				prevHi = hi
			} else {
				arithOK = false
				arithFact = "payload at " + g.pos + " is not a slice of the input"
			}
			note(form, ok, fact, g.pos)
		}
	}
	n := 0
	for _, form := range order {
		a := aggs[form]
		n++
		key := fmt.Sprintf("%s · %s form", fnName(fn), a.form)
		r.add(rule, key, a.pos, a.ok, fmt.Sprintf("%s [%d path instance(s)]", a.fact, a.count))
	}
	// chunk arithmetic
	key := fnName(fn) + " · chunk arithmetic"
	switch {
	case aggs["chunk"] == nil:
		r.add(rule, key, w.pos(fn.Pos()), false, "no non-final chunk form found")
	case !arithOK:
		r.add(rule, key, w.pos(fn.Pos()), false, arithFact)
	default:
		r.add(rule, key, w.pos(fn.Pos()), true, fmt.Sprintf("on %d paths (up to %d non-final chunks) the payloads are consecutive slices of the input's %ss: the first starts at 0, each starts where the previous ended, the last ends at %s", arithPaths, maxChunks, unit, N.key))
	}
	r.floor(rule+" ("+cname+")", n, 4)
}

// lenEmptyOnly: "" if the path is taken only by the empty input.
func (w *World) lenEmptyOnly(px *PX, st *pxState, pt, N *Term) string {
	for _, t := range []*Term{N, px.lenTerm(pt, tInt)} {
		if s, _ := px.evalTerm(t, st); s != nil && s.Equal(single(0)) {
			return ""
		}
	}
	for k, v := range st.env {
		if !strings.Contains(k, pt.key) || v.Card().Cmp(one) != 0 {
			continue
		}
		truth := v.Min().Sign() != 0
		if strings.Contains(k, `const:""`) {
			if (strings.Contains(k, " == ") && truth) || (strings.Contains(k, " != ") && !truth) {
				return ""
			}
		}
	}
	return "the path is not proven to be taken by the empty value only"
}

// lenEncFirstOctets: every first octet of a header the encoder can emit
// (including the non-final chunks on looping paths).
func (w *World) lenEncFirstOctets(fn *ssa.Function) ISet {
	m := w.lenEncModel(fn)
	var out ISet
	for _, lp := range m.paths {
		if lp.unk != "" {
			continue
		}
		first := true
		for _, it := range lp.items {
			switch {
			case it.oct != nil && first:
				if s, _ := m.px.evalTerm(it.oct, lp.st); s != nil {
					out = out.Union(s)
				}
				first = false
			case it.seg != nil:
				first = true
			}
		}
	}
	return out
}
