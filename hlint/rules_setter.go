package main

// C01.R10 — a setter writes its destination on every path that has a value.
//
// Setter role: a package function with no result (or just an error) whose first
// parameter is the destination reflect.Value and whose second is the value
// (a reflect.Value or an interface{}) — SetValue and whatever a
// refactoring splits off it.  Obligation per setter: every path from the entry
// to a return passes (i) a reflect Set* call whose receiver derives from the
// destination parameter, or (ii) a call that hands the destination on (the
// pending-reference holder's add, another setter), or (iii) the "invalid" edge
// of an IsValid test on a value derived from the value parameter ("nothing to
// set").  A return reached any other way drops a decoded value silently.

import (
	"fmt"
	"go/token"
	"go/types"
	"strings"

	"golang.org/x/tools/go/ssa"
)

func (w *World) ruleSettersWrite(r *Report, rule string, min int) {
	n := 0
	for _, fn := range w.SrcFuncs() {
		if fn.Parent() != nil || len(fn.Params) != 2 || fn.Signature.Recv() != nil || fn.Blocks == nil {
			continue
		}
		// (dest reflect.Value, value reflect.Value | interface{}) with no result or just an error
		res := fn.Signature.Results()
		if !(res.Len() == 0 || (res.Len() == 1 && isErrorType(res.At(0).Type()))) {
			continue
		}
		if _, isIface := fn.Params[1].Type().Underlying().(*types.Interface); !isReflectValue(fn.Params[0]) || !(isReflectValue(fn.Params[1]) || isIface) {
			continue
		}
		// values derived from a parameter: the parameter, φ of derived values,
		// reflect.Value results of calls taking a derived value first
		derive := func(root ssa.Value) map[ssa.Value]bool {
			d := map[ssa.Value]bool{root: true}
			for changed := true; changed; {
				changed = false
				for _, b := range fn.Blocks {
					for _, in := range b.Instrs {
						v, ok := in.(ssa.Value)
						if !ok || d[v] {
							continue
						}
						switch x := in.(type) {
						case *ssa.Phi:
							for _, e := range x.Edges {
								if d[e] {
									d[v] = true
									changed = true
								}
							}
						case *ssa.Call:
							if isReflectValue(x) && len(x.Call.Args) >= 1 && d[x.Call.Args[0]] {
								d[v] = true
								changed = true
							}
						}
					}
				}
			}
			return d
		}
		dst, val := derive(fn.Params[0]), derive(fn.Params[1])
		done := map[*ssa.BasicBlock]bool{}
		writes := 0
		for _, b := range fn.Blocks {
			for _, in := range b.Instrs {
				c, ok := in.(*ssa.Call)
				if !ok || len(c.Call.Args) == 0 {
					continue
				}
				nm := calleeName(&c.Call)
				sc := c.Call.StaticCallee()
				switch {
				case strings.HasPrefix(nm, "Set") && dst[c.Call.Args[0]] && sc != nil && !w.inPkg(sc):
					done[b] = true
					writes++
				case (sc != nil && w.inPkg(sc)) || (sc == nil && !c.Call.IsInvoke() && c.Call.Signature().Results().Len() == 0):
					// a package function, or a store function chosen by kind (function value)
					// the destination handed on (not as the receiver of a getter)
					for i, a := range c.Call.Args {
						if dst[a] && !(i == 0 && isReflectValue(c)) {
							done[b] = true
							writes++
						}
					}
				}
			}
		}
		if writes == 0 {
			continue // not a setter after all
		}
		n++
		// invalid edges
		excused := map[[2]*ssa.BasicBlock]bool{}
		for _, b := range fn.Blocks {
			iff, ok := b.Instrs[len(b.Instrs)-1].(*ssa.If)
			if !ok {
				continue
			}
			cond, neg := iff.Cond, false
			if u, ok := cond.(*ssa.UnOp); ok && u.Op == token.NOT {
				cond, neg = u.X, true
			}
			// `value == nil` on an interface-typed value: nothing to set on the nil side
			if bo, isBo := cond.(*ssa.BinOp); isBo && (bo.Op == token.EQL || bo.Op == token.NEQ) {
				other := bo.X
				if isNilConst(bo.X) {
					other = bo.Y
				} else if !isNilConst(bo.Y) {
					continue
				}
				if other != ssa.Value(fn.Params[1]) {
					continue
				}
				side := 0
				if (bo.Op == token.NEQ) != neg {
					side = 1
				}
				excused[[2]*ssa.BasicBlock{b, b.Succs[side]}] = true
				continue
			}
			c, ok := cond.(*ssa.Call)
			if !ok || calleeName(&c.Call) != "IsValid" || len(c.Call.Args) == 0 || !val[c.Call.Args[0]] {
				continue
			}
			inv := b.Succs[1]
			if neg {
				inv = b.Succs[0]
			}
			excused[[2]*ssa.BasicBlock{b, inv}] = true
		}
		var badRet ssa.Instruction
		seen := map[*ssa.BasicBlock]bool{}
		var walk func(b *ssa.BasicBlock)
		walk = func(b *ssa.BasicBlock) {
			if badRet != nil || seen[b] || done[b] {
				return
			}
			seen[b] = true
			if ret, ok := b.Instrs[len(b.Instrs)-1].(*ssa.Return); ok {
				if len(ret.Results) == 1 && w.nonNilErr(ret.Results[0], nil, nil, 0) {
					return // a reported failure
				}
				if len(ret.Results) == 1 && !isNilConst(ret.Results[0]) {
					return // an error handed up from a callee (whether it is consumed is C01.R7)
				}
				badRet = ret
				return
			}
			for _, s := range b.Succs {
				if !excused[[2]*ssa.BasicBlock{b, s}] {
					walk(s)
				}
			}
		}
		walk(fn.Blocks[0])
		if badRet != nil {
			r.add(rule, fnName(fn), w.instrPos(badRet), false, fmt.Sprintf("the return at %s is reached on a path with a valid value that neither writes the destination nor hands it on: the decoded value is dropped", w.instrPos(badRet)))
		} else {
			r.add(rule, fnName(fn), w.pos(fn.Pos()), true, fmt.Sprintf("every path to a return passes one of %d writes / hand-ons of the destination or the invalid edge of an IsValid test on the value", writes))
		}
	}
	r.floor(rule+" (setters)", n, min)
}
