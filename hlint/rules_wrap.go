package main

// C01.R5 — a carrier is never wrapped twice.
//
// The decoder passes values around as interface{} that may hold a
// reflect.Value (and list holders whose `value` field is one).
// reflect.ValueOf applied to an interface that holds a reflect.Value does not
// yield that value: it yields a Value describing the reflect.Value STRUCT, and
// every typed destination it is then stored into panics ("value of type
// reflect.Value is not assignable to …").  Obligation per reflect.ValueOf call
// reachable from the decode entry points: the concrete types that can flow
// into its argument (the same type-flow fixpoint as C06.R1, with the types a
// dominating comma-ok assertion excluded) do not include reflect.Value.
// Only definite flows are reported: an unresolved source is not an alarm.

import (
	"fmt"

	"golang.org/x/tools/go/ssa"
)

func (w *World) ruleNoDoubleWrap(r *Report, rule string) {
	eps := w.decodeEntryPoints()
	reach := w.reachPkg(eps...)
	tf := &typeFlow{w: w, memo: map[*ssa.Function]map[string]bool{}, stack: map[*ssa.Function]bool{}, sani: map[*ssa.Function]bool{}}
	n := 0
	for _, fn := range w.SrcFuncs() {
		if !reach[fn] && !reach[rootFn(fn)] {
			continue
		}
		cnt := 0
		for _, b := range fn.Blocks {
			for _, in := range b.Instrs {
				c, ok := in.(*ssa.Call)
				if !ok {
					continue
				}
				sc := c.Call.StaticCallee()
				if sc == nil || qualifiedFnName(sc) != "reflect.ValueOf" || len(c.Call.Args) != 1 {
					continue
				}
				n++
				cnt++
				arg := c.Call.Args[0]
				ts := tf.typesOf(arg, fn, map[ssa.Value]bool{})
				// types asserted away on every path to this call, for the argument itself
				for _, ex := range assertedFalseDominating(arg, b) {
					delete(ts, ex)
				}
				bad := ts["reflect.Value"]
				fact := fmt.Sprintf("concrete types that can flow into the argument: %v", sortedKeys(ts))
				if bad {
					fact += " — a reflect.Value reaches reflect.ValueOf: the result describes the Value struct, not the decoded value, and panics in the first typed destination (a nested list in a typed slice or field)"
				}
				r.add(rule, fmt.Sprintf("%s · reflect.ValueOf #%d", fnName(fn), cnt), w.instrPos(c), !bad, fact)
			}
		}
	}
	r.floor(rule, n, 3)
}
