package main

// freshBuffer: the *bytes.Buffer value v was created in this activation of fn
// (C09.R4, C11 output freshness): bytes.NewBuffer over fresh storage,
// bytes.NewBufferString, a bytes.Buffer allocated in fn — directly, through a
// φ, or through a local variable every assignment of which (in fn or in the
// closures of fn that capture the variable) stores such a buffer.  The last
// case is the buffer shared with a local closure
// (`byteBuf := bytes.NewBuffer(nil); readChunk := func() error { … byteBuf.Write(…) … }`):
// the variable lives in a cell because it is captured, but it still only ever
// holds the buffer made in this call.

import (
	"go/token"

	"golang.org/x/tools/go/ssa"
)

func (w *World) freshBuffer(v ssa.Value, fn *ssa.Function, depth int) (bool, string) {
	if depth > 8 {
		return false, "provenance chain too deep"
	}
	switch x := v.(type) {
	case *ssa.Call:
		if sc := x.Call.StaticCallee(); sc != nil {
			switch qualifiedFnName(sc) {
			case "bytes.NewBuffer":
				// the buffer adopts its argument as initial storage
				if ok, f := w.freshBytes(x.Call.Args[0], fn, depth+1); !ok {
					return false, "bytes of a bytes.Buffer built over memory that outlives the call: " + f
				}
				return true, "bytes of a bytes.Buffer created in this call at " + w.instrPos(x)
			case "bytes.NewBufferString":
				return true, "bytes of a bytes.Buffer created in this call at " + w.instrPos(x)
			}
		}
	case *ssa.Alloc:
		if x.Parent() == fn && namedIs(x.Type(), "bytes", "Buffer") {
			// new(bytes.Buffer), &bytes.Buffer{} or a local variable: its storage
			// starts empty and is private to this activation unless a slice is
			// planted in it, which only bytes.NewBuffer can do
			return true, "bytes of a bytes.Buffer allocated in this call at " + w.instrPos(x)
		}
	case *ssa.Phi:
		last := ""
		for _, e := range x.Edges {
			ok, f := w.freshBuffer(e, fn, depth+1)
			if !ok {
				return false, f
			}
			last = f
		}
		return true, last
	case *ssa.UnOp:
		al, ok := x.X.(*ssa.Alloc)
		if !ok || x.Op != token.MUL || al.Parent() != fn {
			break
		}
		// a local variable holding the buffer: its address goes nowhere but into loads,
		// stores and the closures of fn
		for _, ref := range *al.Referrers() {
			switch r := ref.(type) {
			case *ssa.Store:
				if r.Addr != ssa.Value(al) {
					return false, "the address of the buffer variable is stored (" + w.instrPos(r) + ")"
				}
			case *ssa.UnOp, *ssa.DebugRef:
			case *ssa.MakeClosure:
				// inside the closure the captured variable is only loaded and assigned
				// (assignments are collected by storesTo); captured again or passed on: not followed
				cf, isFn := r.Fn.(*ssa.Function)
				if !isFn {
					return false, "captured by an unknown closure"
				}
				for i, bnd := range r.Bindings {
					if bnd != ssa.Value(al) || i >= len(cf.FreeVars) {
						continue
					}
					for _, r2 := range *cf.FreeVars[i].Referrers() {
						switch q := r2.(type) {
						case *ssa.UnOp, *ssa.DebugRef:
						case *ssa.Store:
							if q.Addr != ssa.Value(cf.FreeVars[i]) {
								return false, "the address of the buffer variable is stored inside " + fnName(cf)
							}
						default:
							return false, "the buffer variable is passed on inside " + fnName(cf) + " at " + w.instrPos(r2)
						}
					}
				}
			default:
				return false, "the address of the buffer variable escapes at " + w.instrPos(ref)
			}
		}
		sts := storesTo(al, fn)
		if len(sts) == 0 {
			return false, "the buffer variable is never assigned"
		}
		last := ""
		for _, sv := range sts {
			ok, f := w.freshBuffer(sv, fn, depth+1)
			if !ok {
				return false, f
			}
			last = f
		}
		return true, last
	}
	return false, "bytes of a buffer that was not created in this call (" + v.String() + "): the returned slice aliases memory that outlives the call"
}
