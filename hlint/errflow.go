package main

// E2 — error-flow engine.
//
// For a call whose callee returns an error (last result), the error component
// is CONSUMED iff it is forwarded by a return, or tested against nil with
// every path from the non-nil edge ending in a return whose error operand is
// provably non-nil (the error itself, a value built from it, a freshly made
// concrete error, or a standard sentinel).  Dropped tuples, components bound
// to `_`, and "tested, then nil returned" are undischarged.

import (
	"go/constant"
	"fmt"
	"go/token"
	"go/types"
	"strings"

	"golang.org/x/tools/go/ssa"
)

type errOpts struct {
	allowEOFSentinel bool // decoder protocol: `err == io.EOF` may leave the error region
}

// errValueOf returns the SSA value(s) carrying the error component of call c
// (an Extract for tuples, the call itself for a single error result).
func errValuesOf(c *ssa.Call) []ssa.Value {
	sig := c.Call.Signature()
	idx := errIndex(sig)
	if idx < 0 {
		return nil
	}
	if sig.Results().Len() == 1 {
		return []ssa.Value{c}
	}
	var out []ssa.Value
	for _, r := range *c.Referrers() {
		if ex, ok := r.(*ssa.Extract); ok && ex.Index == idx {
			out = append(out, ex)
		}
	}
	return out
}

func isNilConst(v ssa.Value) bool {
	c, ok := v.(*ssa.Const)
	return ok && c.Value == nil
}

// errConsumed decides whether the error of call c is consumed.
func (w *World) errConsumed(c *ssa.Call, opts errOpts) (bool, string) {
	evs := errValuesOf(c)
	if len(evs) == 0 {
		return false, "the error result is dropped (never extracted: expression statement or bound to _)"
	}
	var why []string
	for _, e := range evs {
		ok, fact := w.errValueConsumed(e, e, opts, map[ssa.Value]bool{})
		if ok {
			return true, fact
		}
		why = append(why, fact)
	}
	return false, strings.Join(why, "; ")
}

func (w *World) errValueConsumed(e, root ssa.Value, opts errOpts, seen map[ssa.Value]bool) (bool, string) {
	if seen[e] {
		return false, "cyclic φ"
	}
	seen[e] = true
	refs := e.Referrers()
	if refs == nil || len(*refs) == 0 {
		return false, "the error value has no use (overwritten or ignored)"
	}
	var reasons []string
	for _, r := range *refs {
		switch x := r.(type) {
		case *ssa.Return:
			for _, res := range x.Results {
				if res == e && isErrorType(res.Type()) {
					// a return on the side of a nil test where the error IS nil forwards nothing
					// (`if err == nil { return n, err }` returns success and lets the failure fall through)
					if knownNilAt(e, x.Block()) {
						reasons = append(reasons, "returned at "+w.instrPos(x)+" only where it is known to be nil")
						continue
					}
					if hasNilTest(e) {
						// the error is tested: whether EVERY way from the failing side returns it
						// is decided by the path analysis below, not by this one return
						continue
					}
					// untested: EVERY way from the call to an exit must hand this value
					// back — a return of nil / of another error reached without a test
					// drops it on that way (`if done { return n, err }` … `return m, nil`)
					if esc := w.escapesUnreturned(e); esc != "" {
						reasons = append(reasons, "returned at "+w.instrPos(x)+" on some ways only: "+esc)
						continue
					}
					return true, "forwarded by return at " + w.instrPos(x)
				}
			}
		case *ssa.Phi:
			if ok, f := w.errValueConsumed(x, root, opts, seen); ok {
				return true, f
			} else {
				reasons = append(reasons, f)
			}
		case *ssa.ChangeInterface:
			if ok, f := w.errValueConsumed(x, root, opts, seen); ok {
				return true, f
			}
		case *ssa.Call:
			// passed to a wrapper that hands a non-nil error back (EnsureInterface(v, err)):
			// the obligation moves to the wrapper's error result
			sc := x.Call.StaticCallee()
			if sc == nil || !w.inPkg(sc) || errIndex(sc.Signature) < 0 {
				continue
			}
			for i, a := range x.Call.Args {
				if a != e || i >= len(sc.Params) {
					continue
				}
				if w.forwardsErrParam(sc, sc.Params[i]) {
					if ok, f := w.errConsumed(x, opts); ok {
						return true, "handed to " + fnName(sc) + " which returns it; " + f
					} else {
						reasons = append(reasons, "handed to "+fnName(sc)+" whose result is not consumed: "+f)
					}
				}
			}
		case *ssa.Store:
			// parked in a sticky error cell of a call-local sink object (errsticky.go)
			if _, isCell := x.Addr.(*ssa.FieldAddr); isCell && x.Val == e {
				if ok, f := w.stickyStoreConsumed(x, opts); ok {
					return true, f
				} else {
					reasons = append(reasons, f)
				}
			}
			// named result spilled because a deferred closure captures it:
			// stored, then loaded by the return
			if al, ok := x.Addr.(*ssa.Alloc); ok && x.Val == e {
				for _, r2 := range *al.Referrers() {
					if ld, ok := r2.(*ssa.UnOp); ok && ld.Op == token.MUL {
						for _, r3 := range *ld.Referrers() {
							if ret, ok := r3.(*ssa.Return); ok {
								for _, res := range ret.Results {
									if res == ssa.Value(ld) && isErrorType(res.Type()) {
										return true, "stored to the named error result and returned at " + w.instrPos(ret)
									}
								}
							}
						}
					}
				}
			}
			// the same through a capture: a function literal assigns the enclosing
			// function's named error result, which that function returns
			if fv, ok := x.Addr.(*ssa.FreeVar); ok && x.Val == e {
				if al := capturedCell(fv); al != nil {
					for _, r2 := range *al.Referrers() {
						if ld, ok := r2.(*ssa.UnOp); ok && ld.Op == token.MUL {
							for _, r3 := range *ld.Referrers() {
								if ret, ok := r3.(*ssa.Return); ok {
									for _, res := range ret.Results {
										if res == ssa.Value(ld) && isErrorType(res.Type()) {
											return true, "assigned to the enclosing function's named error result (captured), which it returns at " + w.instrPos(ret)
										}
									}
								}
							}
						}
					}
				}
			}
		case *ssa.BinOp:
			if x.Op != token.NEQ && x.Op != token.EQL {
				continue
			}
			other := x.Y
			if other == e {
				other = x.X
			}
			if !isNilConst(other) {
				continue
			}
			// find the If(s) controlled by this comparison
			for _, rr := range *x.Referrers() {
				iff, ok := rr.(*ssa.If)
				if !ok {
					continue
				}
				b := iff.Block()
				nonNil := b.Succs[0]
				if x.Op == token.EQL {
					nonNil = b.Succs[1]
				}
				ok2, f := w.pathsSurface(b, nonNil, e, opts)
				if ok2 {
					return true, "tested at " + w.instrPos(iff) + "; " + f
				}
				reasons = append(reasons, "tested at "+w.instrPos(iff)+" but "+f)
			}
		}
	}
	if len(reasons) == 0 {
		return false, "the error value is neither returned nor tested against nil"
	}
	return false, strings.Join(reasons, "; ")
}

// nonNilErr: is v provably a non-nil error, given that `given` is non-nil?
func (w *World) nonNilErr(v, given ssa.Value, phiRes map[*ssa.Phi]ssa.Value, depth int) bool {
	if depth > 10 {
		return false
	}
	if v == given {
		return true
	}
	switch x := v.(type) {
	case *ssa.Phi:
		if r, ok := phiRes[x]; ok {
			return w.nonNilErr(r, given, phiRes, depth+1)
		}
		// unresolved φ: every operand must be non-nil
		for _, e := range x.Edges {
			if !w.nonNilErr(e, given, phiRes, depth+1) {
				return false
			}
		}
		return true
	case *ssa.MakeInterface:
		// a concrete (non-interface) value boxed into an interface is non-nil
		// as an interface value
		return true
	case *ssa.ChangeInterface:
		return w.nonNilErr(x.X, given, phiRes, depth+1)
	case *ssa.UnOp:
		if x.Op == token.MUL {
			if g, ok := x.X.(*ssa.Global); ok && g.Pkg != nil && g.Pkg != w.Pkg && strings.HasPrefix(g.Name(), "Err") || isGlobalNamed(x.X, "io", "EOF") {
				return true // standard sentinels (io.ErrShortWrite, io.EOF, …)
			}
		}
	case *ssa.Call:
		if sc := x.Common().StaticCallee(); sc != nil {
			if w.neverNilErr(sc, 0) {
				return true
			}
			if qualifiedFnName(sc) == "errors.New" || qualifiedFnName(sc) == "fmt.Errorf" {
				return true
			}
		} else if !x.Common().IsInvoke() {
			// a function value (`p.keyFailed(err)`): every function the call graph
			// resolves it to never returns a nil error
			cs := w.calleesOf(x)
			all := len(cs) > 0
			for _, c := range cs {
				if !w.neverNilErr(w.throughWrapper(c), depth+1) {
					all = false
				}
			}
			if all {
				return true
			}
		}
	case *ssa.Extract:
		// the error component of a call to a function (or to a local closure: a
		// `fail := func(…) (T, error) { return zero, newError(…) }` helper) every
		// return of which yields a non-nil error
		if call, ok := x.Tuple.(*ssa.Call); ok {
			if sc := call.Common().StaticCallee(); sc != nil && sc.Blocks != nil && errIndex(sc.Signature) == x.Index && w.neverNilErr(sc, depth) {
				return true
			}
		}
	}
	return false
}

// forwardsErrParam: fn tests its error parameter p against nil and every path
// from the non-nil edge returns a non-nil error.
func (w *World) forwardsErrParam(fn *ssa.Function, p *ssa.Parameter) bool {
	if fn.Blocks == nil || !isErrorType(p.Type()) {
		return false
	}
	for _, ref := range *p.Referrers() {
		bo, ok := ref.(*ssa.BinOp)
		if !ok || (bo.Op != token.NEQ && bo.Op != token.EQL) {
			continue
		}
		for _, rr := range *bo.Referrers() {
			iff, ok := rr.(*ssa.If)
			if !ok {
				continue
			}
			b := iff.Block()
			nonNil := b.Succs[0]
			if bo.Op == token.EQL {
				nonNil = b.Succs[1]
			}
			if ok2, _ := w.pathsSurface(b, nonNil, p, errOpts{}); ok2 {
				return true
			}
		}
	}
	return false
}

func isGlobalNamed(v ssa.Value, pkg, name string) bool {
	g, ok := v.(*ssa.Global)
	return ok && g.Pkg != nil && g.Pkg.Pkg.Name() == pkg && g.Name() == name
}

// neverNilErr: every return of fn yields a non-nil error/boxed concrete value
// in its last result (e.g. a constructor returning a struct by value that is
// then boxed by the caller is handled by MakeInterface; this is for functions
// returning the interface type).
func (w *World) neverNilErr(fn *ssa.Function, depth int) bool {
	if fn.Blocks == nil || depth > 3 {
		return false
	}
	idx := errIndex(fn.Signature)
	if idx < 0 {
		return false
	}
	for _, b := range fn.Blocks {
		if ret, ok := b.Instrs[len(b.Instrs)-1].(*ssa.Return); ok {
			if !w.nonNilErr(ret.Results[idx], nil, nil, depth+1) {
				return false
			}
		}
	}
	return true
}

// pathsSurface: every path starting with the edge from→to reaches a return
// whose error operand is provably non-nil given e != nil.
func (w *World) pathsSurface(from, to *ssa.BasicBlock, e ssa.Value, opts errOpts) (bool, string) {
	type state struct{ b, pred int }
	visited := map[state]bool{}
	phiRes := map[*ssa.Phi]ssa.Value{}
	returns := 0
	var fail string
	var walk func(pred, b *ssa.BasicBlock) bool
	walk = func(pred, b *ssa.BasicBlock) bool {
		st := state{b.Index, pred.Index}
		if visited[st] {
			return true
		}
		visited[st] = true
		// resolve φ-nodes of b for this incoming edge
		pi := -1
		for i, p := range b.Preds {
			if p == pred {
				pi = i
			}
		}
		var saved []*ssa.Phi
		var savedVals []ssa.Value
		var savedHad []bool
		for _, in := range b.Instrs {
			phi, ok := in.(*ssa.Phi)
			if !ok {
				break
			}
			old, had := phiRes[phi]
			saved = append(saved, phi)
			savedVals = append(savedVals, old)
			savedHad = append(savedHad, had)
			if pi >= 0 {
				v := phi.Edges[pi]
				if p2, ok := v.(*ssa.Phi); ok {
					if r, ok := phiRes[p2]; ok {
						v = r
					}
				}
				phiRes[phi] = v
			}
		}
		defer func() {
			for i, phi := range saved {
				if savedHad[i] {
					phiRes[phi] = savedVals[i]
				} else {
					delete(phiRes, phi)
				}
			}
		}()
		switch t := b.Instrs[len(b.Instrs)-1].(type) {
		case *ssa.Return:
			returns++
			idx := errIndex(b.Parent().Signature)
			if idx < 0 {
				fail = "the function has no error result at " + w.instrPos(t)
				return false
			}
			if !w.nonNilErr(t.Results[idx], e, phiRes, 0) {
				fail = fmt.Sprintf("a path from the non-nil edge reaches the return at %s whose error operand (%s) is not provably non-nil", w.instrPos(t), describeVal(t.Results[idx], phiRes))
				return false
			}
			return true
		case *ssa.Panic:
			fail = "a path from the non-nil edge ends in panic at " + w.instrPos(t)
			return false
		case *ssa.If:
			// a re-test of the same error on this path is decided
			if bo, ok := t.Cond.(*ssa.BinOp); ok && (bo.Op == token.NEQ || bo.Op == token.EQL) {
				x, y := resolvePhi(bo.X, phiRes), resolvePhi(bo.Y, phiRes)
				if (x == e && isNilConst(y)) || (y == e && isNilConst(x)) {
					if bo.Op == token.NEQ {
						return walk(b, b.Succs[0])
					}
					return walk(b, b.Succs[1])
				}
				if opts.allowEOFSentinel && bo.Op == token.EQL {
					if (x == e && isEOFLoad(y)) || (y == e && isEOFLoad(x)) {
						// sentinel protocol: the EOF edge is exempt, the other continues
						return walk(b, b.Succs[1])
					}
				}
				if opts.allowEOFSentinel && bo.Op == token.NEQ {
					if (x == e && isEOFLoad(y)) || (y == e && isEOFLoad(x)) {
						return walk(b, b.Succs[0])
					}
				}
			}
			// the decoder's textual end-of-input test: strings.Contains(err.Error(), "EOF")
			// (a value cut short by the end of input is returned as far as it was read)
			if opts.allowEOFSentinel {
				cond, neg := t.Cond, false
				if u, ok := cond.(*ssa.UnOp); ok && u.Op == token.NOT {
					cond, neg = u.X, true
				}
				if textualEOFTest(cond, e, phiRes) {
					if neg {
						return walk(b, b.Succs[0]) // !contains: a real failure continues to be examined
					}
					return walk(b, b.Succs[1])
				}
			}
			for _, s := range b.Succs {
				if !walk(b, s) {
					return false
				}
			}
			return true
		default:
			for _, s := range b.Succs {
				if !walk(b, s) {
					return false
				}
			}
			return true
		}
	}
	if !walk(from, to) {
		return false, fail
	}
	if returns == 0 {
		return false, "no return is reachable from the non-nil edge"
	}
	return true, fmt.Sprintf("all %d return(s) reachable from the non-nil edge yield a non-nil error", returns)
}

func resolvePhi(v ssa.Value, phiRes map[*ssa.Phi]ssa.Value) ssa.Value {
	for i := 0; i < 8; i++ {
		p, ok := v.(*ssa.Phi)
		if !ok {
			return v
		}
		r, ok := phiRes[p]
		if !ok {
			return v
		}
		v = r
	}
	return v
}

func isEOFLoad(v ssa.Value) bool {
	u, ok := v.(*ssa.UnOp)
	return ok && u.Op == token.MUL && isGlobalNamed(u.X, "io", "EOF")
}

func describeVal(v ssa.Value, phiRes map[*ssa.Phi]ssa.Value) string {
	v = resolvePhi(v, phiRes)
	if isNilConst(v) {
		return "nil"
	}
	return v.String()
}

// ---- roles ----

// leafWrites: invoke-mode calls of io.Writer.Write inside package functions.
func (w *World) leafWrites() []*ssa.Call {
	var out []*ssa.Call
	for _, fn := range w.SrcFuncs() {
		for _, b := range fn.Blocks {
			for _, in := range b.Instrs {
				c, ok := in.(*ssa.Call)
				if !ok || !c.Call.IsInvoke() || c.Call.Method.Name() != "Write" {
					continue
				}
				if types.TypeString(c.Call.Value.Type(), nil) == "io.Writer" {
					out = append(out, c)
				}
			}
		}
	}
	return out
}

// writeClosure: package functions from which a leaf write is reachable.
func (w *World) writeClosure() map[*ssa.Function]bool {
	t := map[*ssa.Function]bool{}
	for _, c := range w.leafWrites() {
		t[c.Parent()] = true
	}
	return w.canReach(t)
}

// callOrdinalKey: "call#k callee" where k counts calls to the same callee in
// instruction order within the function.
type callSite struct {
	call    *ssa.Call
	callee  string
	ordinal int
}

func (w *World) callSitesIn(fn *ssa.Function) []callSite {
	counts := map[string]int{}
	var out []callSite
	for _, b := range fn.Blocks {
		for _, in := range b.Instrs {
			c, ok := in.(*ssa.Call)
			if !ok {
				continue
			}
			name := ""
			if c.Call.IsInvoke() {
				name = "(" + types.TypeString(c.Call.Value.Type(), func(p *types.Package) string { return p.Name() }) + ")." + c.Call.Method.Name()
			} else if sc := c.Call.StaticCallee(); sc != nil {
				name = qualifiedFnName(sc)
				if w.inPkg(sc) {
					name = w.canonName(sc) // a renamed role keeps its conventional name in keys
				}
			} else if _, ok := c.Call.Value.(*ssa.Builtin); ok {
				continue
			} else {
				name = "dynamic:" + types.TypeString(c.Call.Value.Type(), func(p *types.Package) string { return p.Name() })
			}
			counts[name]++
			out = append(out, callSite{c, name, counts[name]})
		}
	}
	return out
}

func (cs callSite) key() string { return fmt.Sprintf("call#%d %s", cs.ordinal, cs.callee) }

// knownNilAt: block b is dominated by the nil side of a comparison of e with nil.
func knownNilAt(e ssa.Value, b *ssa.BasicBlock) bool {
	refs := e.Referrers()
	if refs == nil {
		return false
	}
	for _, r := range *refs {
		bo, ok := r.(*ssa.BinOp)
		if !ok || (bo.Op != token.EQL && bo.Op != token.NEQ) {
			continue
		}
		other := bo.Y
		if other == e {
			other = bo.X
		}
		if !isNilConst(other) {
			continue
		}
		for _, rr := range *bo.Referrers() {
			iff, ok := rr.(*ssa.If)
			if !ok {
				continue
			}
			nilSide := iff.Block().Succs[1]
			if bo.Op == token.EQL {
				nilSide = iff.Block().Succs[0]
			}
			if nilSide == iff.Block().Succs[0] && nilSide == iff.Block().Succs[1] {
				continue
			}
			single := true
			for _, p := range nilSide.Preds {
				if p != iff.Block() && !nilSide.Dominates(p) {
					single = false
				}
			}
			if single && (nilSide == b || nilSide.Dominates(b)) {
				return true
			}
		}
	}
	return false
}

// hasNilTest: e is compared with nil somewhere (directly or through φ-free uses).
func hasNilTest(e ssa.Value) bool {
	refs := e.Referrers()
	if refs == nil {
		return false
	}
	for _, r := range *refs {
		if bo, ok := r.(*ssa.BinOp); ok && (bo.Op == token.EQL || bo.Op == token.NEQ) {
			other := bo.Y
			if other == e {
				other = bo.X
			}
			if isNilConst(other) {
				for _, rr := range *bo.Referrers() {
					if _, ok := rr.(*ssa.If); ok {
						return true
					}
				}
			}
		}
	}
	return false
}

// textualEOFTest: cond is strings.Contains(e.Error(), <constant mentioning EOF>),
// directly or through an in-package predicate of the error that does just that.
func textualEOFTest(cond ssa.Value, e ssa.Value, phiRes map[*ssa.Phi]ssa.Value) bool {
	c, ok := cond.(*ssa.Call)
	if !ok {
		return false
	}
	sc := c.Call.StaticCallee()
	if sc == nil {
		return false
	}
	if qualifiedFnName(sc) == "strings.Contains" && len(c.Call.Args) == 2 {
		k, isC := c.Call.Args[1].(*ssa.Const)
		if !isC || k.Value == nil || !strings.Contains(k.Value.ExactString(), "EOF") {
			return false
		}
		ec, ok := c.Call.Args[0].(*ssa.Call)
		if !ok || !ec.Call.IsInvoke() || ec.Call.Method.Name() != "Error" {
			return false
		}
		return resolvePhi(ec.Call.Value, phiRes) == e || ec.Call.Value == e
	}
	// a helper func(error) bool whose only returns are that test (or err != nil && that test)
	if sc.Blocks != nil && len(sc.Params) == 1 && isErrorType(sc.Params[0].Type()) && len(c.Call.Args) == 1 && (resolvePhi(c.Call.Args[0], phiRes) == e || c.Call.Args[0] == e) {
		for _, b := range sc.Blocks {
			for _, in := range b.Instrs {
				if ic, ok := in.(*ssa.Call); ok && textualEOFTest(ic, sc.Params[0], nil) {
					return true
				}
			}
		}
	}
	return false
}

// capturedCell: the local cell of the enclosing function a free variable is bound to
// (through nested literals), or nil.
func capturedCell(fv *ssa.FreeVar) *ssa.Alloc {
	fn := fv.Parent()
	for depth := 0; depth < 4 && fn != nil && fn.Parent() != nil; depth++ {
		idx := -1
		for i, f := range fn.FreeVars {
			if f == fv {
				idx = i
			}
		}
		if idx < 0 {
			return nil
		}
		var bound ssa.Value
		for _, b := range fn.Parent().Blocks {
			for _, in := range b.Instrs {
				if mc, ok := in.(*ssa.MakeClosure); ok && mc.Fn == ssa.Value(fn) && idx < len(mc.Bindings) {
					bound = mc.Bindings[idx]
				}
			}
		}
		switch t := bound.(type) {
		case *ssa.Alloc:
			return t
		case *ssa.FreeVar:
			fv, fn = t, fn.Parent()
		default:
			return nil
		}
	}
	return nil
}

// escapesUnreturned: e (an error value that is never tested against nil) is
// defined in block B; some return reachable from B answers an error result
// that does not derive from e.  "" if every reachable return hands e back.
func (w *World) escapesUnreturned(e ssa.Value) string {
	in, ok := e.(ssa.Instruction)
	if !ok || in.Block() == nil {
		return ""
	}
	derives := func(res ssa.Value) bool {
		seen := map[ssa.Value]bool{}
		var d func(v ssa.Value) bool
		d = func(v ssa.Value) bool {
			if v == e {
				return true
			}
			if seen[v] {
				return false
			}
			seen[v] = true
			switch x := v.(type) {
			case *ssa.Phi:
				for _, ed := range x.Edges {
					if d(ed) {
						return true
					}
				}
			case *ssa.ChangeInterface:
				return d(x.X)
			case *ssa.MakeInterface:
				return d(x.X)
			case *ssa.Call:
				// wrapped: a call given the error (fmt.Errorf("…%w", err), newCodecError(…, err))
				for _, a := range x.Call.Args {
					if d(a) {
						return true
					}
					if sl, ok := a.(*ssa.Slice); ok {
						// variadic: the error sits in the backing array
						if al, ok := sl.X.(*ssa.Alloc); ok {
							for _, ref := range *al.Referrers() {
								if ia, ok := ref.(*ssa.IndexAddr); ok {
									for _, r2 := range *ia.Referrers() {
										if st, ok := r2.(*ssa.Store); ok && d(st.Val) {
											return true
										}
									}
								}
							}
						}
					}
				}
			case *ssa.UnOp:
				// spilled named result: loaded from a cell the error was stored to
				if al, ok := x.X.(*ssa.Alloc); ok {
					for _, ref := range *al.Referrers() {
						if st, ok := ref.(*ssa.Store); ok && st.Addr == ssa.Value(al) && d(st.Val) {
							return true
						}
					}
				}
			}
			return false
		}
		return d(res)
	}
	// only for the results of statically resolved calls (a function value's
	// contract is not summarised here)
	if ex, ok := e.(*ssa.Extract); ok {
		if c, ok := ex.Tuple.(*ssa.Call); ok && c.Call.StaticCallee() == nil {
			return ""
		}
	}
	start := in.Block()
	seenB := map[*ssa.BasicBlock]bool{}
	work := []*ssa.BasicBlock{start}
	for len(work) > 0 {
		b := work[0]
		work = work[1:]
		if seenB[b] {
			continue
		}
		seenB[b] = true
		if ret, ok := b.Instrs[len(b.Instrs)-1].(*ssa.Return); ok {
			for _, res := range ret.Results {
				if isErrorType(res.Type()) && !derives(res) {
					return "the return at " + w.instrPos(ret) + " is reachable from the call without any test of the error and answers " + describeVal(res, nil) + " instead"
				}
			}
		}
		// a flag of the same call that the callee ties to the error: on the side
		// where the flag has a value the callee only answers together with a nil
		// error, there is nothing to hand back (`if v, known, err := f(); known
		// { return v, err }` with f answering known == false only beside nil)
		if iff, ok := b.Instrs[len(b.Instrs)-1].(*ssa.If); ok && len(b.Succs) == 2 {
			// compared with a sentinel (err == io.EOF): on the equal side the error
			// is that sentinel, handled there (the EOF idiom is decided elsewhere)
			if bo, ok := iff.Cond.(*ssa.BinOp); ok && (bo.Op == token.EQL || bo.Op == token.NEQ) && (bo.X == e || bo.Y == e) {
				if bo.Op == token.EQL {
					work = append(work, b.Succs[1])
				} else {
					work = append(work, b.Succs[0])
				}
				continue
			}
			cond, neg := iff.Cond, false
			if u, ok := cond.(*ssa.UnOp); ok && u.Op == token.NOT {
				cond, neg = u.X, true
			}
			if fx, ok := cond.(*ssa.Extract); ok {
				if ex, ok := e.(*ssa.Extract); ok && fx.Tuple == ex.Tuple && fx.Index != ex.Index {
					if call, ok := ex.Tuple.(*ssa.Call); ok {
						for si, succ := range b.Succs {
							flagVal := si == 0 // Succs[0] is the true edge
							if neg {
								flagVal = !flagVal
							}
							if w.flagImpliesNilErr(call, fx.Index, ex.Index, flagVal) {
								continue
							}
							work = append(work, succ)
						}
						continue
					}
				}
			}
		}
		work = append(work, b.Succs...)
	}
	return ""
}

// flagImpliesNilErr: every return of the (in-package, static) callee that can
// answer the boolean result #fi == val answers the nil error as result #ei.
func (w *World) flagImpliesNilErr(call *ssa.Call, fi, ei int, val bool) bool {
	sc := call.Call.StaticCallee()
	if sc == nil || sc.Blocks == nil || !w.inPkg(sc) {
		return false
	}
	n := 0
	for _, b := range sc.Blocks {
		ret, ok := b.Instrs[len(b.Instrs)-1].(*ssa.Return)
		if !ok || fi >= len(ret.Results) || ei >= len(ret.Results) {
			continue
		}
		n++
		if c, ok := ret.Results[fi].(*ssa.Const); ok && c.Value != nil && c.Value.Kind() == constant.Bool && constant.BoolVal(c.Value) != val {
			continue // this return answers the other flag value
		}
		// both results merged at one join: correlate them edge by edge
		if fp, ok := ret.Results[fi].(*ssa.Phi); ok {
			if ep, ok := ret.Results[ei].(*ssa.Phi); ok && ep.Block() == fp.Block() && len(ep.Edges) == len(fp.Edges) {
				good := true
				for j := range fp.Edges {
					if c, ok := fp.Edges[j].(*ssa.Const); ok && c.Value != nil && c.Value.Kind() == constant.Bool && constant.BoolVal(c.Value) != val {
						continue
					}
					if !isNilConst(ep.Edges[j]) {
						good = false
					}
				}
				if good {
					continue
				}
				return false
			}
		}
		if !isNilConst(ret.Results[ei]) {
			return false
		}
	}
	return n > 0
}
