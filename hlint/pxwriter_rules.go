package main

import (
	"fmt"
	"sort"
	"strings"

	"golang.org/x/tools/go/ssa"
)

// ruleCompactHeaders: every compact header lo+n emitted by the writer carries
// the untruncated n, proven in [0, hi-lo] under the facts of the path.
func (w *World) ruleCompactHeaders(r *Report, rule string, fn *ssa.Function, lo, hi int64) {
	wi := w.writerPaths(fn)
	if wi.truncated {
		r.undecided(rule, fnName(fn), w.pos(fn.Pos()), "path exploration exceeded its budget")
		return
	}
	type agg struct {
		ok   bool
		fact string
		pos  string
	}
	sites := map[string]*agg{}
	for _, p := range wi.paths {
		for _, e := range p.Trace {
			if e.Kind != "octets" || len(e.Args) == 0 || e.Args[0] == nil || e.Args[0].K == TConst {
				continue
			}
			zero, base, sh, ok := w.termTagPlus(e.Args[0])
			if !ok || zero != lo || sh != 0 {
				continue
			}
			key := fmt.Sprintf("%s · compact header %#x+n", fnName(fn), lo)
			a := sites[key]
			if a == nil {
				a = &agg{ok: true, pos: e.Pos}
				sites[key] = a
			}
			X, fl := w.evalEv(stripConv(w, base), e.Env)
			T, fl2 := w.evalEv(e.Args[0], e.Env)
			okP := X != nil && X.SubsetOf(mkSet(0, hi-lo)) && T != nil && T.SubsetOf(mkSet(lo, hi)) && !fl.Lossy && !fl2.Lossy && !fl2.Overflow
			if !okP {
				a.ok = false
			}
			if a.fact == "" || !okP {
				a.fact = fmt.Sprintf("n = %s ∈ %s under the guards reaching this emission (form carries 0..%d); octet ∈ %s; lossy conversion on the way=%v", stripConv(w, base).Key(), X, hi-lo, T.HexString(), fl.Lossy || fl2.Lossy)
			}
		}
	}
	n := 0
	for k, a := range sites {
		n++
		r.add(rule, k, a.pos, a.ok, a.fact)
	}
	r.floor(rule+" (compact headers in "+fnName(fn)+")", n, 1)
}

// ruleHeaderOctets (C02.R2): every octet a container writer hands to the byte
// writer belongs to the specification's set for that container.
func (w *World) ruleHeaderOctets(r *Report, rule string, allowed map[string]ISet) {
	var names []string
	for k := range allowed {
		names = append(names, k)
	}
	sort.Strings(names)
	nH := 0
	for _, name := range names {
		fn := w.role(name)
		if fn == nil {
			r.undecided(rule, name, "-", "anchor not found")
			continue
		}
		r.fnSeen(name)
		var sets map[string]ISet
		var poss map[string]string
		lossy := map[string]bool{}
		sets, poss = map[string]ISet{}, map[string]string{}
		if name == "(*Encoder).WriteData" {
			// the value dispatch itself only writes the null tag: scan its direct byte-writer calls
			f := w.flow(fn)
			for _, cs := range w.callSitesIn(fn) {
				if cs.call.Call.StaticCallee() != w.role("(*Encoder).writeBT") {
					continue
				}
				for i, v := range varargBytes(cs.call) {
					s, fl := f.ValueAt(v, cs.call.Block())
					k := fmt.Sprintf("%s · %s octet %d", fnName(fn), cs.key(), i)
					sets[k] = sets[k].Union(s)
					poss[k] = w.instrPos(cs.call)
					lossy[k] = lossy[k] || fl.Lossy
				}
			}
		} else {
			wi := w.writerPaths(fn)
			if wi.truncated {
				r.undecided(rule, name, w.pos(fn.Pos()), "path exploration exceeded its budget")
				continue
			}
			for _, p := range wi.paths {
				for _, e := range p.Trace {
					if e.Kind != "octets" {
						continue
					}
					if e.Extra == "unmodelled" {
						k := fmt.Sprintf("%s · header at %s", name, e.Pos)
						sets[k] = mkSet(0, 255)
						poss[k] = e.Pos
						continue
					}
					for i, a := range e.Args {
						k := fmt.Sprintf("%s · header octet %d written in %s", name, i, fnName(e.Call.Parent()))
						var s ISet
						var fl evalFlags
						if a != nil {
							s, fl = w.evalEv(a, e.Env)
						} else {
							s = mkSet(0, 255)
						}
						// one obligation per distinct emission site
						k += " #" + siteOrdinal(w, e.Call)
						sets[k] = sets[k].Union(s)
						poss[k] = e.Pos
						lossy[k] = lossy[k] || fl.Lossy
					}
				}
			}
		}
		var ks []string
		for k := range sets {
			ks = append(ks, k)
		}
		sort.Strings(ks)
		for _, k := range ks {
			nH++
			s := sets[k]
			ok := s != nil && !s.Empty() && s.SubsetOf(allowed[name]) && !lossy[k]
			r.add(rule, k, poss[k], ok, fmt.Sprintf("octet ∈ %s; the specification allows %s here (lossy conversion=%v)", s.HexString(), allowed[name].HexString(), lossy[k]))
		}
	}
	r.floor("C02.R2 header octets", nH, 8)
}

func siteOrdinal(w *World, c *ssa.Call) string {
	for _, cs := range w.callSitesIn(c.Parent()) {
		if cs.call == c {
			return fmt.Sprint(cs.ordinal)
		}
	}
	return "?"
}

// ruleListCount: the int written after a fixed-length list header is the
// term that bounds the element loop.
func (w *World) ruleListCount(r *Report, rule string) {
	fn := w.role("(*Encoder).writeList")
	if fn == nil {
		r.undecided(rule, "(*Encoder).writeList", "-", "anchor function not found")
		return
	}
	wi := w.writerPaths(fn)
	if wi.truncated {
		r.undecided(rule, fnName(fn), w.pos(fn.Pos()), "path exploration exceeded its budget")
		return
	}
	type agg struct {
		ok   bool
		fact string
		pos  string
	}
	res := map[string]*agg{}
	type pinStat struct {
		seen map[int]bool
		bad  string
	}
	pinned := map[string]*pinStat{}          // counted term + loop -> what the complete paths say
	semLoops := map[string]map[string]bool{} // header key -> the (term, loop) pairs its paths run
	semPos := map[string]string{}
	for _, p := range wi.paths {
		// header tag, then (type,) count
		hdr := -1
		var count *pxEvent
		typeSlot := false // the typed header is followed by the type (a string or a back-reference int) before the count
		for i := range p.Trace {
			e := &p.Trace[i]
			if e.Kind == "octets" && len(e.Args) > 0 && e.Args[0] != nil {
				if s, _ := w.evalEv(e.Args[0], e.Env); s != nil && (s.Equal(single(0x58)) || s.Equal(single(0x56))) {
					hdr = int(s.Min().Int64())
					typeSlot = hdr == 0x56
					continue
				}
			}
			if hdr >= 0 && typeSlot && strings.HasPrefix(e.Kind, "scalar:") {
				typeSlot = false
				continue
			}
			if hdr >= 0 && e.Kind == "scalar:int" && count == nil {
				count = e
			}
			if e.Kind == "value" && count != nil {
				bound := ""
				for _, part := range strings.Split(e.Extra, "|") {
					if strings.HasPrefix(part, "bound=") {
						bound = strings.TrimPrefix(part, "bound=")
					}
				}
				ct := stripConv(w, count.Args[0])
				key := fmt.Sprintf("(*Encoder).writeList · count after header x%02x", hdr)
				a := res[key]
				if a == nil {
					a = &agg{ok: true, pos: count.Pos}
					res[key] = a
				}
				if ct.Key() != bound {
					a.ok = false
				}
				a.fact = fmt.Sprintf("count written = %s; element loop bound = %s", ct.Key(), bound)
				break
			}
		}
		// the same obligation read off the facts of the paths, for element loops whose
		// bound test is not a comparison in the loop (`for item, more := next(); more;
		// item, more = next()` with the position and the test `pos >= list.Len()` kept
		// in a closure): on a path that completes successfully after writing k elements
		// the tests taken pin the declared count to exactly k.  The fact is one about the
		// loop and the term counted (a header whose count is ≥ 8 has no path short
		// enough to complete within the unrolling cap; it runs the same loop over the
		// same term as the header that has)
		if hdr >= 0 && count != nil {
			k, after, loopID := 0, false, ""
			for i := range p.Trace {
				e := &p.Trace[i]
				switch {
				case e == count:
					after = true
				case after && e.Kind == "value":
					k++
				case after && e.Kind == "loophead" && loopID == "" && e.Frame != nil && e.Frame.fn != nil:
					loopID = fnName(e.Frame.fn) + "#" + strings.TrimPrefix(e.Extra, e.Frame.id)
				}
			}
			ct := stripConv(w, count.Args[0])
			lk := ct.Key() + " in loop " + loopID
			key := fmt.Sprintf("(*Encoder).writeList · count after header x%02x", hdr)
			if semLoops[key] == nil {
				semLoops[key] = map[string]bool{}
				semPos[key] = count.Pos
			}
			if loopID != "" || p.ErrNil {
				// (a path that fails before it reaches the element loop says nothing)
				semLoops[key][lk] = true
			}
			if p.ErrNil {
				ps := pinned[lk]
				if ps == nil {
					ps = &pinStat{seen: map[int]bool{}}
					pinned[lk] = ps
				}
				ps.seen[k] = true
				if cs, _ := w.evalEv(ct, p.Env); cs == nil || !cs.Equal(single(int64(k))) {
					if ps.bad == "" {
						ps.bad = fmt.Sprintf("a successful path (return at %s) writes %d element(s) with the declared count ∈ %v", p.Pos, k, cs)
					}
				}
			}
		}
	}
	for key, loops := range semLoops {
		a := res[key]
		if a == nil {
			a = &agg{ok: false, pos: semPos[key], fact: "no element is written after the count on any path"}
			res[key] = a
		}
		if a.ok {
			continue
		}
		good, why := len(loops) > 0, ""
		var lks []string
		for lk := range loops {
			lks = append(lks, lk)
		}
		sort.Strings(lks)
		for _, lk := range lks {
			ps := pinned[lk]
			switch {
			case ps == nil || !ps.seen[0] || !ps.seen[1]:
				good = false
			case ps.bad != "":
				good, why = false, ps.bad
			}
		}
		if good {
			a.ok = true
			a.fact = fmt.Sprintf("count written = %s: on every successful path the tests taken pin it to the number of elements written", strings.Join(lks, ", "))
		} else if why != "" {
			a.fact += "; " + why
		}
	}
	n := 0
	var ks []string
	for k := range res {
		ks = append(ks, k)
	}
	sort.Strings(ks)
	for _, k := range ks {
		n++
		r.add(rule, k, res[k].pos, res[k].ok, res[k].fact)
	}
	r.floor(rule, n, 2)
}

// ruleValuesPerIteration: in the element loops of the container writers every
// completed iteration writes the same, expected number of values, and no
// iteration can complete without emitting anything (a skipped element makes
// the declared count wrong).
func (w *World) ruleValuesPerIteration(r *Report, rule string) {
	want := map[string][]int{"(*Encoder).writeList": {1}, "(*Encoder).writeObject": {1}, "(*Encoder).writeMap": {2, 1}}
	var names []string
	for k := range want {
		names = append(names, k)
	}
	sort.Strings(names)
	n := 0
	for _, name := range names {
		fn := w.role(name)
		if fn == nil {
			r.undecided(rule, name, "-", "anchor not found")
			continue
		}
		wi := w.writerPaths(fn)
		if wi.truncated {
			r.undecided(rule, name, w.pos(fn.Pos()), "path exploration exceeded its budget")
			continue
		}
		// per loop id: set of (values, emissions) per completed iteration
		vals := map[string]map[int]bool{}
		emis := map[string]map[int]bool{}
		for _, p := range wi.paths {
			if !p.ErrNil {
				continue
			}
			cur := ""
			v, m := 0, 0
			// one loop shared by several productions (`for i := 0; i < count; i++ { emit(i) }`
			// with emit chosen before the loop) is one loop per function value it runs
			bind := ""
			for _, e := range p.Trace {
				if e.Kind == "loophead" && w.literalLoopHead(e) {
					// `for _, part := range header` over a local array of N parts is its body N
					// times (pxlocalarray.go): what it emits belongs to the enclosing iteration
					continue
				}
				if e.Kind == "loophead" {
					if cur == e.Extra && (v > 0 || m > 0 || true) {
						if emis[cur] == nil {
							emis[cur] = map[int]bool{}
						}
						emis[cur][m] = true
						k := cur
						if bind != "" {
							k += " via " + bind
						}
						if vals[k] == nil {
							vals[k] = map[int]bool{}
						}
						vals[k][v] = true
					}
					cur = e.Extra
					v, m = 0, 0
					bind = ""
					continue
				}
				switch {
				case e.Kind == "value":
					v++
					m++
				case e.Kind == "octets" || e.Kind == "bytes" || strings.HasPrefix(e.Kind, "scalar:"):
					m++
				default:
					continue
				}
				if b := valueBinding(e); b != "" && !strings.Contains(bind, b) {
					bind += b
				}
			}
		}
		var loops []string
		for id, vs := range vals {
			mx := 0
			for k := range vs {
				if k > mx {
					mx = k
				}
			}
			if mx > 0 {
				loops = append(loops, id)
			}
		}
		// progress: a loop that emits on some iteration emits on every completed iteration
		for id, es := range emis {
			mx, mn := 0, 1<<30
			for k := range es {
				if k > mx {
					mx = k
				}
				if k < mn {
					mn = k
				}
			}
			if mx > 0 && mn == 0 {
				r.add(rule, fmt.Sprintf("%s · loop %s emits on every iteration", name, id), w.pos(fn.Pos()), false, "an iteration can complete without writing anything while other iterations write: an element is 'written' as nothing and the declared count no longer matches the content")
			}
		}
		sort.Strings(loops)
		for li, id := range loops {
			n++
			var got []int
			for k := range vals[id] {
				got = append(got, k)
			}
			sort.Ints(got)
			okW := false
			for _, wv := range want[name] {
				if len(got) == 1 && got[0] == wv {
					okW = true
				}
			}
			r.add(rule, fmt.Sprintf("%s · element loop #%d", name, li+1), w.pos(fn.Pos()), okW,
				fmt.Sprintf("values written per completed iteration: %v (want exactly %v; an iteration that writes none makes the declared count wrong)", got, want[name]))
		}
	}
	r.floor(rule, n, 4)
}

// ruleMapFraming: after a map header every successful path writes Z.
func (w *World) ruleMapFraming(r *Report, rule string) {
	fn := w.role("(*Encoder).writeMap")
	if fn == nil {
		r.undecided(rule, "(*Encoder).writeMap", "-", "anchor not found")
		return
	}
	wi := w.writerPaths(fn)
	if wi.truncated {
		r.undecided(rule, fnName(fn), w.pos(fn.Pos()), "path exploration exceeded its budget")
		return
	}
	res := map[int64]*struct {
		ok  bool
		pos string
		bad string
	}{}
	for _, p := range wi.paths {
		if !p.ErrNil {
			continue
		}
		hdr := int64(-1)
		closed := false
		for _, e := range p.Trace {
			if e.Kind != "octets" || len(e.Args) == 0 || e.Args[0] == nil {
				continue
			}
			s, _ := w.evalEv(e.Args[0], e.Env)
			if s == nil {
				continue
			}
			if hdr < 0 && (s.Equal(single('H')) || s.Equal(single('M'))) {
				hdr = s.Min().Int64()
				if res[hdr] == nil {
					res[hdr] = &struct {
						ok  bool
						pos string
						bad string
					}{ok: true, pos: e.Pos}
				}
			} else if hdr >= 0 && s.Equal(single('Z')) {
				closed = true
			}
		}
		if hdr >= 0 && !closed {
			res[hdr].ok = false
			res[hdr].bad = "a successful path (return at " + p.Pos + ") leaves the map open: no Z after the header"
		}
	}
	n := 0
	for _, h := range []int64{'H', 'M'} {
		a := res[h]
		if a == nil {
			continue
		}
		n++
		fact := "every successful path from the header writes the terminator Z"
		if !a.ok {
			fact = a.bad
		}
		r.add(rule, fmt.Sprintf("(*Encoder).writeMap · header %c", rune(h)), a.pos, a.ok, fact)
	}
	r.floor(rule, n, 2)
}
