package main

// Element loops whose parts are handed in as function values.

import (
	"go/token"

	"golang.org/x/tools/go/ssa"
)

// loopInvariant: v is defined outside the loop, or is a pure projection
// (field of a struct value, negation, conversion, comparison of invariants)
// of such values — it has the same value in every iteration.
func loopInvariant(v ssa.Value, lp *loopInfo, depth int) bool {
	if depth > 4 {
		return false
	}
	in, ok := v.(ssa.Instruction)
	if !ok || in.Block() == nil || !lp.body[in.Block()] {
		return true // parameter, constant, free variable pointer, or defined before the loop
	}
	switch x := v.(type) {
	case *ssa.Field:
		return loopInvariant(x.X, lp, depth+1)
	case *ssa.UnOp:
		if x.Op == token.NOT {
			return loopInvariant(x.X, lp, depth+1)
		}
		// a struct parameter spilled to a local cell (`shape.open` read through the
		// cell): nothing in the loop writes the cell and its address goes nowhere
		if x.Op == token.MUL {
			var cell *ssa.Alloc
			switch a := x.X.(type) {
			case *ssa.Alloc:
				cell = a
			case *ssa.FieldAddr:
				cell, _ = a.X.(*ssa.Alloc)
			}
			if cell != nil && cellQuietIn(cell, lp) {
				return true
			}
		}
	case *ssa.Convert:
		return loopInvariant(x.X, lp, depth+1)
	case *ssa.ChangeType:
		return loopInvariant(x.X, lp, depth+1)
	case *ssa.BinOp:
		return loopInvariant(x.X, lp, depth+1) && loopInvariant(x.Y, lp, depth+1)
	}
	return false
}

// readerDelegates: the named readers and everything they delegate their own work
// to — function literals, helpers called statically, functions reached through
// function values — without crossing the value dispatch or another production
// reader (the readers of nested values).
func (w *World) readerDelegates(names ...string) map[*ssa.Function]bool {
	stop := map[*ssa.Function]bool{}
	for fn := range w.readerBoundaries() {
		stop[fn] = true
	}
	if rd := w.fn("(*Decoder).ReadData"); rd != nil {
		stop[rd] = true
	}
	seen := map[*ssa.Function]bool{}
	var walk func(fn *ssa.Function)
	walk = func(fn *ssa.Function) {
		if fn == nil || seen[fn] || fn.Blocks == nil || !w.inPkg(fn) {
			return
		}
		seen[fn] = true
		for _, af := range fn.AnonFuncs {
			walk(af)
		}
		for _, b := range fn.Blocks {
			for _, in := range b.Instrs {
				c, ok := in.(ssa.CallInstruction)
				if !ok {
					continue
				}
				for _, cal := range w.calleesOf(c) {
					cal = w.throughWrapper(cal)
					if stop[cal] {
						continue
					}
					walk(cal)
				}
			}
		}
	}
	for _, n := range names {
		root := w.fn(n)
		delete(stop, root)
		walk(root)
	}
	return seen
}

// elementSourceForwards: the element read c is a call of a function value; every
// function it can denote is the value dispatch itself (a method value), or hands
// on what an element read of its own returned: no return of such a function
// makes up the terminator report (`return nil, io.EOF`) or a nil error for
// something it did not read.
func (w *World) elementSourceForwards(c *ssa.Call, reachesRD map[*ssa.Function]bool) (bool, string) {
	cs := w.calleesOf(c)
	if len(cs) == 0 {
		return false, "the element source is a function value the call graph cannot resolve"
	}
	for _, cal := range cs {
		cal = w.throughWrapper(cal)
		if !reachesRD[cal] {
			continue // not an element source (another function of the same type)
		}
		if cal.Signature.Recv() != nil && cal.Parent() == nil {
			continue // a method handed over as a method value: a reader in its own right
		}
		idx := errIndex(cal.Signature)
		if idx < 0 || cal.Blocks == nil {
			return false, "element source " + fnName(cal) + " has no error result"
		}
		reads := map[*ssa.Call]bool{}
		for _, b := range cal.Blocks {
			for _, in := range b.Instrs {
				rc, ok := in.(*ssa.Call)
				if !ok || errIndex(rc.Call.Signature()) < 0 {
					continue
				}
				for _, c2 := range w.calleesOf(rc) {
					if reachesRD[c2] || reachesRD[w.throughWrapper(c2)] {
						reads[rc] = true
					}
				}
			}
		}
		for _, b := range cal.Blocks {
			ret, ok := b.Instrs[len(b.Instrs)-1].(*ssa.Return)
			if !ok {
				continue
			}
			e := ret.Results[idx]
			if _, _, from := derivesFromCall(e, reads, 0); from {
				continue
			}
			// a tail call of a wrapper applied to a read: `return EnsureInterface(d.ReadData())`
			if ex, isEx := e.(*ssa.Extract); isEx {
				if wc, isCall := ex.Tuple.(*ssa.Call); isCall {
					fwd := false
					for _, a := range wc.Call.Args {
						if ac, isC := a.(*ssa.Call); isC && reads[ac] {
							fwd = true
						}
					}
					if fwd {
						continue
					}
				}
			}
			if isEOFLoad(e) {
				return false, "element source " + fnName(cal) + " returns io.EOF of its own at " + w.instrPos(ret) + ": a value is turned into the end of the container"
			}
			if w.nonNilErr(e, nil, nil, 0) {
				continue
			}
			return false, "element source " + fnName(cal) + " returns at " + w.instrPos(ret) + " an error that is not the one of its element read"
		}
	}
	return true, ""
}

// cellQuietIn: the local cell is only read and written directly (never aliased),
// and no write happens inside the loop.
func cellQuietIn(cell *ssa.Alloc, lp *loopInfo) bool {
	var uses func(v ssa.Value, depth int) bool
	uses = func(v ssa.Value, depth int) bool {
		refs := v.Referrers()
		if refs == nil {
			return true
		}
		for _, ref := range *refs {
			switch x := ref.(type) {
			case *ssa.DebugRef:
			case *ssa.UnOp:
				if x.Op != token.MUL {
					return false
				}
			case *ssa.Store:
				if x.Addr != v || x.Val == v || lp.body[x.Block()] {
					return false
				}
			case *ssa.FieldAddr:
				if depth > 2 || x.X != v || !uses(x, depth+1) {
					return false
				}
			default:
				return false
			}
		}
		return true
	}
	return uses(cell, 0)
}
