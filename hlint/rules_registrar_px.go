package main

// The encoder's ref-table registrar read from its PATHS (C04.R2 a miss inserts
// and takes the next ordinal; C04.R8 / C02.R6 / C06.R2 a hit returns the stored
// ordinal).
//
// The block-shaped forms of these two clauses looked at the operands of the
// `return` instructions of the registrar itself (`return 0, false` constant;
// `return index, ok` naming the two halves of one comma-ok lookup).  They went
// blind — or raised an alarm — as soon as the lookup moved into an accessor
// (`e.ordinalOf(key) (int, bool)`), or the results were named and joined in one
// `return index, found` behind an `if !found { insert; index = 0 }`.
//
// With paths the clauses are about what happens, not about which block holds
// the return: the registrar is explored path by path with its helpers stepped
// into; on each returning path the "found" result is decided by the facts of the
// path, and
//
//	found = true  ⇒ result #0 IS the value half of a comma-ok lookup in the
//	                Encoder's ref table whose ok half is known true on the path;
//	found = false ⇒ the path passed an insertion into the ref table, and the
//	                value inserted is len(ref table) read before the insertion.
//
// A path whose "found" cannot be decided gets neither discharge (reported).

import (
	"fmt"
	"go/types"

	"golang.org/x/tools/go/ssa"
)

type regPath struct {
	ret      *ssa.Return
	found    int // 1 true, 0 false, -1 not decided on the path
	hitOK    bool
	inserted bool
	ordOK    bool
	valDesc  string
}

type regPathsInfo struct {
	paths     []regPath
	truncated bool
}

var regPathsCache = map[*World]*regPathsInfo{}

func (w *World) registrarPaths() *regPathsInfo {
	if ri, ok := regPathsCache[w]; ok {
		return ri
	}
	ri := &regPathsInfo{}
	regPathsCache[w] = ri
	reg := w.encRegistrar()
	fi := w.encRefField()
	en, _ := w.structOf("Encoder")
	if reg == nil || fi < 0 || en == nil {
		ri.truncated = true
		return ri
	}
	refID := fmt.Sprintf("%s.%d", types.TypeString(en, nil), fi)
	isRefTable := func(v ssa.Value) bool {
		o, f, ok := w.fieldOfLoad(v)
		return ok && o == "Encoder" && f == fi
	}
	// value half -> ok half of the comma-ok lookups in the ref table executed on the exploration
	lookups := map[string]string{}
	var px *PX
	px = w.newPX(pxHooks{
		onInstr: func(fr *pxFrame, in ssa.Instruction, st *pxState) bool {
			lk, ok := in.(*ssa.Lookup)
			if !ok || !lk.CommaOk || !isRefTable(lk.X) || lk.Referrers() == nil {
				return true
			}
			var k0, k1 string
			for _, ref := range *lk.Referrers() {
				if ex, isEx := ref.(*ssa.Extract); isEx {
					switch ex.Index {
					case 0:
						k0 = px.term(ex, fr, st).key
					case 1:
						k1 = px.term(ex, fr, st).key
					}
				}
			}
			if k0 != "" && k1 != "" {
				lookups[k0] = k1
			}
			return true
		},
		onReturn: func(fr *pxFrame, ret *ssa.Return, results []*Term, st *pxState) {
			if len(results) != 2 {
				return
			}
			rp := regPath{ret: ret, found: -1}
			switch ft := results[1]; {
			case ft.K == TBoolConst && ft.Bool:
				rp.found = 1
			case ft.K == TBoolConst:
				rp.found = 0
			default:
				if s, _ := px.evalTerm(ft, st); s != nil {
					if s.Equal(single(1)) {
						rp.found = 1
					} else if s.Equal(single(0)) {
						rp.found = 0
					}
				}
			}
			if k1, isLk := lookups[results[0].key]; isLk {
				if s, has := st.env[k1]; has && s.Equal(single(1)) {
					rp.hitOK = true
				}
			}
			for _, ev := range st.trace {
				if ev.Kind != "mapupdate" || ev.Extra != refID || len(ev.Args) != 2 {
					continue
				}
				rp.inserted = true
				vt := ev.Args[1]
				rp.valDesc = vt.key
				rp.ordOK = vt.K == TPure && vt.Name == "len" && len(vt.Args) == 1 && vt.Args[0].V != nil && isRefTable(vt.Args[0].V)
			}
			ri.paths = append(ri.paths, rp)
		},
	})
	px.Run(reg, Env{})
	ri.truncated = px.Truncated
	return ri
}

// ruleRegistrarMiss (C04.R2): one obligation per return of the registrar that
// some path reaches with "not found"; returns the number of such returns.
func (w *World) ruleRegistrarMiss(r *Report, rule string, reg *ssa.Function) int {
	ri := w.registrarPaths()
	if ri.truncated {
		r.undecided(rule, fnName(reg)+" · not-found returns", w.pos(reg.Pos()), "path exploration of the registrar truncated")
		return 0
	}
	type agg struct {
		ret            *ssa.Return
		n              int
		passes, ordOK  bool
		valDesc, undec string
	}
	var order []*agg
	byRet := map[*ssa.Return]*agg{}
	for _, p := range ri.paths {
		if p.found == 1 {
			continue
		}
		a := byRet[p.ret]
		if a == nil {
			a = &agg{ret: p.ret, passes: true, ordOK: true}
			byRet[p.ret] = a
			order = append(order, a)
		}
		a.n++
		if p.found < 0 {
			a.undec = "; on one path the found flag is not decided"
			a.passes = false
		}
		if !p.inserted {
			a.passes = false
		}
		if !p.ordOK {
			a.ordOK = false
		}
		if p.valDesc != "" {
			a.valDesc = p.valDesc
		}
	}
	for i, a := range order {
		r.add(rule, fmt.Sprintf("%s · not-found return #%d", fnName(reg), i+1), w.instrPos(a.ret), a.passes && a.ordOK,
			fmt.Sprintf("every path (%d) to this return that reports 'not found' passes the insertion=%v; stored ordinal = %s (len of the ref table read before the insertion=%v)%s", a.n, a.passes, a.valDesc, a.ordOK, a.undec))
	}
	return len(order)
}

// registrarHitReturnsStored (C04.R8 / C02.R6 / C06.R2): on every path that
// reports "found" the ordinal returned is the one the lookup found.
func (w *World) registrarHitReturnsStored() (ok bool, fact string) {
	ri := w.registrarPaths()
	if ri.truncated {
		return false, "path exploration of the registrar truncated"
	}
	hits := 0
	for _, p := range ri.paths {
		if p.found == 0 {
			continue
		}
		if !p.hitOK {
			return false, "a path returning at " + w.instrPos(p.ret) + " can report 'found' with an ordinal that is not the value the ref-table lookup found on that path"
		}
		hits++
	}
	if hits == 0 {
		return false, "no path of the registrar reports 'found'"
	}
	return true, fmt.Sprintf("on each of the %d paths that report 'found' the value looked up in the ref table is returned", hits)
}
