package main

// The dispatcher's tag read moved into a prelude helper that hands the octet
// back together with what it already decided about it
// (`tag, settled, err := d.leadTag(who)`): the tag source is then met in a
// frame below the root.

import (
	"go/types"

	"golang.org/x/tools/go/ssa"
)

// handsBackOctet: fn has a byte among its results and an error as its last
// one — the shape of a function that obtains an octet for its caller.
func handsBackOctet(fn *ssa.Function) bool {
	res := fn.Signature.Results()
	if res.Len() < 2 || !isErrorType(res.At(res.Len()-1).Type()) {
		return false
	}
	for i := 0; i < res.Len()-1; i++ {
		if b, ok := res.At(i).Type().Underlying().(*types.Basic); ok && b.Kind() == types.Uint8 {
			return true
		}
	}
	return false
}

// tagCarrierChain: the frame is the root, or every frame between it and the
// root belongs to a function that hands an octet back to its caller: a tag
// source called there reads the tag on behalf of the root dispatcher.  A helper
// that consumes a tag of its own (an earlier part of the production) returns
// no octet and is not such a frame.
func tagCarrierChain(fr *pxFrame) bool {
	for f := fr; f != nil && f.parent != nil; f = f.parent {
		if f.fn == nil || !handsBackOctet(f.fn) {
			return false
		}
	}
	return true
}
