package main

// Rules over the scalar codecs (E1): encoder forms vs the frozen spec table,
// decoder forms vs the table, encoder ↔ decoder agreement.

import (
	"fmt"
	"go/token"
	"go/types"
	"math/big"

	"golang.org/x/tools/go/ssa"
)

func bitsRange(bits uint) ISet {
	lo := new(big.Int).Neg(new(big.Int).Lsh(one, bits-1))
	hi := new(big.Int).Sub(new(big.Int).Lsh(one, bits-1), one)
	return ISet{{lo, hi}}
}

// ruleWrapperForwards: the Decoder method wrapping a scalar decoder returns
// the decoder's value and rejects nothing but what the decoder rejects.
func (w *World) ruleWrapperForwards(r *Report, rule, cname string) {
	c := w.codecs()[cname]
	if c == nil || c.Wrap == nil || c.Dec == nil {
		r.undecided(rule, cname+" read wrapper", "-", "no *Decoder method func(int32) (T, error) calling the "+cname+" decoder found")
		return
	}
	fn := c.Wrap
	idx := errIndex(fn.Signature)
	ok, fact := true, "returns the scalar decoder's value and error unchanged"
	for _, b := range fn.Blocks {
		ret, isRet := b.Instrs[len(b.Instrs)-1].(*ssa.Return)
		if !isRet {
			continue
		}
		for i, res := range ret.Results {
			good := false
			if ex, isEx := res.(*ssa.Extract); isEx && ex.Index == i {
				if call, isC := ex.Tuple.(*ssa.Call); isC && call.Call.StaticCallee() == c.Dec {
					good = true
				}
			}
			if i == idx && !good && !isNilConst(res) {
				ok = false
				fact = "returns the error " + describeVal(res, nil) + " at " + w.instrPos(ret) + ": a value the " + cname + " decoder accepted is rejected depending on its content"
			}
			if i != idx && !good && (idx < 0 || isNilConst(ret.Results[idx]) || true) {
				// a value other than the decoder's on a non-error return
				if ex, isEx := ret.Results[idx].(*ssa.Extract); !(isEx && ex.Tuple != nil) || !good {
					if !w.nonNilErr(ret.Results[idx], nil, nil, 0) {
						ok = false
						fact = "returns " + res.String() + " at " + w.instrPos(ret) + " instead of the decoder's value"
					}
				}
			}
		}
	}
	r.add(rule, fnName(fn)+" · forwards the "+cname+" decoder", w.pos(fn.Pos()), ok, fact)
}

// ---- string / binary ----

// ruleLenEncoder checks the buffer-building encoders: per form the tag set,
// the length range, the header windows, and the chunk arithmetic.
func (w *World) ruleLenEncoder(r *Report, rule, cname string) {
	c := w.codecs()[cname]
	if c == nil || c.Enc == nil {
		r.undecided(rule, cname+" encoder", "-", "not found")
		return
	}
	fn := c.Enc
	r.fnSeen(fnName(fn))
	f := w.flow(fn)
	forms := w.bufForms(fn)
	lits := w.litForms(fn)
	n := 0
	// literal (empty value) forms
	for _, fm := range lits {
		if len(fm.Octets) != 1 {
			continue
		}
		n++
		ts, _ := f.ValueAt(fm.Octets[0], fm.Block)
		want := single('N')
		what := "null"
		if cname == "binary" {
			want, what = single(0x20), "zero-length binary"
		}
		r.add(rule, fmt.Sprintf("%s · empty-value form", fnName(fn)), fm.Pos, ts != nil && ts.Equal(want), fmt.Sprintf("emits %s, expected %s (%s)", ts.HexString(), want.HexString(), what))
	}
	var chunkConst int64 = -1
	var lenKey string
	for _, fm := range forms {
		n++
		h := len(fm.Octets)
		form := map[int]string{1: "short", 2: "medium", 3: "final"}[h]
		if fm.Kind == "bufchunk" {
			form = "chunk"
		}
		key := fmt.Sprintf("%s · %s form", fnName(fn), form)
		if form == "" {
			r.add(rule, fmt.Sprintf("%s · form with %d header octets", fnName(fn), h), fm.Pos, false, "no spec form has this header size")
			continue
		}
		var sl *specLen
		for i := range specLens {
			if specLens[i].Prod == cname && specLens[i].Form == form {
				sl = &specLens[i]
			}
		}
		wantTags := specTags(cname, form)
		ts, _ := f.ValueAt(fm.Octets[0], fm.Block)
		ok := ts != nil && !ts.Empty() && ts.SubsetOf(wantTags)
		fact := fmt.Sprintf("first octet %s ⊆ spec %s", ts.HexString(), wantTags.HexString())
		if !ok {
			fact = fmt.Sprintf("first octet %s ⊄ spec %s for the %s %s form", ts.HexString(), wantTags.HexString(), cname, form)
		}
		env := f.At(fm.Block)
		switch form {
		case "short", "medium":
			zero, base, sh, tok := f.tagPlusHigh(fm.Octets[0])
			wantShift := 0
			if form == "medium" {
				wantShift = 8
			}
			if !tok || zero != wantTags.Min().Int64() || sh != wantShift {
				ok = false
				fact += fmt.Sprintf("; first octet is not %#x + (length >> %d)", wantTags.Min().Int64(), wantShift)
				break
			}
			L, _ := f.Eval(base, env)
			if !L.SubsetOf(mkSet(sl.Lo, sl.Hi)) {
				ok = false
			}
			fact += fmt.Sprintf("; length ∈ %s (form carries %d..%d)", L, sl.Lo, sl.Hi)
			lenKey = base.Key()
			if form == "medium" {
				b2, s2, wok := f.octetWindow(fm.Octets[1])
				if !wok || b2.Key() != base.Key() || s2 != 0 {
					ok = false
					fact += "; second octet is not byte(length)"
				}
			}
		case "final":
			b1, s1, ok1 := f.octetWindow(fm.Octets[1])
			b2, s2, ok2 := f.octetWindow(fm.Octets[2])
			if !ok1 || !ok2 || s1 != 8 || s2 != 0 || b1.Key() != b2.Key() {
				ok = false
				fact += "; header is not byte(length>>8), byte(length)"
				break
			}
			L, _ := f.Eval(b1, env)
			if !L.SubsetOf(mkSet(sl.Lo, sl.Hi)) {
				ok = false
			}
			fact += fmt.Sprintf("; length ∈ %s (16-bit header)", L)
			lenKey = b1.Key()
		case "chunk":
			v1, _ := f.ValueAt(fm.Octets[1], fm.Block)
			v2, _ := f.ValueAt(fm.Octets[2], fm.Block)
			// the header constants live in init: evaluate there
			if g1, ok1 := w.constOf(fm.Octets[1]); ok1 {
				v1 = single(g1)
			}
			if g2, ok2 := w.constOf(fm.Octets[2]); ok2 {
				v2 = single(g2)
			}
			if v1 == nil || v2 == nil || len(v1) != 1 || len(v2) != 1 || v1.Card().Cmp(one) != 0 || v2.Card().Cmp(one) != 0 {
				ok = false
				fact += "; chunk length header is not constant"
				break
			}
			chunkConst = v1.Min().Int64()<<8 | v2.Min().Int64()
			fact += fmt.Sprintf("; chunk header length = %d", chunkConst)
			// payload slice [begin : begin+K]
			psl := findSlice(fm.Payload)
			if psl == nil || psl.High == nil || psl.Low == nil {
				ok = false
				fact += "; chunk payload is not a bounded slice"
				break
			}
			hi, lo := f.term(psl.High), f.term(psl.Low)
			if !(hi.K == TBin && hi.Op == token.ADD && ((hi.A.Key() == lo.Key() && hi.B.K == TConst && hi.B.C.Int64() == chunkConst) || (hi.B.Key() == lo.Key() && hi.A.K == TConst && hi.A.C.Int64() == chunkConst))) {
				ok = false
				fact += fmt.Sprintf("; chunk payload slice is not [begin : begin+%d]", chunkConst)
			}
		}
		r.add(rule, key, fm.Pos, ok, fact)
	}
	// chunk arithmetic: length starts at len(X), begin at 0, both step by the chunk size
	w.ruleChunkArith(r, rule, fn, f, chunkConst, lenKey, cname)
	r.floor(rule+" ("+cname+")", n, 4)
}

// constOf evaluates a value that lives in the package initialiser to a constant.
func (w *World) constOf(v ssa.Value) (int64, bool) {
	if k, ok := v.(*ssa.Const); ok && k.Value != nil {
		return k.Int64(), true
	}
	in, ok := v.(ssa.Instruction)
	if !ok || in.Parent() == nil {
		return 0, false
	}
	f := w.flow(in.Parent())
	s, _ := f.ValueAt(v, in.Block())
	if s != nil && s.Card().Cmp(one) == 0 {
		return s.Min().Int64(), true
	}
	return 0, false
}

func findSlice(v ssa.Value) *ssa.Slice {
	for i := 0; i < 6 && v != nil; i++ {
		switch x := v.(type) {
		case *ssa.Slice:
			return x
		case *ssa.Convert:
			v = x.X
		case *ssa.ChangeType:
			v = x.X
		default:
			return nil
		}
	}
	return nil
}

func (w *World) ruleChunkArith(r *Report, rule string, fn *ssa.Function, f *Flow, K int64, lenKey, cname string) {
	key := fnName(fn) + " · chunk arithmetic"
	if K < 0 {
		r.add(rule, key, w.pos(fn.Pos()), false, "no non-final chunk form found")
		return
	}
	var lenPhi, beginPhi *ssa.Phi
	var src ssa.Value
	for _, b := range fn.Blocks {
		for _, in := range b.Instrs {
			phi, ok := in.(*ssa.Phi)
			if !ok {
				break
			}
			if len(phi.Edges) != 2 {
				continue
			}
			for i := 0; i < 2; i++ {
				init, step := phi.Edges[i], phi.Edges[1-i]
				st := f.term(step)
				if st.K != TBin || st.B.K != TConst || st.A.Key() != f.term(phi).Key() || st.B.C.Int64() != K {
					continue
				}
				it := f.term(init)
				if st.Op == token.SUB && it.K == TPure && it.Name == "len" {
					lenPhi = phi
					if c, ok := init.(*ssa.Call); ok {
						src = c.Call.Args[0]
					}
				}
				if st.Op == token.ADD && it.K == TConst && it.C.Sign() == 0 {
					beginPhi = phi
				}
			}
		}
	}
	ok := lenPhi != nil && beginPhi != nil && src != nil
	fact := fmt.Sprintf("remaining length = φ(len(x), length-%d), begin = φ(0, begin+%d): invariant begin + length = len(x)", K, K)
	if !ok {
		fact = fmt.Sprintf("could not find the pair of loop variables stepping by the chunk size %d (remaining length from len(x) down, offset from 0 up)", K)
		r.add(rule, key, w.pos(fn.Pos()), false, fact)
		return
	}
	if lenKey != "" && lenKey != f.term(lenPhi).Key() {
		ok = false
		fact += "; the length written in the headers is not the loop's remaining length"
	}
	// loop guard: remaining > K
	guardOK := false
	for _, ref := range *lenPhi.Referrers() {
		if bo, isB := ref.(*ssa.BinOp); isB && bo.Op == token.GTR && bo.X == ssa.Value(lenPhi) {
			if k, isC := bo.Y.(*ssa.Const); isC && k.Int64() == K {
				guardOK = true
			}
		}
	}
	if !guardOK {
		ok = false
		fact += fmt.Sprintf("; the chunk loop is not guarded by length > %d", K)
	}
	// unit of length: []rune for strings, []byte for binary
	wantElem := "rune"
	if cname == "binary" {
		wantElem = "byte"
	}
	st, isSl := src.Type().Underlying().(*types.Slice)
	elem := ""
	if isSl {
		elem = typeStr(st.Elem())
		if elem == "int32" {
			elem = "rune"
		}
		if elem == "uint8" {
			elem = "byte"
		}
	}
	if elem != wantElem {
		ok = false
		fact += fmt.Sprintf("; lengths count elements of %s, want []%s", typeStr(src.Type()), wantElem)
	} else {
		fact += "; lengths count " + wantElem + "s"
	}
	// every payload slice cuts x at begin
	for _, fm := range w.bufForms(fn) {
		psl := findSlice(fm.Payload)
		if psl == nil || psl.X != src || psl.Low != ssa.Value(beginPhi) {
			ok = false
			fact += fmt.Sprintf("; payload at %s is not a slice of x starting at begin", fm.Pos)
		}
	}
	r.add(rule, key, w.pos(fn.Pos()), ok, fact)
}

