package main

// Rules over the scalar codecs (E1): encoder forms vs the frozen spec table,
// decoder forms vs the table, encoder ↔ decoder agreement.

import (
	"math/big"

	"golang.org/x/tools/go/ssa"
)

func bitsRange(bits uint) ISet {
	lo := new(big.Int).Neg(new(big.Int).Lsh(one, bits-1))
	hi := new(big.Int).Sub(new(big.Int).Lsh(one, bits-1), one)
	return ISet{{lo, hi}}
}

// ruleWrapperForwards: the Decoder method wrapping a scalar decoder returns
// the decoder's value and rejects nothing but what the decoder rejects.
func (w *World) ruleWrapperForwards(r *Report, rule, cname string) {
	c := w.codecs()[cname]
	if c == nil || c.Wrap == nil || c.Dec == nil {
		r.undecided(rule, cname+" read wrapper", "-", "no *Decoder method func(int32) (T, error) calling the "+cname+" decoder found")
		return
	}
	fn := c.Wrap
	idx := errIndex(fn.Signature)
	ok, fact := true, "returns the scalar decoder's value and error unchanged"
	for _, b := range fn.Blocks {
		ret, isRet := b.Instrs[len(b.Instrs)-1].(*ssa.Return)
		if !isRet {
			continue
		}
		for i, res := range ret.Results {
			good := false
			if ex, isEx := res.(*ssa.Extract); isEx && ex.Index == i {
				if call, isC := ex.Tuple.(*ssa.Call); isC && call.Call.StaticCallee() == c.Dec {
					good = true
				}
			}
			if i == idx && !good && !isNilConst(res) {
				ok = false
				fact = "returns the error " + describeVal(res, nil) + " at " + w.instrPos(ret) + ": a value the " + cname + " decoder accepted is rejected depending on its content"
			}
			if i != idx && !good && (idx < 0 || isNilConst(ret.Results[idx]) || true) {
				// a value other than the decoder's on a non-error return
				if ex, isEx := ret.Results[idx].(*ssa.Extract); !(isEx && ex.Tuple != nil) || !good {
					if !w.nonNilErr(ret.Results[idx], nil, nil, 0) {
						ok = false
						fact = "returns " + res.String() + " at " + w.instrPos(ret) + " instead of the decoder's value"
					}
				}
			}
		}
	}
	r.add(rule, fnName(fn)+" · forwards the "+cname+" decoder", w.pos(fn.Pos()), ok, fact)
}

// ---- string / binary ----

// constOf evaluates a value that lives in the package initialiser to a constant.
func (w *World) constOf(v ssa.Value) (int64, bool) {
	if k, ok := v.(*ssa.Const); ok && k.Value != nil {
		return k.Int64(), true
	}
	in, ok := v.(ssa.Instruction)
	if !ok || in.Parent() == nil {
		return 0, false
	}
	f := w.flow(in.Parent())
	s, _ := f.ValueAt(v, in.Block())
	if s != nil && s.Card().Cmp(one) == 0 {
		return s.Min().Int64(), true
	}
	return 0, false
}
