package main

// Rules over the scalar codecs (E1): encoder forms vs the frozen spec table,
// decoder forms vs the table, encoder ↔ decoder agreement.

import (
	"fmt"
	"go/token"
	"go/types"
	"math/big"
	"strings"

	"golang.org/x/tools/go/ssa"
)

func bitsRange(bits uint) ISet {
	lo := new(big.Int).Neg(new(big.Int).Lsh(one, bits-1))
	hi := new(big.Int).Sub(new(big.Int).Lsh(one, bits-1), one)
	return ISet{{lo, hi}}
}

// ruleNumEncoder: int / long encoders.
//   part "partition": the input sets of the forms partition the type's range
//     and each equals the spec range of its octet count minus the shorter
//     forms' ranges (shortest form).
//   part "tag": first octet = zero point + high bits, remaining octets are the
//     big-endian windows of the value; full-width forms carry the constant tag.
func (w *World) ruleNumEncoder(r *Report, rulePart, ruleTag, cname string, spec []specNum) {
	c := w.codecs()[cname]
	if c == nil || c.Enc == nil {
		r.undecided(rulePart, cname+" encoder", "-", "no package function func("+cname+"-type) []byte found")
		return
	}
	fn := c.Enc
	r.fnSeen(fnName(fn))
	f := w.flow(fn)
	pk := f.term(fn.Params[0])
	top := f.top(fn.Params[0].Type())
	forms := w.litForms(fn)
	var union ISet
	seenN := map[int]bool{}
	for _, fm := range forms {
		key := fmt.Sprintf("%s · form of %d octet(s)", fnName(fn), len(fm.Octets))
		if fm.IsErr {
			r.add(rulePart, fnName(fn)+" · error return", fm.Pos, false, "the "+cname+" encoder has an error return: not every value encodes")
			continue
		}
		n := len(fm.Octets)
		if n == 0 {
			r.undecided(rulePart, fnName(fn)+" · return at "+fm.Pos, fm.Pos, "returned slice is not a composite literal the form extractor understands")
			continue
		}
		D, _ := f.Eval(pk, f.At(fm.Block))
		if !union.Intersect(D).Empty() {
			r.add(rulePart, key+" · disjoint", fm.Pos, false, "input set "+D.String()+" overlaps another form")
		}
		union = union.Union(D)
		var sf *specNum
		var shorter ISet
		for i := range spec {
			if spec[i].Octets == n {
				sf = &spec[i]
			} else if spec[i].Octets < n {
				shorter = shorter.Union(mkSet(spec[i].Lo, spec[i].Hi))
			}
		}
		if sf == nil {
			r.add(rulePart, key, fm.Pos, false, fmt.Sprintf("the specification has no %s form of %d octets", cname, n))
			continue
		}
		if seenN[n] {
			key += " (second)"
		}
		seenN[n] = true
		want := mkSet(sf.Lo, sf.Hi).Intersect(top).Minus(shorter)
		r.add(rulePart, key, fm.Pos, D.Equal(want), fmt.Sprintf("inputs reaching the form D=%s; shortest-form range for %d octets = %s", D, n, want))

		// tag + windows
		tagSet, _ := f.ValueAt(fm.Octets[0], fm.Block)
		wantTags := specTags(cname, sf.Form)
		okTag := tagSet != nil && tagSet.Hull().Equal(wantTags)
		fact := fmt.Sprintf("first octet over D = %s, spec %s", tagSet.HexString(), wantTags.HexString())
		if sf.Zero >= 0 {
			zero, base, sh, ok := f.tagPlusHigh(fm.Octets[0])
			if !ok || zero != int64(sf.Zero) || base.Key() != pk.Key() || sh != 8*(n-1) {
				okTag = false
				fact += fmt.Sprintf("; first octet is not %#x + (value >> %d)", sf.Zero, 8*(n-1))
			} else {
				fact += fmt.Sprintf("; tag = %#x + (value >> %d)", zero, sh)
			}
		} else {
			if k, isC := fm.Octets[0].(*ssa.Const); !isC || k.Int64() != wantTags.Min().Int64() {
				okTag = false
				fact += "; first octet is not the constant tag"
			}
			if !D.SubsetOf(bitsRange(uint(8 * (n - 1)))) {
				okTag = false
				fact += fmt.Sprintf("; D does not fit %d bits", 8*(n-1))
			}
		}
		for i := 1; i < n; i++ {
			base, sh, ok := f.octetWindow(fm.Octets[i])
			if !ok || base.Key() != pk.Key() || sh != 8*(n-1-i) {
				okTag = false
				fact += fmt.Sprintf("; octet %d is not byte(value >> %d)", i, 8*(n-1-i))
			}
		}
		r.add(ruleTag, key, fm.Pos, okTag, fact)
	}
	r.add(rulePart, fnName(fn)+" · forms cover the type", w.pos(fn.Pos()), union.Equal(top), fmt.Sprintf("union of form inputs = %s, type range = %s", union, top))
	r.floor(rulePart+" ("+cname+")", len(forms), len(spec))
}

// ruleDecoderForms: every tag of every spec form of the production reaches a
// nil-error return of the decoder after pulling exactly the form's payload.
func (w *World) ruleDecoderForms(r *Report, rule, cname string) {
	c := w.codecs()[cname]
	if c == nil || c.Dec == nil {
		r.undecided(rule, cname+" decoder", "-", "no package function func(ByteRuneReader,int32)(T,error) found for "+cname)
		return
	}
	fn := c.Dec
	r.fnSeen(fnName(fn))
	f := w.flow(fn)
	forms, err := w.decForms(fn, f)
	if err != nil {
		r.undecided(rule, fnName(fn), w.pos(fn.Pos()), err.Error())
		return
	}
	n := 0
	for _, sf := range specForms {
		if sf.Prod != cname || sf.Payload < 0 {
			continue
		}
		n++
		ok := true
		var facts []string
		for t := sf.Lo; t <= sf.Hi; t++ {
			var hit *DecForm
			cnt := 0
			for _, df := range forms {
				if df.Tags.Contains(int64(t)) {
					cnt++
					if hit == nil || (hit.IsErr && !df.IsErr) {
						hit = df
					}
				}
			}
			switch {
			case hit == nil:
				ok = false
				facts = append(facts, fmt.Sprintf("tag x%02x reaches no return", t))
			case hit.IsErr:
				ok = false
				facts = append(facts, fmt.Sprintf("tag x%02x is rejected (error return at %s)", t, hit.Pos))
			case hit.Unknown || hit.Payload != sf.Payload:
				ok = false
				facts = append(facts, fmt.Sprintf("tag x%02x pulls %d octets (return at %s), spec %d", t, hit.Payload, hit.Pos, sf.Payload))
			}
			if len(facts) > 3 {
				break
			}
		}
		fact := fmt.Sprintf("tags x%02x-x%02x each reach a nil-error return after %d payload octet(s)", sf.Lo, sf.Hi, sf.Payload)
		if !ok {
			fact = strings.Join(facts, "; ")
		}
		r.add(rule, fmt.Sprintf("%s · spec form %s/%s", fnName(fn), sf.Prod, sf.Form), w.pos(fn.Pos()), ok, fact)
	}
	r.floor(rule+" ("+cname+")", n, 1)
}

// ruleWrapperForwards: the Decoder method wrapping a scalar decoder returns
// the decoder's value and rejects nothing but what the decoder rejects.
func (w *World) ruleWrapperForwards(r *Report, rule, cname string) {
	c := w.codecs()[cname]
	if c == nil || c.Wrap == nil || c.Dec == nil {
		r.undecided(rule, cname+" read wrapper", "-", "no *Decoder method func(int32) (T, error) calling the "+cname+" decoder found")
		return
	}
	fn := c.Wrap
	idx := errIndex(fn.Signature)
	ok, fact := true, "returns the scalar decoder's value and error unchanged"
	for _, b := range fn.Blocks {
		ret, isRet := b.Instrs[len(b.Instrs)-1].(*ssa.Return)
		if !isRet {
			continue
		}
		for i, res := range ret.Results {
			good := false
			if ex, isEx := res.(*ssa.Extract); isEx && ex.Index == i {
				if call, isC := ex.Tuple.(*ssa.Call); isC && call.Call.StaticCallee() == c.Dec {
					good = true
				}
			}
			if i == idx && !good && !isNilConst(res) {
				ok = false
				fact = "returns the error " + describeVal(res, nil) + " at " + w.instrPos(ret) + ": a value the " + cname + " decoder accepted is rejected depending on its content"
			}
			if i != idx && !good && (idx < 0 || isNilConst(ret.Results[idx]) || true) {
				// a value other than the decoder's on a non-error return
				if ex, isEx := ret.Results[idx].(*ssa.Extract); !(isEx && ex.Tuple != nil) || !good {
					if !w.nonNilErr(ret.Results[idx], nil, nil, 0) {
						ok = false
						fact = "returns " + res.String() + " at " + w.instrPos(ret) + " instead of the decoder's value"
					}
				}
			}
		}
	}
	r.add(rule, fnName(fn)+" · forwards the "+cname+" decoder", w.pos(fn.Pos()), ok, fact)
}

// rulePairOctets: for every encoder form, every first octet it can emit is
// accepted by the paired decoder, which then pulls exactly the remaining
// octets of the form (self-delimiting scalars: encoder octets = decoder octets).
func (w *World) rulePairOctets(r *Report, rule, cname string) {
	c := w.codecs()[cname]
	if c == nil || c.Enc == nil || c.Dec == nil {
		r.undecided(rule, cname+" codec pair", "-", "encoder or decoder not found")
		return
	}
	fe := w.flow(c.Enc)
	fd := w.flow(c.Dec)
	dforms, err := w.decForms(c.Dec, fd)
	if err != nil {
		r.undecided(rule, fnName(c.Dec), "-", err.Error())
		return
	}
	n := 0
	for _, fm := range w.litForms(c.Enc) {
		if fm.IsErr || len(fm.Octets) == 0 {
			continue
		}
		ts, _ := fe.ValueAt(fm.Octets[0], fm.Block)
		if ts != nil && ts.Equal(single('N')) {
			continue // null is a dispatcher-level value (dispatch rules)
		}
		n++
		key := fmt.Sprintf("%s form of %d octet(s) ↔ %s", fnName(c.Enc), len(fm.Octets), fnName(c.Dec))
		tags, small := ts.Elems(256)
		if ts == nil || !small {
			r.undecided(rule, key, fm.Pos, "first octet set not bounded")
			continue
		}
		ok := true
		fact := fmt.Sprintf("first octets %s: decoder pulls %d octet(s) = form length - 1", ts.HexString(), len(fm.Octets)-1)
		for _, t := range tags {
			var hit *DecForm
			for _, df := range dforms {
				if df.Tags.Contains(t) && !df.IsErr {
					hit = df
				}
			}
			if hit == nil {
				ok, fact = false, fmt.Sprintf("first octet x%02x emitted by the encoder is not accepted by the decoder", t)
				break
			}
			if hit.Unknown || hit.Payload != len(fm.Octets)-1 {
				ok, fact = false, fmt.Sprintf("first octet x%02x: encoder writes %d more octets, decoder pulls %d (return at %s)", t, len(fm.Octets)-1, hit.Payload, hit.Pos)
				break
			}
		}
		r.add(rule, key, fm.Pos, ok, fact)
	}
	r.floor(rule+" ("+cname+")", n, 2)
}

// ---- double ----

func (w *World) ruleDoubleEncoder(r *Report, ruleTotal, ruleForms string) {
	c := w.codecs()["double"]
	if c == nil || c.Enc == nil {
		r.undecided(ruleForms, "double encoder", "-", "not found")
		return
	}
	fn := c.Enc
	r.fnSeen(fnName(fn))
	f := w.flow(fn)
	pv := f.term(fn.Params[0])
	forms := w.litForms(fn)
	// totality
	nErr := 0
	for _, fm := range forms {
		if fm.IsErr && f.Reachable(fm.Block) {
			nErr++
			r.add(ruleTotal, fmt.Sprintf("%s · error return #%d", fnName(fn), nErr), fm.Pos, false, "a float64 reaches an error return: not every double encodes")
		}
	}
	if nErr == 0 {
		r.add(ruleTotal, fnName(fn)+" · no feasible error return", w.pos(fn.Pos()), true, fmt.Sprintf("%d returns, none with a non-nil error", len(forms)))
	}
	// integrality guard: float64(int64(v)) == v
	ivKey := "conv:int64(" + pv.Key() + ")"
	guardKey1 := "(conv:float64(" + ivKey + ") == " + pv.Key() + ")"
	guardKey2 := "(" + pv.Key() + " == conv:float64(" + ivKey + "))"
	var integral *ssa.BasicBlock
	for _, b := range fn.Blocks {
		if iff, ok := b.Instrs[len(b.Instrs)-1].(*ssa.If); ok {
			k := f.term(iff.Cond).Key()
			if k == guardKey1 || k == guardKey2 {
				integral = b.Succs[0]
			}
		}
	}
	if integral == nil {
		r.undecided(ruleForms, fnName(fn)+" · integrality guard", w.pos(fn.Pos()), "no branch on float64(int64(v)) == v found: the integral fast path was not recognised")
		return
	}
	// exactness guard of the float32 form
	f32Key := "(conv:float64(conv:float32(" + pv.Key() + ")) == " + pv.Key() + ")"
	var f32Block *ssa.BasicBlock
	for _, b := range fn.Blocks {
		if iff, ok := b.Instrs[len(b.Instrs)-1].(*ssa.If); ok {
			k := f.term(iff.Cond).Key()
			if k == f32Key || k == "("+pv.Key()+" == conv:float64(conv:float32("+pv.Key()+")))" {
				f32Block = b.Succs[0]
			}
		}
	}
	var unionInt ISet
	n := 0
	for _, fm := range forms {
		if fm.IsErr || len(fm.Octets) == 0 {
			continue
		}
		n++
		k, isC := fm.Octets[0].(*ssa.Const)
		if !isC {
			r.add(ruleForms, fmt.Sprintf("%s · form at block %d", fnName(fn), fm.Block.Index), fm.Pos, false, "first octet is not a constant tag")
			continue
		}
		tag := int(k.Int64())
		sf := specByTag[tag]
		key := fmt.Sprintf("%s · form x%02x", fnName(fn), tag)
		if sf.Prod != "double" {
			r.add(ruleForms, key, fm.Pos, false, fmt.Sprintf("tag x%02x is %s in the specification, not double", tag, sf.Prod))
			continue
		}
		if len(fm.Octets) != sf.Payload+1 {
			r.add(ruleForms, key, fm.Pos, false, fmt.Sprintf("form has %d octets, spec %d", len(fm.Octets), sf.Payload+1))
			continue
		}
		ok := true
		var fact string
		switch sf.Form {
		case "zero", "one", "double2", "double3":
			if !integral.Dominates(fm.Block) {
				ok, fact = false, "integral form not guarded by float64(int64(v)) == v"
				break
			}
			env := f.At(fm.Block)
			D := env[ivKey]
			if D == nil {
				D = f.top(types.Typ[types.Int64])
			}
			unionInt = unionInt.Union(D)
			var want ISet
			for _, sn := range specDoubleIntegral {
				if sn.Form == sf.Form {
					want = mkSet(sn.Lo, sn.Hi)
					for _, sm := range specDoubleIntegral {
						if sm.Octets < sn.Octets {
							want = want.Minus(mkSet(sm.Lo, sm.Hi))
						}
					}
				}
			}
			ok = D.Equal(want)
			fact = fmt.Sprintf("integral inputs reaching the form = %s; shortest exact form range = %s", D, want)
			for i := 1; i < len(fm.Octets); i++ {
				base, sh, wok := f.octetWindow(fm.Octets[i])
				if !wok || base.Key() != ivKey || sh != 8*(len(fm.Octets)-1-i) {
					ok = false
					fact += fmt.Sprintf("; octet %d is not byte(int64(v) >> %d)", i, 8*(len(fm.Octets)-1-i))
				}
			}
		case "double5", "double9":
			wantFn := "math.Float32bits"
			if sf.Form == "double9" {
				wantFn = "math.Float64bits"
			}
			fact = "octets are the big-endian windows of " + wantFn
			for i := 1; i < len(fm.Octets); i++ {
				base, sh, wok := f.octetWindow(fm.Octets[i])
				if !wok || sh != 8*(len(fm.Octets)-1-i) {
					ok = false
					fact = fmt.Sprintf("octet %d is not a window of shift %d", i, 8*(len(fm.Octets)-1-i))
					break
				}
				for base.K == TConv {
					base = base.A
				}
				call, isCall := base.V.(*ssa.Call)
				if !isCall || call.Call.StaticCallee() == nil || qualifiedFnName(call.Call.StaticCallee()) != wantFn {
					ok = false
					fact = fmt.Sprintf("octet %d is not taken from %s(...)", i, wantFn)
					break
				}
				arg := f.term(call.Call.Args[0]).Key()
				if sf.Form == "double9" && arg != pv.Key() {
					ok, fact = false, "Float64bits is not applied to the input value"
				}
				if sf.Form == "double5" && arg != "conv:float32("+pv.Key()+")" {
					ok, fact = false, "Float32bits is not applied to float32(input)"
				}
			}
			if sf.Form == "double5" && (f32Block == nil || !f32Block.Dominates(fm.Block)) {
				ok, fact = false, "the 4-octet form is not guarded by float64(float32(v)) == v"
			}
		}
		r.add(ruleForms, key, fm.Pos, ok, fact)
	}
	want := mkSet(-32768, 32767)
	r.add(ruleForms, fnName(fn)+" · integral forms cover [-32768,32767]", w.pos(fn.Pos()), unionInt.Equal(want), fmt.Sprintf("union of integral form inputs = %s", unionInt))
	r.floor(ruleForms, n, 6)
}

// ---- string / binary ----

// ruleLenEncoder checks the buffer-building encoders: per form the tag set,
// the length range, the header windows, and the chunk arithmetic.
func (w *World) ruleLenEncoder(r *Report, rule, cname string) {
	c := w.codecs()[cname]
	if c == nil || c.Enc == nil {
		r.undecided(rule, cname+" encoder", "-", "not found")
		return
	}
	fn := c.Enc
	r.fnSeen(fnName(fn))
	f := w.flow(fn)
	forms := w.bufForms(fn)
	lits := w.litForms(fn)
	n := 0
	// literal (empty value) forms
	for _, fm := range lits {
		if len(fm.Octets) != 1 {
			continue
		}
		n++
		ts, _ := f.ValueAt(fm.Octets[0], fm.Block)
		want := single('N')
		what := "null"
		if cname == "binary" {
			want, what = single(0x20), "zero-length binary"
		}
		r.add(rule, fmt.Sprintf("%s · empty-value form", fnName(fn)), fm.Pos, ts != nil && ts.Equal(want), fmt.Sprintf("emits %s, expected %s (%s)", ts.HexString(), want.HexString(), what))
	}
	var chunkConst int64 = -1
	var lenKey string
	for _, fm := range forms {
		n++
		h := len(fm.Octets)
		form := map[int]string{1: "short", 2: "medium", 3: "final"}[h]
		if fm.Kind == "bufchunk" {
			form = "chunk"
		}
		key := fmt.Sprintf("%s · %s form", fnName(fn), form)
		if form == "" {
			r.add(rule, fmt.Sprintf("%s · form with %d header octets", fnName(fn), h), fm.Pos, false, "no spec form has this header size")
			continue
		}
		var sl *specLen
		for i := range specLens {
			if specLens[i].Prod == cname && specLens[i].Form == form {
				sl = &specLens[i]
			}
		}
		wantTags := specTags(cname, form)
		ts, _ := f.ValueAt(fm.Octets[0], fm.Block)
		ok := ts != nil && !ts.Empty() && ts.SubsetOf(wantTags)
		fact := fmt.Sprintf("first octet %s ⊆ spec %s", ts.HexString(), wantTags.HexString())
		if !ok {
			fact = fmt.Sprintf("first octet %s ⊄ spec %s for the %s %s form", ts.HexString(), wantTags.HexString(), cname, form)
		}
		env := f.At(fm.Block)
		switch form {
		case "short", "medium":
			zero, base, sh, tok := f.tagPlusHigh(fm.Octets[0])
			wantShift := 0
			if form == "medium" {
				wantShift = 8
			}
			if !tok || zero != wantTags.Min().Int64() || sh != wantShift {
				ok = false
				fact += fmt.Sprintf("; first octet is not %#x + (length >> %d)", wantTags.Min().Int64(), wantShift)
				break
			}
			L, _ := f.Eval(base, env)
			if !L.SubsetOf(mkSet(sl.Lo, sl.Hi)) {
				ok = false
			}
			fact += fmt.Sprintf("; length ∈ %s (form carries %d..%d)", L, sl.Lo, sl.Hi)
			lenKey = base.Key()
			if form == "medium" {
				b2, s2, wok := f.octetWindow(fm.Octets[1])
				if !wok || b2.Key() != base.Key() || s2 != 0 {
					ok = false
					fact += "; second octet is not byte(length)"
				}
			}
		case "final":
			b1, s1, ok1 := f.octetWindow(fm.Octets[1])
			b2, s2, ok2 := f.octetWindow(fm.Octets[2])
			if !ok1 || !ok2 || s1 != 8 || s2 != 0 || b1.Key() != b2.Key() {
				ok = false
				fact += "; header is not byte(length>>8), byte(length)"
				break
			}
			L, _ := f.Eval(b1, env)
			if !L.SubsetOf(mkSet(sl.Lo, sl.Hi)) {
				ok = false
			}
			fact += fmt.Sprintf("; length ∈ %s (16-bit header)", L)
			lenKey = b1.Key()
		case "chunk":
			v1, _ := f.ValueAt(fm.Octets[1], fm.Block)
			v2, _ := f.ValueAt(fm.Octets[2], fm.Block)
			// the header constants live in init: evaluate there
			if g1, ok1 := w.constOf(fm.Octets[1]); ok1 {
				v1 = single(g1)
			}
			if g2, ok2 := w.constOf(fm.Octets[2]); ok2 {
				v2 = single(g2)
			}
			if v1 == nil || v2 == nil || len(v1) != 1 || len(v2) != 1 || v1.Card().Cmp(one) != 0 || v2.Card().Cmp(one) != 0 {
				ok = false
				fact += "; chunk length header is not constant"
				break
			}
			chunkConst = v1.Min().Int64()<<8 | v2.Min().Int64()
			fact += fmt.Sprintf("; chunk header length = %d", chunkConst)
			// payload slice [begin : begin+K]
			psl := findSlice(fm.Payload)
			if psl == nil || psl.High == nil || psl.Low == nil {
				ok = false
				fact += "; chunk payload is not a bounded slice"
				break
			}
			hi, lo := f.term(psl.High), f.term(psl.Low)
			if !(hi.K == TBin && hi.Op == token.ADD && ((hi.A.Key() == lo.Key() && hi.B.K == TConst && hi.B.C.Int64() == chunkConst) || (hi.B.Key() == lo.Key() && hi.A.K == TConst && hi.A.C.Int64() == chunkConst))) {
				ok = false
				fact += fmt.Sprintf("; chunk payload slice is not [begin : begin+%d]", chunkConst)
			}
		}
		r.add(rule, key, fm.Pos, ok, fact)
	}
	// chunk arithmetic: length starts at len(X), begin at 0, both step by the chunk size
	w.ruleChunkArith(r, rule, fn, f, chunkConst, lenKey, cname)
	r.floor(rule+" ("+cname+")", n, 4)
}

// constOf evaluates a value that lives in the package initialiser to a constant.
func (w *World) constOf(v ssa.Value) (int64, bool) {
	if k, ok := v.(*ssa.Const); ok && k.Value != nil {
		return k.Int64(), true
	}
	in, ok := v.(ssa.Instruction)
	if !ok || in.Parent() == nil {
		return 0, false
	}
	f := w.flow(in.Parent())
	s, _ := f.ValueAt(v, in.Block())
	if s != nil && s.Card().Cmp(one) == 0 {
		return s.Min().Int64(), true
	}
	return 0, false
}

func findSlice(v ssa.Value) *ssa.Slice {
	for i := 0; i < 6 && v != nil; i++ {
		switch x := v.(type) {
		case *ssa.Slice:
			return x
		case *ssa.Convert:
			v = x.X
		case *ssa.ChangeType:
			v = x.X
		default:
			return nil
		}
	}
	return nil
}

func (w *World) ruleChunkArith(r *Report, rule string, fn *ssa.Function, f *Flow, K int64, lenKey, cname string) {
	key := fnName(fn) + " · chunk arithmetic"
	if K < 0 {
		r.add(rule, key, w.pos(fn.Pos()), false, "no non-final chunk form found")
		return
	}
	var lenPhi, beginPhi *ssa.Phi
	var src ssa.Value
	for _, b := range fn.Blocks {
		for _, in := range b.Instrs {
			phi, ok := in.(*ssa.Phi)
			if !ok {
				break
			}
			if len(phi.Edges) != 2 {
				continue
			}
			for i := 0; i < 2; i++ {
				init, step := phi.Edges[i], phi.Edges[1-i]
				st := f.term(step)
				if st.K != TBin || st.B.K != TConst || st.A.Key() != f.term(phi).Key() || st.B.C.Int64() != K {
					continue
				}
				it := f.term(init)
				if st.Op == token.SUB && it.K == TPure && it.Name == "len" {
					lenPhi = phi
					if c, ok := init.(*ssa.Call); ok {
						src = c.Call.Args[0]
					}
				}
				if st.Op == token.ADD && it.K == TConst && it.C.Sign() == 0 {
					beginPhi = phi
				}
			}
		}
	}
	ok := lenPhi != nil && beginPhi != nil && src != nil
	fact := fmt.Sprintf("remaining length = φ(len(x), length-%d), begin = φ(0, begin+%d): invariant begin + length = len(x)", K, K)
	if !ok {
		fact = fmt.Sprintf("could not find the pair of loop variables stepping by the chunk size %d (remaining length from len(x) down, offset from 0 up)", K)
		r.add(rule, key, w.pos(fn.Pos()), false, fact)
		return
	}
	if lenKey != "" && lenKey != f.term(lenPhi).Key() {
		ok = false
		fact += "; the length written in the headers is not the loop's remaining length"
	}
	// loop guard: remaining > K
	guardOK := false
	for _, ref := range *lenPhi.Referrers() {
		if bo, isB := ref.(*ssa.BinOp); isB && bo.Op == token.GTR && bo.X == ssa.Value(lenPhi) {
			if k, isC := bo.Y.(*ssa.Const); isC && k.Int64() == K {
				guardOK = true
			}
		}
	}
	if !guardOK {
		ok = false
		fact += fmt.Sprintf("; the chunk loop is not guarded by length > %d", K)
	}
	// unit of length: []rune for strings, []byte for binary
	wantElem := "rune"
	if cname == "binary" {
		wantElem = "byte"
	}
	st, isSl := src.Type().Underlying().(*types.Slice)
	elem := ""
	if isSl {
		elem = typeStr(st.Elem())
		if elem == "int32" {
			elem = "rune"
		}
		if elem == "uint8" {
			elem = "byte"
		}
	}
	if elem != wantElem {
		ok = false
		fact += fmt.Sprintf("; lengths count elements of %s, want []%s", typeStr(src.Type()), wantElem)
	} else {
		fact += "; lengths count " + wantElem + "s"
	}
	// every payload slice cuts x at begin
	for _, fm := range w.bufForms(fn) {
		psl := findSlice(fm.Payload)
		if psl == nil || psl.X != src || psl.Low != ssa.Value(beginPhi) {
			ok = false
			fact += fmt.Sprintf("; payload at %s is not a slice of x starting at begin", fm.Pos)
		}
	}
	r.add(rule, key, w.pos(fn.Pos()), ok, fact)
}

// ruleLenReader: the length readers (getStringLen/getBinaryLen): per spec
// form, header octets pulled and the length range produced.
func (w *World) ruleLenReader(r *Report, rule, cname string) {
	c := w.codecs()[cname]
	if c == nil || c.Dec == nil {
		r.undecided(rule, cname+" decoder", "-", "not found")
		return
	}
	// the length reader: callee of the decoder with signature (ByteRuneReader, byte) (int, error)
	var lr *ssa.Function
	for _, cs := range w.callSitesIn(c.Dec) {
		sc := cs.call.Call.StaticCallee()
		if sc == nil || !w.inPkg(sc) {
			continue
		}
		sig := sc.Signature
		if sig.Params().Len() == 2 && sig.Results().Len() == 2 && typeStr(sig.Params().At(1).Type()) == "byte" && typeStr(sig.Results().At(0).Type()) == "int" {
			lr = sc
		}
	}
	if lr == nil {
		r.undecided(rule, fnName(c.Dec)+" · length reader", "-", "no callee of shape func(ByteRuneReader, byte) (int, error)")
		return
	}
	r.fnSeen(fnName(lr))
	f := w.flow(lr)
	forms, err := w.decForms(lr, f)
	if err != nil {
		r.undecided(rule, fnName(lr), "-", err.Error())
		return
	}
	n := 0
	for _, sl := range specLens {
		if sl.Prod != cname {
			continue
		}
		tags := specTags(cname, sl.Form)
		key := fmt.Sprintf("%s · spec form %s/%s", fnName(lr), cname, sl.Form)
		n++
		ok := true
		fact := ""
		ts, _ := tags.Elems(256)
		for _, t := range ts {
			var hit *DecForm
			for _, df := range forms {
				if df.Tags.Contains(t) && !df.IsErr {
					hit = df
				}
			}
			if hit == nil {
				ok, fact = false, fmt.Sprintf("tag x%02x is not accepted by the length reader", t)
				break
			}
			if hit.Payload != sl.HdrOctets || hit.Unknown {
				ok, fact = false, fmt.Sprintf("tag x%02x: %d header octets pulled, spec %d", t, hit.Payload, sl.HdrOctets)
				break
			}
			ret := hit.Block.Instrs[len(hit.Block.Instrs)-1].(*ssa.Return)
			L, _ := f.ValueAt(ret.Results[0], hit.Block)
			want := mkSet(sl.Lo, sl.Hi)
			if L == nil || !L.SubsetOf(want) {
				ok, fact = false, fmt.Sprintf("tag x%02x: length computed ∈ %s, spec range %s", t, L, want)
				break
			}
			fact = fmt.Sprintf("tags %s: %d header octet(s), length ∈ %s ⊆ %s", tags.HexString(), sl.HdrOctets, L, want)
		}
		r.add(rule, key, w.pos(lr.Pos()), ok, fact)
	}
	r.floor(rule+" ("+cname+")", n, 4)
}
