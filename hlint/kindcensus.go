package main

// Kind census: which reflect kinds reach an integer conversion of the value
// dispatch, read off the per-kind explorations (kindruns.go) instead of the
// Kind() facts of one function.  A conversion that lives in a leaf function
// reached through a table indexed by the kind (`leaf[kind](v)`), behind a bit
// test (`1<<kind & set != 0`) or in a helper has no Kind() fact of its own in
// the intraprocedural analysis; the explorations with the kind pinned do reach
// it — under exactly the kinds whose values can get there.
//
// It is used only for conversions of the result of reflect.Value.Int / Uint.
// The census is AUTHORITATIVE for a conversion only when every way into the
// function holding it leads through frames the explorations entered from the
// dispatch root (otherwise another caller could bring other kinds), and no
// exploration was truncated.

import (
	"sort"

	"golang.org/x/tools/go/ssa"
)

type kindCensus struct {
	ok    bool     // authoritative
	kinds []string // names of the kinds under which the conversion is executed
	src   ISet     // union of the operand sets over those kinds (nil: not evaluable)
}

func (w *World) censusOf(root *ssa.Function, side string, cv *ssa.Convert) kindCensus {
	if root == nil {
		return kindCensus{}
	}
	entered := map[*ssa.Function]bool{}
	out := kindCensus{ok: true}
	top := false
	// reflect.Value.Int / Uint panic unless the kind is an integer kind (Int … Uintptr):
	// no other kind can bring a value to a conversion of their result, and pinning
	// Ptr / Interface would make the unpacking loops of the dispatch endless
	for k := int64(2); k <= 12; k++ {
		kr := w.kindRun(root, k, side)
		if kr.truncated {
			return kindCensus{}
		}
		for f := range kr.entered {
			entered[f] = true
		}
		s, seen := kr.convs[cv]
		if kr.convTop[cv] {
			top, seen = true, true
		}
		if seen {
			out.kinds = append(out.kinds, kindNames[k])
			out.src = out.src.Union(s)
		}
	}
	if top {
		out.src = nil
	}
	sort.Strings(out.kinds)
	// every caller chain of the holder stays inside the explored frames
	memo := map[*ssa.Function]int{} // 1 = in progress, 2 = ok, 3 = not ok
	var auth func(f *ssa.Function) bool
	auth = func(f *ssa.Function) bool {
		if f == root {
			return true
		}
		switch memo[f] {
		case 1, 3:
			return false
		case 2:
			return true
		}
		memo[f] = 1
		ok := entered[f]
		if n := w.CG.Nodes[f]; ok && n != nil {
			if len(n.In) == 0 {
				ok = false
			}
			for _, e := range n.In {
				c := e.Caller.Func
				if c != nil && c.Synthetic != "" && !w.inPkg(c) {
					// a thunk / bound-method wrapper: its callers are what counts
					if cn := w.CG.Nodes[c]; cn != nil {
						for _, e2 := range cn.In {
							if !auth(e2.Caller.Func) {
								ok = false
							}
						}
						continue
					}
				}
				if !auth(c) {
					ok = false
				}
			}
		} else {
			ok = false
		}
		if ok {
			memo[f] = 2
		} else {
			memo[f] = 3
		}
		return ok
	}
	if len(out.kinds) == 0 || !auth(cv.Parent()) {
		return kindCensus{}
	}
	return out
}

func intersectNames(a, b []string) []string {
	in := map[string]bool{}
	for _, x := range b {
		in[x] = true
	}
	var out []string
	for _, x := range a {
		if in[x] {
			out = append(out, x)
		}
	}
	return out
}

// convOnKindPaths: on the paths of kind k of the decoder's field dispatch some
// integer conversion from type src to type dst is executed.
func (w *World) convOnKindPaths(root *ssa.Function, k int64, src, dst string) bool {
	kr := w.kindRun(root, k, "dec")
	if kr.truncated {
		return false
	}
	for cv := range kr.convs {
		if typeStr(cv.X.Type()) == src && typeStr(cv.Type()) == dst {
			return true
		}
	}
	for cv := range kr.convTop {
		if typeStr(cv.X.Type()) == src && typeStr(cv.Type()) == dst {
			return true
		}
	}
	return false
}
