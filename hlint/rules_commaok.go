package main

// Comma-ok discipline (C05.R7 / C03.R12 / C01): what a lookup or a type
// assertion hands back is used on the side where it succeeded.
//
// `typ, ok := d.typMap[name]` — the class reader, the typed-map and typed-list
// readers, the field binder, the ref table and the name map all decide between
// "registered" and "not registered" this way, and the value is the zero value
// on the failing side.  Obligation per comma-ok map lookup or type assertion
// of the package whose ok result is tested by an `if`: every use of the value
// result (φ-nodes apart: a default substituted on the failing side is a merge,
// not a use) lies on the side where ok holds, i.e. is dominated by that
// successor.  An inverted test (`if ok { return errUndefined }`) sends every
// registered type to the error and the zero type into the reader.

import (
	"fmt"
	"go/token"
	"go/types"

	"golang.org/x/tools/go/ssa"
)

func (w *World) ruleCommaOkSides(r *Report, rule string, min int, want func(fn *ssa.Function) bool) {
	n := 0
	for _, fn := range w.SrcFuncs() {
		if want != nil && !want(fn) {
			continue
		}
		cnt := 0
		for _, b := range fn.Blocks {
			for _, in := range b.Instrs {
				var tuple ssa.Value
				kind := ""
				switch x := in.(type) {
				case *ssa.Lookup:
					if x.CommaOk {
						tuple, kind = x, "lookup"
					}
				case *ssa.TypeAssert:
					// an assertion to a concrete type: its zero value is never what is meant on
					// failure; to an interface type nil is a common "absent" default — not judged
					if _, isIface := x.AssertedType.Underlying().(*types.Interface); x.CommaOk && !isIface {
						tuple, kind = x, "type assertion"
					}
				}
				if tuple == nil {
					continue
				}
				var val, okv *ssa.Extract
				for _, ref := range *tuple.Referrers() {
					if ex, ok := ref.(*ssa.Extract); ok {
						if ex.Index == 0 {
							val = ex
						} else {
							okv = ex
						}
					}
				}
				if val == nil || okv == nil {
					continue
				}
				// the if on ok (directly or negated)
				var okSide *ssa.BasicBlock
				for _, ref := range *okv.Referrers() {
					cond := ssa.Value(okv)
					neg := false
					if u, isU := ref.(*ssa.UnOp); isU && u.Op == token.NOT {
						cond, neg = u, true
						for _, r2 := range *u.Referrers() {
							if iff, isIf := r2.(*ssa.If); isIf && iff.Cond == cond {
								okSide = iff.Block().Succs[1]
							}
						}
						continue
					}
					if iff, isIf := ref.(*ssa.If); isIf && iff.Cond == cond && !neg {
						okSide = iff.Block().Succs[0]
					}
				}
				if okSide == nil || len(okSide.Preds) != 1 {
					continue // ok is combined with other conditions or not tested by an if of its own
				}
				// `flag := ok && other` / `ok || other`: the if on ok is the short circuit of a
				// compound condition whose result is tested later — the uses are governed by
				// that result, which this rule does not follow: not an instance
				compound := false
				ifb := okSide.Preds[0]
				for _, sx := range ifb.Succs {
					for _, pi := range sx.Instrs {
						phi, isPhi := pi.(*ssa.Phi)
						if !isPhi {
							break
						}
						for i, e := range phi.Edges {
							if sx.Preds[i] == ifb {
								if _, isC := e.(*ssa.Const); isC && typeStr(phi.Type()) == "bool" {
									compound = true
								}
							}
						}
					}
				}
				if compound {
					continue
				}
				n++
				cnt++
				bad := ""
				uses := 0
				for _, ref := range *val.Referrers() {
					switch ref.(type) {
					case *ssa.Phi, *ssa.DebugRef:
						continue
					case *ssa.Return:
						continue // handed back beside the flag that says it is not valid
					case *ssa.Store:
						continue // spilled to a variable cell (captured by a closure): its later reads are not followed
					case *ssa.Call:
						// handed to a helper together with the flag (or a flag merged from it):
						// the helper decides, as with a return beside the flag
						c := ref.(*ssa.Call)
						withFlag := false
						for _, a := range c.Call.Args {
							if a == ssa.Value(okv) {
								withFlag = true
							}
							if ph, isPhi := a.(*ssa.Phi); isPhi && typeStr(ph.Type()) == "bool" {
								for _, e := range ph.Edges {
									if e == ssa.Value(okv) {
										withFlag = true
									}
								}
							}
						}
						if withFlag {
							continue
						}
					}
					uses++
					ub := ref.Block()
					if ub != okSide && !okSide.Dominates(ub) {
						bad = w.instrPos(ref)
					}
				}
				o := r.add(rule, fmt.Sprintf("%s · %s #%d", fnName(fn), kind, cnt), w.instrPos(in), bad == "", map[bool]string{
					true:  fmt.Sprintf("the %d uses of the value lie on the side where ok holds", uses),
					false: "the value is used at " + bad + " outside the side where ok holds: there it is the zero value (an unregistered type, a missing entry) — or the test is inverted and the successful lookups take the failure branch"}[bad == ""])
				o.Trivial = bad == "" && uses == 0
			}
		}
	}
	r.floor(rule+" (comma-ok lookups and assertions tested by an if)", n, min)
}
