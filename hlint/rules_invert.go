package main

// "The decoder rebuilds the number the encoder was given" — decided per wire
// form and per tag in the bit-provenance domain (bitprov.go).
//
// For every form f of a numeric encoder (octet terms over the encoder's
// input, from the path explorer) and every first octet t the form can emit:
// the decoder is explored with its tag fixed to t; its result is a term over
// the stream octets <in@k>; substituting the k-th payload octet term of f for
// <in@k> gives the decoded number as a function of the encoder's input; that
// function must be the identity on the set of inputs that take form f with
// tag t (their interval fixes the bits above the form's width).  The result
// is a proof for all inputs of the form, not a sample: a dropped sign
// extension, a zero extension where the payload is signed, swapped or missing
// octets, a wrong zero point of a compact tag all change some bit expression.

import (
	"fmt"
	"go/types"
	"math/big"
	"strings"

	"golang.org/x/tools/go/ssa"
)

func isFloatType(t types.Type) bool {
	b, ok := t.Underlying().(*types.Basic)
	return ok && b.Info()&types.IsFloat != 0
}

// callName: the qualified name of the call a term stands for (a recorded
// call or a leaf whose SSA value is a call).
func callName(t *Term) string {
	if t == nil {
		return ""
	}
	if t.K == TPure && strings.Contains(t.key, "call:") {
		return t.Name
	}
	if c, ok := t.V.(*ssa.Call); ok && c.Call.StaticCallee() != nil {
		return qualifiedFnName(c.Call.StaticCallee())
	}
	return ""
}

func (w *World) ruleDecoderInverts(r *Report, rule, cname string) {
	c := w.codecs()[cname]
	if c == nil || c.Enc == nil || c.Dec == nil || len(c.Enc.Params) == 0 {
		r.undecided(rule, cname+" codec", "-", "encoder / decoder not found")
		return
	}
	ei := w.encForms(c.Enc)
	if ei.px.Truncated {
		r.undecided(rule, fnName(c.Enc), w.pos(c.Enc.Pos()), "path exploration of the encoder exceeded its budget")
		return
	}
	dt := w.decTable(c.Dec)
	pv := "<p:" + c.Enc.Params[0].Name() + ">"
	n := 0
	for _, fm := range ei.forms {
		if fm.IsErr || fm.IsNil || fm.Unknown || fm.Open || len(fm.Oct) == 0 || fm.Oct[0] == nil {
			continue
		}
		tags, _ := ei.px.evalOver(fm, fm.Oct[0])
		if tags == nil || tags.Empty() || tags.Card().Cmp(big.NewInt(64)) > 0 {
			continue
		}
		// the quantity V the payload carries: the common base of the octet windows
		var V *Term
		okBase := true
		for i := 1; i < len(fm.Oct); i++ {
			b, sh, ok := w.termWindow(fm.Oct[i])
			if !ok || sh != 8*(len(fm.Oct)-1-i) {
				okBase = false
				break
			}
			b = stripConv(w, b)
			if V == nil {
				V = b
			} else if V.key != b.key {
				okBase = false
			}
		}
		zero, tb, tsh, tagOK := w.termTagPlus(fm.Oct[0])
		if tagOK {
			tb = stripConv(w, tb)
		}
		if V == nil && tagOK && tb != nil && tb.K != TConst {
			V = tb // the tag alone carries the value
		}
		form := fmt.Sprintf("%s form x%02x", cname, tags.Min().Int64())
		if tags.Card().Cmp(one) != 0 {
			form = fmt.Sprintf("%s form x%02x-x%02x", cname, tags.Min().Int64(), tags.Max().Int64())
		}
		if V == nil {
			// a constant form (x5b = 0.0, x5c = 1.0, N): no number travels
			continue
		}
		n++
		key := fnName(c.Dec) + " ∘ " + fnName(c.Enc) + " · " + form
		if !okBase {
			r.add(rule, key, fm.Pos, false, "the payload octets are not the big-endian windows of one quantity")
			continue
		}
		E, _ := ei.px.evalOver(fm, V)
		if E == nil || E.Empty() {
			r.undecided(rule, key, fm.Pos, "the set of inputs taking this form could not be evaluated")
			continue
		}
		okAll, fact, checked := true, "", 0
		var lastSummary string
		for _, iv := range tags {
			for t := new(big.Int).Set(iv.Lo); t.Cmp(iv.Hi) <= 0; t.Add(t, one) {
				tg := int(t.Int64())
				// inputs of the form that carry tag tg
				Et := E
				if tagOK && tb != nil && tb.K != TConst && tb.key == V.key {
					q0 := new(big.Int).Rsh(E.Min(), uint(tsh))
					q1 := new(big.Int).Rsh(E.Max(), uint(tsh))
					var q *big.Int
					for x := new(big.Int).Set(q0); x.Cmp(q1) <= 0; x.Add(x, one) {
						d := new(big.Int).Sub(new(big.Int).Add(x, big.NewInt(zero)), big.NewInt(int64(tg)))
						if new(big.Int).Mod(d, big.NewInt(256)).Sign() == 0 {
							q = new(big.Int).Set(x)
							break
						}
					}
					if q == nil {
						continue // no input of the form maps to this tag
					}
					lo := new(big.Int).Lsh(q, uint(tsh))
					hi := new(big.Int).Add(lo, new(big.Int).Sub(new(big.Int).Lsh(one, uint(tsh)), one))
					Et = E.Intersect(ISet{{lo, hi}})
					if Et.Empty() {
						continue
					}
				}
				run := dt.at(tg)
				if !run.OK || run.Result == nil {
					okAll = false
					fact = fmt.Sprintf("tag x%02x: the decoder has no successful return for a tag the encoder emits", tg)
					break
				}
				R, want := run.Result, "integer"
				org := run.Origin
				if R.K == TConv && isFloatType(R.T) {
					R = R.A
					want = "float-of-integer"
					if run.State != nil {
						if o2 := run.State.originOf(R); o2 != nil {
							org = o2
						}
					}
				}
				if org != nil {
					switch nm := callName(org); nm {
					case "time.Unix", "time.UnixMilli", "math.Float64frombits", "math.Float32frombits":
						R, want = org.Args[0], nm
					}
				}
				// the decoder's constructor must match the quantity the encoder sent
				vName := callName(V)
				if V.K == TPure {
					vName = V.Name
				}
				match := true
				switch want {
				case "time.Unix":
					match = vName == "(time.Time).Unix"
				case "time.UnixMilli":
					match = vName == "(time.Time).UnixMilli"
				case "math.Float64frombits":
					match = vName == "math.Float64bits"
				case "math.Float32frombits":
					match = vName == "math.Float32bits"
				case "integer":
					match = V.key == pv
				case "float-of-integer":
					match = strings.HasPrefix(V.key, "conv:int") && strings.HasSuffix(V.key, "("+pv+")")
				}
				if !match {
					okAll = false
					fact = fmt.Sprintf("tag x%02x: the encoder sends %s but the decoder rebuilds the value with %s", tg, V.key, want)
					break
				}
				bp := &bitProv{w: w, subst: map[string]*Term{}, env: run.Env, ranges: map[string]ISet{V.key: Et}}
				for k := 1; k < len(fm.Oct); k++ {
					bp.subst[fmt.Sprintf("<in@%d>", k-1)] = fm.Oct[k]
				}
				got, ok := bp.bits(R)
				if !ok {
					okAll = false
					fact = fmt.Sprintf("tag x%02x: the decoded value %s is outside the bit-provenance vocabulary (%s)", tg, R.key, bp.why)
					break
				}
				wantVec := bp.symbol(V.key, V.T)
				// a payload narrower than the quantity: the decoder's result type decides the width compared
				if d := got.diff(wantVec); d != "" {
					okAll = false
					fact = fmt.Sprintf("tag x%02x, inputs %s: decoded value ≠ encoded value: %s (decoder computes %s)", tg, Et, d, R.key)
					break
				}
				checked++
				lastSummary = got.summary()
			}
			if !okAll {
				break
			}
		}
		if okAll {
			fact = fmt.Sprintf("for all inputs %s of the form and each of its %d tag(s) the decoder's result, with the stream octets replaced by the encoder's octet terms, equals %s bit for bit (%s)", E, checked, V.key, lastSummary)
			if checked == 0 {
				okAll = false
				fact = "no tag of the form could be related to its inputs"
			}
		}
		r.add(rule, key, fm.Pos, okAll, fact)
	}
	min := map[string]int{"int": 4, "long": 5, "double": 4, "date": 2}[cname]
	r.floor(rule+" ("+cname+")", n, min)
}
