package main

// C16.R2 (path form) — a container is never left without a descent.
//
// The value walk is explored path by path.  On every path that has passed the
// extractor's verdict and established that the value is a slice, an array or
// a map, at least one recursive walk call is made: either over the elements
// (the facts of the path must then force a first iteration: Len() != 0) or,
// when there is none to look at, over reflect.New of the element type.  A test
// for "nothing to look at" that is narrower than Len() == 0 — only nil slices,
// only slices but not arrays — leaves a path on which an empty container of
// that kind is skipped, and every struct type reachable only through it is
// missing from the maps (they then depend on whether the witness value had an
// empty or a nil container).

import (
	"fmt"
	"os"
	"strings"

	"golang.org/x/tools/go/ssa"
)

var walkGetters = map[string]bool{
	"(reflect.Value).Elem": true, "(reflect.Value).IsNil": true, "(reflect.Value).IsValid": true,
	"(reflect.Value).MapKeys": true, "(reflect.Value).Len": true, "(reflect.Value).Kind": true,
	"(reflect.Value).Type": true, "(reflect.Value).NumField": true,
}

func (w *World) ruleEmptyContainersDescended(r *Report, rule string, ev *ssa.Function) {
	_ = w.valueWalkOf(ev)
	type outcome struct {
		kind  string
		calls int
		pos   string
	}
	var outs []outcome
	calls := "__walkcalls"
	var px *PX
	px = w.newPX(pxHooks{
		onInstr: func(fr *pxFrame, in ssa.Instruction, st *pxState) bool {
			c, ok := in.(*ssa.Call)
			if !ok {
				return true
			}
			if sc := c.Call.StaticCallee(); sc != nil && sc == ev {
				n := 0
				if v, ok := st.vals[calls]; ok {
					n = int(v.C.Int64())
				}
				st.vals[calls] = &Term{K: TConst, C: bi(int64(n + 1)), key: fmt.Sprint(n + 1)}
				return false
			}
			return true
		},
		inline: func(fr *pxFrame, callee *ssa.Function) bool { return callee != ev },
		onReturn: func(fr *pxFrame, ret *ssa.Return, results []*Term, st *pxState) {
			n := 0
			if v, ok := st.vals[calls]; ok {
				n = int(v.C.Int64())
			}
			// the path has narrowed some value's Kind to container kinds only (one kind, or
			// a class such as {Array, Slice} when the test goes through a kind table)
			if os.Getenv("HLINT_DEBUG") != "" {
				for k, s := range st.env {
					if strings.Contains(k, "Kind") || strings.Contains(k, "fin:") {
						fmt.Fprintf(os.Stderr, "c16empty ret %s: %s ∈ %s\n", w.instrPos(ret), k, s)
					}
				}
			}
			containers := ISet{{bi(17), bi(17)}, {bi(21), bi(21)}, {bi(23), bi(23)}}
			for k, s := range st.env {
				if !strings.HasPrefix(k, "pure:(reflect.Value).Kind(") || s.Empty() || !s.SubsetOf(containers) {
					continue
				}
				for kv, name := range map[int64]string{17: "Array", 21: "Map", 23: "Slice"} {
					if s.Contains(kv) {
						outs = append(outs, outcome{name, n, w.instrPos(ret)})
					}
				}
			}
		},
	})
	px.extraPure = walkGetters
	px.Run(ev, nil)
	if px.Truncated {
		r.undecided(rule, fnName(ev)+" · empty containers", w.pos(ev.Pos()), "path exploration exceeded its budget")
		return
	}
	seen := map[string]bool{}
	for _, kind := range []string{"Slice", "Array", "Map"} {
		total, bad, pos := 0, 0, ""
		for _, o := range outs {
			if o.kind != kind {
				continue
			}
			total++
			if o.calls == 0 {
				bad++
				pos = o.pos
			}
		}
		if total == 0 {
			r.undecided(rule, fnName(ev)+" · kind "+kind, w.pos(ev.Pos()), "no explored path establishes this kind: the walk does not handle it or was not recognised")
			continue
		}
		seen[kind] = true
		fact := fmt.Sprintf("%d paths establish Kind() == %s; each makes at least one recursive walk call (over the elements, or over reflect.New of the element type when Len() == 0)", total, kind)
		if bad > 0 {
			fact = fmt.Sprintf("%d of %d paths that establish Kind() == %s return (at %s) without any recursive walk call: a container with nothing in it is skipped instead of being descended by type — types reachable only through it are missing from the maps", bad, total, kind, pos)
		}
		r.add(rule, fnName(ev)+" · kind "+kind+" is always descended", w.pos(ev.Pos()), bad == 0, fact)
	}
	r.floor(rule+" (container kinds explored)", len(seen), 3)
}

// ---- C16.R2 for the type walk ----

var typeGetters = map[string]bool{
	"(reflect.Type).Key": true, "(reflect.Type).Elem": true, "(reflect.Type).Kind": true, "(reflect.Type).NumField": true,
}

// ruleTypeWalkDescends: a path of a type walker (func(reflect.Type, map))
// that returns without a recursive call has proven that the innermost type it
// looked at is not a slice, an array or a map.  A walker that unwraps a list
// type once and carries on (instead of recursing) returns on [][]T with the
// inner slice neither descended nor excluded: T is missing from the map.
func (w *World) ruleTypeWalkDescends(r *Report, rule string) {
	n := 0
	for _, fn := range w.SrcFuncs() {
		if !isTypeWalker(fn) || len(w.typeWalkRecCalls(fn)) == 0 {
			continue
		}
		n++
		total, bad, pos, why := 0, 0, "", ""
		calls := "__reccalls"
		var px *PX
		px = w.newPX(pxHooks{
			onInstr: func(fr *pxFrame, in ssa.Instruction, st *pxState) bool {
				c, ok := in.(*ssa.Call)
				if !ok {
					return true
				}
				if sc := c.Call.StaticCallee(); sc != nil && w.inPkg(sc) && isTypeWalker(sc) {
					st.vals[calls] = &Term{K: TConst, C: bi(1), key: "1"}
					return false
				}
				return true
			},
			onReturn: func(fr *pxFrame, ret *ssa.Return, results []*Term, st *pxState) {
				total++
				if _, rec := st.vals[calls]; rec {
					return
				}
				// the innermost type term the path has a Kind fact about
				inner, innerKey := ISet(nil), ""
				for k, s := range st.env {
					if !strings.HasPrefix(k, "pure:(reflect.Type).Kind(") {
						continue
					}
					arg := strings.TrimSuffix(strings.TrimPrefix(k, "pure:(reflect.Type).Kind("), ")")
					if innerKey == "" || strings.Contains(arg, innerKey) && len(arg) > len(innerKey) {
						inner, innerKey = s, arg
					}
				}
				if innerKey == "" {
					return
				}
				for _, k := range []int64{17, 21, 23} {
					if inner.Contains(k) {
						bad++
						pos = w.instrPos(ret)
						why = fmt.Sprintf("Kind(%s) ∈ %s", innerKey, inner)
						return
					}
				}
			},
		})
		px.extraPure = typeGetters
		px.Run(fn, nil)
		key := fnName(fn) + " · returns without recursion only on non-container types"
		if px.Truncated {
			r.undecided(rule, key, w.pos(fn.Pos()), "path exploration exceeded its budget")
			continue
		}
		fact := fmt.Sprintf("%d paths; every path without a recursive call has excluded slice, array and map for the innermost type it examined", total)
		if bad > 0 {
			fact = fmt.Sprintf("%d of %d paths return (e.g. at %s) without a recursive call while the innermost type examined may still be a slice, array or map (%s): a nested list/map type is neither descended nor excluded, its element types are missing from the map", bad, total, pos, why)
		}
		r.add(rule, key, w.pos(fn.Pos()), bad == 0, fact)
	}
	r.floor(rule+" (type walkers)", n, 1)
}
