package main

import (
	"fmt"
	"go/token"
	"go/types"
	"sort"
	"strings"

	"golang.org/x/tools/go/ssa"
)

func init() {
	register("C06", rulesC06,
		"Decides structural necessary conditions of 'n writes read back as n values, exact framing, no internal carrier': "+
			"R1 carrier taint — the set of concrete types that can flow into the interface{} result of every documented decode entry point (fixpoint over returns, φ, calls and spilled named results) contains neither reflect.Value nor *_refHolder, i.e. the result passes the unwrapping helper; R1b the same for values stored into a []interface{} element or a map[interface{}]interface{} entry of a container that is handed back; "+
			"R2 self-delimiting scalars — for every encoder form the paired decoder pulls exactly the remaining octets (int, long, double, date, bool), string/binary headers are pulled octet for octet by the length readers, string payloads are read rune-wise and binary payloads octet-wise, exactly length units; "+
			"R3 loop exit discipline of every container reader loop: exits only through the counter, the mode flag, an error return, or the terminator report; never on a decoded value being nil; an unbounded loop has a terminator exit that really leaves; "+
			"R4 a failed read at a tag/header position is returned as a non-nil error (never (nil,nil), never bound to _); "+
			"R5 the streaming entry points (WriteObject/ReadObject/Serializer.Write/Read) reach neither Reset nor a re-assignment of a per-stream field, and construct no buffered reader (no read-ahead). "+
			"Does NOT decide equality of the n values.",
		"obligation = one entry point / container store / codec form / loop exit / tag-position read / streaming entry; non-trivial = needs the taint fixpoint, a path argument or tag sets",
		"ReadData, ReadList, ReadLenTagObject are exported but are the recursion's internals (listed exception): they are not accepted as an entry point's result without unwrapping")
}

// ---- carrier taint ----

type typeFlow struct {
	w     *World
	memo  map[*ssa.Function]map[string]bool
	stack map[*ssa.Function]bool
	sani  map[*ssa.Function]bool
	// function values (rules_c06_fv.go): what the function-valued parameters /
	// fields of the helper being evaluated denote at the call site considered
	bind    map[fvKey][]*ssa.Function
	viaBusy map[*ssa.Parameter]bool
}

func carrierName(t types.Type) (string, bool) {
	s := typeStr(t)
	if s == "reflect.Value" || s == "*hessian._refHolder" {
		return s, true
	}
	return s, false
}

// isSanitizer: a function with an interface{} parameter that is comma-ok
// asserted against every carrier type (EnsureInterface's shape).
func (tf *typeFlow) isSanitizer(fn *ssa.Function) bool {
	if v, ok := tf.sani[fn]; ok {
		return v
	}
	res := false
	if fn.Blocks != nil && len(fn.Params) >= 1 && fn.Signature.Results().Len() >= 1 {
		if _, isIface := fn.Params[0].Type().Underlying().(*types.Interface); isIface {
			if _, resIface := fn.Signature.Results().At(0).Type().Underlying().(*types.Interface); resIface {
				seen := map[string]bool{}
				for _, b := range fn.Blocks {
					for _, in := range b.Instrs {
						if ta, ok := in.(*ssa.TypeAssert); ok && ta.CommaOk {
							if n, isC := carrierName(ta.AssertedType); isC {
								seen[n] = true
							}
						}
					}
				}
				res = seen["reflect.Value"] && seen["*hessian._refHolder"]
			}
		}
	}
	tf.sani[fn] = res
	return res
}

// resultTypes: concrete types that may flow into result #0 of fn.
func (tf *typeFlow) resultTypes(fn *ssa.Function) map[string]bool {
	if m, ok := tf.memo[fn]; ok {
		return m
	}
	if tf.stack[fn] {
		return map[string]bool{}
	}
	tf.stack[fn] = true
	defer delete(tf.stack, fn)
	out := map[string]bool{}
	if fn.Blocks == nil {
		out["ext:"+qualifiedFnName(fn)] = true
		return out
	}
	for _, b := range fn.Blocks {
		ret, ok := b.Instrs[len(b.Instrs)-1].(*ssa.Return)
		if !ok || len(ret.Results) == 0 {
			continue
		}
		// returns on a provably-error path carry no value
		if idx := errIndex(fn.Signature); idx > 0 {
			if tf.w.nonNilErr(ret.Results[idx], nil, nil, 0) && isNilConst(ret.Results[0]) {
				continue
			}
			// `return v, err` on the edge where err was tested non-nil: the value is not used by callers
			f := tf.w.flow(fn)
			if env := f.At(b); env != nil {
				if s, has := env["("+f.term(ret.Results[idx]).Key()+" != nil:error)"]; has && s.Equal(single(1)) {
					continue
				}
			}
		}
		addExcl(out, tf.typesOf(ret.Results[0], fn, map[ssa.Value]bool{}), assertedFalseDominating(ret.Results[0], b))
	}
	tf.memo[fn] = out
	return out
}

func (tf *typeFlow) typesOf(v ssa.Value, fn *ssa.Function, seen map[ssa.Value]bool) map[string]bool {
	out := map[string]bool{}
	if seen[v] {
		return out
	}
	seen[v] = true
	add := func(m map[string]bool) {
		for k := range m {
			out[k] = true
		}
	}
	switch x := v.(type) {
	case *ssa.Const:
	case *ssa.MakeInterface:
		n, _ := carrierName(x.X.Type())
		out[n] = true
	case *ssa.ChangeInterface:
		add(tf.typesOf(x.X, fn, seen))
	case *ssa.Phi:
		for i, e := range x.Edges {
			// on the false edge of a comma-ok assertion of e the asserted type is excluded
			excl := assertedFalseOnEdge(e, x.Block().Preds[i], x.Block())
			addExcl(out, tf.typesOf(e, fn, seen), excl)
		}
	case *ssa.Extract:
		if c, ok := x.Tuple.(*ssa.Call); ok && x.Index == 0 {
			add(tf.callTypes(c, fn, seen))
		} else if ta, ok := x.Tuple.(*ssa.TypeAssert); ok && x.Index == 0 {
			n, _ := carrierName(ta.AssertedType)
			out[n] = true
		} else {
			out["?extract"] = true
		}
	case *ssa.Call:
		add(tf.callTypes(x, fn, seen))
	case *ssa.UnOp:
		if x.Op == token.MUL {
			if al, ok := x.X.(*ssa.Alloc); ok {
				// spilled local / named result: union over its stores
				for _, st := range storesTo(al, fn) {
					add(tf.typesOf(st, fn, seen))
				}
				return out
			}
		}
		out["?load"] = true
	case *ssa.Parameter:
		// a function only ever called through a function value has no static call
		// site to substitute its parameter at: resolve it through the value's call sites
		if ts, ok := tf.paramViaValue(x); ok {
			add(ts)
		} else {
			out["param:"+x.Name()] = true
		}
	case *ssa.TypeAssert:
		add(tf.typesOf(x.X, fn, seen))
	default:
		if _, isIface := v.Type().Underlying().(*types.Interface); !isIface {
			n, _ := carrierName(v.Type())
			out[n] = true
		} else {
			out["?"+fmt.Sprintf("%T", v)] = true
		}
	}
	return out
}

// addExcl adds the types of m to out, dropping the excluded concrete types;
// an unresolved parameter keeps the exclusion for substitution at call sites.
func addExcl(out, m map[string]bool, excl []string) {
	ex := map[string]bool{}
	for _, e := range excl {
		ex[e] = true
	}
	for k := range m {
		if ex[k] {
			continue
		}
		if strings.HasPrefix(k, "param:") && len(excl) > 0 {
			base, old := k, ""
			if j := strings.Index(k, "\\"); j >= 0 {
				base, old = k[:j], k[j+1:]
			}
			all := map[string]bool{}
			for _, e := range strings.Split(old, ",") {
				if e != "" {
					all[e] = true
				}
			}
			for _, e := range excl {
				all[e] = true
			}
			k = base + "\\" + strings.Join(sortedKeys(all), ",")
		}
		out[k] = true
	}
}

// assertedFalseOnEdge: types T such that pred ends in `if ok` of
// `_, ok := e.(T)` and the edge pred→to is the false edge.
func assertedFalseOnEdge(e ssa.Value, pred, to *ssa.BasicBlock) []string {
	iff, ok := pred.Instrs[len(pred.Instrs)-1].(*ssa.If)
	if !ok || pred.Succs[1] != to || pred.Succs[0] == to {
		return nil
	}
	ex, ok := iff.Cond.(*ssa.Extract)
	if !ok || ex.Index != 1 {
		return nil
	}
	ta, ok := ex.Tuple.(*ssa.TypeAssert)
	if !ok || !ta.CommaOk || ta.X != e {
		return nil
	}
	n, _ := carrierName(ta.AssertedType)
	return append([]string{n}, assertedFalseDominating(e, pred)...)
}

// assertedFalseDominating: types T for which block b is dominated by the
// false successor of an `if ok` on `_, ok := e.(T)`.
func assertedFalseDominating(e ssa.Value, b *ssa.BasicBlock) []string {
	var out []string
	refs := e.Referrers()
	if refs == nil {
		return nil
	}
	for _, ref := range *refs {
		ta, ok := ref.(*ssa.TypeAssert)
		if !ok || !ta.CommaOk {
			continue
		}
		for _, r2 := range *ta.Referrers() {
			ex, ok := r2.(*ssa.Extract)
			if !ok || ex.Index != 1 {
				continue
			}
			for _, r3 := range *ex.Referrers() {
				iff, ok := r3.(*ssa.If)
				if !ok {
					continue
				}
				fs := iff.Block().Succs[1]
				if fs != iff.Block().Succs[0] && len(fs.Preds) == 1 && fs.Dominates(b) {
					n, _ := carrierName(ta.AssertedType)
					out = append(out, n)
				}
			}
		}
	}
	return out
}

// storesTo: values stored into alloc al by fn or by closures of fn that
// capture it.
func storesTo(al *ssa.Alloc, fn *ssa.Function) []ssa.Value {
	var out []ssa.Value
	// a store followed by another store to the same cell in the same block is dead at the block's end
	killed := map[*ssa.Store]bool{}
	for _, b := range fn.Blocks {
		var last *ssa.Store
		for _, in := range b.Instrs {
			if st, ok := in.(*ssa.Store); ok && st.Addr == ssa.Value(al) {
				if last != nil {
					killed[last] = true
				}
				last = st
			}
		}
	}
	for _, ref := range *al.Referrers() {
		switch x := ref.(type) {
		case *ssa.Store:
			if x.Addr == al && !killed[x] {
				out = append(out, x.Val)
			}
		case *ssa.MakeClosure:
			cf := x.Fn.(*ssa.Function)
			for i, bnd := range x.Bindings {
				if bnd != ssa.Value(al) {
					continue
				}
				fv := cf.FreeVars[i]
				for _, r2 := range *fv.Referrers() {
					if st, ok := r2.(*ssa.Store); ok && st.Addr == ssa.Value(fv) {
						out = append(out, st.Val)
					}
				}
			}
		}
	}
	return out
}

func (tf *typeFlow) callTypes(c *ssa.Call, fn *ssa.Function, seen map[ssa.Value]bool) map[string]bool {
	out := map[string]bool{}
	callees := tf.w.calleesOf(c)
	if c.Call.StaticCallee() == nil && !c.Call.IsInvoke() {
		// a function value: under a call-site binding, exactly the functions bound;
		// method values are called through their wrapper
		if k, ok := fvKeyOf(c.Call.Value); ok && tf.bind != nil {
			if fs, ok := tf.bind[k]; ok {
				callees = fs
			}
		}
		var through []*ssa.Function
		for _, cal := range callees {
			through = append(through, tf.w.throughWrapper(cal))
		}
		callees = through
	}
	if len(callees) == 0 {
		out["ext:dynamic"] = true
		return out
	}
	for _, cal := range callees {
		if qualifiedFnName(cal) == "(reflect.Value).Interface" {
			// the content of a reflect.Value: the decoder's ref list holds
			// reflect.ValueOf(holder) for lists, so a generic Value may unwrap to
			// the holder; the holder's own `value` field is the slice itself
			out["dyn"] = true
			recv := c.Call.Args[0]
			fromHolderField := false
			if ld, ok := recv.(*ssa.UnOp); ok && ld.Op == token.MUL {
				if fa, ok := ld.X.(*ssa.FieldAddr); ok && strings.HasSuffix(typeStr(fa.X.Type()), "_refHolder") {
					fromHolderField = true
				}
			}
			if fld, ok := recv.(*ssa.Field); ok && strings.HasSuffix(typeStr(fld.X.Type()), "_refHolder") {
				fromHolderField = true
			}
			if !fromHolderField {
				out["*hessian._refHolder"] = true
			}
			continue
		}
		if !tf.w.inPkg(cal) {
			out["ext:"+qualifiedFnName(cal)] = true
			continue
		}
		res := cal.Signature.Results()
		if res.Len() == 0 {
			continue
		}
		if _, isIface := res.At(0).Type().Underlying().(*types.Interface); !isIface {
			n, _ := carrierName(res.At(0).Type())
			out[n] = true
			continue
		}
		for k := range tf.resultTypes(cal) {
			if strings.HasPrefix(k, "param:") {
				// the callee returns its parameter (minus the types it asserted away): substitute the argument
				base, exclS := k, ""
				if j := strings.Index(k, "\\"); j >= 0 {
					base, exclS = k[:j], k[j+1:]
				}
				excl := map[string]bool{}
				for _, e := range strings.Split(exclS, ",") {
					if e != "" {
						excl[e] = true
					}
				}
				for i, p := range cal.Params {
					if "param:"+p.Name() == base {
						ai := i
						if cal.Signature.Recv() != nil {
							// Params includes the receiver; Args of a static method call too
						}
						if ai < len(c.Call.Args) {
							for kk := range tf.typesOf(c.Call.Args[ai], fn, seen) {
								if !excl[kk] {
									out[kk] = true
								}
							}
						}
					}
				}
				continue
			}
			out[k] = true
		}
	}
	return out
}

func carriersIn(m map[string]bool) []string {
	var out []string
	for _, c := range []string{"reflect.Value", "*hessian._refHolder"} {
		if m[c] {
			out = append(out, c)
		}
	}
	return out
}

func sortedKeys(m map[string]bool) []string {
	var out []string
	for k := range m {
		out = append(out, k)
	}
	sort.Strings(out)
	return out
}

var internalExported = map[string]string{
	"(*Decoder).ReadData":         "the recursion's value dispatch: returns carriers by design, callers unwrap",
	"(*Decoder).ReadList":         "list dispatch used by readField: returns the ref holder by design",
	"(*Decoder).ReadLenTagObject": "object reader used by the dispatchers",
}

func (w *World) ruleCarrierEscape(r *Report, rule, ruleStore string) {
	tf := &typeFlow{w: w, memo: map[*ssa.Function]map[string]bool{}, stack: map[*ssa.Function]bool{}, sani: map[*ssa.Function]bool{}}
	rd := w.fn("(*Decoder).ReadData")
	if rd == nil {
		r.undecided(rule, "(*Decoder).ReadData", "-", "anchor not found")
		return
	}
	// positive control: the dispatch itself must be seen to return carriers
	base := tf.resultTypes(rd)
	if len(carriersIn(base)) == 0 {
		r.undecided(rule, "(*Decoder).ReadData · positive control", w.pos(rd.Pos()), "the taint analysis no longer sees a carrier type in ReadData's results: the rule would pass vacuously")
	}
	up := w.canReach(map[*ssa.Function]bool{rd: true})
	n := 0
	var san []string
	for fn, is := range tf.sani {
		if is {
			san = append(san, fnName(fn))
		}
	}
	for _, fn := range w.SrcFuncs() {
		if fn.Parent() != nil || !token.IsExported(fn.Name()) || !up[fn] {
			continue
		}
		res := fn.Signature.Results()
		if res.Len() == 0 {
			continue
		}
		if _, isIface := res.At(0).Type().Underlying().(*types.Interface); !isIface {
			continue
		}
		if why, ok := internalExported[fnName(fn)]; ok {
			r.note("exception: %s is not an entry point (%s)", fnName(fn), why)
			continue
		}
		n++
		ts := tf.resultTypes(fn)
		bad := carriersIn(ts)
		r.add(rule, fnName(fn)+" · result", w.pos(fn.Pos()), len(bad) == 0, fmt.Sprintf("concrete types that can flow into the result: %v; internal carriers among them: %v", sortedKeys(ts), bad))
	}
	for fn, is := range tf.sani {
		if is {
			san = append(san, fnName(fn))
		}
	}
	sort.Strings(san)
	_ = san
	r.floor(rule, n, 7)
	// R1b: container stores
	m := 0
	for _, fn := range w.SrcFuncs() {
		// the functions that can reach the value dispatch, and the function literals
		// they write (the store closure handed to a shared element loop)
		onPath := false
		for f := fn; f != nil; f = f.Parent() {
			if up[f] {
				onPath = true
			}
		}
		if !onPath {
			continue
		}
		cnt := 0
		for _, b := range fn.Blocks {
			for _, in := range b.Instrs {
				var vals []ssa.Value
				what := ""
				switch x := in.(type) {
				case *ssa.Store:
					ia, ok := x.Addr.(*ssa.IndexAddr)
					if !ok {
						continue
					}
					if typeStr(ia.X.Type()) != "[]interface{}" {
						continue
					}
					// the varargs arrays of fmt-style calls are not containers handed back
					if sl, isSl := ia.X.(*ssa.Slice); isSl {
						_ = sl
					}
					if al, isAl := ia.X.(*ssa.Alloc); isAl && strings.Contains(al.Comment, "varargs") {
						continue
					}
					vals, what = []ssa.Value{x.Val}, "element store into []interface{}"
				case *ssa.MapUpdate:
					if typeStr(x.Map.Type()) != "map[interface{}]interface{}" {
						continue
					}
					vals, what = []ssa.Value{x.Key, x.Value}, "entry of map[interface{}]interface{}"
				default:
					continue
				}
				m++
				cnt++
				var bad []string
				all := map[string]bool{}
				for _, v := range vals {
					ts := tf.typesOf(v, fn, map[ssa.Value]bool{})
					for k := range ts {
						all[k] = true
					}
					bad = append(bad, carriersIn(ts)...)
				}
				r.add(ruleStore, fmt.Sprintf("%s · %s #%d", fnName(fn), what, cnt), w.instrPos(in), len(bad) == 0,
					fmt.Sprintf("types stored: %v; internal carriers: %v", sortedKeys(all), uniq(bad)))
			}
		}
	}
	r.floor(ruleStore, m, 2)
}

// ---- R4: tag-position reads ----

func (w *World) ruleTagReadErrors(r *Report, rule string) {
	rd := w.fn("(*Decoder).ReadData")
	if rd == nil {
		r.undecided(rule, "(*Decoder).ReadData", "-", "anchor not found")
		return
	}
	cs := w.codecs()
	headerReaders := map[*ssa.Function]bool{}
	for _, c := range cs {
		if c.Wrap != nil {
			headerReaders[c.Wrap] = true
		}
	}
	for _, n := range []string{"readTag", "getTag", "(*Decoder).readTag", "(*Decoder).readType", "(*Decoder).readClassDef"} {
		if f := w.fn(n); f != nil {
			headerReaders[f] = true
		}
	}
	reach := w.reachPkg(rd)
	for _, n := range []string{"(*Decoder).readStruct", "(*Decoder).readMap", "(*Decoder).readField"} {
		if f := w.fn(n); f != nil {
			reach[f] = true
		}
	}
	n := 0
	for _, fn := range w.SrcFuncs() {
		if !reach[fn] {
			continue
		}
		for _, site := range w.callSitesIn(fn) {
			sc := site.call.Call.StaticCallee()
			if sc == nil || !headerReaders[sc] {
				continue
			}
			// inside the scalar decoders only the tag read counts (payload handling is theirs)
			isMethod := fn.Signature.Recv() != nil
			if !isMethod && !(fnName(sc) == "readTag" || fnName(sc) == "getTag") {
				continue
			}
			n++
			r.fnSeen(fnName(fn))
			ok, fact := w.errConsumed(site.call, errOpts{allowEOFSentinel: true})
			o := r.add(rule, fmt.Sprintf("%s · %s", fnName(fn), site.key()), w.instrPos(site.call), ok, fact)
			o.Trivial = ok && strings.HasPrefix(fact, "forwarded")
		}
	}
	r.floor(rule, n, 30)
}

// ---- R5: streaming entry points keep the per-stream tables ----

func (w *World) ruleStreamingPersist(r *Report, rule string) {
	// the entry points that continue a stream are discovered by signature and
	// reachability (roles_stream.go), so a renamed serializer type or method is
	// still covered; all four roles must be present
	eps := w.streamingEntryPoints()
	n := 0
	roles := map[string]bool{}
	for _, e := range eps {
		fn := e.fn
		ename := fnName(fn)
		roles[fmt.Sprintf("%s/composite=%v", e.side, e.composite)] = true
		n++
		reach := w.reachPkg(fn)
		var bad []string
		for f := range reach {
			if f.Name() == "Reset" && f.Signature.Recv() != nil {
				bad = append(bad, "reaches "+fnName(f))
			}
			for _, b := range f.Blocks {
				for _, in := range b.Instrs {
					switch x := in.(type) {
					case *ssa.Call:
						if sc := x.Call.StaticCallee(); sc != nil && strings.HasPrefix(qualifiedFnName(sc), "bufio.New") {
							bad = append(bad, fmt.Sprintf("%s constructs a buffered reader (%s) at %s: it reads ahead into the next value", fnName(f), qualifiedFnName(sc), w.instrPos(x)))
						}
					case *ssa.Store:
						if fa, ok := x.Addr.(*ssa.FieldAddr); ok {
							if _, fresh := fa.X.(*ssa.Alloc); fresh {
								continue
							}
							nm := w.fieldNameOfAddr(fa)
							if strings.HasPrefix(nm, "Encoder.") || strings.HasPrefix(nm, "Decoder.") {
								// appends are stores of an extended slice: allowed; a fresh make / nil is a reset
								switch v := x.Val.(type) {
								case *ssa.MakeSlice, *ssa.MakeMap:
									bad = append(bad, fmt.Sprintf("%s re-initialises %s at %s", fnName(f), nm, w.instrPos(x)))
								case *ssa.Const:
									if v.Value == nil {
										bad = append(bad, fmt.Sprintf("%s clears %s at %s", fnName(f), nm, w.instrPos(x)))
									}
								case *ssa.Parameter:
									bad = append(bad, fmt.Sprintf("%s replaces %s at %s", fnName(f), nm, w.instrPos(x)))
								}
							}
						}
					}
				}
			}
		}
		sort.Strings(bad)
		fact := fmt.Sprintf("%d reachable package functions: none resets or replaces a per-stream field, none constructs a buffered reader", len(reach))
		if len(bad) > 0 {
			fact = strings.Join(uniq(bad), "; ")
		}
		r.add(rule, ename, w.pos(fn.Pos()), len(bad) == 0, fact)
	}
	for _, want := range []struct{ key, what string }{
		{"enc/composite=false", "an encoder method that continues a stream"}, {"dec/composite=false", "a decoder method that continues a stream"},
		{"enc/composite=true", "a serializer method that continues an output stream"}, {"dec/composite=true", "a serializer method that continues an input stream"}} {
		if !roles[want.key] {
			r.undecided(rule, want.what, "-", "streaming entry point not found")
		}
	}
	r.floor(rule, n, 5)
	// no buffered reader may wrap a reader supplied by the caller: it would
	// pull octets of the next value out of the caller's stream
	m := 0
	for _, f := range w.SrcFuncs() {
		cnt := 0
		for _, site := range w.callSitesIn(f) {
			if !strings.HasPrefix(site.callee, "bufio.New") {
				continue
			}
			m++
			cnt++
			arg := site.call.Call.Args[0]
			for {
				if mi, ok := arg.(*ssa.MakeInterface); ok {
					arg = mi.X
					continue
				}
				if ci, ok := arg.(*ssa.ChangeInterface); ok {
					arg = ci.X
					continue
				}
				break
			}
			own := false
			if c, ok := arg.(*ssa.Call); ok && c.Call.StaticCallee() != nil {
				switch qualifiedFnName(c.Call.StaticCallee()) {
				case "bytes.NewReader", "bytes.NewBuffer", "bytes.NewBufferString", "strings.NewReader":
					own = true
				}
			}
			r.add(rule, fmt.Sprintf("%s · %s#%d wraps only an in-memory reader", fnName(f), site.callee, cnt), w.instrPos(site.call), own,
				map[bool]string{true: "the buffered reader wraps a reader created in this call over the caller's byte slice", false: "a buffered reader wraps " + arg.String() + ": reads from a caller-supplied stream would run ahead of the value being decoded"}[own])
		}
	}
	r.floor(rule+" (buffered readers)", m, 1)
}

func rulesC06(w *World, r *Report) {
	w.ruleCarrierEscape(r, "C06.R1 no internal carrier escapes an entry point", "C06.R1b no carrier stored into a returned container")
	for _, c := range []string{"int", "long", "double", "date", "bool"} {
		w.rulePairOctets(r, "C06.R2 encoder octets = decoder octets", c)
	}
	w.ruleLenReader(r, "C06.R2 string/binary headers pulled exactly", "string")
	w.ruleLenReader(r, "C06.R2 string/binary headers pulled exactly", "binary")
	w.ruleLenEncoder(r, "C06.R2 string lengths written count the unit the reader pulls", "string")
	w.ruleLenEncoder(r, "C06.R2 binary lengths written count the unit the reader pulls", "binary")
	w.rulePayloadUnits(r, "C06.R2 payload read in the unit the length counts")
	w.ruleChunkBuffers(r, "C06.R2 each chunk is read with a buffer of its own length")
	w.ruleChunkContinuation(r, "C06.R2 a value ends with its final chunk: nothing further is read")
	w.ruleRefOrdinal(r, "C06.R2 a back-reference is written as x51 + int and carries the registrar's ordinal")
	w.ruleWriterProductions(r, "C06.R2 every value written is framed as exactly one production")
	w.ruleLoopExits(r, "C06.R3 loop exit discipline", false)
	w.ruleEveryValueStored(r, "C06.R3 every value read for a container is stored")
	w.ruleTagReadErrors(r, "C06.R4 failed tag/header reads are errors")
	w.ruleDecoderErrorsPropagate(r, "C06.R4 a failed read on the decode path surfaces")
	w.ruleStreamingPersist(r, "C06.R5 streaming entry points keep per-stream state and do not read ahead")
	include(w, r, "C04")
}
