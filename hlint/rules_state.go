package main

// E4 — ownership / effect rules: package-level state (C12), per-stream
// fields and Reset (C11, C06.R5), caller-owned maps and values.

import (
	"fmt"
	"go/token"
	"go/types"
	"sort"
	"strings"

	"golang.org/x/tools/go/ssa"
)

func init() {
	register("C12", rulesC12,
		"Decides (sufficient under the listed assumptions): distinct instances share only memory that no code reachable from the public API writes. "+
			"R1 for every package-level variable (enumerated from the SSA package, so a new variable is a new obligation): every function that stores to it, or to memory reachable from it (element/field/map stores through a global-derived address, append/copy/delete on it, passing it to a callee outside a read-only whitelist), is reachable only from package initialisation or the documented configuration function SetLogger — never from an encode/decode/pool/extraction entry point (VTA call graph from all exported functions and methods). "+
			"R2 the caller-supplied shared maps (Encoder.nameMap, Decoder.typMap) are written on the codec path only under a failed lookup of the same key in the same map (so a complete map is never written). "+
			"R3 no go statement, no sync / sync/atomic call in the package outside the pool's select statements (C17). "+
			"R4 no function-local static state: closures capturing variables are created per call. "+
			"Then each call's result is a function of its own instance and of immutable shared memory, hence schedule-independent. Interleavings are not enumerated; nothing is run.",
		"obligation = one package-level variable / one map update on a shared map / one concurrency construct; enumerated exhaustively from SSA; non-trivial = needs the call-graph reachability argument",
		"reflect, bytes, bufio, time, strings, fmt are safe for concurrent use on distinct values", "the configured logger is goroutine-safe", "callers do not mutate the value being encoded or the shared maps concurrently", "complete name/type maps (every struct type the values contain is present)")
	register("C11", rulesC11,
		"Decides the frame conditions that 'a reused instance behaves like a fresh one' rests on (necessary conditions, not the probe equality): "+
			"R1 every field of Encoder/Decoder mutated on a path from a codec entry point (store, append, map update; enumerated, so a new mutable field is a new obligation) is re-initialised with a fresh allocation by Reset — memo tables written only under a failed lookup of the same key are exempt by shape; "+
			"R2 every one-shot entry point (exported function that receives the destination/source or returns the bytes, and reaches the value dispatch) resets before any work: each call that can reach WriteData/ReadData is either itself reset-first or dominated by a Reset call; "+
			"R3 caller maps are written only on a lookup miss (complete maps are never written); "+
			"R4 the encoder never calls a reflect setter on a value derived from its input (only on values it allocated), and the input byte slice of the decode entry points reaches only bytes.NewReader; "+
			"R5 the slice Encode returns comes from a buffer allocated in that call. "+
			"Does NOT decide byte-for-byte equality of a probe call over all histories.",
		"obligation = one mutable field / one one-shot entry point / one shared-map update / one reflect setter on the encode path / one input parameter / one output slice",
		"Reset is the method named Reset on Encoder/Decoder (exported API)")
}

// ---- global-derived values ----

type globalTaint struct {
	w      *World
	params map[*ssa.Parameter]map[*ssa.Global]bool
	// fields: struct fields (of any instance) into which a value aliasing a
	// package variable's memory is stored somewhere in the package — a slice
	// header copied from a package-level slice shares its backing array
	fields map[string]map[*ssa.Global]bool
}

// derivedFrom returns the set of globals whose memory v may alias.
func (g *globalTaint) derivedFrom(v ssa.Value, seen map[ssa.Value]bool) map[*ssa.Global]bool {
	if seen[v] {
		return nil
	}
	seen[v] = true
	out := map[*ssa.Global]bool{}
	add := func(m map[*ssa.Global]bool) {
		for k := range m {
			out[k] = true
		}
	}
	isRef := func(t types.Type) bool {
		switch t.Underlying().(type) {
		case *types.Pointer, *types.Slice, *types.Map, *types.Chan, *types.Interface, *types.Signature:
			return true
		case *types.Struct, *types.Array:
			return true // may contain references
		}
		return false
	}
	switch x := v.(type) {
	case *ssa.Global:
		if x.Pkg == g.w.Pkg {
			out[x] = true
		}
	case *ssa.UnOp:
		if x.Op == token.MUL && isRef(x.Type()) {
			add(g.derivedFrom(x.X, seen))
		}
	case *ssa.FieldAddr:
		add(g.derivedFrom(x.X, seen))
		add(g.fields[fieldID(x)])
	case *ssa.IndexAddr:
		add(g.derivedFrom(x.X, seen))
	case *ssa.Field:
		if isRef(x.Type()) {
			add(g.derivedFrom(x.X, seen))
		}
	case *ssa.Index:
		if isRef(x.Type()) {
			add(g.derivedFrom(x.X, seen))
		}
	case *ssa.Lookup:
		if isRef(x.Type()) {
			add(g.derivedFrom(x.X, seen))
		}
	case *ssa.Slice:
		add(g.derivedFrom(x.X, seen))
	case *ssa.Phi:
		for _, e := range x.Edges {
			add(g.derivedFrom(e, seen))
		}
	case *ssa.ChangeType:
		add(g.derivedFrom(x.X, seen))
	case *ssa.MakeInterface:
		if isRef(x.X.Type()) {
			add(g.derivedFrom(x.X, seen))
		}
	case *ssa.ChangeInterface:
		add(g.derivedFrom(x.X, seen))
	case *ssa.TypeAssert:
		add(g.derivedFrom(x.X, seen))
	case *ssa.Extract:
		add(g.derivedFrom(x.Tuple, seen))
	case *ssa.Parameter:
		add(g.params[x])
	}
	return out
}

var readOnlyCallees = map[string]bool{
	"(*bytes.Buffer).Write": true, "(*bytes.Buffer).WriteString": true, "len": true, "cap": true,
	"fmt.Sprintf": true, "fmt.Errorf": true, "reflect.TypeOf": true, "reflect.ValueOf": true,
	"(reflect.Value).Elem": true, "(reflect.Value).IsValid": true, "(reflect.Value).Kind": true, "(reflect.Value).Interface": true,
	"strings.Replace": true, "strings.Compare": true, "strings.Contains": true, "strings.LastIndex": true,
}

// readOnlyExternal: library callees that do not write through their pointer /
// slice / map arguments (or are documented safe for concurrent use on one
// receiver), by class rather than one by one:
//   - package-level functions of strings, strconv, unicode, unicode/utf8, math,
//     errors, bytes (they read their arguments and return new values);
//   - fmt's S- and E- family (Sprint*, Errorf) — not the F-/Fscan family, which
//     write to / read into an argument;
//   - methods of *strings.Replacer and *regexp.Regexp other than Longest
//     ("safe for concurrent use by multiple goroutines"), of time.Time and
//     *time.Location, of reflect.Type implementations;
//   - getters of reflect.Value (everything but Set*, Grow, Clear, Send, Recv, Call*).
func readOnlyExternal(sc *ssa.Function) bool {
	if sc == nil || sc.Pkg == nil || sc.Pkg.Pkg == nil {
		return false
	}
	pkg := sc.Pkg.Pkg.Path()
	recv := sc.Signature.Recv()
	if recv == nil {
		switch pkg {
		case "strings", "strconv", "unicode", "unicode/utf8", "unicode/utf16", "math", "math/bits", "errors", "bytes":
			return true
		case "fmt":
			n := sc.Name()
			return strings.HasPrefix(n, "Sprint") || n == "Errorf"
		case "reflect":
			n := sc.Name()
			return n == "TypeOf" || n == "ValueOf" || n == "DeepEqual" || n == "Indirect"
		}
		return false
	}
	rt := typeStr(recv.Type())
	switch rt {
	case "*strings.Replacer", "time.Time", "*time.Location", "*reflect.rtype":
		return true
	case "*regexp.Regexp":
		return sc.Name() != "Longest"
	case "reflect.Value":
		n := sc.Name()
		return !(strings.HasPrefix(n, "Set") || strings.HasPrefix(n, "Call") || n == "Grow" || n == "Clear" || n == "Send" || n == "Recv" || n == "TrySend" || n == "TryRecv")
	}
	return false
}

type globalWrite struct {
	fn   *ssa.Function
	pos  string
	what string
}

// globalWrites: per global, the writes to it or to memory reachable from it.
func (w *World) globalWrites() (map[*ssa.Global][]globalWrite, []string) {
	gt := &globalTaint{w: w, params: map[*ssa.Parameter]map[*ssa.Global]bool{}, fields: map[string]map[*ssa.Global]bool{}}
	var notes []string
	// fixpoint on parameter and field taint
	for round := 0; round < 6; round++ {
		changed := false
		for _, fn := range w.allPkgFuncs() {
			for _, b := range fn.Blocks {
				for _, in := range b.Instrs {
					if st, ok := in.(*ssa.Store); ok {
						if fa, ok := st.Addr.(*ssa.FieldAddr); ok {
							switch st.Val.Type().Underlying().(type) {
							case *types.Pointer, *types.Slice, *types.Map, *types.Chan:
								for k := range gt.derivedFrom(st.Val, map[ssa.Value]bool{}) {
									id := fieldID(fa)
									if gt.fields[id] == nil {
										gt.fields[id] = map[*ssa.Global]bool{}
									}
									if !gt.fields[id][k] {
										gt.fields[id][k] = true
										changed = true
									}
								}
							}
						}
						continue
					}
					c, ok := in.(ssa.CallInstruction)
					if !ok {
						continue
					}
					for _, callee := range w.calleesOf(c) {
						if !w.inPkg(callee) || callee.Blocks == nil {
							continue
						}
						args := c.Common().Args
						off := 0
						if c.Common().IsInvoke() {
							off = 1
						}
						for i, a := range args {
							d := gt.derivedFrom(a, map[ssa.Value]bool{})
							if len(d) == 0 || i+off >= len(callee.Params) {
								continue
							}
							p := callee.Params[i+off]
							if gt.params[p] == nil {
								gt.params[p] = map[*ssa.Global]bool{}
							}
							for k := range d {
								if !gt.params[p][k] {
									gt.params[p][k] = true
									changed = true
								}
							}
						}
					}
				}
			}
		}
		if !changed {
			break
		}
	}
	out := map[*ssa.Global][]globalWrite{}
	rec := func(v ssa.Value, fn *ssa.Function, in ssa.Instruction, what string) {
		for g := range gt.derivedFrom(v, map[ssa.Value]bool{}) {
			out[g] = append(out[g], globalWrite{fn, w.instrPos(in), what})
		}
	}
	for _, fn := range w.allPkgFuncs() {
		for _, b := range fn.Blocks {
			for _, in := range b.Instrs {
				switch x := in.(type) {
				case *ssa.Store:
					rec(x.Addr, fn, in, "store")
				case *ssa.MapUpdate:
					rec(x.Map, fn, in, "map update")
				case *ssa.Send:
					rec(x.Chan, fn, in, "channel send")
				case ssa.CallInstruction:
					com := x.Common()
					if bi, ok := com.Value.(*ssa.Builtin); ok {
						switch bi.Name() {
						case "append", "copy", "delete", "clear":
							if len(com.Args) > 0 {
								rec(com.Args[0], fn, in, bi.Name())
							}
						}
						continue
					}
					name := ""
					if sc := com.StaticCallee(); sc != nil {
						if w.inPkg(sc) {
							continue // followed interprocedurally through parameter taint
						}
						name = qualifiedFnName(sc)
					}
					if com.IsInvoke() {
						// method call on a global-held interface (the logger): assumption
						if d := gt.derivedFrom(com.Value, map[ssa.Value]bool{}); len(d) > 0 {
							for g := range d {
								notes = append(notes, fmt.Sprintf("method %s invoked on the value held by package variable %s in %s (assumed goroutine-safe)", com.Method.Name(), g.Name(), fnName(fn)))
							}
						}
						continue
					}
					if readOnlyCallees[name] || readOnlyExternal(com.StaticCallee()) {
						continue
					}
					for _, a := range com.Args {
						switch a.Type().Underlying().(type) {
						case *types.Pointer, *types.Slice, *types.Map:
							rec(a, fn, in, "passed to "+name)
						}
					}
				}
			}
		}
	}
	sort.Strings(notes)
	var un []string
	for i, n := range notes {
		if i == 0 || notes[i-1] != n {
			un = append(un, n)
		}
	}
	return out, un
}

// apiRoots: exported package-level functions and exported methods of exported
// or interface-implementing types — everything a client can call.
func (w *World) apiRoots(exclude map[string]bool) []*ssa.Function {
	var out []*ssa.Function
	for _, fn := range w.SrcFuncs() {
		if fn.Parent() != nil || !token.IsExported(fn.Name()) || exclude[fnName(fn)] {
			continue
		}
		out = append(out, fn)
	}
	return out
}

func rulesC12(w *World, r *Report) {
	writes, notes := w.globalWrites()
	for _, n := range notes {
		r.note("%s", n)
	}
	config := map[string]bool{"SetLogger": true}
	roots := w.apiRoots(config)
	reach := w.reachPkg(roots...)
	r.role("API entry points", fnNames(roots))
	r.role("configuration functions (documented exception)", []string{"SetLogger"})
	for f := range reach {
		r.fnSeen(fnName(f))
	}
	var globals []*ssa.Global
	for _, m := range w.Pkg.Members {
		if g, ok := m.(*ssa.Global); ok && !strings.HasPrefix(g.Name(), "init$") {
			globals = append(globals, g)
		}
	}
	sort.Slice(globals, func(i, j int) bool { return globals[i].Name() < globals[j].Name() })
	var gnames []string
	for _, g := range globals {
		gnames = append(gnames, g.Name())
		if tn := typeStr(g.Type().(*types.Pointer).Elem()); strings.HasPrefix(tn, "sync.") || strings.HasPrefix(tn, "atomic.") {
			o := r.add("C12.R1 no write to package-level state from the API", "package variable "+g.Name(), w.pos(g.Pos()), true, "a "+tn+": its methods are synchronised by contract")
			o.Trivial = true
			continue
		}
		var bad, fine []string
		for _, gw := range writes[g] {
			s := fmt.Sprintf("%s (%s at %s)", fnName(gw.fn), gw.what, gw.pos)
			if reach[gw.fn] {
				bad = append(bad, s)
			} else {
				fine = append(fine, fnName(gw.fn))
			}
		}
		sort.Strings(fine)
		fine = uniq(fine)
		ok := len(bad) == 0
		fact := fmt.Sprintf("writers: %v — none reachable from the %d API entry points", fine, len(roots))
		if !ok {
			fact = fmt.Sprintf("written on a path from an API entry point: %s", strings.Join(bad, "; "))
		}
		o := r.add("C12.R1 no write to package-level state from the API", "package variable "+g.Name(), w.pos(g.Pos()), ok, fact)
		o.Trivial = len(writes[g]) == 0
	}
	w.ruleSharedPoolAliases(r, "C12.R6 memory put back into a shared pool is not handed out")
	w.ruleNoProcessWideMemo(r, "C12.R7 results do not depend on a process-wide memo", reach, len(roots))
	r.role("package-level variables", gnames)
	// the floor counts the variables that can carry shared state (maps, slices,
	// pointers, interfaces, structs): a scalar such as a chunk size kept in a var
	// for the initialiser of a table is configuration, and a refactoring may fold
	// it into a constant.  Every variable, scalar or not, still gets its obligation.
	stateful := 0
	for _, g := range globals {
		if _, basic := g.Type().(*types.Pointer).Elem().Underlying().(*types.Basic); !basic {
			stateful++
		}
	}
	r.floor("C12.R1 package-level variables holding shared state", stateful, 9)

	// R2 shared maps
	w.ruleSharedMaps(r, "C12.R2 shared maps written only on a lookup miss")
	// R5 a result handed to the caller does not alias the instance: once the instance
	// is back in a pool the next holder's call overwrites what the first caller still holds
	w.ruleFreshOutput(r, "C12.R5 results do not alias instance memory")

	// R3 concurrency constructs
	n3 := 0
	bad3 := 0
	for _, fn := range w.SrcFuncs() {
		cnt := 0
		for _, b := range fn.Blocks {
			for _, in := range b.Instrs {
				switch x := in.(type) {
				case *ssa.Go:
					cnt++
					bad3++
					r.add("C12.R3 no goroutines started by the library", fmt.Sprintf("%s · go#%d", fnName(fn), cnt), w.instrPos(x), false, "go statement in the library")
				case *ssa.Call:
					if sc := x.Call.StaticCallee(); sc != nil && sc.Pkg != nil {
						p := sc.Pkg.Pkg.Path()
						if p == "sync" || p == "sync/atomic" {
							r.note("synchronisation primitive %s used in %s (not an obligation: synchronised access is allowed)", qualifiedFnName(sc), fnName(fn))
						}
					}
				}
				n3++
			}
		}
	}
	if bad3 == 0 {
		r.add("C12.R3 no goroutines started by the library", "census", "-", true, fmt.Sprintf("%d instructions scanned: no go statement", n3))
	}
	include(w, r, "C17")
}

func uniq(s []string) []string {
	var out []string
	for i, x := range s {
		if i == 0 || s[i-1] != x {
			out = append(out, x)
		}
	}
	return out
}

// codecRoots: exported functions from which the value dispatch of either
// side is reachable.
func (w *World) codecRoots() []*ssa.Function {
	tg := map[*ssa.Function]bool{}
	for _, n := range []string{"(*Encoder).WriteData", "(*Decoder).ReadData"} {
		if f := w.fn(n); f != nil {
			tg[f] = true
		}
	}
	up := w.canReach(tg)
	var roots []*ssa.Function
	for f := range up {
		if f.Parent() == nil && token.IsExported(f.Name()) {
			roots = append(roots, f)
		}
	}
	sort.Slice(roots, func(i, j int) bool { return fnName(roots[i]) < fnName(roots[j]) })
	return roots
}

// fieldOfLoad: if v is a load of a field of struct `owner`, return the field index.
func (w *World) fieldOfLoad(v ssa.Value) (string, int, bool) {
	u, ok := v.(*ssa.UnOp)
	if !ok || u.Op != token.MUL {
		return "", 0, false
	}
	fa, ok := u.X.(*ssa.FieldAddr)
	if !ok {
		return "", 0, false
	}
	pt, ok := fa.X.Type().Underlying().(*types.Pointer)
	if !ok {
		return "", 0, false
	}
	n, ok := pt.Elem().(*types.Named)
	if !ok || n.Obj().Pkg() != w.TPkg {
		return "", 0, false
	}
	return n.Obj().Name(), fa.Field, true
}

func (w *World) fieldName(owner string, idx int) string {
	_, st := w.structOf(owner)
	if st == nil || idx >= st.NumFields() {
		return "?"
	}
	return st.Field(idx).Name()
}

// guardedByLookupMiss: the map update m[k] = v is dominated by the "miss"
// edge of an If on the ok-result of a lookup of the same key term in the same
// field's map.
func (w *World) guardedByLookupMiss(mu *ssa.MapUpdate) (bool, string) {
	fn := mu.Parent()
	f := w.flow(fn)
	owner, fld, ok := w.fieldOfLoad(mu.Map)
	if !ok {
		return false, "the updated map is not a direct field load"
	}
	kk := f.term(mu.Key).Key()
	for _, b := range fn.Blocks {
		for _, in := range b.Instrs {
			lk, ok := in.(*ssa.Lookup)
			if !ok || !lk.CommaOk {
				continue
			}
			o2, f2, ok2 := w.fieldOfLoad(lk.X)
			if !ok2 || o2 != owner || f2 != fld {
				continue
			}
			for _, ref := range *lk.Referrers() {
				ex, ok := ref.(*ssa.Extract)
				if !ok || ex.Index != 1 {
					continue
				}
				for _, r2 := range *ex.Referrers() {
					iff, ok := r2.(*ssa.If)
					if !ok {
						continue
					}
					miss := iff.Block().Succs[1]
					if miss.Dominates(mu.Block()) && len(miss.Preds) == 1 {
						// same key?  either the looked-up key term, or a value that was
						// assigned from the looked-up key's term on the miss edge
						lkKey := f.term(lk.Index).Key()
						if lkKey == kk {
							return true, fmt.Sprintf("dominated by the miss edge of the lookup of the same key (%s) at %s", kk, w.instrPos(lk))
						}
						return false, fmt.Sprintf("guarded by a lookup of a different key (%s vs %s)", lkKey, kk)
					}
				}
			}
		}
	}
	return false, "unconditional write to a caller-supplied map (no dominating failed lookup of the same key)"
}

// ruleSharedMaps: writes to caller-supplied name/type maps (map[string]string,
// map[string]reflect.Type) in everything an instance does or its construction
// does: functions reachable from the codec entry points and from the
// constructors / pool factories (instances are constructed lazily on worker
// goroutines over ONE shared map).  A map is the caller's unless it is a map
// freshly made in the function.  A write is tolerated only on the miss edge of
// a lookup of the same key whose key is computed from the reflect type of the
// value being processed (a complete map has that key, so it is never written);
// a key taken from a constant or a package-level table is absent from every
// caller's map, so the first instances all write.
func (w *World) ruleSharedMaps(r *Report, rule string) {
	roots := append([]*ssa.Function{}, w.codecRoots()...)
	roots = append(roots, w.constructorRoots()...)
	reach := w.reachPkg(roots...)
	n := 0
	isShared := func(t types.Type) bool {
		ts := typeStr(t)
		return ts == "map[string]string" || ts == "map[string]reflect.Type"
	}
	for _, fn := range w.SrcFuncs() {
		if !reach[rootFn(fn)] && !reach[fn] {
			continue
		}
		cnt := 0
		f := w.flow(fn)
		for _, b := range fn.Blocks {
			for _, in := range b.Instrs {
				var m, key ssa.Value
				what := ""
				switch x := in.(type) {
				case *ssa.MapUpdate:
					m, key, what = x.Map, x.Key, "update"
				case *ssa.Call:
					if bi, ok := x.Call.Value.(*ssa.Builtin); ok && (bi.Name() == "delete" || bi.Name() == "clear") && len(x.Call.Args) > 0 {
						m, what = x.Call.Args[0], bi.Name()
					}
				}
				if m == nil || !isShared(m.Type()) || freshMap(m, map[ssa.Value]bool{}) {
					continue
				}
				n++
				cnt++
				label := describeMapOperand(w, m)
				k := fmt.Sprintf("%s · %s#%d of %s", fnName(fn), what, cnt, label)
				mu, isMU := in.(*ssa.MapUpdate)
				if !isMU {
					r.add(rule, k, w.instrPos(in), false, what+" on a caller-supplied map")
					continue
				}
				ok2, fact := w.guardedByLookupMissAny(mu)
				if ok2 && !keyFromReflectType(key, map[ssa.Value]bool{}) {
					ok2 = false
					fact += "; but the key " + f.term(key).Key() + " is not computed from the type of the value being processed: no caller's map has it, so the first instances over one shared map all write it"
				}
				r.add(rule, k, w.instrPos(in), ok2, fact)
			}
		}
	}
	if n == 0 {
		r.add(rule, "census", "-", true, "no write to a caller-supplied name/type map is reachable from the codec entry points or the constructors: the caller's maps are read-only for the library")
	}
}

// constructorRoots: exported package-level functions that return an instance
// (pointer to a package struct, or a package interface) — constructors and
// pool constructors; factories they pass on are reached through the call graph.
func (w *World) constructorRoots() []*ssa.Function {
	var out []*ssa.Function
	for _, fn := range w.SrcFuncs() {
		if fn.Parent() != nil || fn.Signature.Recv() != nil || !token.IsExported(fn.Name()) {
			continue
		}
		res := fn.Signature.Results()
		for i := 0; i < res.Len(); i++ {
			t := res.At(i).Type()
			if pt, ok := t.Underlying().(*types.Pointer); ok {
				t = pt.Elem()
			}
			if nt, ok := t.(*types.Named); ok && nt.Obj().Pkg() == w.TPkg {
				switch nt.Underlying().(type) {
				case *types.Struct, *types.Interface:
					out = append(out, fn)
				}
				break
			}
		}
	}
	sort.Slice(out, func(i, j int) bool { return fnName(out[i]) < fnName(out[j]) })
	return out
}

// freshMap: m is (on every incoming edge) a map made in this function.
func freshMap(m ssa.Value, seen map[ssa.Value]bool) bool {
	if seen[m] {
		return true
	}
	seen[m] = true
	switch x := m.(type) {
	case *ssa.MakeMap:
		return true
	case *ssa.Phi:
		for _, e := range x.Edges {
			if !freshMap(e, seen) {
				return false
			}
		}
		return true
	case *ssa.UnOp:
		// a local variable cell: every store into it is fresh
		if al, ok := x.X.(*ssa.Alloc); ok && x.Op == token.MUL {
			any := false
			for _, ref := range *al.Referrers() {
				if st, ok := ref.(*ssa.Store); ok && st.Addr == ssa.Value(al) {
					any = true
					if !freshMap(st.Val, seen) {
						return false
					}
				}
			}
			return any
		}
	}
	return false
}

func describeMapOperand(w *World, m ssa.Value) string {
	if owner, fld, ok := w.fieldOfLoad(m); ok {
		return owner + "." + w.fieldName(owner, fld)
	}
	switch x := m.(type) {
	case *ssa.Parameter:
		return "parameter " + x.Name()
	case *ssa.FreeVar:
		return "captured " + x.Name()
	}
	return typeStr(m.Type()) + " value"
}

// keyFromReflectType: the key is computed from a reflect.Type / reflect.Value
// (its Name(), String(), the package's type-name helper applied to it …).
func keyFromReflectType(v ssa.Value, seen map[ssa.Value]bool) bool {
	if v == nil || seen[v] {
		return false
	}
	seen[v] = true
	isRefl := func(t types.Type) bool {
		ts := typeStr(t)
		return ts == "reflect.Type" || ts == "reflect.Value" || ts == "reflect.StructField"
	}
	switch x := v.(type) {
	case *ssa.Call:
		if x.Call.IsInvoke() && isRefl(x.Call.Value.Type()) {
			return true
		}
		for _, a := range x.Call.Args {
			if isRefl(a.Type()) || keyFromReflectType(a, seen) {
				return true
			}
		}
	case *ssa.Phi:
		for _, e := range x.Edges {
			if !keyFromReflectType(e, seen) {
				return false
			}
		}
		return len(x.Edges) > 0
	case *ssa.Extract:
		return keyFromReflectType(x.Tuple, seen)
	case *ssa.Field:
		return isRefl(x.X.Type()) || keyFromReflectType(x.X, seen)
	case *ssa.BinOp:
		return keyFromReflectType(x.X, seen) || keyFromReflectType(x.Y, seen)
	case *ssa.ChangeType:
		return keyFromReflectType(x.X, seen)
	case *ssa.Convert:
		return keyFromReflectType(x.X, seen)
	}
	return false
}

// guardedByLookupMissAny: as guardedByLookupMiss, for any map operand (field
// load, parameter, captured variable): same map value or same field.
func (w *World) guardedByLookupMissAny(mu *ssa.MapUpdate) (bool, string) {
	if _, _, ok := w.fieldOfLoad(mu.Map); ok {
		return w.guardedByLookupMiss(mu)
	}
	fn := mu.Parent()
	f := w.flow(fn)
	kk := f.term(mu.Key).Key()
	for _, b := range fn.Blocks {
		for _, in := range b.Instrs {
			lk, ok := in.(*ssa.Lookup)
			if !ok || !lk.CommaOk || !(lk.X == mu.Map || sameCell(lk.X, mu.Map)) {
				continue
			}
			for _, ref := range *lk.Referrers() {
				ex, ok := ref.(*ssa.Extract)
				if !ok || ex.Index != 1 {
					continue
				}
				for _, r2 := range *ex.Referrers() {
					iff, ok := r2.(*ssa.If)
					if !ok {
						continue
					}
					miss := iff.Block().Succs[1]
					if miss.Dominates(mu.Block()) && len(miss.Preds) == 1 {
						if lkKey := f.term(lk.Index).Key(); lkKey == kk {
							return true, fmt.Sprintf("dominated by the miss edge of the lookup of the same key (%s) at %s", kk, w.instrPos(lk))
						} else {
							return false, fmt.Sprintf("guarded by a lookup of a different key (%s vs %s)", lkKey, kk)
						}
					}
				}
			}
		}
	}
	return false, "unconditional write to a caller-supplied map (no dominating failed lookup of the same key)"
}

// ---- C11 ----

type fieldMut struct {
	fn   *ssa.Function
	pos  string
	what string
	memo bool
	at   ssa.Instruction
}

// fieldMutations: per (owner, field) the mutation sites inside functions of `within`.
func (w *World) fieldMutations(within map[*ssa.Function]bool) map[string][]fieldMut {
	out := map[string][]fieldMut{}
	for _, fn := range w.SrcFuncs() {
		if !within[fn] {
			continue
		}
		for _, b := range fn.Blocks {
			for _, in := range b.Instrs {
				switch x := in.(type) {
				case *ssa.Store:
					if fa, ok := x.Addr.(*ssa.FieldAddr); ok {
						if _, fresh := fa.X.(*ssa.Alloc); fresh {
							continue // initialisation of an object allocated in this function
						}
						if ia, isRow := fa.X.(*ssa.IndexAddr); isRow {
							if al, fresh := ia.X.(*ssa.Alloc); fresh {
								if _, isArr := localArrayLen(al); isArr {
									continue // … of a row of an array allocated in this function (`rows := [...]T{{…}, {…}}`)
								}
							}
						}
						if w.callLocalPtr(fa.X) {
							continue // an object living in a local variable of a caller, handed down by address
						}
						if _, local := w.callLocalObjects(fa.X, 0); local {
							continue // an object that one call allocates, hands down and drops (locals.go): nothing survives the call
						}
						if pt, ok := fa.X.Type().Underlying().(*types.Pointer); ok {
							if n, ok := pt.Elem().(*types.Named); ok && n.Obj().Pkg() == w.TPkg {
								k := n.Obj().Name() + "." + w.fieldName(n.Obj().Name(), fa.Field)
								out[k] = append(out[k], fieldMut{fn, w.instrPos(x), "assignment", false, x})
							}
						}
					}
					if ia, ok := x.Addr.(*ssa.IndexAddr); ok {
						if owner, fld, ok := w.fieldOfLoad(ia.X); ok {
							k := owner + "." + w.fieldName(owner, fld)
							out[k] = append(out[k], fieldMut{fn, w.instrPos(x), "element store", false, x})
						}
					}
				case *ssa.FieldAddr:
					// a field that holds a struct or an array by value (a bytes.Buffer, a
					// scratch array) is mutated through its address: handing the address to
					// a call, boxing it in an interface or storing it keeps state in the field
					if _, fresh := x.X.(*ssa.Alloc); fresh {
						continue
					}
					if _, local := w.callLocalObjects(x.X, 0); local || w.callLocalPtr(x.X) {
						continue
					}
					pt, ok := x.X.Type().Underlying().(*types.Pointer)
					if !ok {
						continue
					}
					n, ok := pt.Elem().(*types.Named)
					if !ok || n.Obj().Pkg() != w.TPkg {
						continue
					}
					st, ok := n.Underlying().(*types.Struct)
					if !ok {
						continue
					}
					switch st.Field(x.Field).Type().Underlying().(type) {
					case *types.Struct, *types.Array:
					default:
						continue
					}
					if what := addrEscapes(x, 0); what != "" {
						k := n.Obj().Name() + "." + w.fieldName(n.Obj().Name(), x.Field)
						out[k] = append(out[k], fieldMut{fn, w.instrPos(x), what, false, x})
					}
				case *ssa.MapUpdate:
					if owner, fld, ok := w.fieldOfLoad(x.Map); ok {
						k := owner + "." + w.fieldName(owner, fld)
						memo, _ := w.guardedByLookupMiss(x)
						// a memo table is keyed by a name and its value does not depend on
						// the table's size (positional values are per-stream state)
						if mt, ok := x.Map.Type().Underlying().(*types.Map); !ok || typeStr(mt.Key()) != "string" ||
							strings.Contains(w.flow(fn).term(x.Value).Key(), "len(") {
							memo = false
						}
						out[k] = append(out[k], fieldMut{fn, w.instrPos(x), "map update", memo, x})
					}
				}
			}
		}
	}
	return out
}

// addrEscapes: what is done with the address of a by-value composite field
// besides reading it ("" if nothing): passed to a call, boxed, stored, sliced,
// or an element / sub-field of it is written.
func addrEscapes(a ssa.Value, depth int) string {
	refs := a.Referrers()
	if refs == nil || depth > 3 {
		return ""
	}
	for _, ref := range *refs {
		switch x := ref.(type) {
		case *ssa.UnOp:
			// load
		case *ssa.FieldAddr, *ssa.IndexAddr:
			if w := addrEscapes(x.(ssa.Value), depth+1); w != "" {
				return w
			}
		case *ssa.Store:
			if x.Addr == a {
				if depth > 0 {
					return "store into a part of the field"
				}
				continue // whole-field assignment: reported as "assignment"
			}
			return "address stored"
		case *ssa.Call:
			return "address passed to " + x.Call.Value.Name()
		case *ssa.MakeInterface:
			return "address boxed in an interface"
		case *ssa.Slice:
			return "sliced"
		case *ssa.DebugRef:
		default:
			return "address used by " + ref.String()
		}
	}
	return ""
}

func rulesC11(w *World, r *Report) {
	roots := w.codecRoots()
	reach := w.reachPkg(roots...)
	r.role("codec entry points", fnNames(roots))
	// functions that are part of (re)initialisation are not "the hot path"
	resetFns := map[*ssa.Function]bool{}
	for _, n := range []string{"(*Encoder).Reset", "(*Decoder).Reset"} {
		if f := w.fn(n); f != nil {
			resetFns[f] = true
		} else {
			r.undecided("C11.anchor", n, "-", "Reset method not found")
		}
	}
	hot := map[*ssa.Function]bool{}
	for f := range reach {
		if !resetFns[f] {
			hot[f] = true
			r.fnSeen(fnName(f))
		}
	}
	muts := w.fieldMutations(hot)
	var keys []string
	for k := range muts {
		keys = append(keys, k)
	}
	sort.Strings(keys)
	r.role("fields mutated on the codec path", keys)
	for _, k := range keys {
		// objects allocated per message (the ref holder) are not reused instances
		if strings.HasPrefix(k, "_refHolder.") {
			o := r.add("C11.R1 Reset re-initialises every mutable field", k, "-", true, "field of a per-message object (allocated by the decoder for one list, referenced only from the per-stream ref list that Reset replaces)")
			o.Trivial = true
			continue
		}
		allMemo := true
		var sites []string
		for _, m := range muts[k] {
			if !m.memo {
				allMemo = false
			}
			sites = append(sites, fmt.Sprintf("%s (%s at %s)", fnName(m.fn), m.what, m.pos))
		}
		owner := k[:strings.Index(k, ".")]
		fname := k[strings.Index(k, ".")+1:]
		_ = allMemo
		ok, fact := w.resetReinits(owner, fname)
		if !ok {
			// a scratch field may also be emptied by the function that uses it, before every use
			local := true
			for _, m := range muts[k] {
				if m.at == nil || !w.emptiedBefore(m.at, owner+"."+fname) {
					local = false
				}
			}
			if local {
				ok, fact = true, "every use of the field is dominated by a call that empties it (Reset()/Truncate(0)) in the same function"
			}
		}
		r.add("C11.R1 Reset re-initialises every mutable field", k, "-", ok, fact+"; mutated by "+strings.Join(sites, "; "))
	}
	r.floor("C11.R1 mutable per-stream fields", len(keys), 5)

	// R2 reset first
	w.ruleResetFirst(r, "C11.R2 one-shot entry points reset before work")
	// R3
	w.ruleSharedMaps(r, "C11.R3 caller maps written only on a lookup miss")
	// R4 reflect setters on the encode path
	w.ruleEncoderNoSetters(r, "C11.R4 inputs are not written")
	// R5 fresh output
	w.ruleFreshOutput(r, "C11.R5 Encode returns a buffer allocated in the call")
	include(w, r, "C12")
}

// resetReinits: Reset of `owner` stores a fresh allocation into field fname
// in a block that dominates every return.
func (w *World) resetReinits(owner, fname string) (bool, string) {
	fn := w.fn("(*" + owner + ").Reset")
	if fn == nil {
		return false, "type " + owner + " has no Reset method: state written on the codec path survives into the next call"
	}
	fail := "Reset does not assign the field: state from the previous message leaks into the next one"
	for _, b := range fn.Blocks {
		for _, in := range b.Instrs {
			st, ok := in.(*ssa.Store)
			if !ok {
				continue
			}
			fa, ok := st.Addr.(*ssa.FieldAddr)
			if !ok || w.fieldNameOfAddr(fa) != owner+"."+fname {
				continue
			}
			fresh := false
			switch v := st.Val.(type) {
			case *ssa.MakeSlice, *ssa.MakeMap, *ssa.MakeChan:
				fresh = true
			case *ssa.Slice:
				_, fresh = v.X.(*ssa.Alloc)
				// idiom: f = f[:0] (same field truncated to length zero)
				if o2, f2, ok := w.fieldOfLoad(v.X); ok && o2+"."+w.fieldName(o2, f2) == owner+"."+fname {
					if k, isC := v.High.(*ssa.Const); isC && k.Int64() == 0 && v.Low == nil {
						fresh = true
					}
				}
			case *ssa.Const:
				fresh = v.Value == nil // nil slice/map is as good as empty for append; maps need make
				if _, isMap := st.Val.Type().Underlying().(*types.Map); isMap {
					fresh = false
				}
			case *ssa.UnOp:
				// f = T{}: the zero value of a by-value composite, built in a fresh local
				if al, isAl := v.X.(*ssa.Alloc); isAl && v.Op == token.MUL {
					fresh = true
					for _, ref := range *al.Referrers() {
						if _, isLoad := ref.(*ssa.UnOp); !isLoad {
							if _, dbg := ref.(*ssa.DebugRef); !dbg {
								fresh = false
							}
						}
					}
				}
			}
			domAll := true
			for _, rb := range fn.Blocks {
				if _, isRet := rb.Instrs[len(rb.Instrs)-1].(*ssa.Return); isRet && !b.Dominates(rb) {
					domAll = false
				}
			}
			if fresh && domAll {
				return true, "Reset assigns a fresh " + typeStr(st.Val.Type()) + " at " + w.instrPos(st)
			}
			if !fresh {
				fail = "Reset assigns " + st.Val.String() + ", not a fresh allocation, at " + w.instrPos(st)
			} else {
				fail = "the re-initialisation at " + w.instrPos(st) + " is not on every path of Reset"
			}
		}
	}
	// idiom: f.Reset() / f.Truncate(0) on a by-value composite field (bytes.Buffer, strings.Builder)
	for _, b := range fn.Blocks {
		for _, in := range b.Instrs {
			c, ok := in.(*ssa.Call)
			if !ok || len(c.Call.Args) == 0 {
				continue
			}
			sc := c.Call.StaticCallee()
			fa, isFA := c.Call.Args[0].(*ssa.FieldAddr)
			if sc == nil || !isFA || w.fieldNameOfAddr(fa) != owner+"."+fname {
				continue
			}
			empties := sc.Name() == "Reset" && len(c.Call.Args) == 1
			if sc.Name() == "Truncate" && len(c.Call.Args) == 2 {
				if k, isC := c.Call.Args[1].(*ssa.Const); isC && k.Value != nil && k.Int64() == 0 {
					empties = true
				}
			}
			if !empties {
				continue
			}
			domAll := true
			for _, rb := range fn.Blocks {
				if _, isRet := rb.Instrs[len(rb.Instrs)-1].(*ssa.Return); isRet && !b.Dominates(rb) {
					domAll = false
				}
			}
			if domAll {
				return true, "Reset empties the field with " + sc.Name() + "() at " + w.instrPos(c)
			}
			fail = "the " + sc.Name() + "() at " + w.instrPos(c) + " is not on every path of Reset"
		}
	}
	// idiom: clear(f) on a map field
	for _, b := range fn.Blocks {
		for _, in := range b.Instrs {
			c, ok := in.(*ssa.Call)
			if !ok {
				continue
			}
			if bi, ok := c.Call.Value.(*ssa.Builtin); ok && bi.Name() == "clear" && len(c.Call.Args) == 1 {
				if o2, f2, ok := w.fieldOfLoad(c.Call.Args[0]); ok && o2+"."+w.fieldName(o2, f2) == owner+"."+fname {
					domAll := true
					for _, rb := range fn.Blocks {
						if _, isRet := rb.Instrs[len(rb.Instrs)-1].(*ssa.Return); isRet && !b.Dominates(rb) {
							domAll = false
						}
					}
					if domAll {
						return true, "Reset clears the field with clear() at " + w.instrPos(c)
					}
				}
			}
		}
	}
	return false, fail
}

// emptiedBefore: a Reset()/Truncate(0) call on the field owner.fname dominates
// instruction at in its function.
func (w *World) emptiedBefore(at ssa.Instruction, field string) bool {
	fn := at.Parent()
	for _, b := range fn.Blocks {
		for i, in := range b.Instrs {
			c, ok := in.(*ssa.Call)
			if !ok || len(c.Call.Args) == 0 {
				continue
			}
			sc := c.Call.StaticCallee()
			fa, isFA := c.Call.Args[0].(*ssa.FieldAddr)
			if sc == nil || !isFA || w.fieldNameOfAddr(fa) != field {
				continue
			}
			empties := sc.Name() == "Reset" && len(c.Call.Args) == 1
			if sc.Name() == "Truncate" && len(c.Call.Args) == 2 {
				if k, isC := c.Call.Args[1].(*ssa.Const); isC && k.Value != nil && k.Int64() == 0 {
					empties = true
				}
			}
			if !empties {
				continue
			}
			if b == at.Block() {
				for j, in2 := range b.Instrs {
					if in2 == at && j > i {
						return true
					}
				}
				// the FieldAddr feeding the emptying call itself
				if fa2, ok := at.(*ssa.FieldAddr); ok && fa2 == fa {
					return true
				}
			} else if b.Dominates(at.Block()) {
				return true
			}
		}
	}
	return false
}

func (w *World) fieldNameOfAddr(fa *ssa.FieldAddr) string {
	pt, ok := fa.X.Type().Underlying().(*types.Pointer)
	if !ok {
		return ""
	}
	n, ok := pt.Elem().(*types.Named)
	if !ok || n.Obj().Pkg() != w.TPkg {
		return ""
	}
	return n.Obj().Name() + "." + w.fieldName(n.Obj().Name(), fa.Field)
}

// ruleResetFirst.
func (w *World) ruleResetFirst(r *Report, rule string) {
	work := map[*ssa.Function]bool{}
	for _, n := range []string{"(*Encoder).WriteData", "(*Decoder).ReadData"} {
		if f := w.fn(n); f != nil {
			work[f] = true
		}
	}
	reachesWork := w.canReach(work)
	isReset := func(f *ssa.Function) bool {
		return f != nil && f.Name() == "Reset" && f.Signature.Recv() != nil && (namedIs(f.Signature.Recv().Type(), hessianPath, "Encoder") || namedIs(f.Signature.Recv().Type(), hessianPath, "Decoder"))
	}
	// reset-first: on every path each call of the value dispatch is preceded by a
	// Reset of the same object (rules_resetfirst_px.go)
	rf := &resetFirst{w: w, work: work, reachesWork: reachesWork, isReset: isReset, memo: map[*ssa.Function]int{}, why: map[*ssa.Function]string{}}
	rbw := rf.ok
	why := rf.why
	n := 0
	var names []string
	for _, fn := range w.SrcFuncs() {
		if fn.Parent() != nil || !token.IsExported(fn.Name()) || !reachesWork[fn] || work[fn] {
			continue
		}
		// one-shot: receives the destination/source or returns the bytes
		sig := fn.Signature
		oneShot := false
		for i := 0; i < sig.Params().Len(); i++ {
			switch typeStr(sig.Params().At(i).Type()) {
			case "io.Writer", "[]byte", "hessian.ByteRuneReader":
				oneShot = true
			}
		}
		if sig.Results().Len() == 2 && typeStr(sig.Results().At(0).Type()) == "[]byte" {
			oneShot = true
		}
		if !oneShot {
			continue
		}
		n++
		names = append(names, fnName(fn))
		ok := rbw(fn)
		fact := "on every path each call of the value dispatch is preceded by a Reset of the same object (calls not stepped into: reset-first themselves or after a Reset)"
		if !ok {
			fact = why[fn]
		}
		r.add(rule, fnName(fn), w.pos(fn.Pos()), ok, fact)
	}
	r.role("one-shot entry points", names)
	r.floor(rule, n, 10)
}

var reflectSetters = map[string]bool{"Set": true, "SetInt": true, "SetUint": true, "SetFloat": true, "SetString": true, "SetBool": true, "SetBytes": true,
	"SetMapIndex": true, "SetLen": true, "SetCap": true, "SetComplex": true, "SetPointer": true, "SetIterKey": true, "SetIterValue": true, "SetZero": true, "Grow": true, "Clear": true}

// ruleEncoderNoSetters.
func (w *World) ruleEncoderNoSetters(r *Report, rule string) {
	roots := w.encoderRoots()
	reach := w.reachPkg(roots...)
	n := 0
	for _, fn := range w.SrcFuncs() {
		if !reach[fn] {
			continue
		}
		cnt := 0
		for _, cs := range w.callSitesIn(fn) {
			sc := cs.call.Call.StaticCallee()
			if sc == nil || sc.Signature.Recv() == nil || typeStr(sc.Signature.Recv().Type()) != "reflect.Value" || !reflectSetters[sc.Name()] {
				continue
			}
			n++
			cnt++
			ok, fact := derivesFromReflectNew(cs.call.Call.Args[0], 0)
			r.add(rule, fmt.Sprintf("%s · reflect setter %s#%d", fnName(fn), sc.Name(), cnt), w.instrPos(cs.call), ok, fact)
		}
	}
	r.floor(rule+" (reflect setters on the encode path)", n, 1)
	// input bytes of decode entry points
	m := 0
	for _, fn := range w.codecRoots() {
		for _, p := range fn.Params {
			if typeStr(p.Type()) != "[]byte" {
				continue
			}
			m++
			ok, fact := w.inputOnlyRead(p, map[*ssa.Parameter]bool{})
			if ok {
				fact = "the input slice is only read: handed to bytes.NewReader, measured, re-sliced, converted to a string, or passed on to package functions that do the same"
			}
			r.add(rule, fmt.Sprintf("%s · input %s", fnName(fn), p.Name()), w.pos(fn.Pos()), ok, fact)
		}
	}
	r.floor(rule+" (input byte slices)", m, 3)
}

// inputOnlyRead: every use of the byte-slice parameter p reads it — it is
// wrapped by bytes.NewReader, measured (len/cap), re-sliced or converted to a
// string (a copy), or handed to a package function whose corresponding
// parameter is itself only read (followed into the callee; a cycle of such
// hand-overs writes nothing).
func (w *World) inputOnlyRead(p *ssa.Parameter, busy map[*ssa.Parameter]bool) (bool, string) {
	if busy[p] {
		return true, ""
	}
	busy[p] = true
	var check func(v ssa.Value, depth int) (bool, string)
	check = func(v ssa.Value, depth int) (bool, string) {
		if depth > 6 {
			return false, "the input slice is re-sliced too deeply to follow"
		}
		for _, ref := range *v.Referrers() {
			switch x := ref.(type) {
			case *ssa.DebugRef:
			case *ssa.Slice:
				if x.X != v {
					continue // used as a bound, not as the sliced operand
				}
				if ok, f := check(x, depth+1); !ok {
					return false, f
				}
			case *ssa.Convert:
				if b, isB := x.Type().Underlying().(*types.Basic); !isB || b.Info()&types.IsString == 0 {
					return false, "the input slice is used by " + ref.String()
				}
			case *ssa.Call:
				if bi, isB := x.Call.Value.(*ssa.Builtin); isB && (bi.Name() == "len" || bi.Name() == "cap") {
					continue
				}
				sc := x.Call.StaticCallee()
				if sc == nil {
					return false, "the input slice is passed to " + x.String()
				}
				if qualifiedFnName(sc) == "bytes.NewReader" {
					continue
				}
				if !w.inPkg(sc) || sc.Blocks == nil {
					return false, "the input slice is passed to " + x.String()
				}
				args := x.Call.Args
				if len(args) != len(sc.Params) {
					return false, "the input slice is passed to " + x.String()
				}
				for i, a := range args {
					if a != v {
						continue
					}
					if ok, f := w.inputOnlyRead(sc.Params[i], busy); !ok {
						return false, "handed to " + fnName(sc) + ", where " + f
					}
				}
			default:
				return false, "the input slice is used by " + ref.String()
			}
		}
		return true, ""
	}
	return check(p, 0)
}

func derivesFromReflectNew(v ssa.Value, depth int) (bool, string) {
	if depth > 6 {
		return false, "receiver chain too deep"
	}
	c, ok := v.(*ssa.Call)
	if !ok {
		return false, "receiver " + v.String() + " is not derived from reflect.New in this function (it may be the caller's value)"
	}
	sc := c.Call.StaticCallee()
	if sc == nil {
		return false, "receiver comes from a dynamic call"
	}
	switch qualifiedFnName(sc) {
	case "reflect.New", "reflect.MakeSlice", "reflect.MakeMap":
		return true, "receiver derives from " + qualifiedFnName(sc) + " in the same function"
	case "(reflect.Value).Elem", "(reflect.Value).Index", "(reflect.Value).Field":
		return derivesFromReflectNew(c.Call.Args[0], depth+1)
	}
	return false, "receiver derives from " + qualifiedFnName(sc)
}

// freshBytes: the byte slice v was allocated during this call (or comes from
// a package function whose result is).
func (w *World) freshBytes(v ssa.Value, fn *ssa.Function, depth int) (bool, string) {
	if depth > 6 {
		return false, "provenance chain too deep"
	}
	switch x := v.(type) {
	case *ssa.Const:
		return true, "nil"
	case *ssa.MakeSlice:
		return true, "a slice made in this call at " + w.instrPos(x)
	case *ssa.Slice:
		return w.freshBytes(x.X, fn, depth+1)
	case *ssa.Alloc:
		return true, "an array allocated in this call"
	case *ssa.Phi:
		// a loop-carried slice (`data = append(data, chunk...)` in the chunk loop): the φ is
		// reached again through its own back edge; it is allocated in this call iff every
		// value entering the cycle from outside is (append hands on its base or a new array)
		if freshPhiBusy[x] {
			return true, "loop-carried"
		}
		freshPhiBusy[x] = true
		defer delete(freshPhiBusy, x)
		for _, e := range x.Edges {
			if ok, f := w.freshBytes(e, fn, 1); !ok {
				return false, f
			}
		}
		return true, "every incoming value is allocated in this call"
	case *ssa.UnOp:
		if al, ok := x.X.(*ssa.Alloc); ok && x.Op == token.MUL {
			sts := storesTo(al, fn)
			if len(sts) == 0 {
				return false, "returned variable is never assigned"
			}
			last := ""
			for _, sv := range sts {
				ok, f := w.freshBytes(sv, fn, depth+1)
				if !ok {
					return false, f
				}
				last = f
			}
			return true, last
		}
	case *ssa.Extract:
		if c, ok := x.Tuple.(*ssa.Call); ok && c.Call.StaticCallee() != nil && w.inPkg(c.Call.StaticCallee()) {
			return true, "forwards the result of " + fnName(c.Call.StaticCallee())
		}
	case *ssa.Call:
		sc := x.Call.StaticCallee()
		if sc != nil && qualifiedFnName(sc) == "(*bytes.Buffer).Bytes" {
			return w.freshBuffer(x.Call.Args[0], fn, depth+1)
		}
		if sc != nil && w.inPkg(sc) {
			return true, "forwards the result of " + fnName(sc)
		}
		if bi, ok := x.Call.Value.(*ssa.Builtin); ok && bi.Name() == "append" {
			return w.freshBytes(x.Call.Args[0], fn, depth+1)
		}
	}
	return false, "returned slice is " + v.String() + ": not provably allocated in this call"
}

// freshPhiBusy: the φ-nodes under examination by freshBytes (cycle cut-off).
var freshPhiBusy = map[*ssa.Phi]bool{}

// ruleFreshOutput.
func (w *World) ruleFreshOutput(r *Report, rule string) {
	n := 0
	for _, fn := range w.SrcFuncs() {
		sig := fn.Signature
		if fn.Parent() != nil || !token.IsExported(fn.Name()) || sig.Results().Len() != 2 || typeStr(sig.Results().At(0).Type()) != "[]byte" || !isErrorType(sig.Results().At(1).Type()) {
			continue
		}
		for _, b := range fn.Blocks {
			ret, ok := b.Instrs[len(b.Instrs)-1].(*ssa.Return)
			if !ok || isNilConst(ret.Results[0]) {
				continue
			}
			n++
			ok2, fact := w.freshBytes(ret.Results[0], fn, 0)
			r.add(rule, fmt.Sprintf("%s · returned bytes", fnName(fn)), w.instrPos(ret), ok2, fact)
		}
	}
	r.floor(rule, n, 3)
}
