package main

import "golang.org/x/tools/go/ssa"

// neverFailsHere: the error result of call c is nil whatever happens: c is a
// static call of a package function every return of which carries, as its
// error, the nil constant or one of the function's own parameters, and at this
// site the arguments for those parameters are nil constants.
// (`EnsureInterface(in, err)` forwards err; `EnsureInterface(rawKey, nil)`
// after the error has been dealt with by the caller cannot fail.)
func (w *World) neverFailsHere(c *ssa.Call) bool {
	sc := c.Call.StaticCallee()
	if sc == nil || !w.inPkg(sc) || sc.Blocks == nil || len(sc.FreeVars) > 0 {
		return false
	}
	idx := errIndex(sc.Signature)
	if idx < 0 {
		return false
	}
	any := false
	for _, b := range sc.Blocks {
		ret, ok := b.Instrs[len(b.Instrs)-1].(*ssa.Return)
		if !ok {
			continue
		}
		any = true
		e := ret.Results[idx]
		if isNilConst(e) {
			continue
		}
		prm, isP := e.(*ssa.Parameter)
		if !isP {
			return false
		}
		pi := -1
		for i, q := range sc.Params {
			if q == prm {
				pi = i
			}
		}
		if pi < 0 || pi >= len(c.Call.Args) || !isNilConst(c.Call.Args[pi]) {
			return false
		}
	}
	return any
}
