package main

// C03.R10 — a container reader accepts every tag of its production.
//
// The value dispatcher hands the list, object and reference readers the first
// octet it has already consumed; the reader decides the form from it (compact
// length in the tag, explicit length, variable length …).  Obligation per
// reader with a tag parameter: with the tag ranging over the specification's
// tags of its production (interval analysis of the function under that
// context), no return of a non-nil error is reachable from the entry through
// tests of the tag alone (comparisons, tag predicates, switch arms) and the
// success sides of error tests (reads that went well) — such a return is the
// reader's "unknown tag" refusal, and a refused legal tag is a legal message that does
// not decode.  Errors that depend on the decoder's state (an index beyond the
// class table) are not instances.

import (
	"fmt"
	"go/token"
	"go/types"
	"strings"

	"golang.org/x/tools/go/ssa"
)

var readerSpecTags = map[string][2]string{
	"list-typed":   {"list-typed", ""},
	"list-untyped": {"list-untyped", ""},
	"object-short": {"object", "short"},
	"ref":          {"ref", ""},
}

func (w *World) ruleReadersAcceptSpecTags(r *Report, rule string, min int) {
	consumers := w.canReach(w.streamConsumers())
	n := 0
	for fn, label := range w.readerBoundaries() {
		sp, ok := readerSpecTags[label]
		if !ok || fn.Blocks == nil {
			continue
		}
		var tagP *ssa.Parameter
		for _, p := range fn.Params {
			if b, ok := p.Type().Underlying().(*types.Basic); ok && (b.Kind() == types.Uint8) {
				tagP = p
			}
		}
		idx := errIndex(fn.Signature)
		if tagP == nil || idx < 0 {
			continue
		}
		S := specTags(sp[0], sp[1])
		n++
		// values computed from the tag and constants only
		memo := map[ssa.Value]int{}
		var fromTag func(v ssa.Value, d int) bool
		fromTag = func(v ssa.Value, d int) bool {
			if d > 10 {
				return false
			}
			if m, ok := memo[v]; ok {
				return m == 1
			}
			memo[v] = 1 // optimistic on cycles (φ of a loop-free condition chain)
			res := false
			switch x := v.(type) {
			case *ssa.Parameter:
				res = x == tagP
			case *ssa.Const:
				res = true
			case *ssa.BinOp:
				res = fromTag(x.X, d+1) && fromTag(x.Y, d+1)
			case *ssa.UnOp:
				res = x.Op != token.MUL && x.Op != token.ARROW && fromTag(x.X, d+1)
			case *ssa.Convert:
				res = fromTag(x.X, d+1)
			case *ssa.ChangeType:
				res = fromTag(x.X, d+1)
			case *ssa.Phi:
				res = true
				for _, e := range x.Edges {
					if !fromTag(e, d+1) {
						res = false
					}
				}
			case *ssa.Call:
				sc := x.Call.StaticCallee()
				if sc != nil && w.inPkg(sc) && !consumers[sc] && (w.isTagPredicate(sc) || w.finiteFn(sc) != nil) {
					res = true
					for _, a := range x.Call.Args {
						if !fromTag(a, d+1) {
							res = false
						}
					}
				}
			}
			if !res {
				memo[v] = 2
			}
			return res
		}
		f := w.flowCtx(fn, Env{"<p:" + tagP.Name() + ">": S})
		var refused ISet
		pos := ""
		seen := map[*ssa.BasicBlock]bool{}
		var walk func(b *ssa.BasicBlock)
		walk = func(b *ssa.BasicBlock) {
			if seen[b] {
				return
			}
			seen[b] = true
			switch t := b.Instrs[len(b.Instrs)-1].(type) {
			case *ssa.Return:
				if w.nonNilErr(t.Results[idx], nil, nil, 0) {
					I, _ := f.ValueAt(tagP, b)
					if I != nil && !I.Intersect(S).Empty() {
						refused = refused.Union(I.Intersect(S))
						if pos == "" {
							pos = w.instrPos(t)
						}
					}
				}
			case *ssa.If:
				if fromTag(t.Cond, 0) {
					walk(b.Succs[0])
					walk(b.Succs[1])
				} else if bo, ok := t.Cond.(*ssa.BinOp); ok && (bo.Op == token.NEQ || bo.Op == token.EQL) && (isNilConst(bo.X) || isNilConst(bo.Y)) {
					// a read that succeeded: the well-formed message goes on
					other := bo.X
					if isNilConst(other) {
						other = bo.Y
					}
					if isErrorType(other.Type()) {
						if bo.Op == token.NEQ {
							walk(b.Succs[1])
						} else {
							walk(b.Succs[0])
						}
					}
				}
			case *ssa.Jump:
				walk(b.Succs[0])
			}
		}
		walk(fn.Blocks[0])
		key := fmt.Sprintf("%s · %s tags %s", fnName(fn), label, S.HexString())
		if !refused.Empty() {
			r.add(rule, key, pos, false, fmt.Sprintf("with tag ∈ %s the reader reaches the error return at %s through tests of the tag alone (reads succeeding): it refuses tags its production contains", refused.HexString(), pos))
		} else {
			r.add(rule, key, w.pos(fn.Pos()), true, fmt.Sprintf("no error return is reachable through tests of the tag alone with a tag of the production (%d blocks examined)", len(seen)))
		}
	}
	r.floor(rule+" (container readers with a tag parameter)", n, min)
	w.ruleReadersDoNotNullLegalTags(r, rule)
}

// ruleReadersDoNotNullLegalTags: the same question for the other way a reader
// can decline a value — returning (nil, nil).  The list readers do that for a
// negative declared length; that depends on an integer read from the wire.
// Explored per reader with the tag in the production's spec set (reads opaque,
// loops not entered): a path that returns a nil value with a nil error must
// have assumed something about a value read from the stream (a refined fact on
// an opaque read result).  If the tag tests alone lead there — the length of
// the variable-length form left at its "unknown" initial value — a legal list
// decodes as null and is never registered.
func (w *World) ruleReadersDoNotNullLegalTags(r *Report, rule string) {
	consumers := w.canReach(w.streamConsumers())
	for fn, label := range w.readerBoundaries() {
		sp, ok := readerSpecTags[label]
		if !ok || fn.Blocks == nil {
			continue
		}
		var tagP *ssa.Parameter
		for _, p := range fn.Params {
			if b, ok := p.Type().Underlying().(*types.Basic); ok && b.Kind() == types.Uint8 {
				tagP = p
			}
		}
		idx := errIndex(fn.Signature)
		if tagP == nil || idx < 0 || fn.Signature.Results().Len() != 2 {
			continue
		}
		S := specTags(sp[0], sp[1])
		inLoop := map[*ssa.BasicBlock]bool{}
		for _, lp := range naturalLoops(fn) {
			for b := range lp.body {
				inLoop[b] = true
			}
		}
		var nulled ISet
		pos := ""
		returns := 0
		var px *PX
		px = w.newPX(pxHooks{
			inline: func(fr *pxFrame, callee *ssa.Function) bool {
				return !consumers[callee] && !w.isTagPredicate(callee) && w.finiteFn(callee) == nil
			},
			prune: func(fr *pxFrame, b *ssa.BasicBlock, st *pxState) bool { return fr.parent == nil && inLoop[b] },
			onReturn: func(fr *pxFrame, ret *ssa.Return, results []*Term, st *pxState) {
				returns++
				if !isNilConst(ret.Results[1-idx]) || !isNilConst(ret.Results[idx]) {
					return
				}
				// did the path assume anything about a value read from the stream?
				for k, v := range st.env {
					if strings.Contains(k, "<x#") && !strings.Contains(k, "nil:error") && !strings.HasPrefix(k, "(") {
						if full, ok := typeRangeOfKey(w, k); !ok || !v.Equal(full) {
							return
						}
					}
					if strings.HasPrefix(k, "(") && strings.Contains(k, "<x#") && !strings.Contains(k, "nil") {
						return // a comparison involving a read value was decided on this path
					}
				}
				I, _ := px.evalTerm(px.term(tagP, fr, st), st)
				if I == nil {
					I = S
				}
				nulled = nulled.Union(I.Intersect(S))
				if pos == "" {
					pos = w.instrPos(ret)
				}
			},
		})
		px.maxPaths, px.maxSteps = 4000, 100000
		px.Run(fn, Env{"<p:" + tagP.Name() + ">": S})
		key := fmt.Sprintf("%s · %s tags are not answered with null", fnName(fn), label)
		switch {
		case px.Truncated:
			r.undecided(rule, key, w.pos(fn.Pos()), "path exploration truncated")
		case !nulled.Empty():
			r.add(rule, key, pos, false, fmt.Sprintf("with tag ∈ %s the reader returns (nil, nil) at %s without having assumed anything about a value read from the stream: a legal %s decodes as null and is never registered", nulled.HexString(), pos, label))
		default:
			o := r.add(rule, key, w.pos(fn.Pos()), true, fmt.Sprintf("%d returns before the element loop: none is a (nil, nil) reached on tag tests alone", returns))
			o.Trivial = returns == 0
		}
	}
}

// typeRangeOfKey: unknown here — a fact recorded under a read result's own key
// is an assumption unless it is the full range; keys carry no type, so any
// recorded set counts as an assumption.
func typeRangeOfKey(w *World, k string) (ISet, bool) { return nil, false }
