package main

// C14.R6 — a decoded value is never handed to a formatter that walks it.
//
// Decoded graphs may be cyclic (a list that contains a back-reference to
// itself is legal Hessian): fmt's %v / %+v / %#v / %s walk slices, maps and
// interfaces recursively without a visited set, so printing such a value
// (typically in an error message about it) recurses until the goroutine stack
// is exhausted — a fatal error no recover can turn into a decode error.
// Obligation per formatting call reachable from the decode entry points
// (fmt.Sprint*/Errorf/Fprint*, and in-package functions that forward their
// variadic arguments to one): an operand that can hold decoded data — an
// empty-interface value that is not the result of recover(), a reflect.Value,
// a slice/map/pointer/struct boxed on the spot — is formatted only with a verb
// that does not walk it (%T, %p).  Scalars, strings, errors, reflect.Type and
// reflect.Kind operands are harmless.

import (
	"fmt"
	"go/constant"
	"go/types"
	"strings"

	"golang.org/x/tools/go/ssa"
)

// fmtForwarders: in-package functions with a trailing ...interface{} parameter
// that is passed on (possibly sliced) to a formatting function.
func (w *World) fmtForwarders() map[*ssa.Function]bool {
	if w.fmtFwd != nil {
		return w.fmtFwd
	}
	w.fmtFwd = map[*ssa.Function]bool{}
	for round := 0; round < 3; round++ {
		for _, fn := range w.allPkgFuncs() {
			if !fn.Signature.Variadic() || w.fmtFwd[fn] || len(fn.Params) == 0 {
				continue
			}
			vp := fn.Params[len(fn.Params)-1]
			for _, b := range fn.Blocks {
				for _, in := range b.Instrs {
					c, ok := in.(*ssa.Call)
					if !ok || !w.isFormatter(c.Call.StaticCallee()) {
						continue
					}
					for _, a := range c.Call.Args {
						if derivesFromParam(a, vp, 0) {
							w.fmtFwd[fn] = true
						}
					}
				}
			}
		}
	}
	return w.fmtFwd
}

func derivesFromParam(v ssa.Value, p *ssa.Parameter, d int) bool {
	if d > 6 {
		return false
	}
	switch x := v.(type) {
	case *ssa.Parameter:
		return x == p
	case *ssa.Slice:
		return derivesFromParam(x.X, p, d+1)
	case *ssa.Phi:
		for _, e := range x.Edges {
			if derivesFromParam(e, p, d+1) {
				return true
			}
		}
	}
	return false
}

func (w *World) isFormatter(sc *ssa.Function) bool {
	if sc == nil {
		return false
	}
	if w.inPkg(sc) {
		return w.fmtFwd[sc]
	}
	if sc.Pkg == nil || sc.Pkg.Pkg.Path() != "fmt" {
		return false
	}
	n := sc.Name()
	return strings.HasPrefix(n, "Sprint") || strings.HasPrefix(n, "Fprint") || strings.HasPrefix(n, "Print") || n == "Errorf" || strings.HasPrefix(n, "Append")
}

// walkable: a value of this static type, boxed for a formatter, can hold a
// decoded graph.
func walkable(t types.Type) bool {
	if isErrorType(t) {
		return false
	}
	switch ts := typeStr(t); ts {
	case "reflect.Type", "reflect.Kind", "reflect.StructField", "time.Time":
		return false
	case "reflect.Value":
		return true
	}
	switch u := t.Underlying().(type) {
	case *types.Basic:
		return false
	case *types.Interface:
		return u.NumMethods() == 0 // interface{}: anything; method sets (error, Stringer, Type) print themselves
	case *types.Slice:
		if b, ok := u.Elem().Underlying().(*types.Basic); ok && b.Info()&(types.IsNumeric|types.IsString|types.IsBoolean) != 0 {
			return false
		}
		return true
	case *types.Map, *types.Pointer, *types.Struct, *types.Array:
		return true
	}
	return false
}

func fromRecover(v ssa.Value, d int) bool {
	if d > 4 {
		return false
	}
	switch x := v.(type) {
	case *ssa.Call:
		if b, ok := x.Call.Value.(*ssa.Builtin); ok && b.Name() == "recover" {
			return true
		}
	case *ssa.Phi:
		for _, e := range x.Edges {
			if !fromRecover(e, d+1) {
				return false
			}
		}
		return len(x.Edges) > 0
	case *ssa.UnOp:
		if al, ok := x.X.(*ssa.Alloc); ok {
			any := false
			for _, ref := range *al.Referrers() {
				if st, ok := ref.(*ssa.Store); ok && st.Addr == ssa.Value(al) {
					any = true
					if !fromRecover(st.Val, d+1) {
						return false
					}
				}
			}
			return any
		}
	}
	return false
}

// varargOperands: the values stored into the variadic slice of call c
// (element index -> boxed operand), or nil if the slice is not built on the spot.
func varargOperands(v ssa.Value) []ssa.Value {
	sl, ok := v.(*ssa.Slice)
	if !ok {
		return nil
	}
	al, ok := sl.X.(*ssa.Alloc)
	if !ok {
		return nil
	}
	var out []ssa.Value
	for _, ref := range *al.Referrers() {
		ia, ok := ref.(*ssa.IndexAddr)
		if !ok {
			continue
		}
		k, ok := ia.Index.(*ssa.Const)
		if !ok {
			continue
		}
		for _, r2 := range *ia.Referrers() {
			if st, ok := r2.(*ssa.Store); ok && st.Addr == ssa.Value(ia) {
				i := int(k.Int64())
				for len(out) <= i {
					out = append(out, nil)
				}
				out[i] = st.Val
			}
		}
	}
	return out
}

// verbsOf: the verbs of a constant format string, one per operand consumed.
func verbsOf(format string) []byte {
	var out []byte
	for i := 0; i < len(format); i++ {
		if format[i] != '%' {
			continue
		}
		i++
		for i < len(format) && strings.IndexByte("+-# 0123456789.[]*", format[i]) >= 0 {
			i++
		}
		if i < len(format) {
			if format[i] != '%' {
				out = append(out, format[i])
			}
		}
	}
	return out
}

func (w *World) ruleNoValueWalkingFormat(r *Report, rule string, reach map[*ssa.Function]bool) {
	w.fmtForwarders()
	n, bad := 0, 0
	for _, fn := range w.SrcFuncs() {
		if !reach[fn] && !reach[rootFn(fn)] {
			continue
		}
		cnt := 0
		for _, b := range fn.Blocks {
			for _, in := range b.Instrs {
				c, ok := in.(*ssa.Call)
				if !ok || len(c.Call.Args) == 0 {
					continue
				}
				logger := isLoggerCall(c)
				if !logger && !w.isFormatter(c.Call.StaticCallee()) {
					continue
				}
				ops := varargOperands(c.Call.Args[len(c.Call.Args)-1])
				if ops == nil {
					continue // forwards a slice it was given: judged at the call sites of the forwarder
				}
				n++
				// the format string: a constant fixed argument, or the first constant string operand
				format, fi := "", -1
				if logger {
					// logger.Debugf(format, operands...): the fixed argument is the format
					if len(c.Call.Args) >= 2 {
						if k, ok := c.Call.Args[len(c.Call.Args)-2].(*ssa.Const); ok && k.Value != nil && k.Value.Kind() == constant.String {
							format = constant.StringVal(k.Value)
						}
					}
				} else if sc := c.Call.StaticCallee(); !w.inPkg(sc) && strings.HasSuffix(sc.Name(), "f") && len(c.Call.Args) >= 2 {
					// fmt's *f functions: the fixed argument before the operands is the format
					if k, ok := c.Call.Args[len(c.Call.Args)-2].(*ssa.Const); ok && k.Value != nil && k.Value.Kind() == constant.String {
						format = constant.StringVal(k.Value)
					}
				}
				if format == "" {
					for i, o := range ops {
						mi, ok := o.(*ssa.MakeInterface)
						if !ok {
							continue
						}
						if k, ok := mi.X.(*ssa.Const); ok && k.Value != nil && k.Value.Kind() == constant.String && strings.Contains(constant.StringVal(k.Value), "%") {
							format, fi = constant.StringVal(k.Value), i
							break
						}
					}
				}
				verbs := verbsOf(format)
				vi := 0
				for i, o := range ops {
					if o == nil || i <= fi {
						continue
					}
					var verb byte = 'v'
					if format != "" {
						if vi < len(verbs) {
							verb = verbs[vi]
						} else {
							verb = 0 // extra operand (newCodecError's trailing error): printed with %v by fmt's EXTRA, or popped
						}
						vi++
					}
					src := o
					t := o.Type()
					for {
						if mi, ok := src.(*ssa.MakeInterface); ok {
							src, t = mi.X, mi.X.Type()
							continue
						}
						if ci, ok := src.(*ssa.ChangeInterface); ok {
							src, t = ci.X, ci.X.Type() // an error / reflect.Type passed as interface{}
							continue
						}
						break
					}
					if !walkable(t) || fromRecover(src, 0) {
						continue
					}
					if verb == 'T' || verb == 'p' || verb == 0 && isErrorType(t) {
						continue
					}
					cnt++
					bad++
					vs := "%" + string(verb)
					if verb == 0 {
						vs = "no verb"
					}
					r.add(rule, fmt.Sprintf("%s · %s operand #%d", fnName(fn), calleeLabel(c), i+1), w.instrPos(c), false,
						fmt.Sprintf("an operand of type %s that can hold a decoded (possibly cyclic) value is formatted with %s: fmt walks lists, maps and interfaces without a visited set — a list that contains itself exhausts the stack (fatal, not recoverable)", typeStr(t), vs))
				}
			}
		}
	}
	if bad == 0 {
		o := r.add(rule, "census", "-", true, fmt.Sprintf("%d formatting calls reachable from the decode entry points: no operand that can hold decoded data is formatted with a walking verb", n))
		o.Trivial = n == 0
	}
	r.floor(rule+" (formatting calls)", n, 5)
}

// isLoggerCall: an interface method call with a trailing ...interface{} whose
// name is a logging verb (Debugf, Infof, Printf, Error, …): loggers format
// their operands with fmt.
func isLoggerCall(c *ssa.Call) bool {
	if !c.Call.IsInvoke() {
		return false
	}
	sig := c.Call.Method.Type().(*types.Signature)
	if !sig.Variadic() {
		return false
	}
	for _, p := range []string{"Debug", "Info", "Warn", "Error", "Fatal", "Panic", "Print", "Trace", "Log"} {
		if strings.HasPrefix(c.Call.Method.Name(), p) {
			return true
		}
	}
	return false
}

func calleeLabel(c *ssa.Call) string {
	if c.Call.IsInvoke() {
		return "(" + typeStr(c.Call.Value.Type()) + ")." + c.Call.Method.Name()
	}
	return qualifiedFnName(c.Call.StaticCallee())
}
