package main

import "golang.org/x/tools/go/ssa"

// roleFallback: structural discovery of a role whose conventional name is
// not present (the function was renamed).  Filled in roles_discover.go.
func (w *World) roleFallback(name string) *ssa.Function {
	if w.rolesCache == nil {
		w.rolesCache = map[string]*ssa.Function{}
		w.discoverRoles()
	}
	return w.rolesCache[name]
}
