package main

// E3 — loop exit discipline of the container readers (A.6).

import (
	"fmt"
	"go/token"
	"sort"

	"golang.org/x/tools/go/ssa"
)

type loopInfo struct {
	header *ssa.BasicBlock
	body   map[*ssa.BasicBlock]bool
}

// naturalLoops of fn: one per header (back edges p→h with h dominating p).
func naturalLoops(fn *ssa.Function) []*loopInfo {
	byHeader := map[*ssa.BasicBlock]*loopInfo{}
	for _, b := range fn.Blocks {
		for _, s := range b.Succs {
			if s.Dominates(b) { // back edge b→s
				li := byHeader[s]
				if li == nil {
					li = &loopInfo{header: s, body: map[*ssa.BasicBlock]bool{s: true}}
					byHeader[s] = li
				}
				// blocks that reach b without passing s
				stack := []*ssa.BasicBlock{b}
				for len(stack) > 0 {
					x := stack[len(stack)-1]
					stack = stack[:len(stack)-1]
					if li.body[x] {
						continue
					}
					li.body[x] = true
					for _, p := range x.Preds {
						stack = append(stack, p)
					}
				}
			}
		}
	}
	var out []*loopInfo
	for _, li := range byHeader {
		out = append(out, li)
	}
	sort.Slice(out, func(i, j int) bool { return out[i].header.Index < out[j].header.Index })
	return out
}

// elementReads: calls in the loop whose callee can reach the value dispatch
// (ReadData) and that return an error.
func (w *World) elementReads(li *loopInfo, reachesRD map[*ssa.Function]bool) []*ssa.Call {
	var out []*ssa.Call
	var blocks []*ssa.BasicBlock
	for b := range li.body {
		blocks = append(blocks, b)
	}
	sort.Slice(blocks, func(i, j int) bool { return blocks[i].Index < blocks[j].Index })
	for _, b := range blocks {
		for _, in := range b.Instrs {
			c, ok := in.(*ssa.Call)
			if !ok || errIndex(c.Call.Signature()) < 0 {
				continue
			}
			for _, cal := range w.calleesOf(c) {
				// a method value (`next := d.ReadData`) is called through its bound wrapper
				if reachesRD[cal] || reachesRD[w.throughWrapper(cal)] {
					out = append(out, c)
					break
				}
			}
		}
	}
	return out
}

// derivedFromRead: v is the value or error component of one of the reads,
// possibly passed through EnsureInterface-like wrappers (calls taking the
// read's tuple) and φ-nodes.
func derivesFromCall(v ssa.Value, calls map[*ssa.Call]bool, depth int) (*ssa.Call, int, bool) {
	if depth > 6 {
		return nil, 0, false
	}
	switch x := v.(type) {
	case *ssa.Extract:
		if c, ok := x.Tuple.(*ssa.Call); ok {
			if calls[c] {
				return c, x.Index, true
			}
			// a wrapper applied to a read's results (EnsureInterface(d.ReadData())):
			// component i of the wrapper stands for component i of the read
			for _, a := range c.Call.Args {
				if rc, _, ok := derivesFromCall(a, calls, depth+1); ok {
					return rc, x.Index, true
				}
			}
		}
	case *ssa.Phi:
		for _, e := range x.Edges {
			if c, i, ok := derivesFromCall(e, calls, depth+1); ok {
				return c, i, ok
			}
		}
	case *ssa.Call:
		if calls[x] {
			return x, -1, true
		}
	}
	return nil, 0, false
}

// ruleLoopExits. listsOnly restricts the report to the list readers' sentinel
// discipline (C03.R6); otherwise all container reader loops are covered.
func (w *World) ruleLoopExits(r *Report, rule string, listsOnly bool) {
	rd := w.fn("(*Decoder).ReadData")
	if rd == nil {
		r.undecided(rule, "(*Decoder).ReadData", "-", "anchor not found")
		return
	}
	reachesRD := w.canReach(map[*ssa.Function]bool{rd: true})
	nLoops := 0
	// the element loop of a container reader may sit in the reader itself, in a
	// helper it hands the element source to (`collectList(shape, next, put)`,
	// `pairs.consume()`) or in a closure: every package function is looked at,
	// a loop is an element loop when it contains an element read (loops_fv.go)
	var listScope map[*ssa.Function]bool
	if listsOnly {
		listScope = w.readerDelegates("(*Decoder).readTypedList", "(*Decoder).readUntypedList")
	}
	// floor: the container readers (the functions that register a container: list
	// and map readers) whose element loop was examined, wherever that loop sits —
	// two readers sharing one loop helper are two readers served
	delegates := map[*ssa.Function]map[*ssa.Function]bool{}
	if listsOnly {
		for _, n := range []string{"(*Decoder).readTypedList", "(*Decoder).readUntypedList"} {
			if f := w.fn(n); f != nil {
				delegates[f] = w.readerDelegates(n)
			}
		}
	} else if reg := w.decRegistrar(); reg != nil {
		for _, f := range w.SrcFuncs() {
			if f != reg && len(callsTo(f, reg)) > 0 {
				delegates[f] = w.readerDelegates(fnName(f))
			}
		}
	}
	served := map[*ssa.Function]bool{}
	for _, fn := range w.SrcFuncs() {
		if listsOnly && !listScope[fn] {
			continue
		}
		loops := naturalLoops(fn)
		for li, lp := range loops {
			reads := w.elementReads(lp, reachesRD)
			if len(reads) == 0 {
				continue
			}
			nLoops++
			for rdr, del := range delegates {
				if del[fn] {
					served[rdr] = true
				}
			}
			r.fnSeen(fnName(fn))
			readSet := map[*ssa.Call]bool{}
			for _, c := range reads {
				readSet[c] = true
			}
			loopKey := fmt.Sprintf("%s · loop#%d", fnName(fn), li+1)
			// an element source handed in as a function value must not make up the
			// terminator report itself
			for _, c := range reads {
				if c.Call.StaticCallee() != nil {
					continue
				}
				if okS, factS := w.elementSourceForwards(c, reachesRD); !okS {
					r.add(rule, loopKey+" · element source "+c.Call.Value.Name(), w.instrPos(c), false, factS)
				}
			}
			// exit edges
			type exit struct {
				from, to *ssa.BasicBlock
			}
			var exits []exit
			var blocks []*ssa.BasicBlock
			for b := range lp.body {
				blocks = append(blocks, b)
			}
			sort.Slice(blocks, func(i, j int) bool { return blocks[i].Index < blocks[j].Index })
			for _, b := range blocks {
				for _, s := range b.Succs {
					if !lp.body[s] {
						exits = append(exits, exit{b, s})
					}
				}
			}
			hasCounterOnly := false
			hasFlag := false
			nExit := 0
			for _, ex := range exits {
				iff, ok := ex.from.Instrs[len(ex.from.Instrs)-1].(*ssa.If)
				if !ok {
					continue
				}
				nExit++
				key := fmt.Sprintf("%s · exit#%d", loopKey, nExit)
				kind, detail := w.classifyExitCond(iff.Cond, readSet, lp)
				switch kind {
				case "counter":
					hasCounterOnly = true
					if !listsOnly {
						o := r.add(rule, key, w.instrPos(iff), true, "leaves through the counter test "+detail)
						o.Trivial = true
					}
				case "flag":
					hasFlag = true
					if !listsOnly {
						o := r.add(rule, key, w.instrPos(iff), true, "leaves through the mode flag "+detail)
						o.Trivial = true
					}
				case "sentinel":
					r.add(rule, key, w.instrPos(iff), true, "leaves on the terminator report "+detail)
				case "error":
					// all paths from the exit return a non-nil error, except through the sentinel test
					c, _, _ := derivesFromCall(errOperandOf(iff.Cond), readSet, 0)
					_ = c
					e := errOperandOf(iff.Cond)
					ok2, fact := w.pathsSurface(ex.from, ex.to, e, errOpts{allowEOFSentinel: true})
					if !listsOnly || !ok2 {
						r.add(rule, key, w.instrPos(iff), ok2, "error exit: "+fact)
					}
				default:
					// an exit whose every path returns a non-nil error is an error exit,
					// whatever it tests
					if okE, factE := w.pathsSurface(ex.from, ex.to, nil, errOpts{}); okE {
						if !listsOnly {
							r.add(rule, key, w.instrPos(iff), true, "error exit ("+detail+"): "+factE)
						}
						continue
					}
					r.add(rule, key, w.instrPos(iff), false, "the loop is left on a condition over a decoded value ("+detail+"): a null element/key is a value, not the end of the container — the remaining elements and the terminator are left in the stream")
				}
			}
			// unbounded loops need a terminator exit that really leaves
			unbounded := hasFlag || !hasCounterOnly
			if unbounded {
				found, leaves, pos := false, false, "-"
				for _, b := range fn.Blocks {
					iff, ok := b.Instrs[len(b.Instrs)-1].(*ssa.If)
					if !ok {
						continue
					}
					// the terminator report handed on as a boolean by the helper that reads the element
					if c, neg, isFlag := w.terminatorFlagOf(iff.Cond); isFlag && readSet[c] {
						found = true
						pos = w.instrPos(iff)
						edge := 0
						if neg {
							edge = 1
						}
						if w.leavesLoop(b.Succs[edge], lp, map[*ssa.BasicBlock]bool{}) {
							leaves = true
						}
						continue
					}
					bo, ok := iff.Cond.(*ssa.BinOp)
					if !ok || (bo.Op != token.EQL && bo.Op != token.NEQ) {
						continue
					}
					eofEdge := 0
					if bo.Op == token.NEQ {
						eofEdge = 1 // `if err != io.EOF { return err }` — the false edge is the terminator
					}
					var e ssa.Value
					if isEOFLoad(bo.Y) {
						e = bo.X
					} else if isEOFLoad(bo.X) {
						e = bo.Y
					}
					if e == nil {
						continue
					}
					if _, _, ok := derivesFromCall(e, readSet, 0); !ok {
						continue
					}
					found = true
					pos = w.instrPos(iff)
					// follow the true edge through further flag tests: does it stay out of the loop?
					if w.leavesLoop(b.Succs[eofEdge], lp, map[*ssa.BasicBlock]bool{}) {
						leaves = true
					}
				}
				fact := "the terminator report (err == io.EOF) leaves the loop"
				if !found {
					fact = "unbounded loop without a terminator test: it cannot end on 'Z'"
				} else if !leaves {
					fact = "the terminator test does not leave the loop (continue): the loop reads past 'Z'"
				}
				r.add(rule, loopKey+" · terminator exit", pos, found && leaves, fact)
			}
		}
	}
	min := 5
	if listsOnly {
		min = 2
	}
	_ = nLoops
	r.floor(rule+" (element loops)", len(served), min)
}

// leavesLoop: every path from b leaves the loop body (does not re-enter it).
func (w *World) leavesLoop(b *ssa.BasicBlock, lp *loopInfo, seen map[*ssa.BasicBlock]bool) bool {
	if lp.body[b] {
		return false
	}
	if seen[b] {
		return true
	}
	seen[b] = true
	// only follow the immediate chain of flag tests (blocks ending in If
	// without side effects); anything else counts as "left the loop"
	if iff, ok := b.Instrs[len(b.Instrs)-1].(*ssa.If); ok && len(b.Instrs) <= 2 {
		_ = iff
		for _, s := range b.Succs {
			if lp.body[s] {
				// one branch goes back into the loop: acceptable only if the other one leaves (mode flag)
				continue
			}
		}
		any := false
		for _, s := range b.Succs {
			if !lp.body[s] {
				any = true
			}
		}
		return any
	}
	return true
}

func errOperandOf(cond ssa.Value) ssa.Value {
	bo, ok := cond.(*ssa.BinOp)
	if !ok {
		return nil
	}
	if isNilConst(bo.Y) {
		return bo.X
	}
	if isNilConst(bo.X) {
		return bo.Y
	}
	return nil
}

// classifyExitCond: counter | flag | sentinel | error | value.
func (w *World) classifyExitCond(cond ssa.Value, reads map[*ssa.Call]bool, lp *loopInfo) (string, string) {
	bo, ok := cond.(*ssa.BinOp)
	if !ok {
		// the terminator report of an element read, handed on as a boolean result by a helper
		if c, _, isFlag := w.terminatorFlagOf(cond); isFlag && reads[c] {
			return "sentinel", cond.String() + " (true only on the terminator report inside " + fnName(c.Call.StaticCallee()) + ")"
		}
		if phi, isPhi := cond.(*ssa.Phi); isPhi {
			// `a || b` as a value: classify by the strongest operand
			kinds := map[string]bool{}
			for _, e := range phi.Edges {
				k, _ := w.classifyExitCond(e, reads, lp)
				kinds[k] = true
			}
			for _, k := range []string{"value", "error", "sentinel", "flag", "counter"} {
				if kinds[k] {
					return k, cond.String()
				}
			}
		}
		if _, isConst := cond.(*ssa.Const); isConst {
			return "counter", "constant"
		}
		// a mode flag kept in a parameter struct (`shape.open`, `!p.fixed`): a
		// projection of something the loop does not define
		if loopInvariant(cond, lp, 0) {
			return "flag", cond.String()
		}
		return "value", cond.String()
	}
	desc := bo.X.String() + " " + bo.Op.String() + " " + bo.Y.String()
	// sentinel
	if isEOFLoad(bo.X) || isEOFLoad(bo.Y) {
		return "sentinel", desc
	}
	// error test on an element read
	if e := errOperandOf(cond); e != nil && isErrorType(e.Type()) {
		return "error", desc
	}
	// value of an element read compared with nil
	for _, op := range []ssa.Value{bo.X, bo.Y} {
		if _, idx, ok := derivesFromCall(op, reads, 0); ok && idx == 0 {
			return "value", desc
		}
	}
	// counter: a φ of the loop header (possibly ± a constant: range loops test i+1 < len) compared with something
	for _, op := range []ssa.Value{bo.X, bo.Y} {
		if phi, ok := op.(*ssa.Phi); ok && phi.Block() == lp.header {
			return "counter", desc
		}
		if b2, ok := op.(*ssa.BinOp); ok && (b2.Op == token.ADD || b2.Op == token.SUB) {
			for _, o2 := range []ssa.Value{b2.X, b2.Y} {
				if phi, ok := o2.(*ssa.Phi); ok && phi.Block() == lp.header {
					return "counter", desc
				}
			}
		}
	}
	// flag: comparison not involving loop-defined values (e.g. tag == const)
	for _, op := range []ssa.Value{bo.X, bo.Y} {
		if in, ok := op.(ssa.Instruction); ok && lp.body[in.Block()] && !loopInvariant(op, lp, 0) {
			return "value", desc
		}
	}
	return "flag", desc
}
