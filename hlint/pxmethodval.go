package main

// Method values of LIBRARY methods on the path explorer.
//
// `size := vv.Len` … `size()` is the call `vv.Len()`: a method value binds its
// receiver when it is made (a reflect.Value is copied, the copy refers to the
// same underlying variable) and calling it calls the method on that receiver.
// pxfuncs.go funcValueCallee steps into method values of package methods; a
// library method is not stepped into, but its call through the method
// value must be the SAME TERM as the direct call — `pure:(reflect.Value).Len(vv)`
// — or the loop bound `i >= size()`, the declared count `int32(size())` and
// the returned `size()` are three unrelated symbols (and the element loop, its
// exit test undecided for ever, is unrolled until the budget ends).

import (
	"strings"

	"golang.org/x/tools/go/ssa"
)

// boundLibMethod: the call x goes through a method value, made on this path,
// of a method of another package (library code, never stepped into): the method and the term of the
// receiver it was bound to.
func (p *PX) boundLibMethod(x *ssa.Call, fr *pxFrame, st *pxState) (*ssa.Function, *Term) {
	c := x.Common()
	if c.IsInvoke() || c.StaticCallee() != nil {
		return nil, nil
	}
	if _, isB := c.Value.(*ssa.Builtin); isB {
		return nil, nil
	}
	ft := p.term(c.Value, fr, st)
	if ft == nil || ft.K != TLeaf {
		return nil, nil
	}
	if _, ok := ft.V.(*ssa.MakeClosure); !ok {
		return nil, nil
	}
	clo := p.closures[ft.key]
	if clo == nil || clo.fn == nil || clo.fn.Synthetic == "" || !strings.HasSuffix(clo.fn.Name(), "$bound") || len(clo.binds) != 1 {
		return nil, nil
	}
	m := p.w.throughWrapper(clo.fn)
	if m == nil || m == clo.fn || p.w.inPkg(m) || m.Signature.Recv() == nil {
		return nil, nil
	}
	return m, clo.binds[0]
}
