package main

// Kind runs: the value dispatch of the encoder (WriteData) and the field
// dispatch of the decoder (readField) explored once per reflect.Kind with the
// path explorer.  Every Kind() result met on the way is pinned to the kind
// under study (for a non-pointer kind every Kind() of the dispatch refers to
// the value being written), so the outcome does not depend on whether the
// dispatch is a switch, an if chain, a table of predicates or a helper.

import (
	"fmt"
	"go/types"
	"sort"
	"strings"

	"golang.org/x/tools/go/ssa"
)

type kindPath struct {
	Arm       string // label of the first boundary met ("" = none)
	Callee    *ssa.Function
	Call      *ssa.Call
	Args      []*Term // explicit arguments of the boundary call
	Env       Env
	Ret       *ssa.Return
	ErrNonNil bool // the root returns a provably non-nil error
	Pos       string
}

// convUse: a conversion of the reflected value (v.Int(), v.Uint()) reaching a
// use (argument of a call that is not stepped into).
type convUse struct {
	Lossy bool
	Fact  string
}

type kindRunResult struct {
	paths     []kindPath
	truncated bool
	uses      map[*ssa.Convert][]convUse
	// census (kindcensus.go): the integer conversions executed on some path of
	// this kind with the union of their operand sets (nil = not evaluable), and
	// the functions entered
	convs   map[*ssa.Convert]ISet
	convTop map[*ssa.Convert]bool
	entered map[*ssa.Function]bool
	// library calls executed on some path of this kind -> key of the term of their
	// first argument (the receiver of a reflect setter), and the root's returns
	libCalls map[*ssa.Call]string
	rets     []kindRet
}

// kindRet: one return of the explored root on a path of the kind.
type kindRet struct {
	Ret    *ssa.Return
	Err    *Term // the error result (nil when the root has none)
	Origin *Term // the recorded call the error is the result of, if any
	Armed  bool  // a boundary (wire reader / writer) was met before
}

type kindRunKey struct {
	fn   *ssa.Function
	k    int64
	side string
}

func isKindResult(c *ssa.Call) bool {
	t := c.Type()
	n, ok := t.(*types.Named)
	return ok && n.Obj().Pkg() != nil && n.Obj().Pkg().Path() == "reflect" && n.Obj().Name() == "Kind"
}

// kindRun explores fn with every reflect Kind() pinned to k; side "enc" stops
// at the writer boundaries, side "dec" at the reader boundaries.
func (w *World) kindRun(fn *ssa.Function, k int64, side string) *kindRunResult {
	if w.kindCache == nil {
		w.kindCache = map[kindRunKey]*kindRunResult{}
	}
	key := kindRunKey{fn, k, side}
	if r, ok := w.kindCache[key]; ok {
		return r
	}
	var bounds map[*ssa.Function]string
	if side == "enc" {
		bounds = w.writerBoundaries()
	} else {
		bounds = map[*ssa.Function]string{}
		for f, l := range w.readerBoundaries() {
			bounds[f] = l
		}
		// the field dispatch hands the stream to value readers: a function that obtains
		// a fresh tag itself reads one value of its own production (readMap, the
		// struct-field dispatcher, …) and is not part of the kind dispatch
		for _, f := range w.SrcFuncs() {
			if _, isB := bounds[f]; !isB && f != fn && f.Parent() == nil && w.readsFreshTag(f) {
				bounds[f] = "reader:" + w.canonName(f)
			}
		}
	}
	delete(bounds, fn)
	res := &kindRunResult{uses: map[*ssa.Convert][]convUse{}, convs: map[*ssa.Convert]ISet{}, convTop: map[*ssa.Convert]bool{}, entered: map[*ssa.Function]bool{fn: true}, libCalls: map[*ssa.Call]string{}}
	var px *PX
	checkUse := func(t *Term, st *pxState, depth int) {}
	checkUse = func(t *Term, st *pxState, depth int) {
		if t == nil || depth > 8 {
			return
		}
		switch t.K {
		case TConv:
			if cv, ok := t.V.(*ssa.Convert); ok && (strings.Contains(t.A.key, "(reflect.Value).Int(") || strings.Contains(t.A.key, "(reflect.Value).Uint(")) {
				if tb, tsig, ok2 := intTypeInfo(w, t.T); ok2 {
					if _, _, ok1 := intTypeInfo(w, t.A.T); ok1 {
						src, _ := px.evalTerm(t.A, st)
						u := convUse{}
						if src == nil {
							u.Lossy, u.Fact = true, "operand not evaluable"
						} else if _, changed := src.wrap(tb, tsig); changed {
							u.Lossy, u.Fact = true, fmt.Sprintf("kind %s: operand ∈ %s does not fit %s at the use", kindNames[k], src, typeStr(t.T))
						} else {
							u.Fact = fmt.Sprintf("kind %s: operand ∈ %s fits %s at the use", kindNames[k], src, typeStr(t.T))
						}
						res.uses[cv] = append(res.uses[cv], u)
					}
				}
			}
			checkUse(t.A, st, depth+1)
		case TBin:
			checkUse(t.A, st, depth+1)
			checkUse(t.B, st, depth+1)
		case TNot:
			checkUse(t.A, st, depth+1)
		case TPure:
			for _, a := range t.Args {
				checkUse(a, st, depth+1)
			}
		}
	}
	px = w.newPX(pxHooks{
		onInstr: func(fr *pxFrame, in ssa.Instruction, st *pxState) bool {
			res.entered[fr.fn] = true
			if cv, isCv := in.(*ssa.Convert); isCv {
				if _, _, ok1 := intTypeInfo(w, cv.X.Type()); ok1 {
					if _, _, ok2 := intTypeInfo(w, cv.Type()); ok2 {
						if src, _ := px.eval(cv.X, fr, st); src == nil {
							res.convTop[cv] = true
						} else {
							res.convs[cv] = res.convs[cv].Union(src)
						}
					}
				}
				return true
			}
			c, ok := in.(*ssa.Call)
			if !ok {
				return true
			}
			if isKindResult(c) {
				// pin: the fact under the pure key bounds Int()/Uint() of the same receiver
				t := px.term(c, fr, st)
				st.env[t.key] = single(k)
				st.vals[px.reg(fr, c)] = &Term{K: TConst, C: bi(k), T: c.Type(), key: fmt.Sprint(k)}
				st.vals["__kind"] = zeroTerm(types.Typ[types.Int])
				return false
			}
			sc := px.calleeOf(c, fr, st) // static, or through a function value the path knows
			if sc != nil && !w.inPkg(sc) && len(c.Call.Args) > 0 {
				// every distinct first-argument term the site is executed with (bounded)
				k := px.term(c.Call.Args[0], fr, st).key
				if prev, seen := res.libCalls[c]; !seen {
					res.libCalls[c] = k
				} else if !strings.Contains(prev, k) && len(prev) < 4000 {
					res.libCalls[c] = prev + " | " + k
				}
			}
			label, isB := "", false
			if sc != nil {
				label, isB = bounds[sc]
			}
			stepped := sc != nil && !isB && px.defaultInline(fr, sc)
			if !stepped {
				// a use: the argument values leave the explored code here
				for _, a := range c.Call.Args {
					checkUse(px.term(a, fr, st), st, 0)
				}
			}
			if _, done := st.vals["__arm"]; done {
				return false
			}
			if _, pinned := st.vals["__kind"]; isB && !pinned {
				// before any Kind() was consulted: this path is not about a value of
				// kind k (the untyped nil has no kind)
				st.vals["__arm"] = zeroTerm(types.Typ[types.Int])
				return false
			}
			if isB {
				args := c.Call.Args
				if sc.Signature.Recv() != nil && len(args) > 0 {
					args = args[1:]
				}
				kp := kindPath{Arm: label, Callee: sc, Call: c, Env: st.env.clone(), Pos: w.instrPos(c)}
				for _, a := range args {
					kp.Args = append(kp.Args, px.term(a, fr, st))
				}
				st.vals["__arm"] = zeroTerm(types.Typ[types.Int])
				st.trace = append(st.trace, pxEvent{Kind: "arm", Call: c, Extra: fmt.Sprint(len(res.paths))})
				res.paths = append(res.paths, kp)
				return false
			}
			return true
		},
		onReturn: func(fr *pxFrame, ret *ssa.Return, results []*Term, st *pxState) {
			if _, pinned := st.vals["__kind"]; pinned {
				kr := kindRet{Ret: ret}
				_, kr.Armed = st.vals["__arm"]
				if idx := errIndex(fn.Signature); idx >= 0 && idx < len(results) {
					kr.Err = results[idx]
					kr.Origin = st.originOf(results[idx])
				}
				res.rets = append(res.rets, kr)
			}
			if _, done := st.vals["__arm"]; done {
				return
			}
			if _, pinned := st.vals["__kind"]; !pinned {
				return
			}
			kp := kindPath{Ret: ret, Env: st.env, Pos: w.instrPos(ret)}
			if idx := errIndex(fn.Signature); idx >= 0 {
				et := results[idx]
				if w.nonNilErr(ret.Results[idx], nil, nil, 0) {
					kp.ErrNonNil = true
				}
				if s, has := st.env["("+et.key+" != nil:error)"]; has && s.Equal(single(1)) {
					kp.ErrNonNil = true
				}
				if et.V != nil {
					if _, mk := et.V.(*ssa.MakeInterface); mk {
						kp.ErrNonNil = true
					}
				}
			}
			res.paths = append(res.paths, kp)
		},
	})
	px.Run(fn, nil)
	res.truncated = px.Truncated
	w.kindCache[key] = res
	return res
}

// kindArms: the distinct boundary labels reached for kind k (error-only and
// armless paths are reported as "error" / "none").
func (r *kindRunResult) arms() []string {
	set := map[string]bool{}
	for _, p := range r.paths {
		switch {
		case p.Arm != "":
			set[p.Arm] = true
		case p.ErrNonNil:
			set["error"] = true
		default:
			set["none"] = true
		}
	}
	var out []string
	for k := range set {
		out = append(out, k)
	}
	sort.Strings(out)
	return out
}

var kindByName = func() map[string]int64 {
	m := map[string]int64{}
	for k, n := range kindNames {
		m[n] = k
	}
	return m
}()

// convVerdict: how the kind runs of the encoder's value dispatch see the uses
// of conversion cv: seen at all, and lossy at some use.
func (w *World) convVerdict(cv *ssa.Convert) (seen, lossy bool, fact string) {
	wd := w.fn("(*Encoder).WriteData")
	if wd == nil {
		return false, false, ""
	}
	for k := int64(2); k <= 11; k++ {
		kr := w.kindRun(wd, k, "enc")
		if kr.truncated {
			return true, true, "exploration truncated"
		}
		for _, u := range kr.uses[cv] {
			seen = true
			if u.Lossy {
				return true, true, u.Fact
			}
			fact = u.Fact
		}
	}
	return seen, false, fact
}
