package main

// Enumerative refinement (flow.go refine; used by the fixpoint and by px).
//
// Two shapes of "membership in a constant set of small integers" that the
// interval domain cannot invert, but that are decided exactly by trying the
// few values the tested quantity can take:
//
//   - a bit set tested by a shift: `set>>k&1 != 0`, `1<<k&set != 0` with `set`
//     a constant and k a reflect.Kind (27 values) or a quantity already known
//     to lie in a small set.  A comparison whose only unknown is that k is
//     evaluated once per value of k; the values for which the outcome is
//     impossible are dropped.  Sound: the comparison is a pure function of k.
//
//   - a predicate with constant extra operands: `_listKinds.has(kind)`,
//     `inSet(mask, kind)`: a package function of bool result, one operand of a
//     small domain (reflect.Kind, an octet) and otherwise integer constants at
//     the call site.  The function specialised by those constants is
//     summarised like a one-parameter tag predicate (pxforms.go pxPredicateCtx:
//     explored once per value), and its outcome refines the operand.

import (
	"fmt"
	"go/token"
	"go/types"
	"sort"
	"strings"

	"golang.org/x/tools/go/ssa"
)

// hasVarShift: the term contains a shift by a non-constant amount.
func hasVarShift(t *Term, depth int) bool {
	if t == nil || depth > 12 {
		return false
	}
	switch t.K {
	case TBin:
		if (t.Op == token.SHR || t.Op == token.SHL) && t.B != nil && t.B.K != TConst {
			return true
		}
		return hasVarShift(t.A, depth+1) || hasVarShift(t.B, depth+1)
	case TConv, TNot:
		return hasVarShift(t.A, depth+1)
	}
	return false
}

// termLeaves: the non-constant leaves of an arithmetic term, by key.
func termLeaves(t *Term, out map[string]*Term, depth int) bool {
	if t == nil || depth > 12 {
		return false
	}
	switch t.K {
	case TConst, TBoolConst:
		return true
	case TBin:
		return termLeaves(t.A, out, depth+1) && termLeaves(t.B, out, depth+1)
	case TConv, TNot:
		return termLeaves(t.A, out, depth+1)
	default:
		out[t.key] = t
		return true
	}
}

// smallSet: the current values of t when they are few; the result of a reflect
// Kind() getter is one of the 27 kinds (library semantics).
func (f *Flow) smallSet(t *Term, env Env) ([]int64, bool) {
	cur, _ := f.Eval(t, env)
	if cur == nil {
		return nil, false
	}
	if typeStr(t.T) == "reflect.Kind" && t.K == TPure {
		cur = cur.Intersect(mkSet(0, 26))
	}
	return cur.Elems(64)
}

// refineEnum: cond is a comparison over ONE unknown with few values: keep the
// values under which the comparison can have the wanted outcome.  applied =
// false when the shape does not fit (the caller goes on with its own rules).
func (f *Flow) refineEnum(env Env, cond *Term, truth bool) (out Env, feasible bool, applied bool) {
	leaves := map[string]*Term{}
	if !termLeaves(cond, leaves, 0) || len(leaves) != 1 {
		return env, true, false
	}
	var x *Term
	for _, l := range leaves {
		x = l
	}
	vals, ok := f.smallSet(x, env)
	if !ok || len(vals) == 0 {
		return env, true, false
	}
	want := int64(0)
	if truth {
		want = 1
	}
	var keep ISet
	for _, v := range vals {
		e2 := env.clone()
		e2[x.key] = single(v)
		r, _ := f.Eval(cond, e2)
		if r != nil && !r.Contains(want) {
			continue
		}
		keep = keep.Union(single(v))
	}
	if keep.Empty() {
		return env, false, true
	}
	o := env.clone()
	f.assign(o, x, keep)
	return o, true, true
}

type predCtxKey struct {
	fn  *ssa.Function
	ctx string
}

var predCtxMemo = map[predCtxKey]*ISet{}

// predCtx: call is `p(c1, …, x, …, cn)` with p an in-package function of bool
// result, x the only non-constant operand, of a small domain, and every ci an
// integer constant.  Returns the truth set of x and x's operand.
func (w *World) predCtx(call *ssa.CallCommon) (*ISet, ssa.Value) {
	sc := call.StaticCallee()
	if sc == nil || call.IsInvoke() || sc.Blocks == nil || !w.inPkg(sc) || len(sc.FreeVars) != 0 || len(call.Args) != len(sc.Params) || len(call.Args) < 2 {
		return nil, nil
	}
	res := sc.Signature.Results()
	if res.Len() != 1 {
		return nil, nil
	}
	if b, ok := res.At(0).Type().Underlying().(*types.Basic); !ok || b.Kind() != types.Bool {
		return nil, nil
	}
	idx := -1
	fixed := Env{}
	var ctx []string
	for i, a := range call.Args {
		if k, ok := a.(*ssa.Const); ok {
			if k.Value == nil {
				return nil, nil
			}
			v, isInt := constInt64(k)
			if !isInt {
				return nil, nil
			}
			fixed["<p:"+sc.Params[i].Name()+">"] = single(v)
			ctx = append(ctx, fmt.Sprintf("%d=%d", i, v))
			continue
		}
		if idx >= 0 {
			return nil, nil
		}
		idx = i
	}
	if idx < 0 {
		return nil, nil
	}
	dom, ok := finDomain(w, sc.Params[idx].Type())
	if !ok {
		return nil, nil
	}
	// parameter names must be distinct (they key the bindings)
	names := map[string]bool{}
	for _, p := range sc.Params {
		if names[p.Name()] || p.Name() == "_" {
			return nil, nil
		}
		names[p.Name()] = true
	}
	sort.Strings(ctx)
	key := predCtxKey{sc, fmt.Sprintf("%d|%s", idx, strings.Join(ctx, ","))}
	if s, ok := predCtxMemo[key]; ok {
		return s, call.Args[idx]
	}
	predCtxMemo[key] = nil // recursion guard
	hi := int(dom.Max().Int64())
	if s, ok := w.pxPredicateCtx(sc, idx, hi, fixed); ok {
		predCtxMemo[key] = &s
	}
	return predCtxMemo[key], call.Args[idx]
}

// constInt64: the value of an integer constant.
func constInt64(k *ssa.Const) (int64, bool) {
	b, ok := k.Type().Underlying().(*types.Basic)
	if !ok || b.Info()&types.IsInteger == 0 || k.Value == nil {
		return 0, false
	}
	if b.Info()&types.IsUnsigned != 0 {
		u := k.Uint64()
		if u > 1<<62 {
			return 0, false
		}
		return int64(u), true
	}
	return k.Int64(), true
}

// refinePredCtx: the outcome of a predicate with constant extra operands is a
// fact about its one unknown operand.
func (f *Flow) refinePredCtx(env Env, call *ssa.CallCommon, truth bool) (Env, bool, bool) {
	sum, av := f.w.predCtx(call)
	if sum == nil {
		return env, true, false
	}
	arg := f.term(av)
	cur, _ := f.Eval(arg, env)
	if cur == nil {
		return env, true, false
	}
	dom, _ := finDomain(f.w, av.Type())
	var nw ISet
	kindGetter := typeStr(arg.T) == "reflect.Kind" && arg.K == TPure
	if truth {
		nw = cur.Intersect(*sum)
		if !kindGetter {
			// values outside the enumerated domain are kept: nothing is known about them
			nw = nw.Union(cur.Minus(dom))
		}
	} else {
		// values outside the enumerated domain are kept: nothing is known about them
		nw = cur.Minus(*sum)
		if kindGetter {
			nw = nw.Intersect(dom)
		}
	}
	if nw.Empty() {
		return env, false, true
	}
	out := env.clone()
	f.assign(out, arg, nw)
	return out, true, true
}
