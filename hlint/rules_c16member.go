package main

import (
	"go/token"

	"golang.org/x/tools/go/ssa"
)

// Membership tests of the visited map (C16.R1 "the extractor inserts what it
// tests").  The test `_, ok := m[K]; if ok {…}` may sit in the extractor
// itself or in a (value, ok) / bool accessor of the object that holds the map
// (`func (c *collector) recorded(name string) bool { _, ok := c.types[name];
// return ok }`, `if c.recorded(name) { return false }`).  The accessor is read
// by what it returns: on every return the result in question is the comma-ok
// flag of ONE lookup whose map is a parameter (or a field of a parameter) and
// whose key is a parameter; the test is then the lookup with the parameters
// replaced by the operands of the call.  Negations (`!ok`, `if !seen(k)`) flip
// the polarity.  Nothing is recognised by name.

// memberTest: "cond is true iff key is present in the map" (neg: iff absent).
// The map is `base` when field < 0, otherwise the field `field` of the struct
// `base` points to (or is).
type memberTest struct {
	base  ssa.Value
	field int
	key   ssa.Value
	neg   bool
	lk    *ssa.Lookup // the lookup instruction (in the function that holds it)
}

// memberTestOf resolves a boolean value of fn to a membership test expressed
// over values of the function v lives in.
func (w *World) memberTestOf(v ssa.Value, depth int) (memberTest, bool) {
	if depth > 3 {
		return memberTest{}, false
	}
	switch x := v.(type) {
	case *ssa.UnOp:
		if x.Op == token.NOT {
			mt, ok := w.memberTestOf(x.X, depth)
			mt.neg = !mt.neg
			return mt, ok
		}
	case *ssa.Extract:
		switch t := x.Tuple.(type) {
		case *ssa.Lookup:
			if t.CommaOk && x.Index == 1 {
				base, field := mapDescriptor(t.X)
				return memberTest{base: base, field: field, key: t.Index, lk: t}, true
			}
		case *ssa.Call:
			return w.memberTestOfCall(t, x.Index, depth)
		}
	case *ssa.Call:
		return w.memberTestOfCall(x, 0, depth)
	}
	return memberTest{}, false
}

// mapDescriptor: `*(&p.f)` is (p, f); anything else is (value, -1).
func mapDescriptor(m ssa.Value) (ssa.Value, int) {
	if u, ok := m.(*ssa.UnOp); ok && u.Op == token.MUL {
		if fa, ok := u.X.(*ssa.FieldAddr); ok {
			return fa.X, fa.Field
		}
	}
	if f, ok := m.(*ssa.Field); ok {
		return f.X, f.Field
	}
	return m, -1
}

func (w *World) memberTestOfCall(c *ssa.Call, result int, depth int) (memberTest, bool) {
	sc := c.Call.StaticCallee()
	if sc == nil || sc.Blocks == nil || !w.inPkg(sc) || c.Call.IsInvoke() {
		return memberTest{}, false
	}
	var out memberTest
	n := 0
	for _, b := range sc.Blocks {
		ret, ok := b.Instrs[len(b.Instrs)-1].(*ssa.Return)
		if !ok {
			continue
		}
		if result >= len(ret.Results) {
			return memberTest{}, false
		}
		mt, ok := w.memberTestOf(ret.Results[result], depth+1)
		if !ok {
			return memberTest{}, false
		}
		if n > 0 && (mt.lk != out.lk || mt.neg != out.neg) {
			return memberTest{}, false
		}
		out = mt
		n++
	}
	if n == 0 {
		return memberTest{}, false
	}
	// the callee's parameters are the operands of this call
	arg := func(v ssa.Value) (ssa.Value, bool) {
		p, ok := v.(*ssa.Parameter)
		if !ok {
			return nil, false
		}
		for i, q := range sc.Params {
			if q == p && i < len(c.Call.Args) {
				return c.Call.Args[i], true
			}
		}
		return nil, false
	}
	var ok1, ok2 bool
	out.base, ok1 = arg(out.base)
	out.key, ok2 = arg(out.key)
	if !ok1 || !ok2 {
		return memberTest{}, false
	}
	if out.field < 0 {
		// the map itself was handed over: it may be a field load in the caller
		out.base, out.field = mapDescriptor(out.base)
	}
	return out, true
}

// isMap: m (a value of the function f analyses) is the map the test looks into.
func (mt memberTest) isMap(f *Flow, m ssa.Value) bool {
	base, field := mapDescriptor(m)
	if field != mt.field {
		return false
	}
	if base == mt.base || sameCell(base, mt.base) {
		return true
	}
	return f.term(base).Key() == f.term(mt.base).Key()
}

// memberIfs: the branches of fn on a membership test, with the index of the
// successor taken when the key is ABSENT.
type memberIf struct {
	iff  *ssa.If
	miss int
	mt   memberTest
}

func (w *World) memberIfs(fn *ssa.Function) []memberIf {
	var out []memberIf
	for _, b := range fn.Blocks {
		iff, ok := b.Instrs[len(b.Instrs)-1].(*ssa.If)
		if !ok {
			continue
		}
		mt, ok := w.memberTestOf(iff.Cond, 0)
		if !ok {
			continue
		}
		miss := 1
		if mt.neg {
			miss = 0
		}
		out = append(out, memberIf{iff: iff, miss: miss, mt: mt})
	}
	return out
}
