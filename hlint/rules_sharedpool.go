package main

// C12.R6 — memory put back into a shared pool is not handed out.
//
// A package-level sync.Pool is synchronised by contract (C12.R1 lets it pass),
// but what it recycles is shared between every instance and goroutine.  A
// function that takes an object from such a pool (directly or through a getter
// helper), gives it back (Put, directly, deferred or through a helper) and
// returns memory of that object — `defer put(buf); return buf.Bytes()` — hands
// its caller bytes that the next taker overwrites: two encoders running
// concurrently corrupt each other's output.  Obligation per function that both
// takes from and puts back into a package-level pool: no returned value aliases
// the pooled object (the object itself, a slice / pointer obtained from its
// methods or fields; a conversion to string copies and is fine).

import (
	"fmt"
	"go/token"
	"os"

	"golang.org/x/tools/go/ssa"
)

func isPoolMethod(c *ssa.CallCommon, name string) bool {
	sc := c.StaticCallee()
	return sc != nil && qualifiedFnName(sc) == "(*sync.Pool)."+name
}

func (w *World) ruleSharedPoolAliases(r *Report, rule string) {
	// getters: functions returning an object taken from a pool; putters: functions
	// whose parameter goes into Put
	getter := map[*ssa.Function]bool{}
	putter := map[*ssa.Function]int{} // fn -> parameter index+1
	taintedIn := func(fn *ssa.Function) map[ssa.Value]bool {
		t := map[ssa.Value]bool{}
		for changed := true; changed; {
			changed = false
			for _, b := range fn.Blocks {
				for _, in := range b.Instrs {
					v, ok := in.(ssa.Value)
					if !ok || t[v] {
						continue
					}
					hit := false
					switch x := in.(type) {
					case *ssa.Call:
						if isPoolMethod(&x.Call, "Get") {
							hit = true
						} else if sc := x.Call.StaticCallee(); sc != nil && getter[sc] {
							hit = true
						} else if sc != nil && !w.inPkg(sc) && sc.Signature.Recv() != nil && len(x.Call.Args) > 0 && t[x.Call.Args[0]] {
							// a method of the pooled object that hands out its memory
							ts := typeStr(x.Type())
							if len(ts) > 0 && (ts[0] == '[' || ts[0] == '*') {
								hit = true
							}
						}
					case *ssa.TypeAssert:
						hit = t[x.X]
					case *ssa.Extract:
						hit = t[x.Tuple]
					case *ssa.Phi:
						for _, e := range x.Edges {
							if t[e] {
								hit = true
							}
						}
					case *ssa.Slice:
						hit = t[x.X]
					case *ssa.ChangeType:
						hit = t[x.X]
					case *ssa.MakeInterface:
						hit = t[x.X]
					case *ssa.FieldAddr:
						hit = t[x.X]
					case *ssa.UnOp:
						// a result spilled to a cell because the function has a defer
						if al, isAl := x.X.(*ssa.Alloc); isAl && x.Op == token.MUL {
							for _, ref := range *al.Referrers() {
								if st, ok := ref.(*ssa.Store); ok && st.Addr == ssa.Value(al) && t[st.Val] {
									hit = true
								}
							}
						}
						if _, isFA := x.X.(*ssa.FieldAddr); isFA && t[x.X] {
							ts := typeStr(x.Type())
							hit = len(ts) > 0 && (ts[0] == '[' || ts[0] == '*')
						}
					}
					if hit {
						t[v] = true
						changed = true
					}
				}
			}
		}
		return t
	}
	for changed := true; changed; {
		changed = false
		for _, fn := range w.SrcFuncs() {
			t := taintedIn(fn)
			if !getter[fn] {
				for _, b := range fn.Blocks {
					if ret, ok := b.Instrs[len(b.Instrs)-1].(*ssa.Return); ok {
						for _, res := range ret.Results {
							if t[res] && !w.putsBack(fn, t, putter) {
								getter[fn] = true
								changed = true
							}
						}
					}
				}
			}
			if putter[fn] == 0 {
				for _, b := range fn.Blocks {
					for _, in := range b.Instrs {
						var com *ssa.CallCommon
						switch x := in.(type) {
						case *ssa.Call:
							com = &x.Call
						case *ssa.Defer:
							com = &x.Call
						}
						if com == nil {
							continue
						}
						for ai, a := range com.Args {
							isPut := isPoolMethod(com, "Put") && ai == 1
							if sc := com.StaticCallee(); sc != nil && putter[sc] == ai+1 {
								isPut = true
							}
							if !isPut {
								continue
							}
							for pi, p := range fn.Params {
								if a == ssa.Value(p) || (isMakeIfaceOf(a, p)) {
									putter[fn] = pi + 1
									changed = true
								}
							}
						}
					}
				}
			}
		}
	}
	if os.Getenv("HLINT_POOLDBG") != "" {
		for f := range getter {
			fmt.Fprintln(os.Stderr, "getter", fnName(f))
		}
		for f, i := range putter {
			fmt.Fprintln(os.Stderr, "putter", fnName(f), i)
		}
	}
	n := 0
	for _, fn := range w.SrcFuncs() {
		t := taintedIn(fn)
		if len(t) == 0 || !w.putsBack(fn, t, putter) {
			continue
		}
		n++
		bad := ""
		for _, b := range fn.Blocks {
			if ret, ok := b.Instrs[len(b.Instrs)-1].(*ssa.Return); ok {
				for _, res := range ret.Results {
					if t[res] {
						bad = w.instrPos(ret)
					}
				}
			}
		}
		r.add(rule, fnName(fn), w.pos(fn.Pos()), bad == "", map[bool]string{
			true:  "takes an object from a package-level pool and puts it back; nothing it returns aliases the object",
			false: "the value returned at " + bad + " is memory of an object this function puts back into a package-level pool: the next taker — any instance, any goroutine — overwrites what the caller was given"}[bad == ""])
	}
	if n == 0 {
		o := r.add(rule, "census", "-", true, "no function takes from and puts back into a package-level pool")
		o.Trivial = true
	}
}

func isMakeIfaceOf(a ssa.Value, p *ssa.Parameter) bool {
	mi, ok := a.(*ssa.MakeInterface)
	return ok && mi.X == ssa.Value(p)
}

// putsBack: fn hands a pooled object to Put (directly, deferred, or through a putter).
func (w *World) putsBack(fn *ssa.Function, t map[ssa.Value]bool, putter map[*ssa.Function]int) bool {
	for _, b := range fn.Blocks {
		for _, in := range b.Instrs {
			var com *ssa.CallCommon
			switch x := in.(type) {
			case *ssa.Call:
				com = &x.Call
			case *ssa.Defer:
				com = &x.Call
			}
			if com == nil {
				continue
			}
			for ai, a := range com.Args {
				if !t[a] {
					continue
				}
				if isPoolMethod(com, "Put") && ai == 1 {
					return true
				}
				if sc := com.StaticCallee(); sc != nil && putter[sc] == ai+1 {
					return true
				}
			}
		}
	}
	return false
}

var _ = fmt.Sprintf
