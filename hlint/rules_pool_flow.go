package main

// C17.R3 — value flow of the pooled object through Get and Return, read path
// by path instead of from the shape of one function.
//
// Get: on every path through Get (helpers stepped into) exactly the outcome of
// the non-blocking receive decides what is returned: the select took its
// receive case ⇒ the value returned is the element received there; it took the
// default ⇒ the value returned is the result of calling the pool's factory on
// that path.  Whether the select stands in Get or in a helper
// (`poll(ch) (v, ok)`), whether the outcome is acted on inside the select arms
// or recorded in a flag and acted on afterwards, whether the result is named —
// the per-path pairs (outcome, origin of the returned value) are the same.
//
// Nowhere else: the received element and the factory's result flow only through
// φ-nodes, results of helpers and Get's own return.
//
// Return: the parameter (followed into helpers it is handed to) has exactly
// one use, the send case of a non-blocking select.

import (
	"fmt"
	"go/token"
	"go/types"
	"sort"
	"strings"

	"golang.org/x/tools/go/ssa"
)

type poolSelEvent struct {
	sel *ssa.Select
	fr  *pxFrame
}

func (w *World) poolGetFlowPX(r *Report, m *ssa.Function) {
	rule := "C17.R3 pooled value has a single owner"
	var px *PX
	// selects executed on the current path, in order; the list is carried in
	// the path state's trace (Extra = index into sels)
	var sels []poolSelEvent
	px = w.newPX(pxHooks{
		onInstr: func(fr *pxFrame, in ssa.Instruction, st *pxState) bool {
			if s, ok := in.(*ssa.Select); ok {
				sels = append(sels, poolSelEvent{s, fr})
				st.trace = append(st.trace, pxEvent{Kind: "select", Frame: fr, Extra: fmt.Sprint(len(sels) - 1)})
			}
			return true
		},
	})
	hits, misses := 0, 0
	var bad []string
	note := func(s string) {
		for _, b := range bad {
			if b == s {
				return
			}
		}
		bad = append(bad, s)
	}
	px.hooks.onReturn = func(fr *pxFrame, ret *ssa.Return, results []*Term, st *pxState) {
		if len(results) != 1 {
			return
		}
		res := results[0]
		// the receive selects of this path and their outcome
		var taken *Term // element received on this path
		nRecv, hit, undecided := 0, false, false
		for _, ev := range st.trace {
			if ev.Kind != "select" {
				continue
			}
			var k int
			fmt.Sscan(ev.Extra, &k)
			se := sels[k]
			recvStates := 0
			for _, s := range se.sel.States {
				if s.Dir == types.RecvOnly {
					recvStates++
				}
			}
			if recvStates == 0 {
				continue
			}
			nRecv++
			if se.sel.Blocking {
				note("a blocking select receives on the path returning at " + w.instrPos(ret))
				continue
			}
			// outcome: the index result of the select under the facts of the path
			var idx ssa.Value
			elems := map[int]ssa.Value{} // state index -> extracted element
			for _, ref := range *se.sel.Referrers() {
				ex, ok := ref.(*ssa.Extract)
				if !ok {
					continue
				}
				if ex.Index == 0 {
					idx = ex
				}
				if ex.Index >= 2 {
					// the (Index-2)-th receive state
					n := 0
					for si, s := range se.sel.States {
						if s.Dir == types.RecvOnly {
							if n == ex.Index-2 {
								elems[si] = ex
							}
							n++
						}
					}
				}
			}
			if idx == nil {
				undecided = true
				continue
			}
			it := px.term(idx, se.fr, st)
			set, ok := st.env[it.key]
			if !ok {
				undecided = true
				continue
			}
			if set.Card().Cmp(one) == 0 && set.Min().IsInt64() {
				si := int(set.Min().Int64())
				if si >= 0 && si < len(se.sel.States) && se.sel.States[si].Dir == types.RecvOnly {
					hit = true
					if e, ok := elems[si]; ok {
						taken = px.term(e, se.fr, st)
					}
					continue
				}
			}
			if !set.Intersect(mkSet(0, int64(len(se.sel.States)-1))).Empty() {
				undecided = true
			}
		}
		where := "the path returning at " + w.instrPos(ret)
		switch {
		case nRecv == 0:
			note(where + " passes no receive from the pool's channel")
		case nRecv > 1:
			note(where + " receives more than once")
		case undecided:
			note(where + ": the outcome of the non-blocking receive is not decided on the path")
		case hit:
			hits++
			if taken == nil || res.key != taken.key {
				note(where + " took the receive case but returns " + res.key + ", not the element received")
			}
		default:
			misses++
			c, isCall := res.V.(*ssa.Call)
			if res.K != TLeaf || !isCall || c.Call.StaticCallee() != nil || c.Call.IsInvoke() || !w.isFieldFuncCall(c, m) {
				note(where + " took the default case but returns " + res.key + ", not the result of the pool's factory")
			}
		}
	}
	px.Run(m, nil)
	if px.Truncated {
		note("exploration truncated")
	}
	ok := len(bad) == 0 && hits > 0 && misses > 0
	fact := fmt.Sprintf("%d path(s) on which the non-blocking select received return the received element, %d path(s) on which it took the default return the factory's result", hits, misses)
	if len(bad) > 0 {
		sort.Strings(bad)
		fact = strings.Join(bad, "; ")
	}
	r.add(rule, fnName(m)+" · hit returns the received element, miss the factory's result", w.pos(m.Pos()), ok, fact)

	// nowhere else: uses of the received element(s) and of the factory's result
	reach := w.reachStaticPkg(m)
	var srcs []ssa.Value
	var fns []*ssa.Function
	for f := range reach {
		fns = append(fns, f)
	}
	sort.Slice(fns, func(i, j int) bool { return fnName(fns[i]) < fnName(fns[j]) })
	for _, f := range fns {
		for _, b := range f.Blocks {
			for _, in := range b.Instrs {
				switch x := in.(type) {
				case *ssa.Extract:
					if s, isSel := x.Tuple.(*ssa.Select); isSel && x.Index >= 2 && !s.Blocking {
						srcs = append(srcs, x)
					}
				case *ssa.Call:
					if f == m && x.Call.StaticCallee() == nil && !x.Call.IsInvoke() && w.isFieldFuncCall(x, m) {
						srcs = append(srcs, x)
					}
				}
			}
		}
	}
	var others []string
	seen := map[ssa.Value]bool{}
	var follow func(v ssa.Value, depth int)
	follow = func(v ssa.Value, depth int) {
		if seen[v] || v.Referrers() == nil {
			return
		}
		seen[v] = true
		if depth > 8 {
			others = append(others, "flow too deep at "+v.Name())
			return
		}
		for _, ref := range *v.Referrers() {
			switch y := ref.(type) {
			case *ssa.DebugRef:
			case *ssa.Phi:
				follow(y, depth+1)
			case *ssa.Return:
				g := y.Parent()
				if g == m {
					continue
				}
				// a helper hands it back: the corresponding result at every call site
				pos := -1
				for i, rv := range y.Results {
					if rv == v {
						pos = i
					}
				}
				for _, caller := range fns {
					for _, c := range callsTo(caller, g) {
						if len(y.Results) == 1 {
							follow(c, depth+1)
							continue
						}
						for _, cr := range *c.Referrers() {
							if ex, ok := cr.(*ssa.Extract); ok && ex.Index == pos {
								follow(ex, depth+1)
							}
						}
					}
				}
			case *ssa.BinOp:
				// a comparison reads the value and keeps nothing
				if y.Op != token.EQL && y.Op != token.NEQ {
					others = append(others, fmt.Sprintf("%s at %s", ref.String(), w.instrPos(ref)))
				}
			default:
				others = append(others, fmt.Sprintf("%s at %s", ref.String(), w.instrPos(ref)))
			}
		}
	}
	for _, s := range srcs {
		follow(s, 0)
	}
	sort.Strings(others)
	r.add(rule, fnName(m)+" · the pooled value goes nowhere else", w.pos(m.Pos()), len(others) == 0 && len(srcs) >= 2,
		fmt.Sprintf("%d source(s) (elements received by a non-blocking select, results of the factory) followed through φ-nodes and helper results: other use(s): %v", len(srcs), others))
}

// isFieldFuncCall: the callee of the dynamic call c is a function-typed field
// of the receiver of method m (the pool's factory).
func (w *World) isFieldFuncCall(c *ssa.Call, m *ssa.Function) bool {
	ld, ok := c.Call.Value.(*ssa.UnOp)
	if !ok {
		return false
	}
	fa, ok := ld.X.(*ssa.FieldAddr)
	if !ok || len(m.Params) == 0 {
		return false
	}
	return fa.X == ssa.Value(m.Params[0])
}

// poolReturnFlow: the parameter of Return, followed into the in-package
// helpers it is handed to, has exactly one use: the value sent by a send case
// of a non-blocking select.
func (w *World) poolReturnFlow(r *Report, m *ssa.Function) {
	rule := "C17.R3 pooled value has a single owner"
	uses, sends := 0, 0
	var bad []string
	// every call site counts: handing the object twice to a helper that sends it
	// is two sends
	var follow func(v ssa.Value, depth int)
	follow = func(v ssa.Value, depth int) {
		if v.Referrers() == nil {
			return
		}
		for _, ref := range *v.Referrers() {
			switch y := ref.(type) {
			case *ssa.DebugRef:
			case *ssa.Select:
				uses++
				isSend := false
				for _, s := range y.States {
					if s.Dir == types.SendOnly && s.Send == v {
						isSend = true
					}
				}
				if isSend && !y.Blocking {
					sends++
				} else {
					bad = append(bad, "use in a select that is blocking or does not send it at "+w.instrPos(y))
				}
			case *ssa.Call:
				sc := y.Call.StaticCallee()
				if sc == nil || !w.inPkg(sc) || sc.Blocks == nil || depth > 4 {
					uses++
					bad = append(bad, "handed to "+y.String()+" at "+w.instrPos(y))
					continue
				}
				n := 0
				for ai, a := range y.Call.Args {
					if a == v && ai < len(sc.Params) {
						n++
						follow(sc.Params[ai], depth+1)
					}
				}
				if n == 0 {
					uses++
					bad = append(bad, "used by "+y.String()+" at "+w.instrPos(y))
				}
			default:
				uses++
				bad = append(bad, ref.String()+" at "+w.instrPos(ref))
			}
		}
	}
	follow(m.Params[1], 0)
	sort.Strings(bad)
	fact := fmt.Sprintf("%d use(s); want exactly one: the send case of the non-blocking select", uses)
	if len(bad) > 0 {
		fact += " — " + strings.Join(bad, "; ")
	}
	r.add(rule, fnName(m)+" · uses of the returned object", w.pos(m.Pos()), uses == 1 && sends == 1 && len(bad) == 0, fact)
}
